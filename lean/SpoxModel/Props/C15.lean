import SpoxModel.Lemmas.ValueProp
import SpoxModel.Model.VPAdapt
import SpoxModel.Model.VPHistory
import SpoxModel.Generated.VPValueReaders
/-!
# C15 - value propagation is fail-safe under backend faults

All statements are about `VP.construct` (`Model/ValueProp.lean`): constructing one operator node -
standard or inlined model - with the value-propagation backend as a *parameter* ranging over every
`Backend` (an exception of any class, or any list of output names with any list of raw results:
ill-typed arrays, `None`, scalars, lists, unknown / missing / duplicated names, truncated lists).
`Variant.fixed` is the behaviour after the `fix:` commits 4a0f72b, 8cf8b4c, 5a207b8; the
`..._counterexample` theorems show the same statements false for the pinned tree's behaviour.
-/
namespace C15
open VP

/-- The fault model of the property: whatever the evaluator raises is an `Exception`
    (KeyboardInterrupt / SystemExit are not faults of the evaluator and are not swallowed). -/
def Backend.raisesOnlyExceptions : Backend → Prop
  | .raise e => e.isException = true
  | .ret _ _ => True

/-- `check` is sound, containers included: a value that passes conforms to the type. -/
theorem check_sound (t : Ty) (p : Payload) (h : check Variant.fixed (.mk t p) = true) :
    conforms t p :=
  checkRec_sound t p (by simpa [check, Variant.fixed, PropValue.type, PropValue.value] using h)

theorem runCatch_ok (b : Backend) (hb : Backend.raisesOnlyExceptions b) :
    ∃ feed, runCatch b = .ok feed := by
  cases b with
  | raise e => exact ⟨[], by simp [runCatch, show e.isException = true from hb]⟩
  | ret names vals => exact ⟨_, rfl⟩

theorem propagateOnnx_total (sel : BackendSel) (ctx : NodeCtx) (b : Backend)
    (hb : Backend.raisesOnlyExceptions b) :
    ∃ vals, propagateOnnx Variant.fixed sel ctx b = .ok vals := by
  obtain ⟨feed, hfeed⟩ := runCatch_ok b hb
  by_cases h1 : (ctx.inputs.any fun i => i.type.isNone || !i.hasValue) = true
  · exact ⟨[], by simp [propagateOnnx, h1]⟩
  · by_cases h2 : ctx.hasSubgraph = true
    · exact ⟨[], by simp [propagateOnnx, h1, h2]⟩
    · cases hc : convertAll sel ctx feed with
      | ok rs => exact ⟨keyed rs, by simp [propagateOnnx, h1, h2, hfeed, hc]⟩
      | error e => exact ⟨[], by simp [propagateOnnx, h1, h2, hfeed, hc, Variant.fixed]⟩

theorem propagateInline_total (sel : BackendSel) (ctx : NodeCtx) (g : List String) (b : Backend)
    (hb : Backend.raisesOnlyExceptions b) :
    ∃ vals, propagateInline Variant.fixed sel ctx g b = .ok vals := by
  obtain ⟨feed, hfeed⟩ := runCatch_ok b hb
  by_cases h1 : (ctx.inputs.any fun i => i.type.isNone || !i.hasValue) = true
  · exact ⟨[], by simp [propagateInline, h1]⟩
  · by_cases h2 : sel = .none
    · exact ⟨[], by simp [propagateInline, h1, h2, Variant.fixed]⟩
    · have h2' : (sel == BackendSel.none) = false := by simpa using h2
      by_cases h3 : ctx.hasSubgraph = true
      · exact ⟨[], by simp [propagateInline, h1, h2', h3]⟩
      · cases hc : convertInline sel feed (g.zip ctx.outputs) with
        | ok rs => exact ⟨dictOf rs, by simp [propagateInline, h1, h2', h3, hfeed, hc]⟩
        | error e => exact ⟨[], by simp [propagateInline, h1, h2', h3, hfeed, hc, Variant.fixed]⟩

theorem propagate_total (sel : BackendSel) (k : Kind) (ctx : NodeCtx) (b : Backend)
    (hb : Backend.raisesOnlyExceptions b) :
    ∃ vals, propagate Variant.fixed sel ctx b k = .ok vals := by
  cases k with
  | standard =>
    cases sel with
    | none => exact ⟨[], rfl⟩
    | reference => exact propagateOnnx_total _ ctx b hb
    | onnxruntime => exact propagateOnnx_total _ ctx b hb
  | inline g => exact propagateInline_total sel ctx g b hb

/-- **construct_total.** For every node (standard or inline), every backend setting and *every*
    backend behaviour within the fault model, constructing the operator does not raise. -/
theorem construct_total (sel : BackendSel) (k : Kind) (ctx : NodeCtx) (b : Backend)
    (hb : Backend.raisesOnlyExceptions b) :
    ∃ outs, construct Variant.fixed sel k ctx b = .ok outs := by
  obtain ⟨vals, hv⟩ := propagate_total sel k ctx b hb
  exact ⟨merge Variant.fixed vals ctx.outputs, by simp [construct, hv]⟩


/-! ### exactly when does a constructor raise? (round 10: the converse of `construct_total`) -/

/-- The node gets as far as calling the evaluator: a backend is selected, every input Var is typed and
    valued, and the node is not one of the guarded kinds (sampling operator, subgraph carrier, inlined
    control flow - `NodeCtx.hasSubgraph` stands for `Traits.skips`). -/
def consults (sel : BackendSel) (ctx : NodeCtx) : Bool :=
  sel != .none && !(ctx.inputs.any fun i => i.type.isNone || !i.hasValue) && !ctx.hasSubgraph

theorem propagate_error_iff (sel : BackendSel) (k : Kind) (ctx : NodeCtx) (b : Backend) (e : Exc) :
    propagate Variant.fixed sel ctx b k = .error e ↔
      (consults sel ctx = true ∧ b = .raise e ∧ e.isException = false) := by
  by_cases h1 : (ctx.inputs.any fun i => i.type.isNone || !i.hasValue) = true
  · cases k <;> cases sel <;> simp [propagate, propagateStd, propagateOnnx, propagateInline, consults, h1]
  · by_cases h2 : ctx.hasSubgraph = true
    · cases k <;> cases sel <;>
        simp [propagate, propagateStd, propagateOnnx, propagateInline, consults, h1, h2, Variant.fixed]
    · cases b with
      | raise e' =>
        by_cases he : e'.isException = true
        · cases k <;> cases sel <;>
            simp [propagate, propagateStd, propagateOnnx, propagateInline, consults, h1, h2, Variant.fixed,
              runCatch, he, convertAll, convertInline_nil, keyed, dictOf] <;>
            (intro h; cases h; simp [he])
        · cases k <;> cases sel <;>
            simp [propagate, propagateStd, propagateOnnx, propagateInline, consults, h1, h2, Variant.fixed,
              runCatch, he] <;>
            (intro h; subst h; simpa using he)
      | ret names vals =>
        cases k with
        | standard =>
          cases sel <;> simp [propagate, propagateStd, propagateOnnx, consults, h1, h2, Variant.fixed, runCatch]
          all_goals (split <;> simp)
        | inline g =>
          cases sel <;> simp [propagate, propagateInline, consults, h1, h2, Variant.fixed, runCatch]
          all_goals (split <;> simp)
where
  convertInline_nil : ∀ (sel : BackendSel) (zs : List (String × OutVar)),
      convertInline sel [] zs = .ok []
    | _, [] => rfl
    | sel, (g, o) :: rest => by simp [convertInline, dictGet, convertInline_nil sel rest]

/-- **construct_raises_iff.** The exact set of circumstances under which constructing an operator raises
    because of value propagation (fixed tree): the evaluator itself raised something that is NOT an `Exception`
    (KeyboardInterrupt, SystemExit ...), at a node that really consulted it - and then that very exception
    escapes, nothing else. Every other combination of node kind, backend setting, inputs and backend behaviour
    (any `Exception`, any ill-formed result) constructs. `construct_total` is the `←`-free half. -/
theorem construct_raises_iff (sel : BackendSel) (k : Kind) (ctx : NodeCtx) (b : Backend) (e : Exc) :
    construct Variant.fixed sel k ctx b = .error e ↔
      (consults sel ctx = true ∧ b = .raise e ∧ e.isException = false) := by
  rw [← propagate_error_iff sel k ctx b e]
  unfold construct
  split
  · rename_i e' h
    rw [h]
    constructor <;> (intro h'; cases h'; rfl)
  · rename_i vals h
    rw [h]
    simp


/-! ### lifted to construction histories (round 10): no constructor call of any program raises -/

/-- The evaluator's behaviour at this call is within the fault model (Arguments / Constants consult none). -/
def Step.inFaultModel : Step → Prop
  | .standard _ _ _ _ _ b _ => Backend.raisesOnlyExceptions b
  | .inline _ _ _ _ _ _ b _ => Backend.raisesOnlyExceptions b
  | _ => True

/-- The call is one spox can be handed at this point of the program: its inputs are Vars that exist, one name
    per input. -/
def Step.callable (st : State) : Step → Prop
  | .standard _ inputs inNames _ _ _ _ => inputsExist st inputs = true ∧ inNames.length = inputs.length
  | .inline _ inputs inNames _ _ _ _ _ => inputsExist st inputs = true ∧ inNames.length = inputs.length
  | _ => True

/-- **step_total.** In ANY state (in particular after any number of earlier faults), every callable constructor
    call - Argument, Constant / initializer, standard operator, inlined model - under every backend setting and
    every backend behaviour of the fault model returns: one node is appended, no exception escapes. -/
theorem step_total (st : State) (s : Step) (hf : Step.inFaultModel s) (hc : Step.callable st s) :
    ∃ n, step Variant.fixed st s = .ok (st ++ [n]) := by
  cases s with
  | argument key ty => exact ⟨_, rfl⟩
  | constant key ty p => exact ⟨_, rfl⟩
  | standard sel inputs inNames outs traits b sem =>
    obtain ⟨res, hres⟩ := construct_total sel .standard (mkCtx st inputs inNames outs traits.skips) b hf
    exact ⟨{ kind := .standard, inputs := inputs, outputs := res.map (·.1), sem := sem,
             guarded := !propagates sel traits, sampling := traits.sampling },
      by simp [step, hc.1, hc.2, hres]⟩
  | inline sel inputs inNames gnames outs traits b sem =>
    obtain ⟨res, hres⟩ := construct_total sel (.inline gnames) (mkCtx st inputs inNames outs traits.skips) b hf
    exact ⟨{ kind := .inline, inputs := inputs, outputs := res.map (·.1), sem := sem,
             guarded := !propagates sel traits, sampling := traits.sampling },
      by simp [step, hc.1, hc.2, hres]⟩

/-- A program all of whose calls are callable where they stand and within the fault model. -/
def Callable : State → List Step → Prop
  | _, [] => True
  | st, s :: rest => Step.inFaultModel s ∧ Step.callable st s ∧
      ∀ st', step Variant.fixed st s = .ok st' → Callable st' rest

/-- **history_total.** Along every such program - faults of any kind at any number of calls - every call
    constructs: the run leaves exactly one node per call behind (`run` drops the calls that raise), and the
    final state is reachable, so every theorem about reachable states (`C07.kept_value_conforms`: no
    non-conforming value anywhere) holds of it. -/
theorem history_total : ∀ (steps : List Step) (st : State), Reachable Variant.fixed st → Callable st steps →
    (run Variant.fixed st steps).length = st.length + steps.length ∧
      Reachable Variant.fixed (run Variant.fixed st steps)
  | [], st, hr, _ => ⟨by simp [run], by simpa [run] using hr⟩
  | s :: rest, st, hr, hc => by
    obtain ⟨n, hn⟩ := step_total st s hc.1 hc.2.1
    have ih := history_total rest (st ++ [n]) (.step s hr hn) (hc.2.2 _ hn)
    simp only [run, hn]
    refine ⟨?_, ih.2⟩
    rw [ih.1]
    simp only [List.length_append, List.length_cons, List.length_nil]
    omega

/-- What `mergeOne` can do to an output Var. -/
theorem mergeOne_value (vals : List (String × Payload)) (o : OutVar) (pv : PropValue)
    (h : (mergeOne Variant.fixed vals o).1.value = some pv) :
    o.value = some pv ∨
      (o.value = none ∧ o.type = some pv.type ∧ check Variant.fixed pv = true ∧
        ∃ p, dictGet vals o.key = some p ∧ pv = PropValue.new pv.type p) := by
  unfold mergeOne at h
  split at h
  · rename_i t p ht hval hget
    split at h
    · rename_i hc
      simp only [Option.some.injEq] at h
      subst h
      exact Or.inr ⟨hval, by simpa [PropValue.new, PropValue.type] using ht, hc, p, hget,
        by simp [PropValue.new, PropValue.type]⟩
    · exact Or.inl h
  · exact Or.inl h

theorem mergeOne_key_type (v : Variant) (vals : List (String × Payload)) (o : OutVar) :
    (mergeOne v vals o).1.key = o.key ∧ (mergeOne v vals o).1.type = o.type := by
  unfold mergeOne
  split
  · split <;> simp
  · simp

/-- **no_bad_value.** After a successful construction, every value found on an output Var either
    was there before, or passed `check` against the Var's own type - hence conforms to it, at
    every nesting level of Sequence / Optional values. -/
theorem no_bad_value (sel : BackendSel) (k : Kind) (ctx : NodeCtx) (b : Backend)
    (outs : List (OutVar × Bool)) (h : construct Variant.fixed sel k ctx b = .ok outs) :
    ∀ ow ∈ outs, ∀ pv, ow.1.value = some pv →
      (∃ o ∈ ctx.outputs, o.key = ow.1.key ∧ o.value = some pv) ∨
      (ow.1.type = some pv.type ∧ check Variant.fixed pv = true ∧ conforms pv.type pv.value) := by
  intro ow how pv hpv
  unfold construct at h
  split at h
  · cases h
  · rename_i vals _
    simp only [Except.ok.injEq] at h
    subst h
    simp only [merge, List.mem_map] at how
    obtain ⟨o, ho, rfl⟩ := how
    rcases mergeOne_value vals o pv hpv with h1 | ⟨_, h2, h3, _⟩
    · exact Or.inl ⟨o, ho, (mergeOne_key_type _ vals o).1.symm, h1⟩
    · refine Or.inr ⟨by rw [(mergeOne_key_type _ vals o).2]; exact h2, h3, ?_⟩
      cases pv with
      | mk t p => exact check_sound t p h3

/-- **types_unaffected** (node level). Whatever the backend does, in either variant, the output
    Vars keep their keys and the types the type half of `Node.inference` gave them. -/
theorem types_unaffected (v : Variant) (sel : BackendSel) (k : Kind) (ctx : NodeCtx) (b : Backend)
    (outs : List (OutVar × Bool)) (h : construct v sel k ctx b = .ok outs) :
    outs.map (fun ow => (ow.1.key, ow.1.type)) = ctx.outputs.map (fun o => (o.key, o.type)) := by
  unfold construct at h
  split at h
  · cases h
  · rename_i vals _
    simp only [Except.ok.injEq] at h
    subst h
    simp only [merge, List.map_map]
    apply List.map_congr_left
    intro o _
    simp [(mergeOne_key_type v vals o).1, (mergeOne_key_type v vals o).2]

/-- **off_is_transparent** (node level). With the backend switched off the construction succeeds,
    consults no backend (the result is the same for every `b`), issues no warning and attaches
    nothing: the outputs are exactly as the type half left them. -/
theorem off_is_transparent (k : Kind) (ctx : NodeCtx) (b : Backend)
    (hfresh : ∀ o ∈ ctx.outputs, o.value = none) :
    construct Variant.fixed .none k ctx b = .ok (ctx.outputs.map fun o => (o, false)) := by
  have hp : propagate Variant.fixed .none ctx b k = .ok [] := by
    cases k with
    | standard => rfl
    | inline g =>
      simp only [propagate, propagateInline, Variant.fixed]
      split <;> simp
  simp only [construct, hp, merge]
  congr 1
  apply List.map_congr_left
  intro o ho
  simp [mergeOne, dictGet, hfresh o ho]

/-- A failing backend is indistinguishable from no backend. -/
theorem raise_is_off (sel : BackendSel) (k : Kind) (ctx : NodeCtx) (e : Exc)
    (he : e.isException = true) (hfresh : ∀ o ∈ ctx.outputs, o.value = none) :
    construct Variant.fixed sel k ctx (.raise e) = .ok (ctx.outputs.map fun o => (o, false)) := by
  have hp : propagate Variant.fixed sel ctx (.raise e) k = .ok [] := by
    cases k with
    | standard =>
      cases sel with
      | none => rfl
      | reference =>
        simp only [propagate, propagateStd, propagateOnnx, runCatch, he, Variant.fixed]
        split
        · rfl
        · split <;> rfl
      | onnxruntime =>
        simp only [propagate, propagateStd, propagateOnnx, runCatch, he, Variant.fixed]
        split
        · rfl
        · split <;> rfl
    | inline g =>
      simp only [propagate, propagateInline, runCatch, he, Variant.fixed]
      split
      · rfl
      · cases sel <;> simp [convertInline_nil, dictOf]
  simp only [construct, hp, merge]
  congr 1
  apply List.map_congr_left
  intro o ho
  simp [mergeOne, dictGet, hfresh o ho]
where
  convertInline_nil : ∀ (sel : BackendSel) (zs : List (String × OutVar)),
      convertInline sel [] zs = .ok []
    | _, [] => rfl
    | sel, (g, o) :: rest => by simp [convertInline, dictGet, convertInline_nil sel rest]

/-- A fault never *creates* values downstream: a node with an untyped or valueless input (e.g.
    because an upstream fault made spox drop a value) attaches nothing, whatever its own backend
    call would return - so downstream Vars only ever lose values (hence type information inferred
    from them), they never get different ones. This is the part of the downstream half of
    `types_unaffected` that lives in spox; that ONNX shape inference is monotone in the set of
    known constants is an assumption about the third-party engine (checked by the oracle). -/
theorem valueless_input_propagates_nothing (sel : BackendSel) (k : Kind) (ctx : NodeCtx) (b : Backend)
    (hbad : ∃ i ∈ ctx.inputs, i.type = none ∨ i.hasValue = false)
    (hfresh : ∀ o ∈ ctx.outputs, o.value = none) :
    construct Variant.fixed sel k ctx b = .ok (ctx.outputs.map fun o => (o, false)) := by
  have hany : ctx.inputs.any (fun i => i.type.isNone || !i.hasValue) = true := by
    obtain ⟨i, hi, h⟩ := hbad
    simp only [List.any_eq_true, Bool.or_eq_true, Option.isNone_iff_eq_none, Bool.not_eq_eq_eq_not,
      Bool.not_true]
    exact ⟨i, hi, h⟩
  have hp : propagate Variant.fixed sel ctx b k = .ok [] := by
    cases k with
    | standard =>
      cases sel with
      | none => rfl
      | reference => simp [propagate, propagateStd, propagateOnnx, hany]
      | onnxruntime => simp [propagate, propagateStd, propagateOnnx, hany]
    | inline g => simp [propagate, propagateInline, hany]
  simp only [construct, hp, merge]
  congr 1
  apply List.map_congr_left
  intro o ho
  simp [mergeOne, dictGet, hfresh o ho]

/-! ### downstream types under a fault (explicit hypothesis on the type-inference engine) -/

/-- "`a` says no more than `b`": unknown type / rank / dimension permits anything. -/
def Dim.permits : Dim → Dim → Prop
  | .unk, _ => True
  | .const n, .const m => n = m
  | .const _, .unk => False

def dimsPermit : List Dim → List Dim → Prop
  | [], [] => True
  | a :: as, b :: bs => Dim.permits a b ∧ dimsPermit as bs
  | _, _ => False

def Ty.permits : Ty → Ty → Prop
  | .tensor e s, .tensor e' s' =>
    e = e' ∧ (match s, s' with
      | none, _ => True
      | some ds, some ds' => dimsPermit ds ds'
      | some _, none => False)
  | .seq a, .seq b => Ty.permits a b
  | .opt a, .opt b => Ty.permits a b
  | _, _ => False

def permits : Option Ty → Option Ty → Prop
  | none, _ => True
  | some a, some b => Ty.permits a b
  | some _, none => False

theorem dimsPermit_refl : ∀ ds : List Dim, dimsPermit ds ds
  | [] => trivial
  | d :: ds => ⟨by cases d <;> simp [Dim.permits], dimsPermit_refl ds⟩

theorem permits_refl : ∀ t : Ty, Ty.permits t t
  | .tensor e s => ⟨rfl, by cases s with | none => trivial | some ds => exact dimsPermit_refl ds⟩
  | .seq t => permits_refl t
  | .opt t => permits_refl t

/-- What type inference sees of an input Var: the scope view and the value (Reshape & co. read it). -/
structure InInfo where
  v : InVar
  payload : Option Payload

/-- Faulty run vs. fault-free run, one input Var: identical, or the value is gone and the type says
    no more than before. -/
def InSim (a2 a1 : InInfo) : Prop :=
  a2 = a1 ∨ (a2.v.hasValue = false ∧ a2.v.name = a1.v.name ∧ permits a2.v.type a1.v.type)

inductive Pointwise {α β} (R : α → β → Prop) : List α → List β → Prop
  | nil : Pointwise R [] []
  | cons {a b as bs} : R a b → Pointwise R as bs → Pointwise R (a :: as) (b :: bs)

/-- The type-inference engine as a parameter: output keys and types from what it sees of the inputs. -/
abbrev TypeOracle := List InInfo → List (String × Option Ty)

/-- **The explicit hypothesis** about the third-party engine (onnx shape inference with data
    propagation): knowing less about the inputs never makes it claim more about the outputs. -/
def MonotoneOracle (I : TypeOracle) : Prop :=
  ∀ ins2 ins1, Pointwise InSim ins2 ins1 →
    Pointwise (fun p2 p1 => p2.1 = p1.1 ∧ permits p2.2 p1.2) (I ins2) (I ins1)

def mkCtxI (I : TypeOracle) (ins : List InInfo) (hasSub : Bool) : NodeCtx :=
  { inputs := ins.map (·.v), outputs := (I ins).map fun p => ⟨p.1, p.2, none⟩, hasSubgraph := hasSub }

theorem insim_cases {ins2 ins1 : List InInfo} (h : Pointwise InSim ins2 ins1) :
    ins2 = ins1 ∨ ∃ a ∈ ins2, a.v.hasValue = false := by
  induction h with
  | nil => exact Or.inl rfl
  | cons hab _ ih =>
    rcases hab with rfl | ⟨hv, _, _⟩
    · rcases ih with rfl | ⟨a, ha, hva⟩
      · exact Or.inl rfl
      · exact Or.inr ⟨a, List.mem_cons_of_mem _ ha, hva⟩
    · exact Or.inr ⟨_, List.mem_cons_self .., hv⟩

theorem mkCtxI_fresh (I : TypeOracle) (ins : List InInfo) (hs : Bool) :
    ∀ o ∈ (mkCtxI I ins hs).outputs, o.value = none := by
  intro o ho
  simp only [mkCtxI, List.mem_map] at ho
  obtain ⟨p, _, rfl⟩ := ho
  rfl

/-- **types_unaffected, downstream half.** Compare a fault-free construction of a node with the
    construction of the same node in a run where a fault happened somewhere (at this node or
    upstream), the inputs being related by `InSim`. Provided the type-inference engine is monotone
    (`MonotoneOracle`, the explicit third-party hypothesis) and the evaluator is deterministic
    (`b2 = b1` unless this is the faulty call, which attaches nothing):
    * the output keys agree and every output type under the fault permits the fault-free one, and
    * the outputs either carry no values at all or are exactly the fault-free outputs -
    which is again `InSim` for the consumers of these outputs, so the statement propagates along any
    program by induction on its construction order. -/
theorem downstream_types_permissive (I : TypeOracle) (hI : MonotoneOracle I) (sel : BackendSel)
    (k : Kind) (hasSub : Bool) (ins2 ins1 : List InInfo) (hsim : Pointwise InSim ins2 ins1)
    (b1 b2 : Backend) (res1 res2 : List (OutVar × Bool))
    (h1 : construct Variant.fixed sel k (mkCtxI I ins1 hasSub) b1 = .ok res1)
    (h2 : construct Variant.fixed sel k (mkCtxI I ins2 hasSub) b2 = .ok res2)
    (hb : b2 = b1 ∨ ∀ ow ∈ res2, ow.1.value = none) :
    Pointwise (fun p2 p1 => p2.1 = p1.1 ∧ permits p2.2 p1.2)
        (res2.map fun ow => (ow.1.key, ow.1.type)) (res1.map fun ow => (ow.1.key, ow.1.type)) ∧
      ((∀ ow ∈ res2, ow.1.value = none) ∨ res2 = res1) := by
  constructor
  · rw [types_unaffected _ _ _ _ _ _ h1, types_unaffected _ _ _ _ _ _ h2]
    have e : ∀ ins, (mkCtxI I ins hasSub).outputs.map (fun o => (o.key, o.type)) = I ins := by
      intro ins
      simp [mkCtxI, List.map_map, Function.comp_def]
    rw [e, e]
    exact hI ins2 ins1 hsim
  · rcases hb with rfl | hb
    · rcases insim_cases hsim with rfl | ⟨a, ha, hva⟩
      · right
        rw [h1] at h2
        exact (Except.ok.inj h2).symm
      · left
        have hbad : ∃ i ∈ (mkCtxI I ins2 hasSub).inputs, i.type = none ∨ i.hasValue = false :=
          ⟨a.v, by simp only [mkCtxI, List.mem_map]; exact ⟨a, ha, rfl⟩, Or.inr hva⟩
        have := valueless_input_propagates_nothing sel k _ b2 hbad (mkCtxI_fresh I ins2 hasSub)
        rw [this] at h2
        have h2' := Except.ok.inj h2
        subst h2'
        intro ow how
        simp only [List.mem_map] at how
        obtain ⟨o, ho, rfl⟩ := how
        exact mkCtxI_fresh I ins2 hasSub o ho
    · exact Or.inl hb


/-! ### the downstream half lifted to programs of any length (mini-round) -/

/-- How the consumers of a node see its outputs: the Var under the consumer's input name, with the value
    (if any) type inference may read. -/
def toInfo (name : String) (o : OutVar) : InInfo :=
  ⟨⟨name, some o.key, o.type, o.value.isSome⟩, o.value.map (·.value)⟩

def zipInfo (names : List String) (res : List (OutVar × Bool)) : List InInfo :=
  (names.zip res).map fun p => toInfo p.1 p.2.1

theorem pointwise_insim_refl : ∀ l : List InInfo, Pointwise InSim l l
  | [] => .nil
  | _ :: l => .cons (Or.inl rfl) (pointwise_insim_refl l)

theorem zipInfo_insim : ∀ (names : List String) (l2 l1 : List (OutVar × Bool)),
    Pointwise (fun (p2 p1 : String × Option Ty) => p2.1 = p1.1 ∧ permits p2.2 p1.2)
      (l2.map fun ow => (ow.1.key, ow.1.type)) (l1.map fun ow => (ow.1.key, ow.1.type)) →
    (∀ ow ∈ l2, ow.1.value = none) → Pointwise InSim (zipInfo names l2) (zipInfo names l1)
  | [], _, _, _, _ => by simp [zipInfo]; exact .nil
  | _ :: _, [], [], _, _ => by simp [zipInfo]; exact .nil
  | _ :: _, [], _ :: _, h, _ => by simp only [List.map_nil, List.map_cons] at h; cases h
  | _ :: _, _ :: _, [], h, _ => by simp only [List.map_nil, List.map_cons] at h; cases h
  | n :: names, a2 :: l2, a1 :: l1, h, hv => by
    simp only [List.map_cons] at h
    cases h with
    | cons hab hrest =>
      have ih := zipInfo_insim names l2 l1 hrest (fun ow how => hv ow (List.mem_cons_of_mem _ how))
      simp only [zipInfo, List.zip_cons_cons, List.map_cons]
      refine .cons (Or.inr ⟨?_, rfl, hab.2⟩) ih
      simp [toInfo, hv a2 (List.mem_cons_self ..)]

/-- **outputs_insim.** The conclusion of `downstream_types_permissive` IS its premise one node further: seen by
    any consumer (under any input names), the outputs of the faulty run are `InSim` to the fault-free ones. -/
theorem outputs_insim (names : List String) (res2 res1 : List (OutVar × Bool))
    (ht : Pointwise (fun (p2 p1 : String × Option Ty) => p2.1 = p1.1 ∧ permits p2.2 p1.2)
      (res2.map fun ow => (ow.1.key, ow.1.type)) (res1.map fun ow => (ow.1.key, ow.1.type)))
    (hv : (∀ ow ∈ res2, ow.1.value = none) ∨ res2 = res1) :
    Pointwise InSim (zipInfo names res2) (zipInfo names res1) := by
  rcases hv with hv | rfl
  · exact zipInfo_insim names res2 res1 ht hv
  · exact pointwise_insim_refl _

/-- One call of a pipeline: its type-inference engine, kind, consumer-side input names for its outputs, and the
    evaluator's behaviour in the fault-free run (`b1`) and in the faulty run (`b2`). -/
structure ChainStep where
  I : TypeOracle
  sel : BackendSel
  k : Kind
  hasSub : Bool
  names : List String
  b1 : Backend
  b2 : Backend

/-- Run a pipeline (every node consumes the outputs of the previous one) from given inputs; `none` if a
    constructor raises. -/
def runChain (pick : ChainStep → Backend) : List InInfo → List ChainStep → Option (List InInfo)
  | ins, [] => some ins
  | ins, s :: rest =>
    match construct Variant.fixed s.sel s.k (mkCtxI s.I ins s.hasSub) (pick s) with
    | .ok res => runChain pick (zipInfo s.names res) rest
    | .error _ => none

/-- **chain_types_permissive** (the downstream half of "types stay sound", for pipelines of ANY length and faults
    at ANY number of calls). If every type-inference engine along the pipeline is monotone (the explicit
    third-party hypothesis) and at every call the evaluator either behaves as in the fault-free run or raises an
    `Exception` (faults only drop values), then at the end - and, the statement being closed under prefixes, at
    every stage - each Var of the faulty run is identical to the fault-free one or has lost its value and
    reports a type that permits the fault-free type. -/
theorem chain_types_permissive : ∀ (steps : List ChainStep) (ins2 ins1 out2 out1 : List InInfo),
    (∀ s ∈ steps, MonotoneOracle s.I) →
    (∀ s ∈ steps, s.b2 = s.b1 ∨ ∃ e, s.b2 = .raise e ∧ e.isException = true) →
    Pointwise InSim ins2 ins1 →
    runChain (·.b1) ins1 steps = some out1 → runChain (·.b2) ins2 steps = some out2 →
    Pointwise InSim out2 out1
  | [], ins2, ins1, out2, out1, _, _, hsim, h1, h2 => by
    simp only [runChain, Option.some.injEq] at h1 h2
    subst h1; subst h2; exact hsim
  | s :: rest, ins2, ins1, out2, out1, hm, hb, hsim, h1, h2 => by
    simp only [runChain] at h1 h2
    cases hc1 : construct Variant.fixed s.sel s.k (mkCtxI s.I ins1 s.hasSub) s.b1 with
    | error e => simp [hc1] at h1
    | ok res1 =>
      cases hc2 : construct Variant.fixed s.sel s.k (mkCtxI s.I ins2 s.hasSub) s.b2 with
      | error e => simp [hc2] at h2
      | ok res2 =>
        simp only [hc1] at h1
        simp only [hc2] at h2
        have hfault : s.b2 = s.b1 ∨ ∀ ow ∈ res2, ow.1.value = none := by
          rcases hb s (List.mem_cons_self ..) with h | ⟨e, he, hex⟩
          · exact Or.inl h
          · right
            rw [he, raise_is_off s.sel s.k _ e hex (mkCtxI_fresh s.I ins2 s.hasSub)] at hc2
            have := Except.ok.inj hc2
            subst this
            intro ow how
            simp only [List.mem_map] at how
            obtain ⟨o, ho, rfl⟩ := how
            exact mkCtxI_fresh s.I ins2 s.hasSub o ho
        have hstep := downstream_types_permissive s.I (hm s (List.mem_cons_self ..)) s.sel s.k s.hasSub
          ins2 ins1 hsim s.b1 s.b2 res1 res2 hc1 hc2 hfault
        exact chain_types_permissive rest _ _ out2 out1
          (fun t ht => hm t (List.mem_cons_of_mem _ ht)) (fun t ht => hb t (List.mem_cons_of_mem _ ht))
          (outputs_insim s.names res2 res1 hstep.1 hstep.2) h1 h2

/-- The hypothesis is satisfiable, e.g. by an engine that passes the first input's type through
    (Identity-like): less known about the input, less claimed about the output. -/
example : MonotoneOracle (fun ins => [("output", (ins.head?.bind fun a => a.v.type))]) := by
  intro ins2 ins1 h
  cases h with
  | nil => exact .cons ⟨rfl, trivial⟩ .nil
  | cons hab _ =>
    refine .cons ⟨rfl, ?_⟩ .nil
    rcases hab with rfl | ⟨_, _, hp⟩
    · simp only [List.head?_cons, Option.bind_some]
      cases h : (_ : InInfo).v.type with
      | none => trivial
      | some t => exact permits_refl t
    · simpa using hp

/-! ### non-vacuity: the construction does attach good values and does drop bad ones -/

def ctx1 (t : Ty) : NodeCtx :=
  { inputs := [⟨"input", some "output", some (.tensor .i64 (some [.const 2])), true⟩],
    outputs := [⟨"output", some t, none⟩], hasSubgraph := false }

def tI64x2 : Ty := .tensor .i64 (some [.const 2])

/-- a well-typed result is attached ... -/
example : (construct Variant.fixed .reference .standard (ctx1 tI64x2)
      (.ret ["output"] [.arr .i64 [2] 3])).toOption.map (·.map fun ow => ow.1.value.isSome)
    = some [true] := by decide

/-- ... an ill-typed one is dropped with a warning ... -/
example : (construct Variant.fixed .reference .standard (ctx1 tI64x2)
      (.ret ["output"] [.arr .f64 [2] 3])).toOption.map (·.map fun ow => (ow.1.value.isSome, ow.2))
    = some [(false, true)] := by decide

/-- ... and an alias dtype is normalised and kept. -/
example : (construct Variant.fixed .onnxruntime .standard (ctx1 tI64x2)
      (.ret ["output"] [.arr .longlong [2] 3])).toOption.map (·.map fun ow => ow.1.value.isSome)
    = some [true] := by decide

/-- non-vacuity of `history_total` / `construct_raises_iff`: a three-call program with a raising backend at the
    second call and a `None` result at the third leaves three nodes. -/
def faultyProgram : List Step :=
  [ .constant "output" (some tI64x2) (.arr .i64 [2] 1),
    .standard .reference [⟨0, 0⟩] ["input"] [("output", some tI64x2)] Traits.plain (.raise (.backend true 5)) (fun _ _ => none),
    .standard .onnxruntime [⟨1, 0⟩] ["input"] [("output", some tI64x2)] Traits.plain (.ret ["output"] [.none]) (fun _ _ => none) ]

example : (run Variant.fixed [] faultyProgram).length = 3 := by decide

/-- non-vacuity of `chain_types_permissive`: a two-call pipeline of Identity-like nodes fed with a valued
    `int64[2]` Var. Fault-free, the value arrives at the end; with the first evaluator call raising, both runs
    construct, the faulty one ends with a valueless Var of the same type (so `InSim` holds by its second disjunct). -/
def idOracle : TypeOracle := fun ins => [("output", (ins.head?.bind fun a => a.v.type))]
def chainDemo (b2 : Backend) : List ChainStep :=
  [ ⟨idOracle, .reference, .standard, false, ["input"], .ret ["output"] [.arr .i64 [2] 3], b2⟩,
    ⟨idOracle, .onnxruntime, .standard, false, ["input"], .ret ["output"] [.arr .i64 [2] 3], .ret ["output"] [.arr .i64 [2] 3]⟩ ]
def chainIn : List InInfo := [⟨⟨"input", some "output", some tI64x2, true⟩, some (.arr .i64 [2] 3)⟩]

example : (runChain (·.b1) chainIn (chainDemo (.raise (.backend true 0)))).map (·.map fun a => (a.v.hasValue, a.v.type == some tI64x2))
      = some [(true, true)] ∧
    (runChain (·.b2) chainIn (chainDemo (.raise (.backend true 0)))).map (·.map fun a => (a.v.hasValue, a.v.type == some tI64x2))
      = some [(false, true)] := by decide

/-! ### the pinned tree violates the same statements -/

/-- The exception that escaped the constructor, if any. -/
def raised {α} : Except Exc α → Option Exc
  | .error e => some e
  | .ok _ => none

/-- a KeyboardInterrupt-like class at a consulting node escapes (`construct_raises_iff`, non-vacuity) -/
example : raised (construct Variant.fixed .reference .standard (ctx1 tI64x2) (.raise (.backend false 9)))
    = some (.backend false 9) ∧ consults .reference (ctx1 tI64x2) = true := by decide

/-- Pinned: a 2-element list for a tensor-typed output makes the constructor raise TypeError;
    an unknown output name makes it raise KeyError; an inhomogeneous tuple, ValueError. -/
theorem construct_total_counterexample :
    raised (construct Variant.pinned .reference .standard (ctx1 tI64x2)
        (.ret ["output"] [.list [.arr .i64 [] 1, .arr .i64 [] 2]])) = some .typeError ∧
    raised (construct Variant.pinned .reference .standard (ctx1 tI64x2)
        (.ret ["zzz"] [.arr .i64 [2] 1])) = some .keyError ∧
    raised (construct Variant.pinned .reference .standard (ctx1 tI64x2)
        (.ret ["output"] [.ragged])) = some .valueError ∧
    raised (construct Variant.pinned .onnxruntime .standard (ctx1 tI64x2)
        (.ret ["output"] [.scalar .f64 3])) = some .typeError := by decide

def seqBad : RefVal := .list [.arr .f64 [3] 3, .arr .str [1] 5]

/-- Pinned: `[float64[3], str[1]]` is attached to a `Sequence(Tensor(int64, (2,)))` Var and
    `float64[1]` to an `Optional(Tensor(int64, (2,)))` Var, and an object array holding an
    arbitrary object to a `Tensor(str)` Var - values that do not conform. -/
theorem no_bad_value_counterexample :
    (∃ pv, (construct Variant.pinned .reference .standard (ctx1 (.seq tI64x2))
        (.ret ["output"] [seqBad])).toOption.map (·.map fun ow => ow.1.value) = some [some pv] ∧
      ¬ conforms pv.type pv.value) ∧
    (∃ pv, (construct Variant.pinned .reference .standard (ctx1 (.opt tI64x2))
        (.ret ["output"] [.arr .f64 [1] 3])).toOption.map (·.map fun ow => ow.1.value) = some [some pv] ∧
      ¬ conforms pv.type pv.value) ∧
    (∃ pv, (construct Variant.pinned .reference .standard (ctx1 (.tensor .str none))
        (.ret ["output"] [.opaque 3])).toOption.map (·.map fun ow => ow.1.value) = some [some pv] ∧
      ¬ conforms pv.type pv.value) := by
  refine ⟨⟨_, rfl, ?_⟩, ⟨_, rfl, ?_⟩, ⟨_, rfl, ?_⟩⟩
  · simp [PropValue.type, PropValue.value, PropValue.new, conforms, tI64x2, dtConf, DT.norm,
      Payload.normalise, DT.isNumber]
  · simp [PropValue.type, PropValue.value, PropValue.new, conforms, tI64x2, dtConf, DT.norm,
      Payload.normalise, DT.isNumber]
  · simp [PropValue.type, PropValue.value, PropValue.new, conforms, dtConf, DT.norm,
      Payload.normalise, DT.isNumber]

/-- Pinned: with propagation switched off, inlining a model fed with a constant raises. -/
theorem off_is_transparent_counterexample :
    raised (construct Variant.pinned .none (.inline ["y"])
      { inputs := [⟨"inputs_0", some "output", some tI64x2, true⟩],
        outputs := [⟨"outputs_0", some tI64x2, none⟩], hasSubgraph := false }
      (.ret ["y"] [.arr .i64 [2] 1])) = some .runtimeError := by decide


/-! ### no object array on a tensor Var from either pipeline (fix 05c97c9) -/

/-- A tensor value converted from a backend result is never an object array of `str`: both pipelines
    normalise it to a string array - the representation `from_array` (the next operator's singleton
    model) accepts. Before the fix the REFERENCE pipeline kept the object array, `check` accepted it for a
    string tensor, and the NEXT constructor raised TypeError. -/
theorem tensor_value_never_object (sel : BackendSel) (e : DT) (s : Shape) (v : RefVal) (pv : PropValue)
    (h : unwrapFeed sel (.tensor e s) v = .ok pv) :
    ∀ dt sh pid, pv.value = .arr dt sh pid → dt ≠ .object := by
  intro dt sh pid hv
  cases sel with
  | none => cases h
  | reference =>
    simp only [unwrapFeed, fromRef] at h
    generalize unwrap1 v = w at h
    cases w with
    | arr d sh' pid' =>
      simp only [leafRef, Except.ok.injEq] at h
      subst h
      simp only [PropValue.new, PropValue.value, Payload.normalise, Payload.arr.injEq] at hv
      obtain ⟨rfl, _, _⟩ := hv
      cases d <;> simp [DT.isNumber, DT.norm]
    | scalar d pid' =>
      simp only [leafRef, Except.ok.injEq] at h
      subst h
      simp only [PropValue.new, PropValue.value, Payload.normalise, Payload.arr.injEq] at hv
      obtain ⟨rfl, _, _⟩ := hv
      cases d <;> simp [DT.isNumber, DT.norm]
    | «opaque» pid' =>
      simp only [leafRef, Except.ok.injEq] at h
      subst h
      simp only [PropValue.new, PropValue.value, Payload.normalise, Payload.arr.injEq] at hv
      obtain ⟨rfl, _, _⟩ := hv
      simp [DT.isNumber]
    | ragged => simp [leafRef] at h
    | none =>
      simp only [leafRef, Except.ok.injEq] at h
      subst h
      simp [PropValue.new, PropValue.value, Payload.normalise] at hv
    | list xs => simp [leafRef] at h
  | onnxruntime =>
    simp only [unwrapFeed, fromOrt] at h
    cases v with
    | arr d sh' pid' =>
      simp only [leafOrt, Except.ok.injEq] at h
      subst h
      simp only [PropValue.new, PropValue.value, Payload.normalise, Payload.arr.injEq] at hv
      obtain ⟨rfl, _, _⟩ := hv
      cases d <;> simp [DT.isNumber, DT.norm]
    | none =>
      simp only [leafOrt, Except.ok.injEq] at h
      subst h
      simp [PropValue.new, PropValue.value, Payload.normalise] at hv
    | scalar d pid' => simp [leafOrt] at h
    | «opaque» pid' => simp [leafOrt] at h
    | ragged => simp [leafOrt] at h
    | list xs => simp [leafOrt] at h


/-! ### the build does not look at propagated values (last clause: "switching propagation off changes no
    built model's behaviour") -/

/-- `adapt_node` never turns a propagated value into an initializer of the adapter model. -/
theorem adapt_initializers_nil (ins : List AdaptIn) : adaptInitializers ins = [] := by
  unfold adaptInitializers
  have : (ins.filter fun i => isBareNdarray i.value) = [] := by
    apply List.filter_eq_nil_iff.mpr
    intro i _
    cases i.value <;> simp [isBareNdarray]
  simp [this]

/-- **adapter_value_blind.** The adapter model of a node is the same whatever values its input Vars
    carry (none at all with propagation off, the backend's with it on): it depends on field keys, graph
    names and types only. So the version-converted nodes of the built model do not depend on the
    value-propagation backend. -/
theorem adapter_value_blind (ins1 ins2 : List AdaptIn)
    (h : ins1.map (fun i => (i.key, i.name, i.type)) = ins2.map (fun i => (i.key, i.name, i.type))) :
    adapterModel ins1 = adapterModel ins2 := by
  have hn : ins1.map (fun i => (i.name, i.type)) = ins2.map (fun i => (i.name, i.type)) := by
    have := congrArg (List.map fun (p : String × String × Ty) => (p.2.1, p.2.2)) h
    simpa [List.map_map, Function.comp_def] using this
  simp [adapterModel, adapt_initializers_nil, hn]

/-- The readers / writers of a Var's propagated value the model accounts for: `Node.inference` (merge),
    `StandardNode` (singleton model for type inference and propagation), `_Inline.propagate_values`, `Var`
    itself, `unsafe_cast` (copies by contract), the repr helpers - and on the BUILD path exactly the two
    never-true expressions of `adapt_node` modelled by `isBareNdarray`. `_deref` / `_get_build_result`
    read `_value` fields of other classes (attribute references, the cached build result). -/
def modelledReader : String × String × String → Bool
  | ("_adapt.py", "adapt_node", "from_array(var._value, name)") => true
  | ("_adapt.py", "adapt_node", "isinstance(var._value, np.ndarray)") => true
  | ("_graph.py", "Graph._get_build_result", "self._build_result._value is None") => true
  | ("_attributes.py", "_deref", _) => true
  | ("_inline.py", "_Inline.propagate_values", _) => true
  | ("_internal_op.py", "unsafe_cast", _) => true
  | ("_node.py", "Node.inference", _) => true
  | ("_node.py", "Node.signature.fmt_input", _) => true
  | ("_standard.py", "StandardNode.propagate_values_onnx", _) => true
  | ("_standard.py", "StandardNode.to_singleton_onnx_model", _) => true
  | ("_var.py", "Var.__init__", _) => true
  | ("_var.py", "Var.__repr__", _) => true
  | ("_var.py", "Var._get_value", _) => true
  | _ => false

/-- **generated_value_readers_modelled** (tie G): on the source tree of this run nothing else touches a
    Var's propagated value, and `adapt_node` still reads it only through the never-true test. -/
theorem generated_value_readers_modelled :
    Generated.VPValueReaders.readers.all modelledReader = true := by decide

/-- non-vacuity: two input lists differing only in values give the same adapter model; and the model does
    depend on names and types. -/
example : adapterModel [⟨"A", "x", tI64x2, none⟩, ⟨"B", "A", tI64x2, none⟩] =
    adapterModel [⟨"A", "x", tI64x2, some (PropValue.new tI64x2 (.arr .i64 [2] 7))⟩, ⟨"B", "A", tI64x2, none⟩] := by decide
example : adapterModel [⟨"A", "x", tI64x2, none⟩] ≠ adapterModel [⟨"A", "y", tI64x2, none⟩] := by decide

end C15
