/-! Property theorems for C15 (only property-level statements and non-vacuity examples live here). -/
