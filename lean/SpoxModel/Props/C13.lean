import SpoxModel.Lemmas.Types
import SpoxModel.Lemmas.TypesBroadcastConv
import SpoxModel.Lemmas.TypesBroadcastAlg
import SpoxModel.Generated.Dtypes
import SpoxModel.Generated.TypeOverrides
/-!
# C13 — types are canonical; compatibility and broadcasting are exact and sound

The model (`Model/Types.lean`) is executed against the real `_subtype`, `Shape.__le__`,
`Shape.broadcast`, `_to_onnx`, `_from_onnx` on every run (tie H); the element-type table
(`Generated/Dtypes.lean`) is tabulated from the real constructor and conversion functions on every
run (tie G), so the `decide` theorems below are re-proved against what the code does *now*.
-/
namespace C13
open Types Generated.Dtypes

/-- the element classes a `Tensor` can be constructed with (generated) -/
def okElem (e : Nat) : Bool := elemClasses.contains e

/-- A type a program can build: no bare `Type()` inside, element classes the constructor accepts. -/
def WF (t : Ty) : Prop := t.anyFree = true ∧ t.allElems okElem = true

/-! ## Element types (decided over the generated table) -/

/-- Every spelling that is accepted at all is given the class that the *ONNX code* of the spelling
    maps back to: the class is a function of the ONNX element type alone. -/
theorem spelling_class_of_code :
    ∀ s ∈ spellings, s.cls = s.code.bind table.ofCode := by decide +kernel

/-- **Every accepted spelling of one ONNX element type yields equal element classes**
    (and hence equal types: `Tensor.__eq__` compares `_elem_type` and `_shape`). -/
theorem spelling_canonical (s₁ s₂ : Spelling) (h₁ : s₁ ∈ spellings) (h₂ : s₂ ∈ spellings)
    (hc : s₁.code = s₂.code) : s₁.cls = s₂.cls := by
  rw [spelling_class_of_code s₁ h₁, spelling_class_of_code s₂ h₂, hc]

/-- Element classes survive the trip class → ONNX code → class. -/
theorem elem_roundtrip :
    ∀ e ∈ elemClasses, (table.toCode e).bind table.ofCode = some e := by decide +kernel

/-- Codes survive the trip too, and every value of the ONNX enum is constructible. -/
theorem code_roundtrip :
    ∀ c ∈ onnxEnum, (table.ofCode c).bind table.toCode = some c := by decide +kernel

/-- **Element types ONNX does not define are refused** (by the constructor and by the conversion),
    and the defined ones are accepted with a code of the ONNX enum. -/
theorem undefined_refused :
    ∀ s ∈ spellings, s.defined = false → s.cls = none ∧ s.code = none := by decide +kernel

theorem defined_accepted :
    ∀ s ∈ spellings, s.defined = true →
      s.cls.isSome = true ∧ (match s.code with | some c => onnxEnum.contains c | none => false) = true := by
  decide +kernel

/-- Codes outside the ONNX enum are refused by `_from_onnx`. -/
theorem undefined_code_refused :
    ∀ p ∈ codeClass, onnxEnum.contains p.1 = false → p.2 = none := by decide +kernel

/-- `issubclass` between element classes is equality (no element class subclasses another). -/
theorem subclass_is_eq :
    ∀ e ∈ elemClasses, ∀ e' ∈ elemClasses, table.sub e e' = (e == e') := by decide +kernel

theorem subIsEq : SubIsEq table okElem := by
  intro e e' h h'
  exact subclass_is_eq e (by simpa [okElem] using h) e' (by simpa [okElem] using h')

theorem elemRoundtrip : ElemRoundtrip table okElem := by
  intro e h
  have := elem_roundtrip e (by simpa [okElem] using h)
  cases hc : table.toCode e with
  | none => simp [hc] at this
  | some c => exact ⟨c, rfl, by simpa [hc] using this⟩

/-! ## ONNX round trip -/

/-- **Converting any type to its ONNX form and back is the identity** — all constructible types,
    any nesting, any shape (any rank, constant / named / anonymous dimensions, unknown rank). -/
theorem fromOnnx_toOnnx (t : Ty) (h : WF t) :
    ∃ p, toOnnx table t = some p ∧ fromOnnx table p = some t :=
  roundtrip_of table okElem elemRoundtrip t h.1 h.2

/-! ## Compatibility -/

/-- **`_subtype` holds exactly when the statement's compatibility holds** (same constructor and
    element type; unknown rank or dimension matches anything). `b` may contain the `Type()` wildcard. -/
theorem subtype_exact (a b : Ty) (ha : WF a) (hb : b.allElems okElem = true) :
    subtype table a b = compat a b :=
  subtype_eq_compat table okElem subIsEq a b ha.1 ha.2 hb

/-- **Compatibility = the two types can describe a common runtime value.** -/
theorem compat_iff_common_value (a b : Ty) :
    compat a b = true ↔ ∃ v : RtVal, v.witness = true ∧ conforms v a ∧ conforms v b :=
  ⟨fun h => ⟨wit a b, wit_spec a b h⟩, fun ⟨v, hw, ha, hb⟩ => common_value_compat v a b hw ha hb⟩

/-- The two together: the judgement made at call boundaries is exact. -/
theorem subtype_iff_common_value (a b : Ty) (ha : WF a) (hb : b.allElems okElem = true) :
    subtype table a b = true ↔ ∃ v : RtVal, v.witness = true ∧ conforms v a ∧ conforms v b := by
  rw [subtype_exact a b ha hb]; exact compat_iff_common_value a b

/-- The judgement at call boundaries does not depend on which side is the argument and which the
    parameter (describing a common runtime value is symmetric). -/
theorem subtype_symm (a b : Ty) (ha : WF a) (hb : WF b) : subtype table a b = subtype table b a := by
  have h1 := subtype_iff_common_value a b ha hb.2
  have h2 := subtype_iff_common_value b a hb ha.2
  cases hab : subtype table a b <;> cases hba : subtype table b a <;> try rfl
  · obtain ⟨v, hw, h, h'⟩ := h2.1 hba
    exact absurd (h1.2 ⟨v, hw, h', h⟩) (by simp [hab])
  · obtain ⟨v, hw, h, h'⟩ := h1.1 hab
    exact absurd (h2.2 ⟨v, hw, h', h⟩) (by simp [hba])

/-! ## The call boundary, every argument-passing form -/

/-- every bound value is compatible with the declared type of its input -/
def compatAll : List Ty → List Ty → Bool
  | v :: vs, d :: ds => compat v d && compatAll vs ds
  | _, _ => true

theorem judgeAll_exact : (vs ds : List Ty) → (∀ v ∈ vs, WF v) → (∀ d ∈ ds, d.allElems okElem = true) →
    judgeAll table vs ds = compatAll vs ds
  | [], _, _, _ => by simp [judgeAll, compatAll]
  | _ :: _, [], _, _ => by simp [judgeAll, compatAll]
  | v :: vs, d :: ds, hv, hd => by
    simp only [judgeAll, compatAll]
    rw [subtype_exact v d (hv v (by simp)) (hd d (by simp)),
        judgeAll_exact vs ds (fun x hx => hv x (by simp [hx])) (fun x hx => hd x (by simp [hx]))]

/-- **The compatibility judgement is applied exactly at the call boundary, whatever the argument-passing form**:
    `inline(model)(*pos, **kw)` is accepted iff the arguments bind (Python's rules) and EVERY bound value -
    positional, keyword or default - is compatible with the declared type of its input. -/
theorem call_boundary_exact (decl dflt : List (String × Ty)) (pos : List Ty) (kw : List (String × Ty))
    (hpos : ∀ v ∈ pos, WF v) (hkw : ∀ p ∈ kw, WF p.2) (hdf : ∀ p ∈ dflt, WF p.2)
    (hdecl : ∀ p ∈ decl, p.2.allElems okElem = true) :
    callAccepted table decl dflt pos kw = true ↔
      ∃ vs, bindCall (decl.map (·.1)) dflt pos kw = some vs ∧ compatAll vs (decl.map (·.2)) = true := by
  have hlk : ∀ (l : List (String × Ty)) (n : String) (v : Ty), (∀ p ∈ l, WF p.2) → lookupKw l n = some v → WF v := by
    intro l n v hl h
    simp only [lookupKw, Option.map_eq_some_iff] at h
    obtain ⟨p, hp, rfl⟩ := h
    exact hl p (List.mem_of_find?_eq_some hp)
  have hone : ∀ n i v, bindOne dflt pos kw n i = some v → WF v := by
    intro n i v h
    simp only [bindOne] at h
    cases hp : pos[i]? with
    | some x =>
      simp only [hp, Option.some.injEq] at h; subst h
      exact hpos x (List.mem_of_getElem? hp)
    | none =>
      simp only [hp] at h
      cases hk : lookupKw kw n with
      | some x => simp only [hk, Option.some.injEq] at h; subst h; exact hlk kw n x hkw hk
      | none => simp only [hk] at h; exact hlk dflt n v hdf h
  have hfrom : ∀ (ns : List String) (i : Nat) (vs : List Ty), bindFrom dflt pos kw ns i = some vs → ∀ v ∈ vs, WF v := by
    intro ns
    induction ns with
    | nil => intro i vs h; simp [bindFrom] at h; subst h; simp
    | cons n ns ih =>
      intro i vs h
      simp only [bindFrom] at h
      cases h1 : bindOne dflt pos kw n i with
      | none => simp [h1] at h
      | some v =>
        cases h2 : bindFrom dflt pos kw ns (i + 1) with
        | none => simp [h1, h2] at h
        | some rest =>
          simp only [h1, h2, Option.some.injEq] at h; subst h
          intro x hx
          rcases List.mem_cons.1 hx with rfl | hx
          · exact hone n i _ h1
          · exact ih (i + 1) rest h2 x hx
  have hd : ∀ d ∈ decl.map (·.2), d.allElems okElem = true := by
    intro d hd
    obtain ⟨p, hp, rfl⟩ := List.mem_map.1 hd
    exact hdecl p hp
  simp only [callAccepted]
  cases hb : bindCall (decl.map (·.1)) dflt pos kw with
  | none => simp
  | some vs =>
    have hwf : ∀ v ∈ vs, WF v := by
      simp only [bindCall] at hb
      split at hb
      · simp at hb
      · split at hb
        · simp at hb
        · split at hb
          · simp at hb
          · exact hfrom _ 0 vs hb
    simp [judgeAll_exact vs _ hwf hd]

-- one model input `x : e3[2]` between two e11 scalars `p`, `q`: the incompatible `e11[2]` is refused in
-- every argument-passing form, the compatible `e3['N']` accepted in every form (3 and 11 are two distinct element classes of the generated table)
example : let f32 : Ty := .tensor 11 (some []); let decl := [("p", f32), ("x", Ty.tensor 3 (some [.const 2])), ("q", f32)]
    let bad : Ty := .tensor 11 (some [.const 2]); let ok : Ty := .tensor 3 (some [.unk "N"])
    callAccepted table decl [] [f32, bad, f32] [] = false ∧ callAccepted table decl [] [] [("q", f32), ("x", bad), ("p", f32)] = false ∧
    callAccepted table decl [] [f32] [("x", bad), ("q", f32)] = false ∧
    callAccepted table decl [] [f32, ok, f32] [] = true ∧ callAccepted table decl [] [] [("q", f32), ("x", ok), ("p", f32)] = true ∧
    callAccepted table decl [] [f32] [("x", ok), ("q", f32)] = true ∧
    -- binding errors: a name given twice, an unknown keyword, a missing argument
    callAccepted table decl [] [f32, ok] [("x", ok), ("q", f32)] = false ∧ callAccepted table decl [] [f32, ok, f32] [("z", f32)] = false ∧
    callAccepted table decl [] [f32, ok] [] = false ∧ callAccepted table decl [("q", f32)] [f32, ok] [] = true := by decide +kernel


/-! ### argument binding: positional, keyword (any order) -/

theorem bindFrom_pos (dflt : List (String × Ty)) (kw : List (String × Ty)) :
    (names : List String) → (pre vs : List Ty) → names.length = vs.length →
      bindFrom dflt (pre ++ vs) kw names pre.length = some vs
  | [], pre, vs, h => by
    have : vs = [] := by cases vs <;> simp_all
    subst this; simp [bindFrom]
  | n :: ns, pre, [], h => by simp at h
  | n :: ns, pre, v :: vs, h => by
    simp only [List.length_cons, Nat.add_right_cancel_iff] at h
    have ih := bindFrom_pos dflt kw ns (pre ++ [v]) vs h
    simp only [List.append_assoc, List.singleton_append, List.length_append, List.length_cons, List.length_nil,
      Nat.zero_add] at ih
    simp [bindFrom, bindOne, ih]

/-- All-positional call: the values are bound in order (when there are as many as inputs). -/
theorem bindCall_positional (names : List String) (dflt : List (String × Ty)) (vs : List Ty)
    (h : names.length = vs.length) : bindCall names dflt vs [] = some vs := by
  have := bindFrom_pos dflt [] names [] vs h
  simp only [List.nil_append, List.length_nil] at this
  simp [bindCall, h, lookupKw, this]

theorem bindFrom_congr (dflt : List (String × Ty)) (pos : List Ty) (kw kw' : List (String × Ty))
    (h : ∀ n, lookupKw kw n = lookupKw kw' n) :
    (names : List String) → (i : Nat) → bindFrom dflt pos kw names i = bindFrom dflt pos kw' names i
  | [], _ => rfl
  | n :: ns, i => by simp only [bindFrom, bindOne, h, bindFrom_congr dflt pos kw kw' h ns (i + 1)]

/-- **The order (and any other presentation) of the keyword arguments is irrelevant**: two keyword lists that give
    every name the same value, and agree on whether an unknown keyword is present, bind identically - so the
    judgement of `call_boundary_exact` falls on the same values. -/
theorem bindCall_keyword_order (names : List String) (dflt : List (String × Ty)) (pos : List Ty)
    (kw kw' : List (String × Ty)) (h : ∀ n, lookupKw kw n = lookupKw kw' n)
    (hu : kw.any (fun p => !names.contains p.1) = kw'.any (fun p => !names.contains p.1)) :
    bindCall names dflt pos kw = bindCall names dflt pos kw' := by
  simp only [bindCall, h, hu, bindFrom_congr dflt pos kw kw' h names 0]

/-- A keyword call that names every input binds the keyword values in the order of the model's inputs. -/
theorem bindFrom_keywords (dflt kw : List (String × Ty)) :
    (names : List String) → (i : Nat) → (∀ n ∈ names, (lookupKw kw n).isSome = true) →
      bindFrom dflt [] kw names i = some (names.map (fun n => (lookupKw kw n).getD default))
  | [], _, _ => rfl
  | n :: ns, i, h => by
    have hn := h n (by simp)
    cases hk : lookupKw kw n with
    | none => simp [hk] at hn
    | some v =>
      have ih := bindFrom_keywords dflt kw ns (i + 1) (fun m hm => h m (by simp [hm]))
      simp [bindFrom, bindOne, hk, ih]


/-! ## Broadcasting -/

/-- **On known dimensions static broadcasting is numpy's rule.** -/
theorem broadcast_known (a b : List Nat) :
    broadcast (some (a.map .const)) (some (b.map .const))
      = (npBroadcast a b).map (fun l => some (l.map Natural.const)) := by
  simp only [broadcast, npBroadcast, List.length_map]
  by_cases h : a.length > b.length
  · have h1 : max a.length b.length - a.length = 0 := by omega
    have h2 : max a.length b.length - b.length = a.length - b.length := by omega
    simp only [h, if_true, h1, h2, List.replicate_zero, List.nil_append, List.length_map]
    have hl : (List.replicate (a.length - b.length) 1 ++ b).length = a.length := by
      simp only [List.length_append, List.length_replicate]; omega
    have := bZip_known (List.replicate (a.length - b.length) 1 ++ b) a hl
    simp only [List.map_append, List.map_replicate] at this
    rw [this, npZip_comm]
    cases npZip a (List.replicate (a.length - b.length) 1 ++ b) <;> simp
  · have h1 : max a.length b.length - b.length = 0 := by omega
    have h2 : max a.length b.length - a.length = b.length - a.length := by omega
    simp only [h, if_false, h1, h2, List.replicate_zero, List.nil_append, List.length_map]
    have hl : (List.replicate (b.length - a.length) 1 ++ a).length = b.length := by
      simp only [List.length_append, List.length_replicate]; omega
    have := bZip_known (List.replicate (b.length - a.length) 1 ++ a) b hl
    simp only [List.map_append, List.map_replicate] at this
    rw [this]
    cases npZip (List.replicate (b.length - a.length) 1 ++ a) b <;> simp

/-- **Static broadcasting never claims a dimension that conforming runtime values could
    contradict**: whenever concrete shapes conform to the operand shapes and numpy broadcasts them,
    numpy's result conforms to the shape spox reports. -/
theorem broadcast_sound (a b c : Shape) (sa sb s : List Nat)
    (h : broadcast a b = some c) (ha : confShape sa a) (hb : confShape sb b)
    (hs : npBroadcast sa sb = some s) : confShape s c := by
  cases a with
  | none => simp [broadcast] at h; subst h; simp [confShape]
  | some xa =>
    cases b with
    | none => simp [broadcast] at h; subst h; simp [confShape]
    | some xb =>
      simp only [confShape] at ha hb
      have la := confDims_length sa xa ha
      have lb := confDims_length sb xb hb
      simp only [broadcast] at h
      simp only [npBroadcast] at hs
      by_cases hgt : xa.length > xb.length
      · have h1 : max sa.length sb.length - sa.length = 0 := by omega
        have h2 : max sa.length sb.length - sb.length = xa.length - xb.length := by omega
        simp only [hgt, if_true, Option.map_eq_some_iff] at h
        simp only [h1, h2, List.replicate_zero, List.nil_append] at hs
        obtain ⟨zc, hz, rfl⟩ := h
        rw [npZip_comm] at hs
        exact bZip_sound _ _ _ _ zc s (confDims_pad _ sb xb hb) ha hz hs
      · have h1 : max sa.length sb.length - sb.length = 0 := by omega
        have h2 : max sa.length sb.length - sa.length = xb.length - xa.length := by omega
        simp only [hgt, if_false, Option.map_eq_some_iff] at h
        simp only [h1, h2, List.replicate_zero, List.nil_append] at hs
        obtain ⟨zc, hz, rfl⟩ := h
        exact bZip_sound _ _ _ _ zc s (confDims_pad _ sa xa ha) hb hz hs

/-- **Static broadcasting raises only when no conforming values could broadcast.** -/
theorem broadcast_raises_only_if_impossible (a b : Shape) (sa sb : List Nat)
    (h : broadcast a b = none) (ha : confShape sa a) (hb : confShape sb b) :
    npBroadcast sa sb = none := by
  cases a with
  | none => simp [broadcast] at h
  | some xa =>
    cases b with
    | none => simp [broadcast] at h
    | some xb =>
      simp only [confShape] at ha hb
      have la := confDims_length sa xa ha
      have lb := confDims_length sb xb hb
      simp only [broadcast] at h
      simp only [npBroadcast]
      by_cases hgt : xa.length > xb.length
      · have h1 : max sa.length sb.length - sa.length = 0 := by omega
        have h2 : max sa.length sb.length - sb.length = xa.length - xb.length := by omega
        simp only [hgt, if_true, Option.map_eq_none_iff] at h
        simp only [h1, h2, List.replicate_zero, List.nil_append]
        rw [npZip_comm]
        exact bZip_none _ _ _ _ (confDims_pad _ sb xb hb) ha h
      · have h1 : max sa.length sb.length - sb.length = 0 := by omega
        have h2 : max sa.length sb.length - sa.length = xb.length - xa.length := by omega
        simp only [hgt, if_false, Option.map_eq_none_iff] at h
        simp only [h1, h2, List.replicate_zero, List.nil_append]
        exact bZip_none _ _ _ _ (confDims_pad _ sa xa ha) hb h

/-- Unknown rank on either side gives unknown rank (which every runtime shape conforms to). -/
theorem broadcast_unknown_rank (b : Shape) : broadcast none b = some none ∧ broadcast b none = some none := by
  cases b <;> simp [broadcast]


/-! ## Operand spellings (simple format) and operand order -/

/-- Reading a shape back from its own simple form is the identity (`Shape.from_simple ∘ to_simple`):
    every shape has a simple spelling, and that spelling denotes it. -/
theorem fromSimple_toSimple (s : Shape) : Shape.fromSimple (Shape.toSimple s) = s :=
  shape_simple_roundtrip s

/-- **The answer does not depend on the spelling of the operand**: a `Shape` object and its simple
    form (tuple / `None`) give the same `broadcast`. -/
theorem broadcastArg_spelling (a s : Shape) :
    broadcastArg a (.simple (Shape.toSimple s)) = broadcastArg a (.shape s) := by
  simp only [broadcastArg, ShapeArg.resolve, shape_simple_roundtrip]

/-- More generally, two arguments that denote the same shape are treated the same. -/
theorem broadcastArg_congr (a : Shape) (o₁ o₂ : ShapeArg) (h : o₁.resolve = o₂.resolve) :
    broadcastArg a o₁ = broadcastArg a o₂ ∧ canBroadcast a o₁ = canBroadcast a o₂ := by
  simp only [canBroadcast, broadcastArg, h, and_self]

/-- **`None` in the simple format is the unknown rank, not an absent operand**: the result is the
    unknown rank too (which every runtime shape conforms to), whatever `self` is. -/
theorem broadcastArg_none (a : Shape) :
    broadcastArg a (.simple none) = some none ∧ broadcastArg a (.shape none) = some none := by
  cases a <;> simp [broadcastArg, ShapeArg.resolve, Shape.fromSimple, broadcast]

/-- Soundness for every spelling of the operand: the claim is never contradicted by conforming values. -/
theorem broadcastArg_sound (a c : Shape) (o : ShapeArg) (sa sb s : List Nat)
    (h : broadcastArg a o = some c) (ha : confShape sa a) (hb : confShape sb o.resolve)
    (hs : npBroadcast sa sb = some s) : confShape s c :=
  broadcast_sound a o.resolve c sa sb s h ha hb hs

/-- ... and `ShapeError` / `can_broadcast = False` only when no conforming values could broadcast. -/
theorem canBroadcast_false_only_if_impossible (a : Shape) (o : ShapeArg) (sa sb : List Nat)
    (h : canBroadcast a o = false) (ha : confShape sa a) (hb : confShape sb o.resolve) :
    npBroadcast sa sb = none := by
  apply broadcast_raises_only_if_impossible a o.resolve sa sb _ ha hb
  simpa [canBroadcast, broadcastArg] using h

/-- The rank of a static broadcast of shapes of known rank is the larger rank (numpy's), and unknown
    rank results only from an operand of unknown rank. -/
theorem broadcast_rank (a b : Shape) (c : Shape) (h : broadcast a b = some c) :
    c.maybeRank = (a.maybeRank.bind fun ra => b.maybeRank.map fun rb => max ra rb) := by
  cases a with
  | none => simp [broadcast] at h; subst h; simp [Shape.maybeRank]
  | some xa =>
    cases b with
    | none => simp [broadcast] at h; subst h; simp [Shape.maybeRank]
    | some xb =>
      cases c with
      | none =>
        simp only [broadcast] at h
        split at h <;> simp at h
      | some xc => simp [Shape.maybeRank, Types.broadcast_rank xa xb xc h]

/-- **Both operand orders give the same answer.** -/
theorem broadcast_comm (a b : Shape) : broadcast a b = broadcast b a := Types.broadcast_comm a b

/-! ### Round 10: the raising side is exact (converse), for `broadcast` and `can_broadcast`, every spelling -/

/-- **A static broadcast that succeeds is justified**: there are concrete runtime shapes conforming to the two
    operands that numpy broadcasts (any ranks, any mix of constant / named / anonymous dimensions, unknown rank).
    Converse of `broadcast_raises_only_if_impossible`. -/
theorem broadcast_succeeds_only_if_possible (a b c : Shape) (h : broadcast a b = some c) :
    ∃ sa sb s, confShape sa a ∧ confShape sb b ∧ npBroadcast sa sb = some s :=
  Types.broadcast_possible a b c h

/-- **`ShapeError` exactly when no conforming values could broadcast** (both directions). -/
theorem broadcast_raises_iff_impossible (a b : Shape) :
    broadcast a b = none ↔ ∀ sa sb, confShape sa a → confShape sb b → npBroadcast sa sb = none := by
  constructor
  · intro h sa sb ha hb; exact broadcast_raises_only_if_impossible a b sa sb h ha hb
  · intro h
    cases hb : broadcast a b with
    | none => rfl
    | some c =>
      obtain ⟨sa, sb, s, ha, hb', hs⟩ := broadcast_succeeds_only_if_possible a b c hb
      rw [h sa sb ha hb'] at hs; cases hs

/-- **`can_broadcast` is exact for every spelling of the operand**: `True` iff some conforming runtime shapes
    broadcast under numpy's rule. -/
theorem canBroadcast_exact (a : Shape) (o : ShapeArg) :
    canBroadcast a o = true ↔ ∃ sa sb s, confShape sa a ∧ confShape sb o.resolve ∧ npBroadcast sa sb = some s := by
  constructor
  · intro h
    simp only [canBroadcast, broadcastArg, Option.isSome_iff_exists] at h
    obtain ⟨c, hc⟩ := h
    exact broadcast_succeeds_only_if_possible a o.resolve c hc
  · intro ⟨sa, sb, s, ha, hb, hs⟩
    cases hc : canBroadcast a o with
    | true => rfl
    | false => rw [canBroadcast_false_only_if_impossible a o sa sb hc ha hb] at hs; cases hs

/-- ... and the shape claimed on success is itself inhabited by the numpy result of those witnesses
    (`broadcast_sound` applied to them): success always comes with a concrete confirming instance. -/
theorem broadcast_success_confirmed (a b c : Shape) (h : broadcast a b = some c) :
    ∃ sa sb s, confShape sa a ∧ confShape sb b ∧ npBroadcast sa sb = some s ∧ confShape s c := by
  obtain ⟨sa, sb, s, ha, hb, hs⟩ := broadcast_succeeds_only_if_possible a b c h
  exact ⟨sa, sb, s, ha, hb, hs, broadcast_sound a b c sa sb s h ha hb hs⟩


/-! ### Round 10: broadcasting dimension by dimension from the right; glue of the type layer -/

/-- **`Shape.broadcast` on shapes of known rank, dimension by dimension from the right** (a refinement to the
    obvious specification): the rank of the result is the larger rank and its dimension `-1-i` is
    `_broadcast_elem` of the operands' dimensions `-1-i`, a missing axis counting as 1 — whatever the two ranks
    (the swap and the left padding of the implementation disappear). -/
theorem broadcast_dimwise (a b c : List Natural) (h : broadcast (some a) (some b) = some (some c)) :
    c.length = max a.length b.length ∧ ∀ i, bElem (rdim a i) (rdim b i) = some (rdim c i) :=
  Types.broadcast_dimwise a b c h

/-- The same through the real indexing (`Shape.__getitem__` with a negative index) on every axis both operands have. -/
theorem broadcast_getItem (a b c : List Natural) (h : broadcast (some a) (some b) = some (some c))
    (i : Nat) (hi : i < a.length) (hj : i < b.length) :
    ∃ x y z, Shape.getItem (some a) (-1 - (i : Int)) = some x ∧ Shape.getItem (some b) (-1 - (i : Int)) = some y ∧
      Shape.getItem (some c) (-1 - (i : Int)) = some z ∧ bElem x y = some z := by
  obtain ⟨hl, hd⟩ := broadcast_dimwise a b c h
  exact ⟨rdim a i, rdim b i, rdim c i, rdim_getItem a i hi, rdim_getItem b i hj,
    rdim_getItem c i (by omega), hd i⟩

/-- On the axes only the longer operand has, the result is that operand's dimension, verbatim (name included). -/
theorem broadcast_getItem_longer (a b c : List Natural) (h : broadcast (some a) (some b) = some (some c))
    (i : Nat) (hi : a.length ≤ i) (hj : i < b.length) :
    Shape.getItem (some c) (-1 - (i : Int)) = Shape.getItem (some b) (-1 - (i : Int)) := by
  obtain ⟨hl, hd⟩ := broadcast_dimwise a b c h
  rw [rdim_getItem b i hj, rdim_getItem c i (by omega)]
  have ha : rdim a i = .const 1 := by
    simp only [rdim]
    rw [List.getElem?_eq_none (by simp; omega)]; rfl
  have := hd i
  rw [ha] at this
  have h1 : ∀ y : Natural, bElem (.const 1) y = some y := by
    intro y; cases y <;> grind [bElem]
  rw [h1] at this
  exact this.symm

/-- **`Shape.broadcast` raises exactly when some right-aligned axis clashes** (shapes of known rank, any ranks):
    together with `broadcast_dimwise` this is the complete dimension-by-dimension specification of the function. -/
theorem broadcast_raises_iff_axis_clash (a b : List Natural) :
    broadcast (some a) (some b) = none ↔ ∃ i, bElem (rdim a i) (rdim b i) = none :=
  Types.broadcast_none_iff_clash a b

/-- The boundary judgement accepts every constructible type for itself. -/
theorem subtype_refl (a : Ty) (ha : WF a) : subtype table a a = true := by
  rw [subtype_iff_common_value a a ha ha.2]
  exact ⟨wit a a, (wit_spec a a ((compat_iff_common_value a a).2
    ⟨inh a, (inh_spec a).1, (inh_spec a).2, (inh_spec a).2⟩)).1,
    (wit_spec a a ((compat_iff_common_value a a).2 ⟨inh a, (inh_spec a).1, (inh_spec a).2, (inh_spec a).2⟩)).2⟩

/-- ... but it is not an order: "can describe a common value" is not transitive (`(2,)` ~ `('N',)` ~ `(3,)`),
    which is why `_subtype` must not be chained through an intermediate type. -/
theorem subtype_not_transitive :
    ∃ a b c : Ty, subtype table a b = true ∧ subtype table b c = true ∧ subtype table a c = false :=
  ⟨.tensor 3 (some [.const 2]), .tensor 3 (some [.unk "N"]), .tensor 3 (some [.const 3]), by decide +kernel⟩

/-- **`unwrap_tensor` / `unwrap_sequence` / `unwrap_optional`**: on every type a program can build exactly one of
    the three succeeds, and it returns the type unchanged. -/
theorem unwrap_exactly_one (t : Ty) (h : t.anyFree = true) :
    (unwrapTensor t = some t ∧ unwrapSeq t = none ∧ unwrapOpt t = none) ∨
    (unwrapTensor t = none ∧ unwrapSeq t = some t ∧ unwrapOpt t = none) ∨
    (unwrapTensor t = none ∧ unwrapSeq t = none ∧ unwrapOpt t = some t) := by
  cases t <;> simp_all [unwrapTensor, unwrapSeq, unwrapOpt, Ty.anyFree]

/-- **Compatible types have the same constructor, as the unwrap functions see it**: if the boundary judgement
    accepts `a` for `b`, whichever unwrap succeeds on `b` succeeds on `a` (and vice versa). -/
theorem compat_same_unwrap (a b : Ty) (ha : WF a) (hb : WF b) (h : subtype table a b = true) :
    (unwrapTensor a).isSome = (unwrapTensor b).isSome ∧ (unwrapSeq a).isSome = (unwrapSeq b).isSome ∧
      (unwrapOpt a).isSome = (unwrapOpt b).isSome := by
  rw [subtype_exact a b ha hb.2] at h
  have ha' := ha.1
  have hb' := hb.1
  cases a <;> cases b <;> simp_all [compat, unwrapTensor, unwrapSeq, unwrapOpt, Ty.anyFree]

/-- **`_is_concrete`**: a Tensor is concrete iff its rank is known (`Shape.__bool__`); a Sequence or Optional is
    concrete whatever it contains (only `Tensor` overrides `_assert_concrete` — a quirk the model reproduces). -/
theorem isConcrete_spec (e : Nat) (s : Shape) (t : Ty) :
    isConcrete (.tensor e s) = s.truthy ∧ s.truthy = s.maybeRank.isSome ∧
      isConcrete (.seq t) = true ∧ isConcrete (.opt t) = true := by
  cases s <;> simp [isConcrete, Shape.truthy, Shape.maybeRank]

/-- **Broadcasting a shape with itself is the identity** (mini-round): `s.broadcast(s) = s` for every shape - any rank,
    constant / named / anonymous dimensions (names kept verbatim), unknown rank; it never raises. -/
theorem broadcast_idem (a : Shape) : broadcast a a = some a := Types.broadcast_self a

example : broadcast (some [.unk "N", .const 3, .unk ""]) (some [.unk "N", .const 3, .unk ""]) = some (some [.unk "N", .const 3, .unk ""]) := by decide

/-! ## What the model covers (tie G: inventory of the type layer's classes and deciding methods) -/

/-- Obligation: the classes deriving from `Type` / `Natural` / `Shape` anywhere under `src/spox`, their
    bases and dataclass decorators (equality and hash are the generated field-wise ones: no class defines
    `__eq__` / `__hash__`; no deciding method is wrapped by a decorator such as a cache; the only
    class-level attribute with a value is the field default `Unknown.label`), and the methods among those that decide compatibility, broadcasting and the
    ONNX forms which each class defines, are exactly the ones `Model/Types.lean` describes. A new
    subclass, override, decorator change or unparsable file fails this whatever inputs are generated. -/
theorem type_layer_inventory :
    Generated.TypeOverrides.classes.map (fun c => (c.name, c.bases, c.decorators, c.methods)) =
      [("Constant", ["Natural"], ["dataclass(frozen=True)"], ["__le__", "to_simple"]),
       ("Natural", [], ["dataclass(frozen=True)"],
          ["__le__", "from_onnx", "from_simple", "simple_from_onnx", "simple_to_onnx", "to_onnx", "to_simple"]),
       ("Shape", [], ["dataclass(frozen=True)"],
          ["__bool__", "__getitem__", "__le__", "broadcast", "can_broadcast", "from_onnx", "from_simple",
           "maybe_rank", "rank", "to_onnx", "to_simple"]),
       ("Unknown", ["Natural"], ["dataclass(frozen=True)"], ["__le__", "attr:label", "to_simple"]),
       ("Optional", ["Type"], ["dataclass(frozen=True)"], ["_subtype", "_to_onnx"]),
       ("Sequence", ["Type"], ["dataclass(frozen=True)"], ["_subtype", "_to_onnx"]),
       ("Tensor", ["Type"], ["dataclass(frozen=True)"], ["__init__", "_subtype", "_to_onnx", "dtype", "shape"]),
       ("Type", [], ["dataclass(frozen=True)"], ["_from_onnx", "_subtype", "_to_onnx"])]
    ∧ Generated.TypeOverrides.functions.map (·.1) = ["_broadcast_elem"]
    ∧ Generated.TypeOverrides.opaqueFiles = [] := by decide +kernel

/-! ## Non-vacuity -/

-- int64 (class of `Tensor(np.int64)`) has an inhabitant among the generated spellings
example : ∃ s ∈ spellings, s.cls.isSome = true ∧ s.defined = true := by decide +kernel
example : ∃ s ∈ spellings, s.defined = false := by decide +kernel
example : broadcast (some [.const 2, .unk "N", .const 1]) (some [.const 3, .unk ""])
    = some (some [.const 2, .const 3, .unk ""]) := by decide
example : broadcast (some [.const 2]) (some [.const 3]) = none := by decide
-- dimension names that look like the ones other layers invent or strip survive verbatim, at any nesting depth
example : fromOnnx table (.seq (.opt (.tensor 1 (some [.param "unk__0", .value 3, .param "7", .param "名"]))))
    = (table.ofCode 1).map (fun e => Ty.seq (.opt (.tensor e (some [.unk "unk__0", .const 3, .unk "7", .unk "名"])))) := by
  cases h : table.ofCode 1 <;> simp [fromOnnx, h, Natural.fromOnnx]
example : Natural.fromOnnx (Natural.toOnnx (.unk "unk__batch")) = .unk "unk__batch" := by decide
example : npBroadcast [2, 1, 3] [4, 1] = some [2, 4, 3] := by decide
-- the spellings `(2, 'N', None)` and `(2, 'N', '')` denote one shape; `None` denotes the unknown rank
example : Shape.fromSimple (some [.int 2, .str "N", .none]) = Shape.fromSimple (some [.int 2, .str "N", .str ""]) := by decide
example : broadcastArg (some [.const 2]) (.simple none) = some none := by decide
example : broadcastArg (some [.const 2, .const 1]) (.simple (some [.str "N"])) = some (some [.const 2, .unk "N"]) := by decide
example : canBroadcast (some [.const 2]) (.simple (some [.int 3])) = false := by decide
example : compat (.seq (.tensor 7 (some [.const 2]))) (.seq (.tensor 7 (some [.unk "N"]))) = true := by decide
example : compat (.tensor 7 (some [.const 2])) (.tensor 7 (some [.const 3])) = false := by decide
-- round 10: exactness of the raising side on instances (a name against a constant succeeds, two constants do not)
example : canBroadcast (some [.unk "N", .const 3]) (.simple (some [.int 2, .int 1])) = true := by decide
example : ¬ ∃ sa sb s, confShape sa (some [.const 2]) ∧ confShape sb (some [.const 3]) ∧ npBroadcast sa sb = some s := by
  intro ⟨sa, sb, s, ha, hb, hs⟩
  have := (broadcast_raises_iff_impossible (some [.const 2]) (some [.const 3])).1 (by decide) sa sb ha hb
  rw [this] at hs; cases hs

-- round 10: ('N', 3) against (2, 1, 1): rank 3, the last axis is 3, the middle one the name, the first one 2
example : broadcast (some [.unk "N", .const 3]) (some [.const 2, .const 1, .const 1]) = some (some [.const 2, .unk "N", .const 3]) ∧
    rdim [.unk "N", .const 3] 2 = .const 1 ∧ Shape.getItem (some [.unk "N", .const 3]) (-2) = some (.unk "N") ∧
    Shape.getItem (some [.unk "N", .const 3]) (-3) = none ∧ Shape.getItem none 0 = none := by decide
example : unwrapSeq (.seq (.tensor 1 none)) = some (.seq (.tensor 1 none)) ∧ unwrapTensor (.seq (.tensor 1 none)) = none ∧
    isConcrete (.tensor 1 none) = false ∧ isConcrete (.seq (.tensor 1 none)) = true := by decide

end C13
