/-! Property theorems for C13 (only property-level statements and non-vacuity examples live here). -/
