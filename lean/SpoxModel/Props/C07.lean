/-! Property theorems for C07 (only property-level statements and non-vacuity examples live here). -/
