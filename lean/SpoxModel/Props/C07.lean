import SpoxModel.Lemmas.VPHistory
import SpoxModel.Lemmas.VPFeed
import SpoxModel.Lemmas.VPFeedFixed
import SpoxModel.Props.C15
import SpoxModel.Generated.VPOverrides
import SpoxModel.Generated.VPSampling
/-!
# C07 - propagated constant values equal what the model computes

Statements over *all construction histories* (`Model/VPHistory.lean`): any sequence of constructor
calls (arguments, constants / initializers, standard operators, inlined models), any types produced
by type inference, any backend behaviour at every call, either conversion pipeline. All for
`Variant.fixed` (the tree after the `fix:` commits); `kept_value_conforms_counterexample` shows the
container case false for the pinned behaviour.
-/
namespace C07
open VP

/-- What holds of every node of a reachable state. -/
def NodeOK (st : State) (idx : Nat) (n : NodeRec) : Prop :=
  (∀ o ∈ n.outputs, ∀ pv, o.value = some pv → o.type = some pv.type ∧ conforms pv.type pv.value) ∧
  ((∃ o ∈ n.outputs, o.value.isSome = true) →
    n.kind ≠ .argument ∧
      ∀ i ∈ n.inputs, i.node < idx ∧ ∃ oi, st.var? i = some oi ∧ oi.value.isSome = true) ∧
  (n.kind = .constant →
    ∀ o ∈ n.outputs, ∀ pv, o.value = some pv → ∀ ins, n.sem ins o.key = some pv.value)

def Inv (st : State) : Prop :=
  ∀ (idx : Nat) (n : NodeRec), st[idx]? = some n → NodeOK st idx n

theorem NodeOK.mono {st : State} {idx : Nat} {n : NodeRec} (m : NodeRec) (h : NodeOK st idx n) :
    NodeOK (st ++ [m]) idx n :=
  ⟨h.1, fun hv => ⟨(h.2.1 hv).1, fun i hi => by
    obtain ⟨hlt, oi, h1, h2⟩ := (h.2.1 hv).2 i hi
    exact ⟨hlt, oi, var?_append st m i oi h1, h2⟩⟩, h.2.2⟩

theorem var?_some_lt (st : State) (r : VarRef) (o : OutVar) (h : st.var? r = some o) :
    r.node < st.length := by
  unfold State.var? at h
  rcases Nat.lt_or_ge r.node st.length with h1 | h1
  · exact h1
  · simp [List.getElem?_eq_none h1] at h

/-- The outputs of a freshly constructed node conform (from C15's `no_bad_value`). -/
theorem fresh_outputs_ok (sel : BackendSel) (k : Kind) (ctx : NodeCtx) (b : Backend)
    (res : List (OutVar × Bool)) (h : construct Variant.fixed sel k ctx b = .ok res)
    (hfresh : ∀ o ∈ ctx.outputs, o.value = none) :
    ∀ o ∈ res.map (·.1), ∀ pv, o.value = some pv → o.type = some pv.type ∧ conforms pv.type pv.value := by
  intro o ho pv hpv
  simp only [List.mem_map] at ho
  obtain ⟨ow, how, rfl⟩ := ho
  rcases C15.no_bad_value sel k ctx b res h ow how pv hpv with ⟨o0, ho0, _, hv⟩ | ⟨h1, _, h3⟩
  · rw [hfresh o0 ho0] at hv; cases hv
  · exact ⟨h1, h3⟩

theorem mkCtx_fresh (st : State) (inputs : List VarRef) (inNames : List String)
    (outs : List (String × Option Ty)) (hs : Bool) :
    ∀ o ∈ (mkCtx st inputs inNames outs hs).outputs, o.value = none := by
  intro o ho
  simp only [mkCtx, List.mem_map] at ho
  obtain ⟨p, _, rfl⟩ := ho
  rfl

/-- Every input of the new node is seen, typed and valued, in the singleton scope. -/
theorem inputs_valued_of_ctx (st : State) (inputs : List VarRef) (inNames : List String)
    (outs : List (String × Option Ty)) (hs : Bool) (hlen : inNames.length = inputs.length)
    (hex : inputsExist st inputs = true)
    (hall : ∀ i ∈ (mkCtx st inputs inNames outs hs).inputs, i.hasValue = true ∧ i.type.isSome = true) :
    ∀ r ∈ inputs, ∃ oi, st.var? r = some oi ∧ oi.value.isSome = true := by
  intro r hr
  simp only [inputsExist, List.all_eq_true] at hex
  have hsome := hex r hr
  obtain ⟨oi, hoi⟩ := Option.isSome_iff_exists.mp hsome
  refine ⟨oi, hoi, ?_⟩
  -- r sits at some position j of `inputs`; the zip has the pair (inNames[j], r)
  obtain ⟨j, hj, hjr⟩ := List.getElem_of_mem hr
  have hj' : j < inNames.length := by omega
  have hmem : mkInVar st inNames[j] r ∈ (mkCtx st inputs inNames outs hs).inputs := by
    simp only [mkCtx, List.mem_map]
    refine ⟨(inNames[j], r), ?_, rfl⟩
    have : (inNames.zip inputs)[j]'(by simp [List.length_zip]; omega) = (inNames[j], inputs[j]) := by
      simp
    rw [← hjr, ← this]
    exact List.getElem_mem _
  have := (hall _ hmem).1
  simpa [mkInVar, hoi] using this

/-- **The invariant is preserved by every constructor call.** -/
theorem step_inv (st st' : State) (s : Step) (hinv : Inv st) (h : step Variant.fixed st s = .ok st') :
    Inv st' := by
  cases s with
  | argument key ty =>
    simp only [step, Except.ok.injEq] at h
    subst h
    intro idx n hn
    rcases getElem?_snoc st _ idx n hn with h1 | ⟨hidx, rfl⟩
    · exact (hinv idx n h1).mono _
    · refine ⟨?_, ?_, ?_⟩
      · intro o ho pv hpv
        simp only [List.mem_singleton] at ho
        subst ho
        cases hpv
      · rintro ⟨o, ho, hv⟩
        simp only [List.mem_singleton] at ho
        subst ho
        simp at hv
      · intro hk; cases hk
  | constant key ty p =>
    simp only [step, Except.ok.injEq] at h
    subst h
    intro idx n hn
    rcases getElem?_snoc st _ idx n hn with h1 | ⟨hidx, rfl⟩
    · exact (hinv idx n h1).mono _
    · refine ⟨?_, fun _ => ⟨by simp, by simp⟩, ?_⟩
      · intro o ho pv hpv
        simp only [merge, List.map_cons, List.map_nil, List.mem_singleton] at ho
        subst ho
        rcases C15.mergeOne_value [(key, p)] ⟨key, ty, none⟩ pv hpv with h1 | ⟨_, h2, h3, _⟩
        · cases h1
        · refine ⟨by rw [(C15.mergeOne_key_type _ _ _).2]; exact h2, ?_⟩
          cases pv with
          | mk t q => exact C15.check_sound t q h3
      · intro _ o ho pv hpv ins
        simp only [merge, List.map_cons, List.map_nil, List.mem_singleton] at ho
        subst ho
        rcases C15.mergeOne_value [(key, p)] ⟨key, ty, none⟩ pv hpv with h1 | ⟨_, _, _, q, hq, hpq⟩
        · cases h1
        · simp only [dictGet, ↓reduceIte, Option.some.injEq] at hq
          subst hq
          rw [(C15.mergeOne_key_type _ _ _).1, hpq]
          simp [PropValue.new, PropValue.value]
  | standard sel inputs inNames outs hasSub b sem =>
    simp only [step] at h
    split at h
    · cases h
    · rename_i hcond
      simp only [Bool.or_eq_true, Bool.not_eq_eq_eq_not, Bool.not_true, bne_iff_ne, ne_eq,
        not_or, Bool.not_eq_false, Decidable.not_not] at hcond
      obtain ⟨hex, hlen⟩ := hcond
      split at h
      · cases h
      · rename_i res hres
        simp only [Except.ok.injEq] at h
        subst h
        intro idx n hn
        rcases getElem?_snoc st _ idx n hn with h1 | ⟨hidx, rfl⟩
        · exact (hinv idx n h1).mono _
        · refine ⟨fresh_outputs_ok _ _ _ _ _ hres (mkCtx_fresh _ _ _ _ _), ?_, fun hk => by cases hk⟩
          rintro ⟨o, ho, hv⟩
          refine ⟨by simp, ?_⟩
          simp only [List.mem_map] at ho
          obtain ⟨ow, how, rfl⟩ := ho
          have hall := attached_inputs_valued _ _ _ _ _ hres (mkCtx_fresh _ _ _ _ _) ⟨ow, how, hv⟩
          intro i hi
          obtain ⟨oi, h1, h2⟩ := inputs_valued_of_ctx st inputs inNames outs hasSub.skips hlen hex hall i hi
          exact ⟨by rw [hidx]; exact var?_some_lt st i oi h1, oi, var?_append st _ i oi h1, h2⟩
  | inline sel inputs inNames gnames outs traits b sem =>
    simp only [step] at h
    split at h
    · cases h
    · rename_i hcond
      simp only [Bool.or_eq_true, Bool.not_eq_eq_eq_not, Bool.not_true, bne_iff_ne, ne_eq,
        not_or, Bool.not_eq_false, Decidable.not_not] at hcond
      obtain ⟨hex, hlen⟩ := hcond
      split at h
      · cases h
      · rename_i res hres
        simp only [Except.ok.injEq] at h
        subst h
        intro idx n hn
        rcases getElem?_snoc st _ idx n hn with h1 | ⟨hidx, rfl⟩
        · exact (hinv idx n h1).mono _
        · refine ⟨fresh_outputs_ok _ _ _ _ _ hres (mkCtx_fresh _ _ _ _ _), ?_, fun hk => by cases hk⟩
          rintro ⟨o, ho, hv⟩
          refine ⟨by simp, ?_⟩
          simp only [List.mem_map] at ho
          obtain ⟨ow, how, rfl⟩ := ho
          have hall := attached_inputs_valued _ _ _ _ _ hres (mkCtx_fresh _ _ _ _ _) ⟨ow, how, hv⟩
          intro i hi
          obtain ⟨oi, h1, h2⟩ := inputs_valued_of_ctx st inputs inNames outs traits.skips hlen hex hall i hi
          exact ⟨by rw [hidx]; exact var?_some_lt st i oi h1, oi, var?_append st _ i oi h1, h2⟩

theorem reachable_inv (st : State) (h : Reachable Variant.fixed st) : Inv st := by
  induction h with
  | empty => intro idx n hn; simp at hn
  | step s _ hs ih => exact step_inv _ _ s ih hs

/-- **kept_value_conforms.** In every reachable program state, a Var that carries a value carries
    one declared with exactly the Var's type, and the payload conforms to that type - containers,
    element types (up to the platform alias classes) and shapes at every nesting level. -/
theorem kept_value_conforms (st : State) (h : Reachable Variant.fixed st) (r : VarRef) (o : OutVar)
    (pv : PropValue) (ho : st.var? r = some o) (hv : o.value = some pv) :
    o.type = some pv.type ∧ conforms pv.type pv.value := by
  unfold State.var? at ho
  cases hn : st[r.node]? with
  | none => simp [hn] at ho
  | some n =>
    simp only [hn] at ho
    exact (reachable_inv st h r.node n hn).1 o (List.mem_of_getElem? ho) pv hv

/-- A valued Var belongs to a non-Argument node all of whose inputs are valued Vars. -/
theorem valued_step (st : State) (h : Reachable Variant.fixed st) (r : VarRef) (o : OutVar)
    (ho : st.var? r = some o) (hv : o.value.isSome = true) :
    ∃ n, st[r.node]? = some n ∧ n.kind ≠ .argument ∧
      ∀ i ∈ n.inputs, ∃ oi, st.var? i = some oi ∧ oi.value.isSome = true := by
  unfold State.var? at ho
  cases hn : st[r.node]? with
  | none => simp [hn] at ho
  | some n =>
    simp only [hn] at ho
    have := (reachable_inv st h r.node n hn).2.1 ⟨o, List.mem_of_getElem? ho, hv⟩
    exact ⟨n, rfl, this.1, fun i hi => (this.2 i hi).2⟩

/-- **value_is_input_independent.** A Var with a propagated value has no Argument node anywhere in
    its dependency cone: by induction along the cone, every Var met on the way is itself valued,
    and valued Vars never belong to Arguments. -/
theorem value_is_input_independent (st : State) (h : Reachable Variant.fixed st) (r : VarRef)
    (o : OutVar) (ho : st.var? r = some o) (hv : o.value.isSome = true)
    (a : Nat) (hc : InCone st a r) : ∀ n, st[a]? = some n → n.kind ≠ .argument := by
  induction hc generalizing o with
  | self r =>
    intro n hn
    obtain ⟨n', hn', hk, _⟩ := valued_step st h r o ho hv
    rw [hn] at hn'
    cases hn'
    exact hk
  | input hnode hi _ ih =>
    obtain ⟨n', hn', _, hins⟩ := valued_step st h _ o ho hv
    rw [hnode] at hn'
    cases hn'
    obtain ⟨oi, h1, h2⟩ := hins _ hi
    exact ih oi h1 h2

/-- **constant_propagation_exact.** The value a Constant / initializer Var gets is the embedded
    array itself (dtype-normalised), under the declared type - whatever the backend setting. -/
theorem constant_propagation_exact (st st' : State) (key : String) (ty : Option Ty) (p : Payload)
    (h : step Variant.fixed st (.constant key ty p) = .ok st') :
    ∃ n, st' = st ++ [n] ∧ n.kind = .constant ∧
      ∀ o ∈ n.outputs, ∀ pv, o.value = some pv →
        ∃ t, ty = some t ∧ pv = PropValue.new t p ∧ n.sem [] o.key = some pv.value := by
  simp only [step, Except.ok.injEq] at h
  refine ⟨_, h.symm, rfl, ?_⟩
  intro o ho pv hpv
  simp only [merge, List.map_cons, List.map_nil, List.mem_singleton] at ho
  subst ho
  rcases C15.mergeOne_value [(key, p)] ⟨key, ty, none⟩ pv hpv with h1 | ⟨_, h2, _, q, hq, hpq⟩
  · cases h1
  · simp only [dictGet, ↓reduceIte, Option.some.injEq] at hq
    subst hq
    refine ⟨pv.type, h2, hpq, ?_⟩
    rw [(C15.mergeOne_key_type _ _ _).1, hpq]
    simp [PropValue.new, PropValue.value]

/-- **mapping_correct.** For a standard node with any number of outputs: the value stored in the
    output field `k` is the conversion - under the type of the output Var called `k` - of the raw
    result the backend listed *under the name `k`* (never of a result listed under another name),
    provided the evaluator names graph outputs only (it does not echo input names). -/
theorem mapping_correct (sel : BackendSel) (ctx : NodeCtx) (names : List String) (vals : List RefVal)
    (res : List (OutVar × Bool))
    (h : construct Variant.fixed sel .standard ctx (.ret names vals) = .ok res)
    (hfresh : ∀ o ∈ ctx.outputs, o.value = none)
    (hin : ∀ n ∈ names, ∀ i ∈ ctx.inputs, i.name ≠ n) :
    ∀ ow ∈ res, ∀ pv, ow.1.value = some pv →
      ∃ r t pv', (ow.1.key, r) ∈ names.zip vals ∧
        (∃ o ∈ ctx.outputs, o.key = ow.1.key ∧ o.type = some t) ∧
        unwrapFeed sel t r = .ok pv' ∧ pv = PropValue.new pv.type pv'.value := by
  intro ow how pv hpv
  unfold construct at h
  split at h
  · cases h
  · rename_i valsD hprop
    simp only [Except.ok.injEq] at h
    subst h
    simp only [merge, List.mem_map] at how
    obtain ⟨o, ho, rfl⟩ := how
    rcases C15.mergeOne_value valsD o pv hpv with h1 | ⟨_, _, _, p, hget, hpq⟩
    · rw [hfresh o ho] at h1; cases h1
    · rw [(C15.mergeOne_key_type _ valsD o).1]
      -- where does `valsD` come from?
      have hsrc : ∃ rs, convertAll sel ctx (dictOf (names.zip vals)) = .ok rs ∧ valsD = keyed rs := by
        cases sel with
        | none => simp [propagate, propagateStd] at hprop; subst hprop; simp [dictGet] at hget
        | reference =>
          simp only [propagate, propagateStd, propagateOnnx, runCatch] at hprop
          split at hprop
          · simp only [Except.ok.injEq] at hprop; subst hprop; simp [dictGet] at hget
          · split at hprop
            · simp only [Except.ok.injEq] at hprop; subst hprop; simp [dictGet] at hget
            · split at hprop
              · rename_i rs hc
                simp only [Except.ok.injEq] at hprop
                exact ⟨rs, hc, hprop.symm⟩
              · simp only [Variant.fixed, ↓reduceIte, Except.ok.injEq] at hprop
                subst hprop; simp [dictGet] at hget
        | onnxruntime =>
          simp only [propagate, propagateStd, propagateOnnx, runCatch] at hprop
          split at hprop
          · simp only [Except.ok.injEq] at hprop; subst hprop; simp [dictGet] at hget
          · split at hprop
            · simp only [Except.ok.injEq] at hprop; subst hprop; simp [dictGet] at hget
            · split at hprop
              · rename_i rs hc
                simp only [Except.ok.injEq] at hprop
                exact ⟨rs, hc, hprop.symm⟩
              · simp only [Variant.fixed, ↓reduceIte, Except.ok.injEq] at hprop
                subst hprop; simp [dictGet] at hget
      obtain ⟨rs, hc, rfl⟩ := hsrc
      have hmem := mem_dictOf _ _ (dictGet_mem _ _ _ hget)
      simp only [List.mem_filterMap] at hmem
      obtain ⟨⟨k0, p0⟩, hk0, hk1⟩ := hmem
      cases k0 with
      | none => simp at hk1
      | some k =>
        simp only [Option.map_some, Option.some.injEq, Prod.mk.injEq] at hk1
        obtain ⟨rfl, rfl⟩ := hk1
        obtain ⟨name, r, ty, pv', hfeed, hlook, hu, hval⟩ := convertAll_mem sel ctx _ rs hc _ _ hk0
        have hz := mem_dictOf _ _ hfeed
        have hname : name ∈ names := (List.of_mem_zip hz).1
        obtain ⟨o', ho', hk', hkk, hty⟩ := scopeLookup_output ctx name _ _ (hin name hname) hlook
        simp only [Option.some.injEq] at hkk
        subst hkk
        exact ⟨r, ty, pv', hz, ⟨o', ho', hk', hty.symm⟩, hu, by rw [hval]; exact hpq⟩

/-- **fold_correct (one construction step; partial).** *If* the backend is extensionally the run-time
    semantics on this constant-fed singleton model - i.e. whatever it lists under an output name
    converts to that output's run-time value `sem k` - *then* every value attached to an output Var
    is that Var's run-time value. Together with `value_is_input_independent` (the fed values do not
    depend on any model input) this is the folding argument for one node; the composition over whole
    histories with C01's denotation is not proved here (the oracle compares with onnxruntime). -/
theorem fold_correct_partial (sel : BackendSel) (ctx : NodeCtx) (names : List String)
    (vals : List RefVal) (res : List (OutVar × Bool)) (sem : String → Option Payload)
    (h : construct Variant.fixed sel .standard ctx (.ret names vals) = .ok res)
    (hfresh : ∀ o ∈ ctx.outputs, o.value = none)
    (hin : ∀ n ∈ names, ∀ i ∈ ctx.inputs, i.name ≠ n)
    (hsem : ∀ k r t pv', (k, r) ∈ names.zip vals → (∃ o ∈ ctx.outputs, o.key = k ∧ o.type = some t) →
      unwrapFeed sel t r = .ok pv' → sem k = some pv'.value) :
    ∀ ow ∈ res, ∀ pv, ow.1.value = some pv →
      ∃ q, sem ow.1.key = some q ∧ pv = PropValue.new pv.type q := by
  intro ow how pv hpv
  obtain ⟨r, t, pv', h1, h2, h3, h4⟩ := mapping_correct sel ctx names vals res h hfresh hin ow how pv hpv
  exact ⟨pv'.value, hsem _ r t pv' h1 h2 h3, h4⟩

/-! ### the guards: nodes that do not propagate (sampling operators, subgraph carriers, inlined control flow, NONE) -/

/-- `merge` with no backend values attaches nothing to fresh outputs. -/
theorem merge_nil_valueless (outs : List OutVar) (hfresh : ∀ o ∈ outs, o.value = none) :
    ∀ p ∈ merge Variant.fixed [] outs, p.1.value = none := by
  intro p hp
  simp only [merge, List.mem_map] at hp
  obtain ⟨o, ho, rfl⟩ := hp
  have : mergeOne Variant.fixed [] o = (o, false) := by
    unfold mergeOne
    cases o.type <;> cases o.value <;> simp [dictGet]
  rw [this]; exact hfresh o ho

/-- A node that does not propagate (`propagates sel t = false`: backend NONE, a sampling operator, a
    subgraph-carrying operator, an inlined model with control flow) hands `Node.inference` the empty
    dict - whatever its inputs carry and whatever the backend would have done (it is not consulted). -/
theorem guarded_propagates_nothing (sel : BackendSel) (k : Kind) (ctx : NodeCtx) (t : Traits) (b : Backend)
    (hctx : ctx.hasSubgraph = t.skips) (hp : propagates sel t = false) :
    propagate Variant.fixed sel ctx b k = .ok [] := by
  cases k with
  | standard =>
    cases sel with
    | none => rfl
    | reference =>
      have hs : ctx.hasSubgraph = true := by rw [hctx]; simpa [propagates] using hp
      by_cases h1 : (ctx.inputs.any fun i => i.type.isNone || !i.hasValue) = true
      · simp [propagate, propagateStd, propagateOnnx, h1]
      · simp [propagate, propagateStd, propagateOnnx, h1, hs]
    | onnxruntime =>
      have hs : ctx.hasSubgraph = true := by rw [hctx]; simpa [propagates] using hp
      by_cases h1 : (ctx.inputs.any fun i => i.type.isNone || !i.hasValue) = true
      · simp [propagate, propagateStd, propagateOnnx, h1]
      · simp [propagate, propagateStd, propagateOnnx, h1, hs]
  | inline g =>
    by_cases h1 : (ctx.inputs.any fun i => i.type.isNone || !i.hasValue) = true
    · simp [propagate, propagateInline, h1]
    · cases sel with
      | none => simp [propagate, propagateInline, h1, Variant.fixed]
      | reference =>
        have hs : ctx.hasSubgraph = true := by rw [hctx]; simpa [propagates] using hp
        simp [propagate, propagateInline, h1, hs]
      | onnxruntime =>
        have hs : ctx.hasSubgraph = true := by rw [hctx]; simpa [propagates] using hp
        simp [propagate, propagateInline, h1, hs]

/-- **guarded_node_valueless.** Constructing a node that does not propagate succeeds and leaves every
    output Var without a value: *a kept value is never one of a sampling / control-flow-carrying node*
    (nor of any operator under backend NONE) - for every backend behaviour, incl. exceptions of any class. -/
theorem guarded_node_valueless (sel : BackendSel) (k : Kind) (ctx : NodeCtx) (t : Traits) (b : Backend)
    (hctx : ctx.hasSubgraph = t.skips) (hp : propagates sel t = false)
    (hfresh : ∀ o ∈ ctx.outputs, o.value = none) :
    ∃ res, construct Variant.fixed sel k ctx b = .ok res ∧ ∀ p ∈ res, p.1.value = none := by
  refine ⟨merge Variant.fixed [] ctx.outputs, ?_, merge_nil_valueless _ hfresh⟩
  simp [construct, guarded_propagates_nothing sel k ctx t b hctx hp]

/-- History level, operators: the node appended by a `standard` step whose traits do not propagate
    carries no value (and the step cannot raise for existing inputs). -/
theorem guarded_standard_step_valueless (st st' : State) (sel : BackendSel) (inputs : List VarRef)
    (inNames : List String) (outs : List (String × Option Ty)) (t : Traits) (b : Backend)
    (sem : List Payload → String → Option Payload) (hp : propagates sel t = false)
    (h : step Variant.fixed st (.standard sel inputs inNames outs t b sem) = .ok st') :
    ∃ n, st' = st ++ [n] ∧ n.kind = .standard ∧ ∀ o ∈ n.outputs, o.value = none := by
  simp only [step] at h
  split at h
  · cases h
  · obtain ⟨res, hres, hval⟩ := guarded_node_valueless sel .standard
      (mkCtx st inputs inNames outs t.skips) t b rfl hp (mkCtx_fresh _ _ _ _ _)
    rw [hres] at h
    simp only [Except.ok.injEq] at h
    refine ⟨_, h.symm, rfl, ?_⟩
    intro o ho
    simp only [List.mem_map] at ho
    obtain ⟨p, hp', rfl⟩ := ho
    exact hval p hp'

/-- History level, inlined models (control flow inside, or backend NONE). -/
theorem guarded_inline_step_valueless (st st' : State) (sel : BackendSel) (inputs : List VarRef)
    (inNames gnames : List String) (outs : List (String × Option Ty)) (t : Traits) (b : Backend)
    (sem : List Payload → String → Option Payload) (hp : propagates sel t = false)
    (h : step Variant.fixed st (.inline sel inputs inNames gnames outs t b sem) = .ok st') :
    ∃ n, st' = st ++ [n] ∧ n.kind = .inline ∧ ∀ o ∈ n.outputs, o.value = none := by
  simp only [step] at h
  split at h
  · cases h
  · obtain ⟨res, hres, hval⟩ := guarded_node_valueless sel (.inline gnames)
      (mkCtx st inputs inNames outs t.skips) t b rfl hp (mkCtx_fresh _ _ _ _ _)
    rw [hres] at h
    simp only [Except.ok.injEq] at h
    refine ⟨_, h.symm, rfl, ?_⟩
    intro o ho
    simp only [List.mem_map] at ho
    obtain ⟨p, hp', rfl⟩ := ho
    exact hval p hp'


/-- **guarded_nodes_valueless** (all histories). In every reachable state, a node that was constructed
    without propagating - a sampling operator, a subgraph carrier, an inlined model with control flow, any
    operator under backend NONE - carries no value on any output, now and in every later state (nodes are
    only appended). Together with `value_is_input_independent`: a kept value never stems from such a node. -/
theorem guarded_nodes_valueless (st : State) (h : Reachable Variant.fixed st) :
    ∀ (idx : Nat) (n : NodeRec), st[idx]? = some n → n.guarded = true → ∀ o ∈ n.outputs, o.value = none := by
  induction h with
  | empty => intro idx n hn; simp at hn
  | @step st st' s _ hs ih =>
    cases s with
    | argument key ty =>
      simp only [step, Except.ok.injEq] at hs
      subst hs
      intro idx n hn hg
      rcases getElem?_snoc st _ idx n hn with h1 | ⟨_, rfl⟩
      · exact ih idx n h1 hg
      · cases hg
    | constant key ty p =>
      simp only [step, Except.ok.injEq] at hs
      subst hs
      intro idx n hn hg
      rcases getElem?_snoc st _ idx n hn with h1 | ⟨_, rfl⟩
      · exact ih idx n h1 hg
      · cases hg
    | standard sel inputs inNames outs t b sem =>
      simp only [step] at hs
      split at hs
      · cases hs
      · split at hs
        · cases hs
        · rename_i res hres
          simp only [Except.ok.injEq] at hs
          subst hs
          intro idx n hn hg
          rcases getElem?_snoc st _ idx n hn with h1 | ⟨_, rfl⟩
          · exact ih idx n h1 hg
          · have hp : propagates sel t = false := by simpa using hg
            obtain ⟨res', hres', hval⟩ := guarded_node_valueless sel .standard
              (mkCtx st inputs inNames outs t.skips) t b rfl hp (mkCtx_fresh _ _ _ _ _)
            rw [hres] at hres'
            simp only [Except.ok.injEq] at hres'
            subst hres'
            intro o ho
            simp only [List.mem_map] at ho
            obtain ⟨p, hp', rfl⟩ := ho
            exact hval p hp'
    | inline sel inputs inNames gnames outs t b sem =>
      simp only [step] at hs
      split at hs
      · cases hs
      · split at hs
        · cases hs
        · rename_i res hres
          simp only [Except.ok.injEq] at hs
          subst hs
          intro idx n hn hg
          rcases getElem?_snoc st _ idx n hn with h1 | ⟨_, rfl⟩
          · exact ih idx n h1 hg
          · have hp : propagates sel t = false := by simpa using hg
            obtain ⟨res', hres', hval⟩ := guarded_node_valueless sel (.inline gnames)
              (mkCtx st inputs inNames outs t.skips) t b rfl hp (mkCtx_fresh _ _ _ _ _)
            rw [hres] at hres'
            simp only [Except.ok.injEq] at hres'
            subst hres'
            intro o ho
            simp only [List.mem_map] at ho
            obtain ⟨p, hp', rfl⟩ := ho
            exact hval p hp'

/-- A node that samples was constructed without propagating. -/
theorem sampling_guarded (st : State) (h : Reachable Variant.fixed st) :
    ∀ (idx : Nat) (n : NodeRec), st[idx]? = some n → n.sampling = true → n.guarded = true := by
  induction h with
  | empty => intro idx n hn; simp at hn
  | @step st st' s _ hs ih =>
    have key : ∀ (sel : BackendSel) (t : Traits), t.sampling = true → (!propagates sel t) = true := by
      intro sel t ht
      cases sel <;> simp [propagates, Traits.skips, ht]
    cases s with
    | argument key ty =>
      simp only [step, Except.ok.injEq] at hs
      subst hs
      intro idx n hn hg
      rcases getElem?_snoc st _ idx n hn with h1 | ⟨_, rfl⟩
      · exact ih idx n h1 hg
      · cases hg
    | constant key ty p =>
      simp only [step, Except.ok.injEq] at hs
      subst hs
      intro idx n hn hg
      rcases getElem?_snoc st _ idx n hn with h1 | ⟨_, rfl⟩
      · exact ih idx n h1 hg
      · cases hg
    | standard sel inputs inNames outs t b sem =>
      simp only [step] at hs
      split at hs
      · cases hs
      · split at hs
        · cases hs
        · simp only [Except.ok.injEq] at hs
          subst hs
          intro idx n hn hg
          rcases getElem?_snoc st _ idx n hn with h1 | ⟨_, rfl⟩
          · exact ih idx n h1 hg
          · exact key sel t hg
    | inline sel inputs inNames gnames outs t b sem =>
      simp only [step] at hs
      split at hs
      · cases hs
      · split at hs
        · cases hs
        · simp only [Except.ok.injEq] at hs
          subst hs
          intro idx n hn hg
          rcases getElem?_snoc st _ idx n hn with h1 | ⟨_, rfl⟩
          · exact ih idx n h1 hg
          · exact key sel t hg

/-- **sampling_nodes_valueless.** In every reachable state no output of a sampling node carries a value. -/
theorem sampling_nodes_valueless (st : State) (h : Reachable Variant.fixed st) (idx : Nat) (n : NodeRec)
    (hn : st[idx]? = some n) (hs : n.sampling = true) : ∀ o ∈ n.outputs, o.value = none :=
  guarded_nodes_valueless st h idx n hn (sampling_guarded st h idx n hn hs)

/-! ### fold_correct over whole histories -/

/-- The payload a Var carries (the `none` payload if it carries nothing). -/
def payloadOf (st : State) (r : VarRef) : Payload :=
  match (st.var? r).bind (·.value) with
  | some pv => pv.value
  | none => .none

/-- **The hypothesis of `fold_correct`**: on every operator / inlined-model node, each value the
    backend's result led spox to attach is the node's run-time meaning `sem` applied to the values
    that were fed - "the backend is extensionally the run-time semantics on constant-fed singleton
    models". (For Constant / initializer nodes nothing is assumed: that their value is the embedded
    array is part of the invariant.) -/
def Faithful (st : State) : Prop :=
  ∀ (idx : Nat) (n : NodeRec), st[idx]? = some n → (n.kind = .standard ∨ n.kind = .inline) →
    ∀ o ∈ n.outputs, ∀ pv, o.value = some pv →
      n.sem (n.inputs.map (payloadOf st)) o.key = some pv.value

theorem step_snoc (v : Variant) (st st' : State) (s : Step) (h : step v st s = .ok st') :
    ∃ n, st' = st ++ [n] := by
  cases s with
  | argument key ty => simp only [step, Except.ok.injEq] at h; exact ⟨_, h.symm⟩
  | constant key ty p => simp only [step, Except.ok.injEq] at h; exact ⟨_, h.symm⟩
  | standard sel inputs inNames outs hasSub b sem =>
    simp only [step] at h
    split at h
    · cases h
    · split at h
      · cases h
      · simp only [Except.ok.injEq] at h; exact ⟨_, h.symm⟩
  | inline sel inputs inNames gnames outs traits b sem =>
    simp only [step] at h
    split at h
    · cases h
    · split at h
      · cases h
      · simp only [Except.ok.injEq] at h; exact ⟨_, h.symm⟩

theorem table_snoc (bind : Nat → Payload) (smp : Nat → String → Option Payload) (st : State) (n : NodeRec) :
    table bind smp (st ++ [n]) =
      table bind smp st ++ [rowOf bind smp (table bind smp st) (table bind smp st).length n] := by
  simp [table, List.foldl_append]

theorem var?_append_lt (st : State) (n : NodeRec) (r : VarRef) (h : r.node < st.length) :
    State.var? (st ++ [n]) r = st.var? r := by
  simp [State.var?, List.getElem?_append_left h]

theorem payloadOf_append (st : State) (n : NodeRec) (i : VarRef) (oi : OutVar)
    (h : st.var? i = some oi) : payloadOf (st ++ [n]) i = payloadOf st i := by
  simp [payloadOf, var?_append st n i oi h, h]

theorem Faithful.prefix {st : State} {n : NodeRec} (hr : Reachable Variant.fixed st)
    (hf : Faithful (st ++ [n])) : Faithful st := by
  intro idx m hm hk o ho pv hpv
  have hlt : idx < st.length := by
    rcases Nat.lt_or_ge idx st.length with h1 | h1
    · exact h1
    · simp [List.getElem?_eq_none h1] at hm
  have hm' : (st ++ [n])[idx]? = some m := by rw [List.getElem?_append_left hlt]; exact hm
  have := hf idx m hm' hk o ho pv hpv
  have hok := (reachable_inv st hr idx m hm).2.1 ⟨o, ho, by simp [hpv]⟩
  have hmap : m.inputs.map (payloadOf (st ++ [n])) = m.inputs.map (payloadOf st) := by
    apply List.map_congr_left
    intro i hi
    obtain ⟨_, oi, h1, _⟩ := hok.2 i hi
    exact payloadOf_append st n i oi h1
  rw [hmap] at this
  exact this

theorem fold_correct_aux (bind : Nat → Payload) (smp : Nat → String → Option Payload) (st : State) (h : Reachable Variant.fixed st) :
    Faithful st →
      (table bind smp st).length = st.length ∧
      ∀ r o pv, st.var? r = some o → o.value = some pv → denote bind smp st r = some pv.value := by
  induction h with
  | empty =>
    intro _
    refine ⟨rfl, ?_⟩
    intro r o pv ho
    simp [State.var?] at ho
  | @step st st' s hreach hs ih =>
    intro hf
    obtain ⟨n, rfl⟩ := step_snoc _ _ _ s hs
    have hreach' : Reachable Variant.fixed (st ++ [n]) := Reachable.step s hreach hs
    obtain ⟨hlen, hvals⟩ := ih (Faithful.prefix hreach hf)
    refine ⟨by rw [table_snoc]; simp [hlen], ?_⟩
    intro r o pv ho hv
    by_cases hr : r.node < st.length
    · -- an older Var: nothing changed
      have ho' : st.var? r = some o := by rw [← var?_append_lt st n r hr]; exact ho
      have : denote bind smp (st ++ [n]) r = denote bind smp st r := by
        unfold denote
        rw [table_snoc, List.getElem?_append_left (by rw [hlen]; exact hr)]
      rw [this]
      exact hvals r o pv ho' hv
    · -- a Var of the new node
      have hlt := var?_some_lt _ r o ho
      have hrn : r.node = st.length := by simp at hlt; omega
      have hnode : (st ++ [n])[st.length]? = some n := by simp
      have hout : n.outputs[r.out]? = some o := by
        simpa [State.var?, hrn] using ho
      have hmem : o ∈ n.outputs := List.mem_of_getElem? hout
      have hok := reachable_inv _ hreach' st.length n hnode
      obtain ⟨hkind, hins⟩ := hok.2.1 ⟨o, hmem, by simp [hv]⟩
      -- the run-time values of the inputs are the values that were fed
      have hmap : n.inputs.map (fun i =>
            (((table bind smp st)[i.node]?.bind fun row => row[i.out]?).join).getD Payload.none)
          = n.inputs.map (payloadOf (st ++ [n])) := by
        apply List.map_congr_left
        intro i hi
        obtain ⟨hilt, oi, h1, h2⟩ := hins i hi
        have h1' : st.var? i = some oi := by rw [← var?_append_lt st n i hilt]; exact h1
        obtain ⟨pvi, hpvi⟩ := Option.isSome_iff_exists.mp h2
        have := hvals i oi pvi h1' hpvi
        unfold denote at this
        rw [this]
        simp [payloadOf, h1, hpvi]
      have hsem : n.sem (n.inputs.map (payloadOf (st ++ [n]))) o.key = some pv.value := by
        cases hk : n.kind with
        | argument => exact absurd hk hkind
        | constant => exact hok.2.2 hk o hmem pv hv _
        | standard => exact hf st.length n hnode (Or.inl hk) o hmem pv hv
        | inline => exact hf st.length n hnode (Or.inr hk) o hmem pv hv
      unfold denote
      rw [table_snoc, hrn, ← hlen]
      simp only [List.getElem?_concat_length, Option.bind_some]
      have hrow : rowOf bind smp (table bind smp st) (table bind smp st).length n
          = n.outputs.map fun o => n.sem (n.inputs.map (payloadOf (st ++ [n]))) o.key := by
        have hns : n.sampling = false := by
          cases hsm : n.sampling with
          | false => rfl
          | true =>
            have := sampling_nodes_valueless _ hreach' st.length n hnode hsm o hmem
            rw [this] at hv; cases hv
        unfold rowOf
        cases hk : n.kind with
        | argument => exact absurd hk hkind
        | constant => simp only [hns, hmap, Bool.false_eq_true, ↓reduceIte]
        | standard => simp only [hns, hmap, Bool.false_eq_true, ↓reduceIte]
        | inline => simp only [hns, hmap, Bool.false_eq_true, ↓reduceIte]
      rw [hrow, List.getElem?_map, hout]
      simp [hsem]

/-- **fold_correct.** For every reachable program state: *if* the backend was extensionally the
    run-time semantics at every operator / inlined-model call (`Faithful`), *then* every Var that
    carries a propagated value has exactly that value at run time **under every binding of the model
    inputs and every outcome of the random draws** - `denote bind smp` evaluates the whole program node by
    node from the binding, a sampling node (sampling operator, inlined model that samples) yielding whatever
    `smp` says it drew in that run: the theorem quantifies over ALL sample functions, i.e. the semantics of
    sampling nodes is relational and no function `sem` of their inputs is assumed for them. (Induction
    over the history; the fed values are run-time values by the induction hypothesis, Arguments never
    occur below a valued Var, Constants denote their embedded array.) `denote` is this file's own
    evaluator of histories; its agreement with the built ONNX model is C01's `valid_sound`. -/
theorem fold_correct (bind : Nat → Payload) (smp : Nat → String → Option Payload) (st : State) (h : Reachable Variant.fixed st)
    (hf : Faithful st) (r : VarRef) (o : OutVar) (pv : PropValue)
    (ho : st.var? r = some o) (hv : o.value = some pv) :
    denote bind smp st r = some pv.value :=
  (fold_correct_aux bind smp st h hf).2 r o pv ho hv

/-- The propagated value does not depend on the binding: two bindings give the same run-time value. -/
theorem fold_binding_independent (b1 b2 : Nat → Payload) (s1 s2 : Nat → String → Option Payload) (st : State)
    (h : Reachable Variant.fixed st) (hf : Faithful st) (r : VarRef) (o : OutVar) (pv : PropValue)
    (ho : st.var? r = some o) (hv : o.value = some pv) :
    denote b1 s1 st r = denote b2 s2 st r := by
  rw [fold_correct b1 s1 st h hf r o pv ho hv, fold_correct b2 s2 st h hf r o pv ho hv]

/-- `fold_correct`'s hypothesis asks NOTHING of a node without values: for sampling operators (whose
    run-time result is no function of their inputs - any `sem` whatsoever may stand for one run's draw)
    and control-flow carriers the backend is never assumed to compute the run-time semantics. So
    `fold_correct` holds with the hypothesis restricted to the nodes that propagate. -/
theorem faithful_snoc_valueless (st : State) (n : NodeRec) (hF : Faithful st)
    (hr : Reachable Variant.fixed st) (hn : ∀ o ∈ n.outputs, o.value = none) : Faithful (st ++ [n]) := by
  intro idx m hm hk o ho pv hpv
  rcases getElem?_snoc st _ idx m hm with h1 | ⟨_, rfl⟩
  · have := hF idx m h1 hk o ho pv hpv
    have hlt : ∀ i ∈ m.inputs, i.node < st.length := by
      intro i hi
      have hinv := reachable_inv st hr idx m h1
      have hidx : idx < st.length := by
        rcases Nat.lt_or_ge idx st.length with h | h
        · exact h
        · simp [List.getElem?_eq_none h] at h1
      have := hinv.2.1 ⟨o, ho, by simp [hpv]⟩
      exact Nat.lt_trans (this.2 i hi).1 hidx
    rw [show m.inputs.map (payloadOf (st ++ [n])) = m.inputs.map (payloadOf st) from
      List.map_congr_left fun i hi => by simp [payloadOf, var?_append_lt st n i (hlt i hi)]]
    exact this
  · rw [hn o ho] at hpv; cases hpv

/-! ### the sources of propagated values are exactly the modelled ones (tie G) -/

/-- The `propagate_values` implementations the history model covers: `Node`'s default (nothing),
    `StandardNode` (`Step.standard`), `_Inline` (`Step.inline`), `_Initializer` and the opsets'
    `_Constant` (`Step.constant`). Control-flow operators, `_Introduce`, functions ... inherit one of
    these; a class that starts to override `propagate_values` is a source of "constants" outside
    every theorem of this file. -/
def modelledOverride : String × String × String → Bool
  | ("core", "_node.py", "Node") => true
  | ("core", "_standard.py", "StandardNode") => true
  | ("core", "_inline.py", "_Inline") => true
  | ("core", "_internal_op.py", "_Initializer") => true
  | ("opset", _, "_Constant") => true
  | _ => false

/-- **generated_overrides_modelled.** Every class that overrides `propagate_values` in the source
    tree extracted on this run (`Generated/VPOverrides.lean`) is one the model covers. -/
theorem generated_overrides_modelled :
    Generated.VPOverrides.overrides.all modelledOverride = true := by decide


/-- **generated_sampling_guarded** (tie G). On the source tree and the onnx installation of this run:
    every sampling operator schema (a `seed` attribute or a sampling name, any domain, any version) is a
    default-domain operator listed in `_NON_DETERMINISTIC_OPS`; nothing else is listed (a deterministic
    operator would silently lose propagation); `propagate_values_onnx` consults the set and returns `{}`
    before the backend is obtained; `_Inline.propagate_values` tests for subgraph attributes before the
    backend is obtained, and for nodes listed in the set (fix d14b9fe: an inlined model that samples). These are the facts the harness reports as `Traits` to the model. -/
theorem generated_sampling_guarded :
    (Generated.VPSampling.sampling.all fun p => p.1 == "" && Generated.VPSampling.listed.contains p.2) = true ∧
    (Generated.VPSampling.listed.all fun n => Generated.VPSampling.sampling.contains ("", n)) = true ∧
    Generated.VPSampling.guardCalled = true ∧ Generated.VPSampling.inlineGuard = true ∧
    Generated.VPSampling.inlineSamplingGuard = true := by decide


/-! ### the feed side: a kept value reaches the next backend call unchanged (round 10)

`fold_correct` assumes that the backend computes the run-time meaning *of the values the input Vars carry*
(`Faithful`). Between a Var's value and the evaluator sits `wrap_feed` (`to_ref_value` / `to_ort_value`,
`Model/VPFeed.lean`), and between the evaluator and the next Var `unwrap_feed`. The theorems below say the two
are inverse on every value `Node.inference` keeps: nothing is lost or altered on the way in. -/

theorem normalise_idem (p : Payload) : p.normalise.normalise = p.normalise := by
  cases p with
  | arr dt sh pid => cases dt <;> simp [Payload.normalise, DT.isNumber, DT.norm]
  | list _ => rfl
  | some _ => rfl
  | none => rfl

/-- **feed_roundtrip** (full strength: every type of the class `feedOk`, any nesting depth, both backends).
    A value that passed the guard of `Node.inference` (`check` on `PropValue(var.type, ·)`), converted by
    `wrap_feed` of the selected backend and converted back by its `unwrap_feed` under the Var's type, is
    `retype t ·` of itself: same containers, same arrays, same shapes, element type exactly the declared one,
    nested PropValues declared with the element type. In particular the conversion back never raises. -/
theorem feed_roundtrip (sel : BackendSel) (t : Ty) (p : Payload) (r : RefVal)
    (hw : feedOk sel t = true) (hc : check Variant.fixed (PropValue.new t p) = true)
    (hf : wrapFeed sel (PropValue.new t p).value = .ok r) :
    unwrapFeed sel t r = .ok (.mk t (retype t (PropValue.new t p).value)) := by
  have hc' : checkRec t p.normalise.normalise = true := by
    rw [normalise_idem]
    simpa [check, Variant.fixed, PropValue.new, PropValue.type, PropValue.value] using hc
  cases sel with
  | none => cases hf
  | reference =>
    simp only [wrapFeed, Except.ok.injEq] at hf
    subst hf
    exact fromRef_toRef t _ hw hc'
  | onnxruntime =>
    simp only [wrapFeed, Except.ok.injEq] at hf
    subst hf
    exact fromOrt_toOrt t _ hw hc'

/-- On a tensor Var the round trip is the identity (the kept array already has the declared element type;
    object arrays of `str` - which no backend conversion produces, `C15.tensor_value_never_object` - become string arrays). -/
theorem feed_roundtrip_tensor (sel : BackendSel) (e : DT) (s : Shape) (dt : DT) (sh : List Nat) (pid : Nat)
    (r : RefVal) (he : e.isElem = true) (hobj : dt ≠ .object)
    (hc : check Variant.fixed (PropValue.new (.tensor e s) (.arr dt sh pid)) = true)
    (hf : wrapFeed sel (PropValue.new (.tensor e s) (.arr dt sh pid)).value = .ok r) :
    unwrapFeed sel (.tensor e s) r = .ok (PropValue.new (.tensor e s) (.arr dt sh pid)) := by
  have h := feed_roundtrip sel (.tensor e s) (.arr dt sh pid) r
    (by cases sel <;> simp [feedOk, Ty.refOk, Ty.ortOk, Ty.optFree, he]) hc hf
  rw [h]
  have hc' : dtMatch (if dt.isNumber then dt.norm else dt) e = true := by
    have hc2 := hc
    simp [check, Variant.fixed, PropValue.new, PropValue.type, PropValue.value, Payload.normalise,
      checkRec, checkTensor_eq] at hc2
    exact hc2.2
  revert hc' he hobj
  cases dt <;> cases e <;> simp [PropValue.new, Payload.normalise, retype, PropValue.value, DT.isNumber, DT.norm, dtMatch, DT.isElem]


/-- **converted_value_roundtrips_exactly** (full strength, both backends, every type of the class, any depth).
    A value that `unwrap_feed` produced from ANY raw backend result `r0` and that passed `check` - i.e. every
    value an operator or inlined model ever attaches - is an exact fixed point of the feed: handed to the next
    backend call by `wrap_feed` and read back under the same type it is the SAME PropValue (declared types of
    nested elements included). -/
theorem converted_value_roundtrips_exactly (sel : BackendSel) (t : Ty) (r0 : RefVal) (pv : PropValue)
    (hw : feedOk sel t = true) (h0 : unwrapFeed sel t r0 = .ok pv) (hc : check Variant.fixed pv = true) :
    ∃ fed, wrapFeed sel pv.value = .ok fed ∧ unwrapFeed sel t fed = .ok pv := by
  have hnew : ∃ v, pv = PropValue.new t v := by
    cases sel with
    | none => cases h0
    | reference => exact fromRef_new t r0 pv h0
    | onnxruntime => exact fromOrt_new t r0 pv h0
  obtain ⟨v, rfl⟩ := hnew
  have hc' : checkRec t (PropValue.new t v).value = true := by
    simpa [check, Variant.fixed, PropValue.new, PropValue.type, PropValue.value] using hc
  have hfix : retype t (PropValue.new t v).value = (PropValue.new t v).value := by
    cases sel with
    | none => cases h0
    | reference => exact fromRef_fixed t r0 _ hw h0 hc'
    | onnxruntime => exact fromOrt_fixed t r0 _ hw h0 hc'
  cases sel with
  | none => cases h0
  | reference =>
    refine ⟨_, rfl, ?_⟩
    rw [feed_roundtrip .reference t v _ hw hc rfl, hfix]
    rfl
  | onnxruntime =>
    refine ⟨_, rfl, ?_⟩
    rw [feed_roundtrip .onnxruntime t v _ hw hc rfl, hfix]
    rfl

def feedBack (sel : BackendSel) (t : Ty) (p : Payload) : Except Exc PropValue :=
  match wrapFeed sel (PropValue.new t p).value with
  | .ok r => unwrapFeed sel t r
  | .error e => .error e

def isNone : Except Exc PropValue → Bool
  | .ok (.mk _ .none) => true
  | _ => false

/-- The hypothesis `feedOk` is needed - the code really loses values outside the class: an Optional directly
    inside an Optional comes back from the REFERENCE representation as `None` (`[None]` is unwrapped), and a
    Sequence of Optionals is fed to ONNXRUNTIME in the reference representation (`to_ort_value` converts nested
    values with `to_ref_value`), which `from_ort_value` cannot read (TypeError). Neither type occurs as the type
    of an ONNX operator output. -/
theorem feed_roundtrip_counterexample :
    (check Variant.fixed (PropValue.new (.opt (.opt C15.tI64x2)) (.some (.mk (.opt C15.tI64x2) .none))) = true ∧
      isNone (feedBack .reference (.opt (.opt C15.tI64x2)) (.some (.mk (.opt C15.tI64x2) .none))) = true) ∧
    (check Variant.fixed (PropValue.new (.seq (.opt C15.tI64x2))
        (.list [.mk (.opt C15.tI64x2) (.some (.mk C15.tI64x2 (.arr .i64 [2] 1)))])) = true ∧
      C15.raised (feedBack .onnxruntime (.seq (.opt C15.tI64x2))
        (.list [.mk (.opt C15.tI64x2) (.some (.mk C15.tI64x2 (.arr .i64 [2] 1)))])) = some .typeError) := by
  decide

/-- non-vacuity: an `Optional(Sequence(Tensor))` value with an alias-dtype element and a differently declared
    nested type goes through both representations and comes back as `retype` says. -/
def feedDemoTy : Ty := .opt (.seq C15.tI64x2)
def feedDemo : Payload :=
  .some (.mk (.seq (.tensor .i64 none)) (.list [.mk (.tensor .i64 none) (.arr .longlong [2] 4), .mk C15.tI64x2 (.arr .i64 [2] 5)]))

example : check Variant.fixed (PropValue.new feedDemoTy feedDemo) = true ∧ feedOk .reference feedDemoTy = true ∧
    feedOk .onnxruntime feedDemoTy = true := by decide
example : wrapFeed .reference feedDemo = .ok (.list [.list [.arr .longlong [2] 4, .arr .i64 [2] 5]]) ∧
    wrapFeed .onnxruntime feedDemo = .ok (.list [.arr .longlong [2] 4, .arr .i64 [2] 5]) := by
  constructor <;> rfl

/-! ### the pinned tree -/

/-- Pinned: a Sequence-typed Var ends up with a value that does not conform to its type. -/
theorem kept_value_conforms_counterexample :
    ∃ st pv, step Variant.pinned []
        (.standard .reference [] [] [("output", some (.seq C15.tI64x2))] Traits.plain
          (.ret ["output"] [C15.seqBad]) (fun _ _ => none)) = .ok st ∧
      (st.var? ⟨0, 0⟩).bind (·.value) = some pv ∧ ¬ conforms pv.type pv.value := by
  refine ⟨_, _, rfl, rfl, ?_⟩
  simp [PropValue.type, PropValue.value, PropValue.new, conforms, C15.tI64x2, dtConf, DT.norm,
    Payload.normalise, DT.isNumber]

/-! ### non-vacuity: histories do attach values, through several nodes -/

def demo : List Step :=
  [ .constant "output" (some (.tensor .i64 (some [.const 2]))) (.arr .i64 [2] 1),
    .argument "arg" (.tensor .i64 (some [.const 2])),
    .standard .reference [⟨0, 0⟩, ⟨0, 0⟩] ["A", "B"] [("C", some (.tensor .i64 (some [.const 2])))] Traits.plain
      (.ret ["C"] [.arr .i64 [2] 2]) (fun _ _ => some (.arr .i64 [2] 2)),
    .standard .reference [⟨2, 0⟩, ⟨1, 0⟩] ["A", "B"] [("C", some (.tensor .i64 (some [.const 2])))] Traits.plain
      (.ret ["C"] [.arr .i64 [2] 3]) (fun _ _ => some (.arr .i64 [2] 3)) ]

/-- constant and add(const, const) get values; the argument and add(·, argument) do not -
    even though the (misbehaving) backend returned a result for the latter. -/
example : (run Variant.fixed [] demo).map (fun n => n.outputs.map (·.value.isSome))
    = [[true], [false], [true], [false]] := by decide

def pidOf : Option Payload → Option Nat
  | some (.arr _ _ pid) => some pid
  | _ => none

/-- `denote` evaluates the demo program: the folded add has its value under any binding, the
    argument-dependent add follows the binding's meaning (here `sem` ignores it). -/
example : pidOf (denote (fun _ => .arr .i64 [2] 9) (fun _ _ => none) (run Variant.fixed [] demo) ⟨2, 0⟩) = some 2 ∧
    pidOf (denote (fun _ => .arr .i64 [2] 9) (fun _ _ => none) (run Variant.fixed [] demo) ⟨1, 0⟩) = some 9 := by decide

/-- Non-vacuity of the guards: the same constant-fed operator with the same (result-returning) backend
    attaches a value when it propagates and none when it is a sampling operator, a subgraph carrier, or
    the backend is NONE; an inlined model with control flow attaches none either. -/
def guardDemo (sel : BackendSel) (t : Traits) : List Step :=
  [ .constant "output" (some (.tensor .i64 (some [.const 2]))) (.arr .i64 [2] 1),
    .standard sel [⟨0, 0⟩] ["X"] [("Y", some (.tensor .i64 (some [.const 2])))] t
      (.ret ["Y"] [.arr .i64 [2] 2]) (fun _ _ => some (.arr .i64 [2] 2)),
    .inline sel [⟨0, 0⟩] ["x"] ["y"] [("outputs_0", some (.tensor .i64 (some [.const 2])))] t
      (.ret ["y"] [.arr .i64 [2] 3]) (fun _ _ => some (.arr .i64 [2] 3)) ]

def valuedMap (st : State) : List (List Bool) := st.map fun n => n.outputs.map (·.value.isSome)

example : valuedMap (run Variant.fixed [] (guardDemo .reference Traits.plain)) = [[true], [true], [true]] := by decide
example : valuedMap (run Variant.fixed [] (guardDemo .reference ⟨true, false, false⟩)) = [[true], [false], [false]] := by decide
example : valuedMap (run Variant.fixed [] (guardDemo .onnxruntime ⟨false, true, false⟩)) = [[true], [false], [false]] := by decide
example : valuedMap (run Variant.fixed [] (guardDemo .onnxruntime ⟨false, false, true⟩)) = [[true], [false], [false]] := by decide
example : valuedMap (run Variant.fixed [] (guardDemo .none Traits.plain)) = [[true], [false], [false]] := by decide
example : propagates .reference Traits.plain = true ∧ propagates .none Traits.plain = false ∧
    propagates .onnxruntime ⟨true, false, false⟩ = false := by decide

/-- Non-vacuity of the sampling semantics: a sampling node's run-time value is the draw of that run (77 here,
    whatever its `sem` field says), it carries no propagated value, and the folded Add next to it keeps its value
    under that and every other draw. -/
def demoS : List Step :=
  [ .constant "output" (some (.tensor .i64 (some [.const 2]))) (.arr .i64 [2] 1),
    .standard .reference [⟨0, 0⟩] ["input"] [("output", some (.tensor .i64 (some [.const 2])))] ⟨true, false, false⟩
      (.ret ["output"] [.arr .i64 [2] 5]) (fun _ _ => some (.arr .i64 [2] 5)),
    .standard .reference [⟨0, 0⟩, ⟨0, 0⟩] ["A", "B"] [("C", some (.tensor .i64 (some [.const 2])))] Traits.plain
      (.ret ["C"] [.arr .i64 [2] 2]) (fun _ _ => some (.arr .i64 [2] 2)) ]

example : valuedMap (run Variant.fixed [] demoS) = [[true], [false], [true]] := by decide
example : pidOf (denote (fun _ => .none) (fun _ _ => some (.arr .i64 [2] 77)) (run Variant.fixed [] demoS) ⟨1, 0⟩) = some 77 ∧
    pidOf (denote (fun _ => .none) (fun _ _ => some (.arr .i64 [2] 77)) (run Variant.fixed [] demoS) ⟨2, 0⟩) = some 2 ∧
    pidOf (denote (fun _ => .none) (fun _ _ => none) (run Variant.fixed [] demoS) ⟨2, 0⟩) = some 2 := by decide

end C07
