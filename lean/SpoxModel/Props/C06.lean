/-! Property theorems for C06 (only property-level statements and non-vacuity examples live here). -/
