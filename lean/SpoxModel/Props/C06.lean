import SpoxModel.Model.MLInfer
import SpoxModel.Model.RtShape
import SpoxModel.Model.ScanRun
import SpoxModel.Lemmas.MLShape
import SpoxModel.Model.IfInfer
import SpoxModel.Lemmas.IfJoin
import SpoxModel.Model.ScanState
import SpoxModel.Lemmas.ScanState
import SpoxModel.Generated.MLOverrides
/-!
# C06 — reported types are sound: runtime values always conform to them

For every operator `X` whose `infer_output_types` spox writes by hand:

  `X_sound : inferX a tys = .ok outs → (inputs conform) → rtX a vals = some w → conformsAll w outs`

for all ranks, all sizes of unknown dims and all attribute values. Where the pinned code is unsound
the full statement is refuted on a concrete witness (`X_counterexample`, by `decide`) and
`X_sound_partial` states what does hold, with the excluding hypothesis explicit.
-/
namespace C06M

/-! ## The override table (tie G) -/

/-- The `infer_output_types` overrides this model covers. -/
def modelledOverrides : List (String × String) :=
  [("ai.onnx.ml.v3", "ArrayFeatureExtractor"), ("ai.onnx.ml.v3", "Binarizer"),
   ("ai.onnx.ml.v3", "CategoryMapper"), ("ai.onnx.ml.v3", "Imputer"),
   ("ai.onnx.ml.v3", "LinearRegressor"), ("ai.onnx.ml.v3", "Normalizer"),
   ("ai.onnx.ml.v3", "OneHotEncoder"), ("ai.onnx.ml.v3", "Scaler"),
   ("ai.onnx.ml.v3", "TreeEnsembleClassifier"), ("ai.onnx.ml.v3", "TreeEnsembleRegressor"),
   ("ai.onnx.v17", "Compress"), ("ai.onnx.v17", "Loop")]

/-- Every override found in the source on this run is modelled, and nothing else is. -/
theorem overrides_all_modelled : Generated.MLOverrides.overrides = modelledOverrides := by decide

/-- The classes known to define `propagate_values`: the base (`Node`: nothing), `StandardNode` (runs
    the single node through the backend, never a node with subgraphs), `Constant` (its attribute),
    `_Initializer` (its value), `_Inline` (the inlined model, not through control flow). A propagated
    value enters reported shapes through ONNX's data propagation, so any other definition is a new way
    for a reported type to depend on a value; the value-dependent oracle covers exactly these. -/
def knownValueOverrides : List (String × String) :=
  [("_inline", "_Inline"), ("_internal_op", "_Initializer"), ("_node", "Node"), ("_standard", "StandardNode"),
   ("opset.ai.onnx.v17", "_Constant"), ("opset.ai.onnx.v19", "_Constant"), ("opset.ai.onnx.v21", "_Constant")]

theorem value_overrides_all_known : Generated.MLOverrides.valueOverrides = knownValueOverrides := by decide

/-- The operators of the default domain that SAMPLE (a built model draws afresh on every run, so no value
    computed from one sample may reach a reported shape) are all excluded from value propagation: the
    exclusion set read from `_standard.py` on this run — empty if `propagate_values_onnx` no longer
    consults it — contains every one of them. -/
def samplingOps : List String :=
  ["Bernoulli", "Dropout", "Multinomial", "RandomNormal", "RandomNormalLike", "RandomUniform", "RandomUniformLike"]

theorem sampling_ops_guarded :
    samplingOps.all (fun n => Generated.MLOverrides.samplingGuard.contains n) = true := by decide

/-! ## ai.onnx.ml operators -/

theorem binarizer_sound (x : ITy) (v : RtVal) (outs : List ITy) (w : List RtVal)
    (hi : inferBinarizer x = .ok outs) (hc : conforms v x = true) (hr : rtBinarizer v = some w) :
    conformsAll w outs = true := by
  simp only [inferBinarizer, Res.ok.injEq] at hi
  simp only [rtBinarizer, Option.some.injEq] at hr
  subst hi hr
  simp [conformsAll, hc]

theorem imputer_sound (impF impI : Option Nat) (x : ITy) (v : RtVal) (outs : List ITy) (w : List RtVal)
    (hi : inferImputer impF impI x = .ok outs) (hc : conforms v x = true) (hr : rtImputer v = some w) :
    conformsAll w outs = true := by
  simp only [rtImputer, Option.some.injEq] at hr
  subst hr
  unfold inferImputer at hi
  split at hi
  · simp only [Res.ok.injEq] at hi; subst hi; simp [conformsAll, conforms]
  · split at hi
    · simp at hi
    · split at hi
      · simp at hi
      · simp only [Res.ok.injEq] at hi; subst hi; simp [conformsAll, hc]

theorem scaler_sound (scale offset : Option Nat) (x : ITy) (v : RtVal) (outs : List ITy) (w : List RtVal)
    (hi : inferScaler scale offset x = .ok outs) (hc : conforms v x = true) (hr : rtScaler v = some w) :
    conformsAll w outs = true := by
  simp only [rtScaler, Option.some.injEq] at hr
  subst hr
  unfold inferScaler at hi
  split at hi
  · simp only [Res.ok.injEq] at hi; subst hi; simp [conformsAll, conforms]
  · split at hi
    · split at hi
      · simp at hi
      · split at hi
        · simp at hi
        · simp only [Res.ok.injEq] at hi; subst hi
          simp only [conforms, Bool.and_eq_true] at hc
          simp [conformsAll, conforms, hc.2]
    · simp at hi

theorem categoryMapper_sound (a b : Option Nat) (x : ITy) (v : RtVal) (outs : List ITy) (w : List RtVal)
    (hi : inferCategoryMapper a b x = .ok outs) (hc : conforms v x = true)
    (hr : rtCategoryMapper v = some w) : conformsAll w outs = true := by
  rcases x with _ | ⟨e, _ | ds⟩
  · simp only [inferCategoryMapper, ranked, Res.ok.injEq] at hi; subst hi
    unfold rtCategoryMapper at hr; split at hr <;> simp at hr <;> subst hr <;> simp [conformsAll, conforms]
  · simp only [inferCategoryMapper, ranked, Res.ok.injEq] at hi; subst hi
    unfold rtCategoryMapper at hr; split at hr <;> simp at hr <;> subst hr <;> simp [conformsAll, conforms]
  · simp only [conforms, Bool.and_eq_true, beq_iff_eq] at hc
    obtain ⟨he, hs⟩ := hc
    rcases a with _ | a <;> rcases b with _ | b <;> simp only [inferCategoryMapper, ranked] at hi
    · simp at hi
    · simp at hi
    · simp at hi
    · by_cases hab : a = b
      · cases e <;> simp [hab] at hi <;> subst hi <;>
          simp [rtCategoryMapper, he] at hr <;> subst hr <;> simp [conformsAll, conforms, tensor, hs]
      · simp [hab] at hi

theorem oneHotEncoder_sound (a b : Option Nat) (x : ITy) (v : RtVal) (outs : List ITy) (w : List RtVal)
    (hi : inferOneHotEncoder a b x = .ok outs) (hc : conforms v x = true)
    (hr : rtOneHotEncoder a b v = some w) : conformsAll w outs = true := by
  rcases x with _ | ⟨e, _ | ds⟩
  · simp only [inferOneHotEncoder, ranked, Res.ok.injEq] at hi; subst hi
    unfold rtOneHotEncoder at hr; split at hr <;> simp at hr <;> subst hr <;> simp [conformsAll, conforms]
  · simp only [inferOneHotEncoder, ranked, Res.ok.injEq] at hi; subst hi
    unfold rtOneHotEncoder at hr; split at hr <;> simp at hr <;> subst hr <;> simp [conformsAll, conforms]
  · simp only [conforms, Bool.and_eq_true] at hc
    have hs := hc.2
    rcases a with _ | a <;> rcases b with _ | b <;>
      simp [inferOneHotEncoder, ranked, rtOneHotEncoder] at hi hr <;>
      subst hi <;> subst hr <;>
      simp [conformsAll, conforms, tensor, dimsOk_snoc_const _ hs]

theorem treeEnsembleRegressor_sound (nT : Option Nat) (x : ITy) (v : RtVal) (outs : List ITy)
    (w : List RtVal) (hi : inferTreeEnsembleRegressor nT x = .ok outs) (hc : conforms v x = true)
    (hr : rtTreeEnsembleRegressor nT v = some w) : conformsAll w outs = true := by
  obtain ⟨ve, vs⟩ := v
  rcases nT with _ | t
  · unfold rtTreeEnsembleRegressor at hr; split at hr <;> simp_all
  · rcases vs with _ | ⟨n, _ | ⟨c, _ | ⟨c', r⟩⟩⟩ <;> simp [rtTreeEnsembleRegressor] at hr
    subst hr
    rcases x with _ | ⟨e, _ | ds⟩
    · simp only [inferTreeEnsembleRegressor, ranked, Res.ok.injEq] at hi; subst hi
      simp [conformsAll, conforms, tensor, dimsOk]
    · simp only [inferTreeEnsembleRegressor, ranked, Res.ok.injEq] at hi; subst hi
      simp [conformsAll, conforms, tensor, dimsOk]
    · simp only [conforms, Bool.and_eq_true] at hc
      have hs := hc.2
      rcases ds with _ | ⟨d0, _ | ⟨d1, _ | ⟨d2, r⟩⟩⟩ <;> simp [dimsOk] at hs
      simp only [inferTreeEnsembleRegressor, ranked, Res.ok.injEq] at hi; subst hi
      simp [conformsAll, conforms, tensor, dimsOk, hs.1]

theorem arrayFeatureExtractor_sound (x y : ITy) (vx vy : RtVal) (outs : List ITy) (w : List RtVal)
    (hi : inferArrayFeatureExtractor x y = .ok outs) (hcx : conforms vx x = true)
    (hcy : conforms vy y = true) (hr : rtArrayFeatureExtractor vx vy = some w) :
    conformsAll w outs = true := by
  obtain ⟨xe, xs⟩ := vx
  obtain ⟨ye, ys⟩ := vy
  rcases x with _ | ⟨e, _ | ds⟩
  · simp only [inferArrayFeatureExtractor, ranked, Res.ok.injEq] at hi; subst hi
    unfold rtArrayFeatureExtractor at hr; split at hr <;> simp at hr <;> subst hr <;> simp [conformsAll, conforms]
  · simp only [inferArrayFeatureExtractor, ranked, Res.ok.injEq] at hi; subst hi
    unfold rtArrayFeatureExtractor at hr; split at hr <;> simp at hr <;> subst hr <;> simp [conformsAll, conforms]
  · rcases y with _ | ⟨e', _ | ds'⟩
    · simp only [inferArrayFeatureExtractor, ranked, Res.ok.injEq] at hi; subst hi
      unfold rtArrayFeatureExtractor at hr; split at hr <;> simp at hr <;> subst hr <;> simp [conformsAll, conforms]
    · simp only [inferArrayFeatureExtractor, ranked, Res.ok.injEq] at hi; subst hi
      unfold rtArrayFeatureExtractor at hr; split at hr <;> simp at hr <;> subst hr <;> simp [conformsAll, conforms]
    · simp only [conforms, Bool.and_eq_true, beq_iff_eq] at hcx hcy
      obtain ⟨hex, hsx⟩ := hcx
      obtain ⟨_, hsy⟩ := hcy
      -- Y must have rank 1 for the inference to succeed
      rcases ds' with _ | ⟨yl, _ | ⟨yl', r'⟩⟩
      · rcases ds with _ | ⟨d0, _ | ⟨d1, r⟩⟩ <;> simp [inferArrayFeatureExtractor, ranked] at hi
      · rcases ys with _ | ⟨k, _ | ⟨k', q⟩⟩ <;> simp [dimsOk] at hsy
        rcases ds with _ | ⟨d0, _ | ⟨d1, r⟩⟩
        · simp [inferArrayFeatureExtractor, ranked] at hi
        · rcases xs with _ | ⟨n0, _ | ⟨n1, q⟩⟩ <;> simp [dimsOk] at hsx
          simp only [inferArrayFeatureExtractor, ranked, Res.ok.injEq] at hi; subst hi
          simp only [rtArrayFeatureExtractor, Option.some.injEq] at hr; subst hr
          simp [conformsAll, conforms, tensor, dimsOk, numel_singleton, hex, hsy]
        · rcases xs with _ | ⟨n0, _ | ⟨n1, q⟩⟩ <;> simp [dimsOk] at hsx
          simp only [inferArrayFeatureExtractor, ranked, Res.ok.injEq] at hi; subst hi
          simp only [rtArrayFeatureExtractor, Option.some.injEq] at hr; subst hr
          have h1 : dimsOk (n0 :: n1 :: q) (d0 :: d1 :: r) = true := by simp [dimsOk, hsx]
          have h2 : dimsOk [numel [k]] [yl] = true := by simp [dimsOk, numel_singleton, hsy]
          have := dimsOk_append (dimsOk_dropLast h1) h2
          simp only [List.dropLast_cons₂, List.cons_append] at this
          simp [conformsAll, conforms, tensor, hex, this]
      · rcases ds with _ | ⟨d0, _ | ⟨d1, r⟩⟩ <;> simp [inferArrayFeatureExtractor, ranked] at hi

/-- The statement of soundness for LinearRegressor, as a proposition about an attribute value and an
    input type (used by the partial theorem and its refutation). -/
def LinearRegressorSound (targets : Nat) (x : ITy) : Prop :=
  ∀ (v : RtVal) (outs : List ITy) (w : List RtVal),
    inferLinearRegressor targets x = .ok outs → conforms v x = true →
    rtLinearRegressor targets v = some w → conformsAll w outs = true

/-- The excluding hypothesis: the last input dim is not a constant different from `targets`. -/
def lastDimIsTargets (targets : Nat) (x : ITy) : Prop :=
  ∀ e ds c, x = some ⟨e, some ds⟩ → ds.getLast? = some (.const c) → c = targets

theorem linearRegressor_sound_partial (targets : Nat) (x : ITy) (hx : lastDimIsTargets targets x) :
    LinearRegressorSound targets x := by
  intro v outs w hi hc hr
  obtain ⟨ve, vs⟩ := v
  rcases x with _ | ⟨e, _ | ds⟩
  · simp only [inferLinearRegressor, ranked, Res.ok.injEq] at hi; subst hi
    unfold rtLinearRegressor at hr; split at hr <;> simp at hr <;> subst hr <;> simp [conformsAll, conforms]
  · simp only [inferLinearRegressor, ranked, Res.ok.injEq] at hi; subst hi
    unfold rtLinearRegressor at hr; split at hr <;> simp at hr <;> subst hr <;> simp [conformsAll, conforms]
  · simp only [conforms, Bool.and_eq_true] at hc
    have hs := hc.2
    rcases ds with _ | ⟨d0, _ | ⟨d1, _ | ⟨d2, r⟩⟩⟩
    · rcases vs with _ | ⟨n, q⟩ <;> simp [dimsOk] at hs
      simp [rtLinearRegressor] at hr
    · rcases vs with _ | ⟨n, _ | ⟨n', q⟩⟩ <;> simp [dimsOk] at hs
      simp only [inferLinearRegressor, ranked, Res.ok.injEq] at hi; subst hi
      simp only [rtLinearRegressor, Option.some.injEq] at hr; subst hr
      cases d0 with
      | const c =>
        have := hx e [.const c] c rfl rfl
        subst this
        simp only [dimOk_const, beq_iff_eq] at hs
        simp [conformsAll, conforms, tensor, dimsOk]
      | named s => simp [conformsAll, conforms, tensor, dimsOk]
      | anon => simp [conformsAll, conforms, tensor, dimsOk]
    · rcases vs with _ | ⟨n, _ | ⟨n', _ | ⟨n'', q⟩⟩⟩ <;> simp [dimsOk] at hs
      simp only [inferLinearRegressor, ranked, Res.ok.injEq] at hi; subst hi
      simp only [rtLinearRegressor, Option.some.injEq] at hr; subst hr
      cases d1 with
      | const c =>
        have := hx e [d0, .const c] c rfl rfl
        subst this
        simp [conformsAll, conforms, tensor, dimsOk, hs.1]
      | named s => simp [conformsAll, conforms, tensor, dimsOk, hs.1]
      | anon => simp [conformsAll, conforms, tensor, dimsOk, hs.1]
    · simp [inferLinearRegressor, ranked] at hi

/-- The pinned routine is unsound: `linear_regressor(x: f32[4,3], targets=1)` reports `f32[4][3]`, the
    runtime value has shape `(4,1)`. -/
theorem linearRegressor_counterexample :
    ¬ LinearRegressorSound 1 (tensor .f32 [.const 4, .const 3]) := by
  intro h
  have := h ⟨.f32, [4, 3]⟩ [tensor .f32 [.const 4, .const 3]] [⟨.f32, [4, 1]⟩] (by decide) (by decide) (by decide)
  revert this; decide

def NormalizerSound (normOk : Bool) (x : ITy) : Prop :=
  ∀ (v : RtVal) (outs : List ITy) (w : List RtVal),
    inferNormalizer normOk x = .ok outs → conforms v x = true →
    rtNormalizer v = some w → conformsAll w outs = true

/-- Holds when the input is `float32` (or untyped): the operator's output is always `tensor(float)`,
    the routine reports the input's element type. -/
theorem normalizer_sound_partial (normOk : Bool) (x : ITy)
    (hx : ∀ t, x = some t → t.e = .f32) : NormalizerSound normOk x := by
  intro v outs w hi hc hr
  obtain ⟨ve, vs⟩ := v
  unfold inferNormalizer at hi
  split at hi
  · simp only [Res.ok.injEq] at hi; subst hi
    rcases x with _ | t
    · unfold rtNormalizer at hr; split at hr <;> simp at hr <;> subst hr <;> simp [conformsAll, conforms]
    · have he := hx t rfl
      simp only [conforms, Bool.and_eq_true, beq_iff_eq] at hc
      unfold rtNormalizer at hr
      split at hr <;> simp at hr <;> subst hr <;> simp_all [conformsAll, conforms]
  · simp at hi

/-- `normalizer(x: f64[N,5])` reports `f64[N][5]` (this is what tests/type_inference pins); the
    runtime value is `float32`. -/
theorem normalizer_counterexample :
    ¬ NormalizerSound true (tensor .f64 [.named "N", .const 5]) := by
  intro h
  have := h ⟨.f64, [1, 5]⟩ [tensor .f64 [.named "N", .const 5]] [⟨.f32, [1, 5]⟩] (by decide) (by decide) (by decide)
  revert this; decide

def TreeEnsembleClassifierSound (classIds labelsStr labelsInt : Option Nat) (x : ITy) : Prop :=
  ∀ (v : RtVal) (outs : List ITy) (w : List RtVal),
    inferTreeEnsembleClassifier classIds labelsStr labelsInt x = .ok outs → conforms v x = true →
    rtTreeEnsembleClassifier labelsStr labelsInt v = some w → conformsAll w outs = true

/-- The number of class labels the runtime uses for the second axis of `Z`. -/
def nClasses (labelsStr labelsInt : Option Nat) : Option Nat :=
  match labelsStr with
  | some k => some k
  | none => labelsInt

/-- Holds when `len(class_ids)` is absent or equals the number of class labels. -/
theorem treeEnsembleClassifier_sound_partial (classIds labelsStr labelsInt : Option Nat) (x : ITy)
    (hx : ∀ n, classIds = some n → nClasses labelsStr labelsInt = some n) :
    TreeEnsembleClassifierSound classIds labelsStr labelsInt x := by
  intro v outs w hi hc hr
  obtain ⟨ve, vs⟩ := v
  rcases vs with _ | ⟨n, _ | ⟨c, _ | ⟨c', q⟩⟩⟩ <;> simp [rtTreeEnsembleClassifier] at hr
  have hZ : ∀ k, nClasses labelsStr labelsInt = some k → dimOk k (optDim classIds) = true := by
    intro k hk
    rcases classIds with _ | m
    · simp
    · have := hx m rfl; rw [hk] at this; cases this; simp
  rcases labelsStr with _ | ks
  · rcases labelsInt with _ | ki
    · simp at hr
    · simp only [Option.some.injEq] at hr; subst hr
      have hz := hZ ki rfl
      rcases x with _ | ⟨e, _ | ds⟩
      · simp [inferTreeEnsembleClassifier, ranked] at hi; subst hi
        simp [conformsAll, conforms, tensor, dimsOk, hz]
      · simp [inferTreeEnsembleClassifier, ranked] at hi; subst hi
        simp [conformsAll, conforms, tensor, dimsOk, hz]
      · simp only [conforms, Bool.and_eq_true] at hc
        have hs := hc.2
        rcases ds with _ | ⟨d0, _ | ⟨d1, _ | ⟨d2, r⟩⟩⟩ <;> simp [dimsOk] at hs
        simp [inferTreeEnsembleClassifier, ranked] at hi; subst hi
        simp [conformsAll, conforms, tensor, dimsOk, hz, hs.1]
  · have hz := hZ ks rfl
    simp only [Option.some.injEq] at hr; subst hr
    rcases x with _ | ⟨e, _ | ds⟩
    · simp [inferTreeEnsembleClassifier, ranked] at hi; subst hi
      simp [conformsAll, conforms, tensor, dimsOk, hz]
    · simp [inferTreeEnsembleClassifier, ranked] at hi; subst hi
      simp [conformsAll, conforms, tensor, dimsOk, hz]
    · simp only [conforms, Bool.and_eq_true] at hc
      have hs := hc.2
      rcases ds with _ | ⟨d0, _ | ⟨d1, _ | ⟨d2, r⟩⟩⟩ <;> simp [dimsOk] at hs
      simp [inferTreeEnsembleClassifier, ranked] at hi; subst hi
      simp [conformsAll, conforms, tensor, dimsOk, hz, hs.1]

/-- Whatever `class_ids` is, the label output `Y` is reported soundly (only `Z`'s second axis is
    affected by the defect). -/
theorem treeEnsembleClassifier_Y_sound (classIds labelsStr labelsInt : Option Nat) (x : ITy)
    (v : RtVal) (outs : List ITy) (w : List RtVal)
    (hi : inferTreeEnsembleClassifier classIds labelsStr labelsInt x = .ok outs)
    (hc : conforms v x = true) (hr : rtTreeEnsembleClassifier labelsStr labelsInt v = some w) :
    ∃ y z ty tz, w = [y, z] ∧ outs = [ty, tz] ∧ conforms y ty = true := by
  obtain ⟨ve, vs⟩ := v
  rcases vs with _ | ⟨n, _ | ⟨c, _ | ⟨c', q⟩⟩⟩ <;> simp [rtTreeEnsembleClassifier] at hr
  rcases labelsStr with _ | ks
  · rcases labelsInt with _ | ki
    · simp at hr
    · simp only [Option.some.injEq] at hr; subst hr
      rcases x with _ | ⟨e, _ | ds⟩
      · simp [inferTreeEnsembleClassifier, ranked] at hi; subst hi
        exact ⟨_, _, _, _, rfl, rfl, by simp [conforms, tensor, dimsOk]⟩
      · simp [inferTreeEnsembleClassifier, ranked] at hi; subst hi
        exact ⟨_, _, _, _, rfl, rfl, by simp [conforms, tensor, dimsOk]⟩
      · simp only [conforms, Bool.and_eq_true] at hc
        have hs := hc.2
        rcases ds with _ | ⟨d0, _ | ⟨d1, _ | ⟨d2, r⟩⟩⟩ <;> simp [dimsOk] at hs
        simp [inferTreeEnsembleClassifier, ranked] at hi; subst hi
        exact ⟨_, _, _, _, rfl, rfl, by simp [conforms, tensor, dimsOk, hs.1]⟩
  · simp only [Option.some.injEq] at hr; subst hr
    rcases x with _ | ⟨e, _ | ds⟩
    · simp [inferTreeEnsembleClassifier, ranked] at hi; subst hi
      exact ⟨_, _, _, _, rfl, rfl, by simp [conforms, tensor, dimsOk]⟩
    · simp [inferTreeEnsembleClassifier, ranked] at hi; subst hi
      exact ⟨_, _, _, _, rfl, rfl, by simp [conforms, tensor, dimsOk]⟩
    · simp only [conforms, Bool.and_eq_true] at hc
      have hs := hc.2
      rcases ds with _ | ⟨d0, _ | ⟨d1, _ | ⟨d2, r⟩⟩⟩ <;> simp [dimsOk] at hs
      simp [inferTreeEnsembleClassifier, ranked] at hi; subst hi
      exact ⟨_, _, _, _, rfl, rfl, by simp [conforms, tensor, dimsOk, hs.1]⟩

/-- `len(class_ids) = 3` with two class labels: `Z` is reported `f32[4][3]`, the runtime value has
    shape `(4,2)` (pinned by tests/type_inference/test_tree_ensemble_classifier.py). -/
theorem treeEnsembleClassifier_counterexample :
    ¬ TreeEnsembleClassifierSound (some 3) none (some 2) (tensor .f32 [.const 4, .const 2]) := by
  intro h
  have := h ⟨.f32, [4, 2]⟩ [tensor .i64 [.const 4], tensor .f32 [.const 4, .const 3]]
    [⟨.i64, [4]⟩, ⟨.f32, [4, 2]⟩] (by decide) (by decide) (by decide)
  revert this; decide

/-! ## Compress -/

theorem compress_sound (axis : Option Int) (x c : ITy) (vx vc : RtVal) (k : Nat) (outs : List ITy)
    (w : List RtVal) (hi : inferCompress axis x c = .ok outs) (hcx : conforms vx x = true)
    (_hcc : conforms vc c = true) (hr : rtCompress axis k vx = some w) : conformsAll w outs = true := by
  obtain ⟨xe, xs⟩ := vx
  have huntyped : ∀ w, rtCompress axis k ⟨xe, xs⟩ = some w → conformsAll w [none] = true := by
    intro w hw
    unfold rtCompress at hw
    split at hw
    · simp at hw; subst hw; simp [conformsAll, conforms]
    · split at hw <;> simp at hw; subst hw; simp [conformsAll, conforms]
  rcases x with _ | ⟨e, s⟩
  · simp only [inferCompress, Res.ok.injEq] at hi; subst hi; exact huntyped w hr
  rcases c with _ | ct
  · simp only [inferCompress, Res.ok.injEq] at hi; subst hi; exact huntyped w hr
  simp only [conforms, Bool.and_eq_true, beq_iff_eq] at hcx
  obtain ⟨hex, hsx⟩ := hcx
  unfold inferCompress at hi
  simp only at hi
  split at hi
  · simp at hi
  · rcases s with _ | ds
    · simp only [Res.ok.injEq] at hi; subst hi
      unfold rtCompress at hr
      split at hr
      · simp at hr; subst hr; simp [conformsAll, conforms, hex]
      · split at hr <;> simp at hr; subst hr; simp [conformsAll, conforms, hex]
    · rcases ds with _ | ⟨d0, r⟩
      · simp at hi
      · simp only at hi hsx
        split at hi
        · simp at hi
        · rcases axis with _ | a
          · simp only [Res.ok.injEq] at hi; subst hi
            simp only [rtCompress, Option.some.injEq] at hr; subst hr
            simp [conformsAll, conforms, tensor, dimsOk, hex]
          · have hlen := dimsOk_length hsx
            simp only [rtCompress] at hr
            simp only at hi
            rw [hlen] at hr
            split at hi
            · simp at hi
            · rename_i i hi'
              rw [hi'] at hr
              simp only [Res.ok.injEq] at hi; subst hi
              simp only [Option.some.injEq] at hr; subst hr
              simp [conformsAll, conforms, tensor, hex, dimsOk_set_anon i k hsx]

/-- The repaired Compress routine (`inferCompressFixed`: a vector for an input of unknown rank when no
    axis is given) is sound as well — whichever of the two variants the source implements is covered. -/
theorem compress_fixed_sound (axis : Option Int) (x c : ITy) (vx vc : RtVal) (k : Nat) (outs : List ITy)
    (w : List RtVal) (hi : inferCompressFixed axis x c = .ok outs) (hcx : conforms vx x = true)
    (hcc : conforms vc c = true) (hr : rtCompress axis k vx = some w) : conformsAll w outs = true := by
  rcases x with _ | ⟨e, s⟩
  · exact compress_sound axis none c vx vc k outs w (by simpa [inferCompressFixed, inferCompress] using hi) hcx hcc hr
  rcases c with _ | ct
  · exact compress_sound axis (some ⟨e, s⟩) none vx vc k outs w (by simpa [inferCompressFixed, inferCompress] using hi) hcx hcc hr
  rcases s with _ | ds
  · -- unknown rank
    obtain ⟨xe, xs⟩ := vx
    simp only [conforms, Bool.and_eq_true, beq_iff_eq] at hcx
    obtain ⟨hex, -⟩ := hcx
    unfold inferCompressFixed at hi
    simp only at hi
    split at hi
    · simp at hi
    · rcases axis with _ | a
      · simp only at hi
        split at hi
        · simp at hi
        · simp only [Res.ok.injEq] at hi; subst hi
          simp only [rtCompress, Option.some.injEq] at hr; subst hr
          simp [conformsAll, conforms, tensor, dimsOk, dimOk, hex]
      · simp only [Res.ok.injEq] at hi; subst hi
        simp only [rtCompress] at hr
        split at hr
        · simp at hr
        · simp only [Option.some.injEq] at hr; subst hr
          simp [conformsAll, conforms, hex]
  · -- known rank: the routine is unchanged
    have : inferCompress axis (some ⟨e, some ds⟩) (some ct) = .ok outs := by
      unfold inferCompressFixed at hi
      simp only at hi
      split at hi
      · simp at hi
      · exact hi
    exact compress_sound axis _ _ vx vc k outs w this hcx hcc hr

/-! ## `_strip_dim_symbol`, inline -/

/-- Forgetting symbolic dims only weakens a type. -/
theorem stripDim_sound (pred : String → Bool) (v : RtVal) (t : Ty)
    (h : conforms v (some t) = true) : conforms v (some (stripTy pred t)) = true := by
  simp only [conforms, Bool.and_eq_true] at h ⊢
  refine ⟨h.1, ?_⟩
  rcases t with ⟨e, _ | ds⟩
  · simp [stripTy]
  · simpa [stripTy] using dimsOk_strip pred h.2

/-- `strip` with the `unk__` predicate (what `infer_output_types_onnx` applies to ONNX's result). -/
theorem stripUnk_sound (v : RtVal) (t : Ty) (h : conforms v (some t) = true) :
    conforms v (some (stripTy (fun s => s.startsWith "unk__") t)) = true :=
  stripDim_sound _ v t h

/-- If the inlined model's declared output types are sound for the model (hypothesis `hm`: its
    runtime outputs conform to them), the types spox reports for `inline(m)(…)` are sound. -/
theorem inline_types_sound : ∀ (declared : List Ty) (ws : List RtVal),
    conformsAll ws (declared.map some) = true → conformsAll ws (inlineTypes declared) = true
  | [], [], _ => rfl
  | [], _ :: _, h => by simp [conformsAll] at h
  | _ :: _, [], h => by simp [conformsAll] at h
  | t :: ts, w :: ws, h => by
    simp only [List.map_cons, conformsAll, Bool.and_eq_true] at h
    simp only [inlineTypes, List.map_cons, conformsAll, Bool.and_eq_true]
    exact ⟨stripDim_sound _ w t h.1, inline_types_sound ts ws h.2⟩

/-- What `inline` would need for the declared output types to carry over: an argument whose type
    *refines* the declared input type only ever holds values of the declared type (so the hypothesis
    of `inline_types_sound` — m runs on inputs of its declared types — is met). -/
theorem inline_arg_refines_sound (v : RtVal) (arg decl : Ty) (h : refines arg decl = true)
    (hc : conforms v (some arg) = true) : conforms v (some decl) = true :=
  refines_sound v arg decl h hc

/-- But `inline` only asks for *compatibility* (`_subtype`): an argument of type `f32[N]` is accepted
    for a declared `f32[3]`, and a value of shape `(1,)` conforms to the former, not to the latter — so
    the declared output types are reported for runs the model's contract does not cover
    (known finding `Inline:result:shape:argument-weaker-than-declared`). -/
theorem inline_arg_compatible_counterexample :
    ∃ (v : RtVal) (arg decl : Ty), inlineArgAccepted arg decl = true ∧
      conforms v (some arg) = true ∧ conforms v (some decl) = false :=
  ⟨⟨.f32, [1]⟩, ⟨.f32, some [.named "N"]⟩, ⟨.f32, some [.const 3]⟩, by decide, by decide, by decide⟩

/-- Acceptance is weaker than refinement (every refining argument is accepted). -/
theorem refines_imp_accepted : ∀ (as ds : List Dim),
    (ds.zip as).all (fun p => refinesDim p.1 p.2) = true → as.length = ds.length →
    compatDims as ds = true
  | [], [], _, _ => rfl
  | [], _ :: _, _, h => by simp at h
  | _ :: _, [], _, h => by simp at h
  | a :: as, d :: ds, hall, hl => by
    simp only [List.zip_cons_cons, List.all_cons, Bool.and_eq_true] at hall
    simp only [compatDims, Bool.and_eq_true]
    refine ⟨?_, refines_imp_accepted as ds hall.2 (by simpa using hl)⟩
    cases d <;> cases a <;> simp_all [refinesDim, compatDim]

/-! ## If (round 10) — the reported result types are the JOIN of the two branches' result types

`inferIf` (Model/IfInfer.lean) is what `op.if_` reports as a function of the result types of its two
branches (spox's dummy typed subgraphs + ONNX's `If` rule + `unk__` stripping; compared with the real
constructor of every opset module on every run). -/

/-- **Soundness of the types reported for `If`**: whichever branch the condition selects, for any number
    of results, any ranks, any sizes of unknown dims — if the values of the branch that RUNS conform to
    the types of that branch's result Vars, the results of the `If` conform to the reported types.
    (Nothing is assumed about the branch that does not run.) -/
theorem if_sound (T E : List ITy) (outs : List ITy) (c : Bool) (vt ve : List RtVal)
    (h : inferIf T E = .ok outs)
    (ht : c = true → conformsAll vt T = true) (he : c = false → conformsAll ve E = true) :
    conformsAll (ifRun c vt ve) outs = true := by
  unfold inferIf at h
  cases hT : allTyped T with
  | none => simp [hT] at h
  | some t =>
    cases hE : allTyped E with
    | none => simp [hT, hE] at h
    | some e =>
      simp only [hT, hE] at h
      split at h
      · simp at h
      · cases hj : joinAll t e with
        | none => simp [hj] at h
        | some js =>
          simp only [hj, Res.ok.injEq] at h
          subst h
          have hTt : T = t.map some := allTyped_eq_map hT
          have hEe : E = e.map some := allTyped_eq_map hE
          have hc := conformsAll_joinAll
          cases c with
          | true => exact (hc vt t e js hj).1 (hTt ▸ ht rfl)
          | false => exact (hc ve t e js hj).2 (hEe ▸ he rfl)

/-- The reported type is an upper bound of both branch types in the `refines` order
    (`refines_sound`: every value of the finer type is a value of the coarser one) … -/
theorem if_join_upper (t e j : Ty) (h : joinTy t e = some j) : refines t j = true ∧ refines e j = true :=
  joinTy_upper t e j h

/-- … and the LEAST one: every type that is sound for both branches is refined by the reported type and
    the join exists (no spurious `InferenceError`, nothing forgotten that both branches guarantee —
    the converse of `if_sound` at the level of types). -/
theorem if_join_least (t e u : Ty) (ht : refines t u = true) (he : refines e u = true) :
    ∃ j, joinTy t e = some j ∧ refines j u = true :=
  joinTy_least t e u ht he

/-- The reported list has one type per result of the branches. -/
theorem if_arity (T E outs : List ITy) (h : inferIf T E = .ok outs) :
    outs.length = T.length ∧ outs.length = E.length ∧ outs ≠ [] := by
  unfold inferIf at h
  cases hT : allTyped T with
  | none => simp [hT] at h
  | some t =>
    cases hE : allTyped E with
    | none => simp [hT, hE] at h
    | some e =>
      simp only [hT, hE] at h
      split at h
      · simp at h
      · rename_i hne
        cases hj : joinAll t e with
        | none => simp [hj] at h
        | some js =>
          simp only [hj, Res.ok.injEq] at h
          subst h
          have hl := joinAll_length t e js hj
          rw [allTyped_eq_map hT, allTyped_eq_map hE]
          simp only [List.length_map]
          refine ⟨hl.1, hl.2, ?_⟩
          intro hnil
          have : js = [] := by simpa using hnil
          subst this
          have h1 : t = [] := by simpa using hl.1.symm
          have h2 : e = [] := by simpa using hl.2.symm
          subst h1; subst h2
          simp at hne

/-- Why a dim that only ONE branch reports as a constant must be forgotten (and what a mutant that keeps
    the then-branch's dims gets wrong): the else-branch value `(5,)` does not conform to `f32[2]`. -/
theorem if_keep_then_dims_counterexample :
    ∃ (T E : List ITy) (ve : List RtVal), conformsAll ve E = true ∧
      inferIf T E = .ok [tensor .f32 [.anon]] ∧ conformsAll (ifRun false [] ve) T = false :=
  ⟨[tensor .f32 [.const 2]], [tensor .f32 [.named "N"]], [⟨.f32, [5]⟩], by decide, by decide, by decide⟩

example : inferIf [tensor .f32 [.const 2, .named "N"], tensor .i64 [.const 1]]
    [tensor .f32 [.const 3, .named "N"], some ⟨.i64, none⟩]
    = .ok [tensor .f32 [.anon, .named "N"], some ⟨.i64, none⟩] := by decide
example : inferIf [tensor .f32 [.const 2]] [tensor .f32 [.const 2, .const 3]] = .ok [some ⟨.f32, none⟩] := by decide
example : inferIf [tensor .f32 [.const 2]] [tensor .i64 [.const 2]] = .err .inference := by decide
example : inferIf [none] [tensor .i64 [.const 2]] = .err .typeErr := by decide
example : inferIf [] [] = .err .inference := by decide
example : conformsAll (ifRun false [⟨.f32, [2, 4]⟩] [⟨.f32, [3, 4]⟩]) [tensor .f32 [.anon, .named "N"]] = true := by decide

/-- **The reported `If` type is characterised exactly** (the "iff" of `if_join_upper` / `if_join_least`): a type
    `u` is refined by the reported type IFF it is refined by the types of BOTH branches — i.e. the sound
    claims about the `If`'s result are precisely the claims both branches guarantee. -/
theorem if_join_iff (t e j u : Ty) (h : joinTy t e = some j) :
    refines j u = true ↔ (refines t u = true ∧ refines e u = true) := by
  constructor
  · intro hj
    have hu := joinTy_upper t e j h
    exact ⟨refines_trans t j u hu.1 hj, refines_trans e j u hu.2 hj⟩
  · intro ⟨ht, he⟩
    obtain ⟨j', hj', hr⟩ := joinTy_least t e u ht he
    rw [h] at hj'
    cases hj'
    exact hr

example : refines ⟨.f32, some [.anon, .const 3]⟩ ⟨.f32, some [.named "K", .const 3]⟩ = true ∧
    joinTy ⟨.f32, some [.const 2, .const 3]⟩ ⟨.f32, some [.const 4, .const 3]⟩ = some ⟨.f32, some [.anon, .const 3]⟩ := by decide

/-! ### Nested `If` (mini-round): `If`s inside the branches of `If`s, to any depth -/

/-- A tree of nested `If`s: a leaf is a branch body that returns Vars of types `tys` and — when it runs —
    the values `vals`; `ite c t e` is an `If` whose condition evaluates to `c` at run time and whose branches
    are again trees. -/
inductive IfTree
  | leaf (tys : List ITy) (vals : List RtVal)
  | ite (c : Bool) (t e : IfTree)

/-- The types reported for the tree's results: `inferIf` applied bottom-up (`none` = some construction raises). -/
def IfTree.ty : IfTree → Option (List ITy)
  | .leaf tys _ => some tys
  | .ite _ t e =>
    match t.ty, e.ty with
    | some T, some E => (match inferIf T E with | .ok o => some o | .err _ => none)
    | _, _ => none

/-- The run: every `If` yields the results of the branch its condition selects. -/
def IfTree.run : IfTree → List RtVal
  | .leaf _ vs => vs
  | .ite c t e => ifRun c t.run e.run

/-- Only the leaf that actually RUNS has to respect its declared types. -/
def IfTree.okOnPath : IfTree → Prop
  | .leaf tys vs => conformsAll vs tys = true
  | .ite c t e => if c = true then t.okOnPath else e.okOnPath

/-- **Nested `If`s are sound at every nesting depth** (induction over the tree): whatever the conditions
    evaluate to, if the one leaf body that runs returns values conforming to its own result types, the
    values of the outermost `If` conform to the types reported for it. -/
theorem nested_if_sound : ∀ (tr : IfTree) (outs : List ITy), tr.ty = some outs → tr.okOnPath →
    conformsAll tr.run outs = true
  | .leaf tys vs, outs, h, hok => by
    simp only [IfTree.ty, Option.some.injEq] at h
    subst h; exact hok
  | .ite c t e, outs, h, hok => by
    simp only [IfTree.ty] at h
    cases hT : t.ty with
    | none => simp [hT] at h
    | some T =>
      cases hE : e.ty with
      | none => simp [hT, hE] at h
      | some E =>
        simp only [hT, hE] at h
        cases hI : inferIf T E with
        | err _ => simp [hI] at h
        | ok o =>
          simp only [hI, Option.some.injEq] at h
          subst h
          simp only [IfTree.run]
          apply if_sound T E o c t.run e.run hI
          · intro hc
            subst hc
            exact nested_if_sound t T hT (by simpa [IfTree.okOnPath] using hok)
          · intro hc
            subst hc
            exact nested_if_sound e E hE (by simpa [IfTree.okOnPath] using hok)

/-- depth 2, the inner else-branch runs (shape (5,)); the leaf that does not run holds a non-conforming value -/
example : (IfTree.ite true (.ite false (.leaf [tensor .f32 [.const 2]] [⟨.i64, [9, 9]⟩]) (.leaf [tensor .f32 [.named "N"]] [⟨.f32, [5]⟩]))
    (.leaf [tensor .f32 [.const 2, .const 3]] [])).ty = some [some ⟨.f32, none⟩] := by decide
example : (IfTree.ite true (.ite false (.leaf [tensor .f32 [.const 2]] [⟨.i64, [9, 9]⟩]) (.leaf [tensor .f32 [.named "N"]] [⟨.f32, [5]⟩]))
    (.leaf [tensor .f32 [.const 2, .const 3]] [])).run = [⟨.f32, [5]⟩] := by decide

/-! ## Loop -/

/-- Soundness of a Loop inference routine `inf` for the carried outputs, for declared argument /
    initial types `a`, body result types `r`, scan result types `s`:
    for every run — any trip count `M`, any initial condition, any body that (`hbody`) returns values
    conforming to its result types whenever its carried arguments conform to their declared types and
    (`hElem`) never changes element types — the final carried values conform to what is reported. -/
def LoopCarriedSound (inf : List ITy → List ITy → List ITy → Res) (a r s : List Ty) : Prop :=
  ∀ (outs : List ITy) (body : Body) (M : Nat) (c0 : Bool) (v0 fin : List RtVal)
    (scs : List (List RtVal)),
    inf (a.map some) (r.map some) (s.map some) = .ok outs →
    conformsAll v0 (a.map some) = true →
    (∀ i vs c vs' sc, conformsAll vs (a.map some) = true → body i vs = some (c, vs', sc) →
        conformsAll vs' (r.map some) = true) →
    (∀ i vs c vs' sc, body i vs = some (c, vs', sc) → elemsMatch vs' r = true) →
    loopRun body M 0 c0 v0 = some (fin, scs) →
    conformsAll fin (outs.take a.length) = true

/-- The routine after the fix is sound for every program. -/
theorem loop_carried_sound (a r s : List Ty) (hlen : a.length = r.length) :
    LoopCarriedSound inferLoop a r s := by
  intro outs body M c0 v0 fin scs hi hinit hbody hElem hrun
  simp only [inferLoop, allTyped_map_some] at hi
  split at hi
  · simp at hi
  · rename_i hag
    simp only [Bool.not_eq_true', Bool.not_eq_false] at hag
    simp only [Res.ok.injEq] at hi
    subst hi
    by_cases hst : allRefine a r = true
    · simp only [hst, if_true]
      rw [List.take_left' (zipCommon_length a r hlen)]
      have hfin : conformsAll fin (a.map some) = true :=
        loopRun_inv (fun vs => conformsAll vs (a.map some) = true) body
          (fun i vs c vs' sc hp hb =>
            conformsAll_refines vs' a r hst hlen (hbody i vs c vs' sc hp hb))
          M 0 c0 v0 fin scs hinit hrun
      exact conformsAll_zipCommon fin a r hst hlen hfin
    · simp only [Bool.not_eq_true] at hst
      simp only [hst, Bool.false_eq_true, if_false]
      rw [List.take_left' (onnxCarried_length a)]
      have hfin : elemsMatch fin a = true :=
        loopRun_inv (fun vs => elemsMatch vs a = true) body
          (fun i vs c vs' sc _ hb => elemsMatch_agree vs' a r hag hlen (hElem i vs c vs' sc hb))
          M 0 c0 v0 fin scs (elemsMatch_of_conformsAll v0 a hinit) hrun
      exact conformsAll_onnxCarried fin a hfin

/-- The unpatched modules (v19, v21) are sound too: they claim only the element type. -/
theorem loop_onnx_carried_sound (a r s : List Ty) (hlen : a.length = r.length) :
    LoopCarriedSound inferLoopOnnx a r s := by
  intro outs body M c0 v0 fin scs hi hinit _ hElem hrun
  simp only [inferLoopOnnx, allTyped_map_some] at hi
  split at hi
  · simp at hi
  · rename_i hag
    simp only [Bool.not_eq_true', Bool.not_eq_false] at hag
    simp only [Res.ok.injEq] at hi
    subst hi
    rw [List.take_left' (onnxCarried_length a)]
    have hfin : elemsMatch fin a = true :=
      loopRun_inv (fun vs => elemsMatch vs a = true) body
        (fun i vs c vs' sc _ hb => elemsMatch_agree vs' a r hag hlen (hElem i vs c vs' sc hb))
        M 0 c0 v0 fin scs (elemsMatch_of_conformsAll v0 a hinit) hrun
    exact conformsAll_onnxCarried fin a hfin

/-- While every result refines its argument's declared type, the types prescribed for the body's
    carried arguments are sound: each iteration's carried inputs conform to them (this is the
    invariant behind `loop_carried_sound`, stated for the values a run ends with). -/
theorem loop_body_args_sound (a r : List Ty) (hlen : a.length = r.length)
    (hst : allRefine a r = true) (body : Body) (M i : Nat) (c0 : Bool) (v0 fin : List RtVal)
    (scs : List (List RtVal)) (hinit : conformsAll v0 (a.map some) = true)
    (hbody : ∀ i vs c vs' sc, conformsAll vs (a.map some) = true → body i vs = some (c, vs', sc) →
        conformsAll vs' (r.map some) = true)
    (hrun : loopRun body M i c0 v0 = some (fin, scs)) : conformsAll fin (a.map some) = true :=
  loopRun_inv (fun vs => conformsAll vs (a.map some) = true) body
    (fun i vs c vs' sc hp hb => conformsAll_refines vs' a r hst hlen (hbody i vs c vs' sc hp hb))
    M i c0 v0 fin scs hinit hrun

/-- The routine as pinned is unsound: `loop(M=0, v_initial=[x: f32[2]], body = concat(v, v))` reports
    `f32[4]`; the loop never runs and returns `x`, of shape `(2,)`. -/
theorem loop_carried_pinned_counterexample :
    ¬ LoopCarriedSound inferLoopPinned [⟨.f32, some [.const 2]⟩] [⟨.f32, some [.const 4]⟩] [] := by
  intro h
  have := h [some ⟨.f32, some [.const 4]⟩] (fun _ _ => some (true, [⟨.f32, [4]⟩], [])) 0 true
    [⟨.f32, [2]⟩] [⟨.f32, [2]⟩] [] (by decide) (by decide)
    (by intro i vs c vs' sc _ hb
        simp only [Option.some.injEq, Prod.mk.injEq] at hb
        rw [← hb.2.1]; decide)
    (by intro i vs c vs' sc hb
        simp only [Option.some.injEq, Prod.mk.injEq] at hb
        rw [← hb.2.1]; decide)
    (by decide)
  revert this; decide

/-- The same program under the fixed routine: `f32[...]`-free but sound (`f32[?]`). -/
example : inferLoop [tensor .f32 [.const 2]] [tensor .f32 [.const 4]] [] = .ok [some ⟨.f32, none⟩] := by
  decide

/-- A scan output stacks the slices of `k ≥ 1` iterations: if the slice conforms to the type the body
    declares for that result, the stacked value conforms to the reported scan type (one leading
    unknown dim). -/
theorem loop_scan_sound (v : RtVal) (vs : List RtVal) (t : Ty) (w : RtVal)
    (hc : conforms v (some t) = true) (hs : stackScan (v :: vs) = some w) :
    conforms w (some (scanTy t)) = true := by
  simp only [stackScan] at hs
  split at hs
  · simp only [Option.some.injEq] at hs; subst hs
    simp only [conforms, Bool.and_eq_true] at hc ⊢
    refine ⟨hc.1, ?_⟩
    rcases t with ⟨e, _ | ds⟩
    · simp [scanTy]
    · simpa [scanTy, dimsOk] using hc.2
  · simp at hs

/-- Scan outputs of a loop that runs at least once (`stackScan … = some w` forces that): scan output
    `j` conforms to the reported type "one leading unknown dim, then the body's declared type for that
    result" — for every body that is sound for its first iteration's inputs, whether or not later
    iterations respect the declared argument types (all slices must have the first slice's shape). -/
theorem loop_scan_output_sound (a s : List Ty) (body : Body) (M : Nat) (c0 : Bool)
    (v0 fin : List RtVal) (scs : List (List RtVal)) (j : Nat) (t : Ty) (w : RtVal)
    (hinit : conformsAll v0 (a.map some) = true)
    (hbody : ∀ i vs c vs' sc, conformsAll vs (a.map some) = true → body i vs = some (c, vs', sc) →
        conformsAll sc (s.map some) = true)
    (hrun : loopRun body M 0 c0 v0 = some (fin, scs)) (hj : s[j]? = some t)
    (hs : stackScan (column scs j) = some w) : conforms w (some (scanTy t)) = true := by
  cases M with
  | zero =>
    simp only [loopRun, Option.some.injEq, Prod.mk.injEq] at hrun
    rw [← hrun.2] at hs; simp [column, stackScan] at hs
  | succ m =>
    cases c0 with
    | false =>
      simp only [loopRun, Option.some.injEq, Prod.mk.injEq] at hrun
      rw [← hrun.2] at hs; simp [column, stackScan] at hs
    | true =>
      simp only [loopRun] at hrun
      split at hrun
      · simp at hrun
      · rename_i c vs' sc hb
        split at hrun
        · simp at hrun
        · rename_i fin' scs' _
          simp only [Option.some.injEq, Prod.mk.injEq] at hrun
          have hsc := hbody 0 v0 c vs' sc hinit hb
          obtain ⟨v, hv, hc⟩ := conformsAll_get sc s j t hsc hj
          rw [← hrun.2] at hs
          have hcol : column (sc :: scs') j = v :: column scs' j := by
            simp [column, List.filterMap_cons, hv]
          rw [hcol] at hs
          exact loop_scan_sound v (column scs' j) t w hc hs

/-- Scan output of a loop that runs zero times: the runtime shapes it from the type the body declares
    for that result (`emptyScanOk`, validated against onnxruntime), so it conforms to the reported
    scan type too. Together with `loop_scan_output_sound` this covers every trip count. -/
theorem loop_scan_zero_sound (w : RtVal) (t : Ty) (h : emptyScanOk w t = true) :
    conforms w (some (scanTy t)) = true := by
  simp only [emptyScanOk, Bool.and_eq_true] at h
  simp only [conforms, Bool.and_eq_true]
  refine ⟨h.1, ?_⟩
  rcases t with ⟨e, _ | ds⟩
  · simp [scanTy]
  · obtain ⟨we, ws⟩ := w
    rcases ws with _ | ⟨n, r⟩
    · simp at h
    · cases n with
      | zero => simpa [scanTy, dimsOk] using h.2
      | succ m => simp at h

/-! ### Scan outputs and the trip count (data-dependent termination)

A constant trip count `M` bounds the number of stacked rows but does not determine it: the body's
returned condition ends the loop early. So "leading dim = M" (a refinement of the reported scan type
by a propagated trip count) is sound exactly for bodies that never break. -/

/-- The number of iterations (= rows of every scan output) never exceeds the trip count. -/
theorem loopRun_rows_le (body : Body) : ∀ (M i : Nat) (c : Bool) (vs fin : List RtVal)
    (scs : List (List RtVal)), loopRun body M i c vs = some (fin, scs) → scs.length ≤ M := by
  intro M
  induction M with
  | zero =>
    intro i c vs fin scs h
    simp only [loopRun, Option.some.injEq, Prod.mk.injEq] at h
    rw [← h.2]; simp
  | succ m ih =>
    intro i c vs fin scs h
    cases c with
    | false =>
      simp only [loopRun, Option.some.injEq, Prod.mk.injEq] at h
      rw [← h.2]; simp
    | true =>
      simp only [loopRun] at h
      split at h
      · simp at h
      · rename_i c' vs' sc hb
        split at h
        · simp at h
        · rename_i fin' scs' hr
          simp only [Option.some.injEq, Prod.mk.injEq] at h
          have := ih (i + 1) c' vs' fin' scs' hr
          rw [← h.2]; simp only [List.length_cons]; omega

/-- With `cond` omitted (= true) and a body that never returns a false condition the loop runs exactly
    `M` times. -/
theorem loopRun_rows_eq_of_never_breaks (body : Body)
    (hnb : ∀ i vs c vs' sc, body i vs = some (c, vs', sc) → c = true) :
    ∀ (M i : Nat) (vs fin : List RtVal) (scs : List (List RtVal)),
      loopRun body M i true vs = some (fin, scs) → scs.length = M := by
  intro M
  induction M with
  | zero =>
    intro i vs fin scs h
    simp only [loopRun, Option.some.injEq, Prod.mk.injEq] at h
    rw [← h.2]; simp
  | succ m ih =>
    intro i vs fin scs h
    simp only [loopRun] at h
    split at h
    · simp at h
    · rename_i c' vs' sc hb
      have hc : c' = true := hnb i vs c' vs' sc hb
      subst hc
      split at h
      · simp at h
      · rename_i fin' scs' hr
        simp only [Option.some.injEq, Prod.mk.injEq] at h
        have := ih (i + 1) vs' fin' scs' hr
        rw [← h.2]; simp only [List.length_cons]; omega

/-- The leading dim of a stacked scan output is the number of stacked slices. -/
theorem stackScan_rows (l : List RtVal) (w : RtVal) (h : stackScan l = some w) :
    ∃ r, w.s = l.length :: r := by
  cases l with
  | nil => simp [stackScan] at h
  | cons v vs =>
    simp only [stackScan] at h
    split at h
    · simp only [Option.some.injEq] at h; subst h; exact ⟨v.s, by simp⟩
    · simp at h

theorem column_length_le (scs : List (List RtVal)) (j : Nat) : (column scs j).length ≤ scs.length := by
  unfold column; exact List.length_filterMap_le _ _

/-- Every scan output of every run has at most `M` rows (whatever the body, the initial condition and
    the carried values do). -/
theorem loop_scan_rows_le_tripcount (body : Body) (M : Nat) (c0 : Bool) (v0 fin : List RtVal)
    (scs : List (List RtVal)) (j : Nat) (w : RtVal)
    (hrun : loopRun body M 0 c0 v0 = some (fin, scs)) (hs : stackScan (column scs j) = some w) :
    ∃ k r, w.s = k :: r ∧ k ≤ M := by
  obtain ⟨r, hr⟩ := stackScan_rows _ _ hs
  exact ⟨_, r, hr, Nat.le_trans (column_length_le scs j) (loopRun_rows_le body M 0 c0 v0 fin scs hrun)⟩

/-- The scan type refined by a constant trip count: leading dim `M` instead of unknown. -/
def scanTyM (m : Nat) (t : Ty) : Ty := ⟨t.e, t.s.map (Dim.const m :: ·)⟩

/-- A body that stops after its second iteration (`i + 1 < 2`), each iteration emitting one `i64[1]`
    slice. -/
def breakAt2 : Body := fun i vs => some (decide (i + 1 < 2), vs, [⟨.i64, [1]⟩])

/-- **Refutation of "scan rows = constant trip count"**: `M = 4`, `cond` omitted, the body breaks after
    two iterations: the scan output has 2 rows, so it does not conform to the type refined by the
    trip count, while it does conform to the type spox reports (unknown leading dim). This is the run
    the termination-Loop oracle replays on the real code. -/
theorem loop_scan_tripcount_counterexample :
    ∃ fin scs w, loopRun breakAt2 4 0 true [⟨.f32, [3]⟩] = some (fin, scs) ∧
      stackScan (column scs 0) = some w ∧
      conforms w (some (scanTyM 4 ⟨.i64, some [.const 1]⟩)) = false ∧
      conforms w (some (scanTy ⟨.i64, some [.const 1]⟩)) = true :=
  ⟨[⟨.f32, [3]⟩], [[⟨.i64, [1]⟩], [⟨.i64, [1]⟩]], ⟨.i64, [2, 1]⟩, by decide, by decide, by decide, by decide⟩

/-- What does hold for the refined type: if the body never breaks and `cond` is omitted, a stacked
    column with one slice per iteration has exactly `M` rows and conforms to the refined type. -/
theorem loop_scan_tripcount_sound_partial (body : Body)
    (hnb : ∀ i vs c vs' sc, body i vs = some (c, vs', sc) → c = true)
    (M : Nat) (v0 fin : List RtVal) (scs : List (List RtVal)) (j : Nat) (t : Ty) (w : RtVal)
    (hrun : loopRun body M 0 true v0 = some (fin, scs))
    (hfull : (column scs j).length = scs.length)
    (hs : stackScan (column scs j) = some w) (hc : conforms w (some (scanTy t)) = true) :
    conforms w (some (scanTyM M t)) = true := by
  obtain ⟨r, hr⟩ := stackScan_rows _ _ hs
  have hM : (column scs j).length = M := by
    rw [hfull]; exact loopRun_rows_eq_of_never_breaks body hnb M 0 v0 fin scs hrun
  rw [hM] at hr
  obtain ⟨we, ws⟩ := w
  simp only at hr; subst hr
  rcases t with ⟨e, _ | ds⟩
  · simpa [conforms, scanTy, scanTyM] using hc
  · simp only [conforms, scanTy, scanTyM, Option.map_some, dimsOk, Bool.and_eq_true] at hc ⊢
    refine ⟨hc.1, ?_, hc.2.2⟩
    simp [dimOk]

example : loopRun breakAt2 4 0 true [⟨.f32, [3]⟩] = some ([⟨.f32, [3]⟩], [[⟨.i64, [1]⟩], [⟨.i64, [1]⟩]]) := by decide

/-- An omitted trip count behaves like any trip count the run does not exhaust: whatever a run without
    `M` produces, the run with `M = fuel` produces too. So every soundness theorem stated for `loopRun`
    (carried values, body arguments, scan outputs) also covers loops whose trip count is omitted. -/
theorem loopRunUntil_eq_loopRun (body : Body) : ∀ (f i : Nat) (c : Bool) (vs : List RtVal)
    (r : List RtVal × List (List RtVal)), loopRunUntil body f i c vs = some r → loopRun body f i c vs = some r := by
  intro f
  induction f with
  | zero =>
    intro i c vs r h
    cases c with
    | false => simpa [loopRunUntil, loopRun] using h
    | true => simp [loopRunUntil] at h
  | succ m ih =>
    intro i c vs r h
    cases c with
    | false => simpa [loopRunUntil, loopRun] using h
    | true =>
      simp only [loopRunUntil] at h
      simp only [loopRun]
      split at h
      · simp at h
      · rename_i c' vs' sc hb
        split at h
        · simp at h
        · rename_i fin' scs' hr
          have := ih (i + 1) c' vs' (fin', scs') hr
          simp only [this]
          exact h

/-- Both optional inputs: a run of `Loop` with `M` and / or `cond` omitted is a `loopRun` (with
    `M := fuel` resp. `c0 := true`). -/
theorem loopRunOpt_is_loopRun (body : Body) (M : Option Nat) (cond : Option Bool) (fuel : Nat)
    (vs : List RtVal) (r : List RtVal × List (List RtVal)) (h : loopRunOpt body M cond fuel vs = some r) :
    loopRun body (M.getD fuel) 0 (cond.getD true) vs = some r := by
  cases M with
  | some m => simpa [loopRunOpt] using h
  | none => exact loopRunUntil_eq_loopRun body fuel 0 (cond.getD true) vs r (by simpa [loopRunOpt] using h)

/-- Scan outputs of a loop WITHOUT a trip count: same reported type, same soundness. -/
theorem loop_scan_output_sound_noM (a s : List Ty) (body : Body) (cond : Option Bool) (fuel : Nat)
    (v0 fin : List RtVal) (scs : List (List RtVal)) (j : Nat) (t : Ty) (w : RtVal)
    (hinit : conformsAll v0 (a.map some) = true)
    (hbody : ∀ i vs c vs' sc, conformsAll vs (a.map some) = true → body i vs = some (c, vs', sc) →
        conformsAll sc (s.map some) = true)
    (hrun : loopRunOpt body none cond fuel v0 = some (fin, scs)) (hj : s[j]? = some t)
    (hs : stackScan (column scs j) = some w) : conforms w (some (scanTy t)) = true :=
  loop_scan_output_sound a s body fuel (cond.getD true) v0 fin scs j t w hinit hbody
    (by simpa using loopRunOpt_is_loopRun body none cond fuel v0 (fin, scs) hrun) hj hs

example : loopRunOpt breakAt2 none none 10 [⟨.f32, [3]⟩] = some ([⟨.f32, [3]⟩], [[⟨.i64, [1]⟩], [⟨.i64, [1]⟩]]) := by decide
example : loopRunOpt (fun _ vs => some (true, vs, [])) none none 10 [⟨.f32, [3]⟩] = none := by decide


/-! ### Scan: axes (directions do not change shapes) -/

/-- A slice of a scan input along ANY axis (negative too): its length conforms to the dim the input's
    type has at that axis, and the slice conforms to the type with that axis removed. -/
theorem scan_slice_sound (axis : Int) (x : RtVal) (X : Ty) (n : Nat) (sl : RtVal) (len : Dim) (slT : Ty)
    (hx : conforms x (some X) = true) (hs : scanSlice axis x = some (n, sl))
    (ht : scanSliceTy axis X = some (len, slT)) : dimOk n len = true ∧ conforms sl (some slT) = true := by
  obtain ⟨xe, xs⟩ := x
  obtain ⟨Xe, Xs⟩ := X
  simp only [conforms, Bool.and_eq_true] at hx
  cases Xs with
  | none =>
    simp only [scanSliceTy, Option.some.injEq, Prod.mk.injEq] at ht
    obtain ⟨h1, h2⟩ := ht; subst h1; subst h2
    simp only [scanSlice] at hs
    split at hs
    · simp at hs
    · simp only [Option.some.injEq, Prod.mk.injEq] at hs
      obtain ⟨-, h2⟩ := hs; subst h2
      simp [conforms, hx.1]
  | some ds =>
    have hlen := dimsOk_length hx.2
    simp only [scanSliceTy] at ht
    simp only [scanSlice] at hs
    rw [hlen] at hs
    split at hs
    · simp at hs
    · rename_i i hi
      rw [hi] at ht
      simp only [Option.some.injEq, Prod.mk.injEq] at hs ht
      obtain ⟨h1, h2⟩ := hs; obtain ⟨h3, h4⟩ := ht
      subst h1; subst h2; subst h3; subst h4
      exact ⟨dimsOk_getD i hx.2, by simp [conforms, hx.1, dimsOk_delAt i hx.2]⟩

/-- For the default axis 0 spox's prescription for the body's slice argument (`shape[1:]`) IS the slice
    type; for any other axis it is not (`scan_prescription_axis1_counterexample`). -/
theorem scan_spox_prescription_axis0 (X : Ty) (len : Dim) (slT : Ty)
    (ht : scanSliceTy 0 X = some (len, slT)) : slT = scanSliceTySpox X := by
  obtain ⟨e, s⟩ := X
  cases s with
  | none => simp only [scanSliceTy, Option.some.injEq, Prod.mk.injEq] at ht; rw [← ht.2]; rfl
  | some ds =>
    cases ds with
    | nil => simp [scanSliceTy, normAxis] at ht
    | cons d r =>
      simp [scanSliceTy, normAxis] at ht
      rw [← ht.2]; simp [scanSliceTySpox, delAt]

/-- `scan_input_axes = [1]` on `f32[2,3]`: the slices are `f32[2]`, the prescribed argument type `f32[3]`
    (ONNX's Scan inference rejects that construction; with equal or symbolic dims nothing false is claimed). -/
theorem scan_prescription_axis1_counterexample :
    ∃ n sl, scanSlice 1 ⟨.f32, [2, 3]⟩ = some (n, sl) ∧
      conforms sl (some (scanSliceTySpox ⟨.f32, some [.const 2, .const 3]⟩)) = false :=
  ⟨3, ⟨.f32, [2]⟩, by decide, by decide⟩

/-- Stacking `n` equal rows along any output axis: if a row conforms to the body's declared result type
    and `n` conforms to the scan-length dim, the stacked value conforms to the reported scan-output type. -/
theorem scan_stack_sound (n : Nat) (axis : Int) (rows : List RtVal) (v : RtVal) (t ty : Ty) (len : Dim) (w : RtVal)
    (hv : rows.head? = some v) (hc : conforms v (some t) = true) (hn : dimOk n len = true)
    (hs : stackAtN n axis rows = some w) (hty : scanOutTy axis len t = some ty) :
    conforms w (some ty) = true := by
  simp only [stackAtN] at hs
  split at hs
  · rename_i hlen
    cases rows with
    | nil => simp at hv
    | cons v' vs =>
      simp only [List.head?_cons, Option.some.injEq] at hv; subst hv
      simp only [List.length_cons, beq_iff_eq] at hlen
      obtain ⟨te, ts⟩ := t
      simp only [conforms, Bool.and_eq_true] at hc
      simp only [stackAt] at hs
      split at hs
      · cases ts with
        | none =>
          simp only [scanOutTy, Option.some.injEq] at hty; subst hty
          split at hs
          · simp at hs
          · simp only [Option.some.injEq] at hs; subst hs; simp [conforms, hc.1]
        | some ds =>
          have hl := dimsOk_length hc.2
          simp only [scanOutTy] at hty
          rw [hl] at hs
          split at hs
          · simp at hs
          · rename_i i hi
            rw [hi] at hty
            simp only [Option.some.injEq] at hs hty; subst hs; subst hty
            rw [hlen]
            simp [conforms, hc.1, dimsOk_insAt i n len hc.2 hn]
      · simp at hs
  · simp at hs

/-- **Scan output soundness, any input axis / output axis**: scan output `j` of a run — the rows the
    body returned in column `j`, stacked along `scan_output_axes[j]` — conforms to the reported type "the
    body's declared result type with the dim of scan input 0 at ITS scan axis inserted at the output
    axis", provided the first row conforms to the body's declared result type. -/
theorem scan_output_sound (inAxis outAxis : Int) (x0 : RtVal) (X0 : Ty) (n : Nat) (sl : RtVal) (len : Dim) (slT : Ty)
    (col : List RtVal) (v : RtVal) (t ty : Ty) (w : RtVal)
    (hx : conforms x0 (some X0) = true) (hs : scanSlice inAxis x0 = some (n, sl))
    (ht : scanSliceTy inAxis X0 = some (len, slT))
    (hv : col.head? = some v) (hc : conforms v (some t) = true)
    (hst : stackAtN n outAxis col = some w) (hty : scanOutTy outAxis len t = some ty) :
    conforms w (some ty) = true :=
  scan_stack_sound n outAxis col v t ty len w hv hc (scan_slice_sound inAxis x0 X0 n sl len slT hx hs ht).1 hst hty

/-- The number of rows of a scan is the scan length (so `stackAtN`'s check is what a run satisfies). -/
theorem scanIter_rows (body : ScanBody) (slices : List RtVal) : ∀ (n t : Nat) (st fin : List RtVal)
    (rows : List (List RtVal)), scanIter body slices n t st = some (fin, rows) → rows.length = n := by
  intro n
  induction n with
  | zero => intro t st fin rows h; simp only [scanIter, Option.some.injEq, Prod.mk.injEq] at h; rw [← h.2]; rfl
  | succ m ih =>
    intro t st fin rows h
    simp only [scanIter] at h
    split at h
    · simp at h
    · split at h
      · simp at h
      · rename_i fin' rows' hr
        simp only [Option.some.injEq, Prod.mk.injEq] at h
        rw [← h.2]; simp [ih _ _ _ _ hr]

-- non-vacuity: f32[2,3,4] scanned along axis -2 (length 3), rows of shape [2,4] stacked along output axis -1
example : scanRun { inAxes := [-2], outAxes := [-1, 1] } (fun _ st sl => some (st, sl ++ [⟨.i64, [7]⟩])) 2
    [⟨.f32, [5]⟩] [⟨.f32, [2, 3, 4]⟩] = some ([⟨.f32, [5]⟩], [⟨.f32, [2, 4, 3]⟩, ⟨.i64, [7, 3]⟩]) := by decide
example : scanOutTy (-1) (.const 3) ⟨.f32, some [.const 2, .named "N"]⟩ = some ⟨.f32, some [.const 2, .named "N", .const 3]⟩ := by decide
example : scanSliceTy (-2) ⟨.f32, some [.const 2, .const 3, .const 4]⟩ = some (.const 3, ⟨.f32, some [.const 2, .const 4]⟩) := by decide
example : scanRun {} (fun _ st sl => some (st, sl)) 1 [] [⟨.f32, [0, 4]⟩] = none := by decide

/-! ## Scan — final-state outputs (round 10)

`scanStateTy` is the type `op.scan` reports for a final-state output (initial state's type merged with the
body's result type); `guardBody` is onnxruntime's loop-state rule (a body that returns a state of another
element type / shape fails the run). Both are compared with the real code / the runtime on every run. -/

/-- Under the runtime's loop-state rule a completed `Scan` run — any scan length (zero included), any
    number of scan inputs / outputs, any axes — ends in its initial states. -/
theorem scan_state_unchanged (cfg : ScanCfg) (body : ScanBody) (k : Nat) (states xs fin outs : List RtVal)
    (hrun : scanRun cfg (guardBody body) k states xs = some (fin, outs)) : fin = states := by
  unfold scanRun at hrun
  split at hrun
  · simp at hrun
  · split at hrun
    · simp at hrun
    · split at hrun
      · simp at hrun
      · rename_i fin' rows hit
        split at hrun
        · simp at hrun
        · simp only [Option.some.injEq, Prod.mk.injEq] at hrun
          rw [← hrun.1]
          exact scanIter_guard_states body _ _ 0 states fin' rows hit

/-- **Soundness of the reported final-state types, every scan length ≥ 1.** `S0` = types of the initial
    states, `R` = the body's declared result types for the states, `U` = the reported types. If the initial
    states conform to `S0` and the body respects its declared result types (`hbody`), the final states of
    every completed run with at least one iteration conform to `U` — by invariant over the iterations, no
    bound on their number. -/
theorem scan_state_sound (body : ScanBody) (slices : List RtVal) (S0 R U : List Ty) (n t : Nat)
    (states fin : List RtVal) (rows : List (List RtVal))
    (hU : scanStateTys S0 R = some U)
    (h0 : conformsAll states (S0.map some) = true)
    (hbody : ∀ t st sl st' row, body t st sl = some (st', row) → conformsAll st' (R.map some) = true)
    (hrun : scanIter (guardBody body) slices (n + 1) t states = some (fin, rows)) :
    conformsAll fin (U.map some) = true := by
  have hfin := scanIter_guard_states body slices (n + 1) t states fin rows hrun
  obtain ⟨row, hfirst⟩ := scanIter_guard_first body slices n t states fin rows hrun
  subst hfin
  exact scanStateTys_sound fin S0 R U hU h0 (hbody t fin slices fin row hfirst)

/-- The same for `scanRun` with at least one scan output (`0 < k`; such a run has at least one iteration,
    because a zero-length scan axis has no rows to shape the scan outputs from). -/
theorem scan_state_output_sound (cfg : ScanCfg) (body : ScanBody) (k : Nat) (S0 R U : List Ty)
    (states xs fin outs : List RtVal) (hk : 0 < k)
    (hU : scanStateTys S0 R = some U)
    (h0 : conformsAll states (S0.map some) = true)
    (hbody : ∀ t st sl st' row, body t st sl = some (st', row) → conformsAll st' (R.map some) = true)
    (hrun : scanRun cfg (guardBody body) k states xs = some (fin, outs)) :
    conformsAll fin (U.map some) = true := by
  unfold scanRun at hrun
  split at hrun
  · simp at hrun
  · split at hrun
    · simp at hrun
    · rename_i sl _ n _
      split at hrun
      · simp at hrun
      · rename_i fin' rows hit
        split at hrun
        · simp at hrun
        · rename_i outs' hall
          simp only [Option.some.injEq, Prod.mk.injEq] at hrun
          rw [← hrun.1]
          cases n with
          | succ m => exact scan_state_sound body _ S0 R U m 0 states fin' rows hU h0 hbody hit
          | zero =>
            exfalso
            obtain ⟨k', rfl⟩ : ∃ k', k = k' + 1 := ⟨k - 1, by omega⟩
            simp only [scanIter, Option.some.injEq, Prod.mk.injEq] at hit
            rw [← hit.2] at hall
            simp [List.range_succ_eq_map, allSome, stackAtN, column, stackAt] at hall

/-- Without the runtime's loop-state rule the reported type would be unsound (why `guardBody` is part of the
    runtime model and validated against onnxruntime): initial state `f32[3]`, body result declared `f32[N]`
    — reported `f32[3]` — and a body that halves the state. -/
theorem scan_state_needs_runtime_rule_counterexample :
    scanStateTy ⟨.f32, some [.const 3]⟩ ⟨.f32, some [.named "N"]⟩ = some ⟨.f32, some [.const 3]⟩ ∧
    ∃ fin rows, scanIter (fun _ _ sl => some ([⟨.f32, [2]⟩], sl)) [] 1 0 [⟨.f32, [3]⟩] = some (fin, rows) ∧
      conformsAll fin [tensor .f32 [.const 3]] = false ∧
      scanIter (guardBody (fun _ _ sl => some ([⟨.f32, [2]⟩], sl))) [] 1 0 [⟨.f32, [3]⟩] = none := by
  refine ⟨by decide, [⟨.f32, [2]⟩], [[]], by decide, by decide, by decide⟩

example : scanStateTy ⟨.f32, some [.const 2, .named "N"]⟩ ⟨.f32, some [.anon, .named "M"]⟩
    = some ⟨.f32, some [.const 2, .named "N"]⟩ := by decide
example : scanStateTy ⟨.f32, some [.const 3]⟩ ⟨.f32, some [.const 4]⟩ = none := by decide
example : scanStateTy ⟨.f32, none⟩ ⟨.f32, some [.const 3]⟩ = some ⟨.f32, some [.const 3]⟩ := by decide
example : scanRun {} (guardBody (fun _ st sl => some (st, sl))) 1 [⟨.f32, [3]⟩] [⟨.f32, [2, 4]⟩]
    = some ([⟨.f32, [3]⟩], [⟨.f32, [2, 4]⟩]) := by decide


/-- No modelled routine turns a non-tensor input into a tensor claim: it raises, or (Binarizer,
    Normalizer) hands the non-tensor type through — for which no runtime value exists. -/
theorem nonTensor_outcomes_cover :
    modelledOverrides.all (fun p => p.2 == "Loop" || (nonTensorOutcome p.2).isSome) = true := by decide

/-! ## Non-vacuity: the hypotheses of the theorems are satisfiable and the conclusions say something -/

example : inferScaler (some 2) (some 2) (tensor .f64 [.named "N", .const 2]) = .ok [tensor .f32 [.named "N", .const 2]] := by decide
example : conforms ⟨.f32, [5, 2]⟩ (tensor .f32 [.named "N", .const 2]) = true := by decide
example : conforms ⟨.f32, [5, 3]⟩ (tensor .f32 [.named "N", .const 2]) = false := by decide
example : conforms ⟨.f32, [5]⟩ (tensor .f32 [.named "N", .const 2]) = false := by decide
example : conforms ⟨.f64, [5, 2]⟩ (tensor .f32 [.named "N", .const 2]) = false := by decide
example : inferArrayFeatureExtractor (tensor .f32 [.const 5, .anon, .const 7]) (tensor .i64 [.named "K"])
    = .ok [tensor .f32 [.const 5, .anon, .named "K"]] := by decide
example : rtArrayFeatureExtractor ⟨.f32, [5, 1, 7]⟩ ⟨.i64, [3]⟩ = some [⟨.f32, [5, 1, 3]⟩] := by decide
example : inferCompress (some (-1)) (tensor .f32 [.const 2, .const 3]) (tensor .bool [.const 3])
    = .ok [tensor .f32 [.const 2, .anon]] := by decide
example : rtCompress (some (-1)) 1 ⟨.f32, [2, 3]⟩ = some [⟨.f32, [2, 1]⟩] := by decide
example : inferLoop [tensor .i64 [.named "N", .const 2]] [tensor .i64 [.named "N", .const 2]] [tensor .i64 [.const 1]]
    = .ok [tensor .i64 [.named "N", .const 2], tensor .i64 [.anon, .const 1]] := by decide
example : loopRun (fun _ vs => some (true, vs, [])) 3 0 true [⟨.f32, [2]⟩] = some ([⟨.f32, [2]⟩], [[], [], []]) := by decide

end C06M
