import SpoxModel.Lemmas.Dispatch
import SpoxModel.Generated.ResultType
/-!
# C17 — overloaded Python operators on Var follow numpy semantics
-/
namespace C17
open Dispatch Generated.ResultType

def binOps : List Op := [.add, .sub, .mul, .truediv, .floordiv]
def opIndex : Op → Nat
  | .add => 0 | .sub => 1 | .mul => 2 | .truediv => 3 | .floordiv => 4 | _ => 5

/-- numeric dtypes: 0-10 -/
def numeric : List Nat := [0, 1, 2, 3, 4, 5, 6, 7, 8, 9, 10]

/-- the operand kinds of the statement (numeric Vars, Python int / float) and more (Python bool,
    numpy scalars of every numeric dtype) -/
def operands : List Operand :=
  numeric.map .var ++ [.pyInt 3, .pyFloat, .pyBool true] ++ numeric.map .npScalar

def Operand.isVar : Operand → Bool
  | .var _ => true
  | _ => false

def kindOf (o : Operand) : Nat := o.kind.getD 0

def resultDtype (r : Except Err (Tree × Nat)) : Option Nat :=
  match r with
  | .ok (_, d) => some d
  | .error _ => none

def isErr (r : Except Err (Tree × Nat)) (e : Err) : Bool :=
  match r with
  | .ok _ => false
  | .error e' => e == e'

/-- the dtype numpy itself gives to `a <op> b` (generated table) -/
def npResult (op : Op) (a b : Operand) : Option Nat :=
  ((npBinary.getD (opIndex op) []).getD (kindOf a) []).getD (kindOf b) none

theorem result_dtype_matches :
    ∀ op ∈ binOps, ∀ a ∈ operands, ∀ b ∈ operands, (Operand.isVar a || Operand.isVar b) = true →
      resultDtype (dispatch info (some (true, true)) op a b) = npResult op a b := by
  decide +kernel


/-- unary minus keeps numpy's element type wherever ONNX defines `Neg` -/
theorem neg_dtype_matches :
    ∀ s ∈ [(true, true), (true, false), (false, true), (false, false)], ∀ d ∈ numeric,
      info.allowed "Neg" d = true →
        resultDtype (dispatch info (some s) .neg (.var d) .other) = npNeg.getD d none := by
  decide +kernel

/-! ## Promotion switched off: nothing is converted -/

/-- the expression casts an operand Var -/
def convertsOperand : Tree → Bool
  | .arg _ => false
  | .cast _ (.arg _) => true
  | .cast _ t => convertsOperand t
  | .constOf _ _ => false
  | .zero _ => false
  | .un _ t => convertsOperand t
  | .bin _ l r => convertsOperand l || convertsOperand r

def isInt (d : Nat) : Bool := info.integer d

/-- With type promotion off: Vars of different element types raise TypeError; a Python float (or a
    floating numpy scalar) meeting an integer Var raises TypeError; whatever is accepted keeps the
    Var's element type and casts no operand. For every operand kind on either side, both settings of
    constant promotion. -/
theorem no_promotion_strict :
    ∀ cp ∈ [true, false], ∀ op ∈ binOps,
      (∀ da ∈ numeric, ∀ db ∈ numeric, da ≠ db →
        isErr (dispatch info (some (false, cp)) op (.var da) (.var db)) .typeError = true) ∧
      (∀ d ∈ numeric, isInt d = true →
        isErr (dispatch info (some (false, cp)) op (.var d) .pyFloat) .typeError = true ∧
        isErr (dispatch info (some (false, cp)) op .pyFloat (.var d)) .typeError = true) ∧
      (∀ d ∈ numeric, ∀ o ∈ operands,
        (match dispatch info (some (false, cp)) op (.var d) o with
         | .ok (tree, r) => r == d && !convertsOperand tree && (match o with | .var d' => d' == d | _ => true)
         | .error e => e == .typeError) = true ∧
        (match dispatch info (some (false, cp)) op o (.var d) with
         | .ok (tree, r) => r == d && !convertsOperand tree && (match o with | .var d' => d' == d | _ => true)
         | .error e => e == .typeError) = true) := by
  decide +kernel

/-! ## Outside a block -/

/-- **Outside an `operator_overloading` block every operator raises TypeError** — any operator,
    any operands (any table). -/
theorem outside_block_typeerror (np : NpInfo) (op : Op) (a b : Operand) :
    dispatch np none op a b = .error .typeError := rfl

/-! ## Logical operators -/

def logicOps : List Op := [.and_, .or_, .xor]

/-- **`& | ^ ~` on boolean Vars are numpy's logical operators**: the emitted operator applied to
    0/1 values gives numpy's answer, the result is boolean, in every promotion setting. -/
theorem logical_matches :
    ∀ s ∈ [(true, true), (true, false), (false, true), (false, false)], ∀ x ∈ [false, true], ∀ y ∈ [false, true],
      (∀ op ∈ logicOps,
        (match dispatch info (some s) op (.var boolDt) (.var boolDt) with
         | .ok (tree, d) => d == boolDt &&
             eval info (.var boolDt) (.var boolDt) (b2i x) (b2i y) tree == some (boolDt, b2i (npLogical op x y))
         | .error _ => false) = true) ∧
      (match dispatch info (some s) .not_ (.var boolDt) .other with
       | .ok (tree, d) => d == boolDt &&
           eval info (.var boolDt) .other (b2i x) 0 tree == some (boolDt, b2i (npLogical .not_ x false))
       | .error _ => false) = true := by
  decide +kernel

end C17
