import SpoxModel.Lemmas.Dispatch
import SpoxModel.Generated.ResultType
import SpoxModel.Generated.VarDunders
/-!
# C17 — overloaded Python operators on Var follow numpy semantics

The model (`Model/Dispatch.lean`) is executed against the real dispatcher on every run (emitted
operator tree, result dtype or error class, for every operator x operand kind x side x setting) and its
integer semantics `eval` against onnxruntime (tie H); numpy's promotion tables, numpy's own result
dtypes and ONNX's operator type constraints (`Generated/ResultType.lean`) are tabulated from numpy and
onnx.defs on every run (tie G), so the `decide` theorems are re-proved against what they say *now*.
Values of floating-point results are not the subject of a theorem (see `floordiv_float_partial`).
-/
namespace C17
open Dispatch Generated.ResultType

def binOps : List Op := [.add, .sub, .mul, .truediv, .floordiv]
def opIndex : Op → Nat
  | .add => 0 | .sub => 1 | .mul => 2 | .truediv => 3 | .floordiv => 4 | _ => 5

/-- numeric dtypes: 0-10 -/
def numeric : List Nat := [0, 1, 2, 3, 4, 5, 6, 7, 8, 9, 10]

/-- the operand kinds of the statement (numeric Vars, Python int / float) and more (Python bool,
    numpy scalars of every numeric dtype) -/
def operands : List Operand :=
  numeric.map .var ++ [.pyInt 3, .pyInt 0, .pyInt 1, .pyFloat, .pyBool true, .pyBool false] ++ numeric.map .npScalar

def Operand.isVar : Operand → Bool
  | .var _ => true
  | _ => false

def kindOf (o : Operand) : Nat := o.kind.getD 0

def resultDtype (r : Except Err (Tree × Nat)) : Option Nat :=
  match r with
  | .ok (_, d) => some d
  | .error _ => none

def isErr (r : Except Err (Tree × Nat)) (e : Err) : Bool :=
  match r with
  | .ok _ => false
  | .error e' => e == e'

/-- the dtype numpy itself gives to `a <op> b` (generated table) -/
def npResult (op : Op) (a b : Operand) : Option Nat :=
  ((npBinary.getD (opIndex op) []).getD (kindOf a) []).getD (kindOf b) none

theorem result_dtype_matches :
    ∀ op ∈ binOps, ∀ a ∈ operands, ∀ b ∈ operands, (Operand.isVar a || Operand.isVar b) = true →
      resultDtype (dispatch info (some (true, true)) op a b) = npResult op a b := by
  decide +kernel


/-- unary minus keeps numpy's element type wherever ONNX defines `Neg` -/
theorem neg_dtype_matches :
    ∀ s ∈ [(true, true), (true, false), (false, true), (false, false)], ∀ d ∈ numeric,
      info.allowed "Neg" d = true →
        resultDtype (dispatch info (some s) .neg (.var d) .other) = npNeg.getD d none := by
  decide +kernel

/-! ## Promotion switched off: nothing is converted -/

/-- the expression casts an operand Var -/
def convertsOperand : Tree → Bool
  | .arg _ => false
  | .cast _ (.arg _) => true
  | .cast _ t => convertsOperand t
  | .constOf _ _ => false
  | .zero _ => false
  | .un _ t => convertsOperand t
  | .bin _ l r => convertsOperand l || convertsOperand r

def isInt (d : Nat) : Bool := info.integer d

/-- With type promotion off: Vars of different element types raise TypeError; a Python float (or a
    floating numpy scalar) meeting an integer Var raises TypeError; whatever is accepted keeps the
    Var's element type and casts no operand. For every operand kind on either side, both settings of
    constant promotion. -/
theorem no_promotion_strict :
    ∀ cp ∈ [true, false], ∀ op ∈ binOps,
      (∀ da ∈ numeric, ∀ db ∈ numeric, da ≠ db →
        isErr (dispatch info (some (false, cp)) op (.var da) (.var db)) .typeError = true) ∧
      (∀ d ∈ numeric, isInt d = true →
        isErr (dispatch info (some (false, cp)) op (.var d) .pyFloat) .typeError = true ∧
        isErr (dispatch info (some (false, cp)) op .pyFloat (.var d)) .typeError = true) ∧
      (∀ d ∈ numeric, ∀ o ∈ operands,
        (match dispatch info (some (false, cp)) op (.var d) o with
         | .ok (tree, r) => r == d && !convertsOperand tree && (match o with | .var d' => d' == d | _ => true)
         | .error e => e == .typeError) = true ∧
        (match dispatch info (some (false, cp)) op o (.var d) with
         | .ok (tree, r) => r == d && !convertsOperand tree && (match o with | .var d' => d' == d | _ => true)
         | .error e => e == .typeError) = true) := by
  decide +kernel

/-! ## Outside a block -/

/-- **Outside an `operator_overloading` block every operator raises TypeError** — any operator,
    any operands (any table). -/
theorem outside_block_typeerror (np : NpInfo) (op : Op) (a b : Operand) :
    dispatch np none op a b = .error .typeError := rfl

/-! ## Logical operators -/

def logicOps : List Op := [.and_, .or_, .xor]

/-- **`& | ^ ~` on boolean Vars are numpy's logical operators**: the emitted operator applied to
    0/1 values gives numpy's answer, the result is boolean, in every promotion setting. -/
theorem logical_matches :
    ∀ s ∈ [(true, true), (true, false), (false, true), (false, false)], ∀ x ∈ [false, true], ∀ y ∈ [false, true],
      (∀ op ∈ logicOps,
        (match dispatch info (some s) op (.var boolDt) (.var boolDt) with
         | .ok (tree, d) => d == boolDt &&
             eval info (.var boolDt) (.var boolDt) (b2i x) (b2i y) tree == some (boolDt, b2i (npLogical op x y))
         | .error _ => false) = true) ∧
      (match dispatch info (some s) .not_ (.var boolDt) .other with
       | .ok (tree, d) => d == boolDt &&
           eval info (.var boolDt) .other (b2i x) 0 tree == some (boolDt, b2i (npLogical .not_ x false))
       | .error _ => false) = true := by
  decide +kernel


/-! ## Values: integer arithmetic agrees with numpy for all operand values -/

def ints : List Nat := [0, 1, 2, 3, 4, 5, 6, 7]
def intOps : List Op := [.add, .sub, .mul, .floordiv]

theorem int_shape :
    ∀ cp ∈ [true, false], ∀ op ∈ intOps, ∀ da ∈ ints, ∀ db ∈ ints,
      (match info.rt2 da db with
       | some t => !info.integer t ||
           ((match dispatch info (some (true, cp)) op (.var da) (.var db) with
             | .ok (tree, d) => tree == arithTree info op t (.cast t (.arg 0)) (.cast t (.arg 1)) && d == t
             | .error _ => false) &&
            t != boolDt && rangeSub info da t && rangeSub info db t && decide (2 ≤ info.bits t))
       | none => true) = true := by
  decide +kernel

def intMin (t : Nat) : Int := -(2 : Int) ^ (info.bits t - 1)

theorem arith_matches (cp : Bool) (op : Op) (hop : op ∈ intOps) (da db : Nat) (hda : da ∈ ints) (hdb : db ∈ ints)
    (t : Nat) (ht : info.rt2 da db = some t) (hint : info.integer t = true)
    (x y : Int) (hx : inRange info da x = true) (hy : inRange info db y = true)
    (hdiv : op = .floordiv → y ≠ 0 ∧ ¬(x = intMin t ∧ y = -1)) :
    ∃ tree, dispatch info (some (true, cp)) op (.var da) (.var db) = .ok (tree, t) ∧
      eval info (.var da) (.var db) x y tree = some (t, npInt info op t x y) := by
  have hcp : cp ∈ [true, false] := by cases cp <;> simp
  have h := int_shape cp hcp op hop da hda db hdb
  simp only [ht, hint, Bool.not_true, Bool.false_or, Bool.and_eq_true, decide_eq_true_eq, bne_iff_ne, ne_eq] at h
  obtain ⟨⟨⟨⟨hd, htb⟩, hra⟩, hrb⟩, hbits⟩ := h
  cases hdisp : dispatch info (some (true, cp)) op (.var da) (.var db) with
  | error e => simp [hdisp] at hd
  | ok p =>
    obtain ⟨tree, d⟩ := p
    simp only [hdisp, Bool.and_eq_true, beq_iff_eq] at hd
    obtain ⟨rfl, rfl⟩ := hd
    refine ⟨_, rfl, ?_⟩
    have hxt := inRange_mono info da d hra x hx
    have hyt := inRange_mono info db d hrb y hy
    have hw : ∀ v, inRange info d v = true → wrap info d v = v := fun v hv => wrap_id info d (by omega) v hv
    have htb' : (d == boolDt) = false := by simpa using htb
    have el : eval info (.var da) (.var db) x y (.cast d (.arg 0)) = some (d, x) := by
      simp [eval, hint, htb', hw x hxt]
    have er : eval info (.var da) (.var db) x y (.cast d (.arg 1)) = some (d, y) := by
      simp [eval, hint, htb', hw y hyt]
    simp only [intOps, List.mem_cons, List.not_mem_nil, or_false] at hop
    rcases hop with rfl | rfl | rfl | rfl
    · simp only [arithTree, eval_bin, el, er, npInt]
    · simp only [arithTree, eval_bin, el, er, npInt]
    · simp only [arithTree, eval_bin, el, er, npInt]
    · obtain ⟨hy0, hov⟩ := hdiv rfl
      by_cases hs : info.signed d = true
      · simp only [arithTree, hint, hs, Bool.not_true, Bool.false_eq_true, if_false, if_true, npInt]
        -- the representable range of the signed type d
        have hrange : ∀ v, inRange info d v = true ↔ (-(2 : Int) ^ (info.bits d - 1) ≤ v ∧ v < (2 : Int) ^ (info.bits d - 1)) := by
          intro v; simp [inRange, hs]
        have hwP : ∀ v, -(2 : Int) ^ (info.bits d - 1) ≤ v → v < (2 : Int) ^ (info.bits d - 1) → wrap info d v = v :=
          fun v h1 h2 => hw v ((hrange v).2 ⟨h1, h2⟩)
        have hP2 : (2 : Int) ≤ (2 : Int) ^ (info.bits d - 1) := by
          have := two_pow_mono (show 1 ≤ info.bits d - 1 by omega)
          simpa using this
        obtain ⟨hx1, hx2⟩ := (hrange x).1 hxt
        obtain ⟨hy1, hy2⟩ := (hrange y).1 hyt
        have key := floordiv_correct (wrap info d) _ hwP x y hx1 hx2 hy1 hy2 hy0 (by simpa [intMin] using hov)
        -- evaluate the emitted expression bottom-up
        have eDiv : eval info (.var da) (.var db) x y (.bin .Div (.cast d (.arg 0)) (.cast d (.arg 1)))
            = some (d, wrap info d (x.tdiv y)) := by
          simp only [eval_bin, el, er, hy0, if_false]
        have eMul := eval_bin info (.var da) (.var db) x y .Mul (.bin .Div (.cast d (.arg 0)) (.cast d (.arg 1))) (.cast d (.arg 1))
        simp only [eDiv, er] at eMul
        have eRem := eval_bin info (.var da) (.var db) x y .Sub (.cast d (.arg 0))
          (.bin .Mul (.bin .Div (.cast d (.arg 0)) (.cast d (.arg 1))) (.cast d (.arg 1)))
        simp only [el, eMul] at eRem
        have eZero : eval info (.var da) (.var db) x y (.zero d) = some (d, 0) := rfl
        have eEq := eval_bin info (.var da) (.var db) x y .Equal
          (.bin .Sub (.cast d (.arg 0)) (.bin .Mul (.bin .Div (.cast d (.arg 0)) (.cast d (.arg 1))) (.cast d (.arg 1)))) (.zero d)
        simp only [eRem, eZero] at eEq
        have eNot := eval_un info (.var da) (.var db) x y .Not (.bin .Equal
          (.bin .Sub (.cast d (.arg 0)) (.bin .Mul (.bin .Div (.cast d (.arg 0)) (.cast d (.arg 1))) (.cast d (.arg 1)))) (.zero d))
        simp only [eEq] at eNot
        have eLt1 := eval_bin info (.var da) (.var db) x y .Less
          (.bin .Sub (.cast d (.arg 0)) (.bin .Mul (.bin .Div (.cast d (.arg 0)) (.cast d (.arg 1))) (.cast d (.arg 1)))) (.zero d)
        simp only [eRem, eZero] at eLt1
        have eLt2 := eval_bin info (.var da) (.var db) x y .Less (.cast d (.arg 1)) (.zero d)
        simp only [er, eZero] at eLt2
        rw [eval_bin, eDiv, eval_cast, eval_bin, eNot, eval_bin, eLt1, eLt2]
        simp only [htb', hint, Bool.false_eq_true, if_false, if_true, b2i_ne_zero, one_sub_b2i_ne_zero]
        have hb2i : ∀ c : Bool, wrap info d (b2i c) = b2i c := by
          intro c
          cases c
          · exact hwP _ (by simp only [b2i]; omega) (by simp only [b2i]; omega)
          · exact hwP _ (by simp only [b2i]; omega) (by simp only [b2i]; omega)
        rw [hb2i]
        have hite : ∀ (R : Int), b2i (!(R == 0) && (decide (R < 0) != decide (y < 0)))
            = (if R ≠ 0 ∧ (decide (R < 0) != decide (y < 0)) = true then 1 else 0) := by
          intro R
          by_cases h0 : R = 0 <;> cases hh : (decide (R < 0) != decide (y < 0)) <;> simp [b2i, h0]
        rw [hite]
        dsimp only at key
        have hfd : wrap info d (x.fdiv y) = x.fdiv y := by
          rw [← key]; exact hw _ (wrap_inRange info d (by omega) _)
        rw [hfd, key]
      · simp only [arithTree, hint, hs, Bool.not_true, Bool.false_eq_true, if_false, npInt, eval_bin, el, er, hy0]
        have hx0 : 0 ≤ x := by
          have := hxt; simp [inRange, hs] at this; exact this.1
        have hy0' : 0 ≤ y := by
          have := hyt; simp [inRange, hs] at this; exact this.1
        rw [Int.fdiv_eq_tdiv_of_nonneg hx0 hy0']



/-- The arithmetic part of `arith_matches`, for ANY two operand sub-trees that evaluate to in-range values of
    the integer type `d`: the emitted operator expression over them evaluates to numpy's wrapped exact result. -/
theorem arith_eval (a b : Operand) (op : Op) (hop : op ∈ intOps) (d : Nat)
    (hint : info.integer d = true) (htb : ¬ d = boolDt) (hbits : 2 ≤ info.bits d)
    (L R : Tree) (x y : Int)
    (el : eval info a b x y L = some (d, x)) (er : eval info a b x y R = some (d, y))
    (hxt : inRange info d x = true) (hyt : inRange info d y = true)
    (hdiv : op = .floordiv → y ≠ 0 ∧ ¬(x = intMin d ∧ y = -1)) :
    eval info a b x y (arithTree info op d L R) = some (d, npInt info op d x y) := by
  have hw : ∀ v, inRange info d v = true → wrap info d v = v := fun v hv => wrap_id info d (by omega) v hv
  have htb' : (d == boolDt) = false := by simpa using htb
  simp only [intOps, List.mem_cons, List.not_mem_nil, or_false] at hop
  rcases hop with rfl | rfl | rfl | rfl
  · simp only [arithTree, eval_bin, el, er, npInt]
  · simp only [arithTree, eval_bin, el, er, npInt]
  · simp only [arithTree, eval_bin, el, er, npInt]
  · obtain ⟨hy0, hov⟩ := hdiv rfl
    by_cases hs : info.signed d = true
    · simp only [arithTree, hint, hs, Bool.not_true, Bool.false_eq_true, if_false, if_true, npInt]
      -- the representable range of the signed type d
      have hrange : ∀ v, inRange info d v = true ↔ (-(2 : Int) ^ (info.bits d - 1) ≤ v ∧ v < (2 : Int) ^ (info.bits d - 1)) := by
        intro v; simp [inRange, hs]
      have hwP : ∀ v, -(2 : Int) ^ (info.bits d - 1) ≤ v → v < (2 : Int) ^ (info.bits d - 1) → wrap info d v = v :=
        fun v h1 h2 => hw v ((hrange v).2 ⟨h1, h2⟩)
      have hP2 : (2 : Int) ≤ (2 : Int) ^ (info.bits d - 1) := by
        have := two_pow_mono (show 1 ≤ info.bits d - 1 by omega)
        simpa using this
      obtain ⟨hx1, hx2⟩ := (hrange x).1 hxt
      obtain ⟨hy1, hy2⟩ := (hrange y).1 hyt
      have key := floordiv_correct (wrap info d) _ hwP x y hx1 hx2 hy1 hy2 hy0 (by simpa [intMin] using hov)
      -- evaluate the emitted expression bottom-up
      have eDiv : eval info a b x y (.bin .Div L R)
          = some (d, wrap info d (x.tdiv y)) := by
        simp only [eval_bin, el, er, hy0, if_false]
      have eMul := eval_bin info a b x y .Mul (.bin .Div L R) R
      simp only [eDiv, er] at eMul
      have eRem := eval_bin info a b x y .Sub L
        (.bin .Mul (.bin .Div L R) R)
      simp only [el, eMul] at eRem
      have eZero : eval info a b x y (.zero d) = some (d, 0) := rfl
      have eEq := eval_bin info a b x y .Equal
        (.bin .Sub L (.bin .Mul (.bin .Div L R) R)) (.zero d)
      simp only [eRem, eZero] at eEq
      have eNot := eval_un info a b x y .Not (.bin .Equal
        (.bin .Sub L (.bin .Mul (.bin .Div L R) R)) (.zero d))
      simp only [eEq] at eNot
      have eLt1 := eval_bin info a b x y .Less
        (.bin .Sub L (.bin .Mul (.bin .Div L R) R)) (.zero d)
      simp only [eRem, eZero] at eLt1
      have eLt2 := eval_bin info a b x y .Less R (.zero d)
      simp only [er, eZero] at eLt2
      rw [eval_bin, eDiv, eval_cast, eval_bin, eNot, eval_bin, eLt1, eLt2]
      simp only [htb', hint, Bool.false_eq_true, if_false, if_true, b2i_ne_zero, one_sub_b2i_ne_zero]
      have hb2i : ∀ c : Bool, wrap info d (b2i c) = b2i c := by
        intro c
        cases c
        · exact hwP _ (by simp only [b2i]; omega) (by simp only [b2i]; omega)
        · exact hwP _ (by simp only [b2i]; omega) (by simp only [b2i]; omega)
      rw [hb2i]
      have hite : ∀ (R : Int), b2i (!(R == 0) && (decide (R < 0) != decide (y < 0)))
          = (if R ≠ 0 ∧ (decide (R < 0) != decide (y < 0)) = true then 1 else 0) := by
        intro R
        by_cases h0 : R = 0 <;> cases hh : (decide (R < 0) != decide (y < 0)) <;> simp [b2i, h0]
      rw [hite]
      dsimp only at key
      have hfd : wrap info d (x.fdiv y) = x.fdiv y := by
        rw [← key]; exact hw _ (wrap_inRange info d (by omega) _)
      rw [hfd, key]
    · simp only [arithTree, hint, hs, Bool.not_true, Bool.false_eq_true, if_false, npInt, eval_bin, el, er, hy0]
      have hx0 : 0 ≤ x := by
        have := hxt; simp [inRange, hs] at this; exact this.1
      have hy0' : 0 ≤ y := by
        have := hyt; simp [inRange, hs] at this; exact this.1
      rw [Int.fdiv_eq_tdiv_of_nonneg hx0 hy0']





/-! ## Values: a Python int on either side of an integer Var (all values) -/

/-- the Var operand as the dispatcher passes it on: cast with promotion on, as it is with promotion off -/
def varTree (tp : Bool) (t i : Nat) : Tree := if tp then .cast t (.arg i) else .arg i

theorem int_scalar_shape :
    ∀ tp ∈ [true, false], ∀ op ∈ intOps, ∀ da ∈ ints,
      ((match dispatch info (some (tp, true)) op (.var da) (.pyInt 1) with
        | .ok (tree, d) => tree == arithTree info op da (varTree tp da 0) (.constOf 1 da) && d == da
        | .error _ => false) &&
       (match dispatch info (some (tp, true)) op (.pyInt 1) (.var da) with
        | .ok (tree, d) => tree == arithTree info op da (.constOf 0 da) (varTree tp da 1) && d == da
        | .error _ => false) &&
       info.integer da && da != boolDt && decide (2 ≤ info.bits da)) = true := by
  decide +kernel

theorem typeOf_pyInt_right (a : Operand) (v v' : Int) : (t : Tree) →
    typeOf info a (.pyInt v) t = typeOf info a (.pyInt v') t
  | .arg i => by by_cases h : i = 0 <;> simp [typeOf, h]
  | .cast to t => by simp [typeOf, typeOf_pyInt_right a v v' t]
  | .constOf _ _ => rfl
  | .zero _ => rfl
  | .un op t => by simp [typeOf, typeOf_pyInt_right a v v' t]
  | .bin op l r => by simp [typeOf, typeOf_pyInt_right a v v' l, typeOf_pyInt_right a v v' r]

theorem typeOf_pyInt_left (b : Operand) (v v' : Int) : (t : Tree) →
    typeOf info (.pyInt v) b t = typeOf info (.pyInt v') b t
  | .arg i => by by_cases h : i = 0 <;> simp [typeOf, h]
  | .cast to t => by simp [typeOf, typeOf_pyInt_left b v v' t]
  | .constOf _ _ => rfl
  | .zero _ => rfl
  | .un op t => by simp [typeOf, typeOf_pyInt_left b v v' t]
  | .bin op l r => by simp [typeOf, typeOf_pyInt_left b v v' l, typeOf_pyInt_left b v v' r]

theorem int_scalar_target :
    ∀ tp ∈ [true, false], ∀ da ∈ ints,
      ((match targetType info tp false (.var da) (.pyInt 1) with | .ok t => t == da | .error _ => false) &&
       (match targetType info tp false (.pyInt 1) (.var da) with | .ok t => t == da | .error _ => false) &&
       inRange info da 1) = true := by
  decide +kernel

theorem intOps_not_truediv (op : Op) (hop : op ∈ intOps) : (op == Op.truediv) = false := by
  simp only [intOps, List.mem_cons, List.not_mem_nil, or_false] at hop
  rcases hop with rfl | rfl | rfl | rfl <;> rfl

/-- the dispatch decision does not depend on WHICH in-range Python int stands on the right -/
theorem dispatch_pyInt_right (tp : Bool) (htp : tp ∈ [true, false]) (op : Op) (hop : op ∈ intOps) (da : Nat) (hda : da ∈ ints)
    (v : Int) (hv : inRange info da v = true) :
    dispatch info (some (tp, true)) op (.var da) (.pyInt v) = dispatch info (some (tp, true)) op (.var da) (.pyInt 1) := by
  have h := int_scalar_target tp htp da hda
  simp only [Bool.and_eq_true] at h
  obtain ⟨⟨h1, _⟩, h1r⟩ := h
  have e : targetType info tp false (.var da) (.pyInt v) = targetType info tp false (.var da) (.pyInt 1) := rfl
  have hnt := intOps_not_truediv op hop
  cases ht : targetType info tp false (.var da) (.pyInt 1) with
  | error err => simp [ht] at h1
  | ok t =>
    simp only [ht, beq_iff_eq] at h1
    subst h1
    simp only [intOps, List.mem_cons, List.not_mem_nil, or_false] at hop
    rcases hop with rfl | rfl | rfl | rfl <;>
      simp [dispatch, hnt, e, ht, promoteTarget, Operand.constLike, hv, h1r, typeOf_pyInt_right (.var t) v 1, bind, Except.bind]

theorem dispatch_pyInt_left (tp : Bool) (htp : tp ∈ [true, false]) (op : Op) (hop : op ∈ intOps) (da : Nat) (hda : da ∈ ints)
    (v : Int) (hv : inRange info da v = true) :
    dispatch info (some (tp, true)) op (.pyInt v) (.var da) = dispatch info (some (tp, true)) op (.pyInt 1) (.var da) := by
  have h := int_scalar_target tp htp da hda
  simp only [Bool.and_eq_true] at h
  obtain ⟨⟨_, h1⟩, h1r⟩ := h
  have e : targetType info tp false (.pyInt v) (.var da) = targetType info tp false (.pyInt 1) (.var da) := rfl
  have hnt := intOps_not_truediv op hop
  cases ht : targetType info tp false (.pyInt 1) (.var da) with
  | error err => simp [ht] at h1
  | ok t =>
    simp only [ht, beq_iff_eq] at h1
    subst h1
    simp only [intOps, List.mem_cons, List.not_mem_nil, or_false] at hop
    rcases hop with rfl | rfl | rfl | rfl <;>
      simp [dispatch, hnt, e, ht, promoteTarget, Operand.constLike, hv, h1r, typeOf_pyInt_left (.var t) v 1, bind, Except.bind]

theorem eval_varTree (tp : Bool) (a b : Operand) (d i : Nat) (va vb : Int)
    (hint : info.integer d = true) (htb : ¬ d = boolDt) (hbits : 2 ≤ info.bits d)
    (hop : (if i = 0 then a else b) = .var d)
    (hr : inRange info d (if i = 0 then va else vb) = true) :
    eval info a b va vb (varTree tp d i) = some (d, if i = 0 then va else vb) := by
  have htb' : (d == boolDt) = false := by simpa using htb
  cases tp
  · simp [varTree, eval, hop]
  · simp [varTree, eval, hop, hint, htb', wrap_id info d (by omega) _ hr]

/-- **`x <op> v` for a Python int `v` on the RIGHT of an integer Var** (`+ - * //`, either promotion setting,
    constant promotion on): for every value `x` the Var can hold and every `v` representable in the Var's
    type (other `v` are numpy's and spox's OverflowError), the emitted tree evaluates to numpy's wrapped
    exact result in the Var's own element type (numpy's weak-scalar rule). -/
theorem arith_scalar_right (tp : Bool) (htp : tp ∈ [true, false]) (op : Op) (hop : op ∈ intOps)
    (da : Nat) (hda : da ∈ ints) (x v : Int)
    (hx : inRange info da x = true) (hv : inRange info da v = true)
    (hdiv : op = .floordiv → v ≠ 0 ∧ ¬(x = intMin da ∧ v = -1)) :
    ∃ tree, dispatch info (some (tp, true)) op (.var da) (.pyInt v) = .ok (tree, da) ∧
      eval info (.var da) (.pyInt v) x v tree = some (da, npInt info op da x v) := by
  have h := int_scalar_shape tp htp op hop da hda
  simp only [Bool.and_eq_true, decide_eq_true_eq, bne_iff_ne, ne_eq] at h
  obtain ⟨⟨⟨⟨hr, _⟩, hint⟩, htb⟩, hbits⟩ := h
  rw [dispatch_pyInt_right tp htp op hop da hda v hv]
  cases hdisp : dispatch info (some (tp, true)) op (.var da) (.pyInt 1) with
  | error e => simp [hdisp] at hr
  | ok p =>
    obtain ⟨tree, d⟩ := p
    simp only [hdisp, Bool.and_eq_true, beq_iff_eq] at hr
    obtain ⟨rfl, rfl⟩ := hr
    refine ⟨_, rfl, ?_⟩
    apply arith_eval _ _ op hop d hint htb hbits _ _ x v _ _ hx hv hdiv
    · exact eval_varTree tp _ _ d 0 x v hint htb hbits rfl hx
    · simp [eval, hint]

/-- **`v <op> y` for a Python int `v` on the LEFT** (the reflected operators): same statement, operands in
    numpy's order (`v - y`, `v // y`). -/
theorem arith_scalar_left (tp : Bool) (htp : tp ∈ [true, false]) (op : Op) (hop : op ∈ intOps)
    (da : Nat) (hda : da ∈ ints) (v y : Int)
    (hv : inRange info da v = true) (hy : inRange info da y = true)
    (hdiv : op = .floordiv → y ≠ 0 ∧ ¬(v = intMin da ∧ y = -1)) :
    ∃ tree, dispatch info (some (tp, true)) op (.pyInt v) (.var da) = .ok (tree, da) ∧
      eval info (.pyInt v) (.var da) v y tree = some (da, npInt info op da v y) := by
  have h := int_scalar_shape tp htp op hop da hda
  simp only [Bool.and_eq_true, decide_eq_true_eq, bne_iff_ne, ne_eq] at h
  obtain ⟨⟨⟨⟨_, hl⟩, hint⟩, htb⟩, hbits⟩ := h
  rw [dispatch_pyInt_left tp htp op hop da hda v hv]
  cases hdisp : dispatch info (some (tp, true)) op (.pyInt 1) (.var da) with
  | error e => simp [hdisp] at hl
  | ok p =>
    obtain ⟨tree, d⟩ := p
    simp only [hdisp, Bool.and_eq_true, beq_iff_eq] at hl
    obtain ⟨rfl, rfl⟩ := hl
    refine ⟨_, rfl, ?_⟩
    apply arith_eval _ _ op hop d hint htb hbits _ _ v y _ _ hv hy hdiv
    · simp [eval, hint]
    · exact eval_varTree tp _ _ d 1 v y hint htb hbits rfl hy

-- non-vacuity: -7 // 2 on an int32 Var (dtype 2) with the Python int on the right; 7 - x on the left
example : ∃ tree, dispatch info (some (true, true)) .floordiv (.var 2) (.pyInt 2) = .ok (tree, 2) ∧
    eval info (.var 2) (.pyInt 2) (-7) 2 tree = some (2, -4) := by
  obtain ⟨tree, h1, h2⟩ := arith_scalar_right true (by simp) .floordiv (by simp [intOps]) 2 (by simp [ints]) (-7) 2
    (by decide +kernel) (by decide +kernel) (fun _ => ⟨by omega, by omega⟩)
  exact ⟨tree, h1, by rw [h2]; decide +kernel⟩


/-! ## Expressions: dispatch is history-free, so agreement with numpy composes

An expression over Vars is built by successive operator applications; every application dispatches on
the element types of its two operands only (a sub-expression's result is just a Var of its result
type) — there is no other state in the model. That the real dispatcher has none either is what the
*history* correspondence checks on every run (sequences of applications re-using the same Vars and
intermediate results, with different casts needed per use, across nested and successive blocks). -/

/-- promoted integer types stay integer dtypes (needed to iterate `arith_matches`) -/
theorem int_closed :
    ∀ da ∈ ints, ∀ db ∈ ints,
      (match info.rt2 da db with
       | some t => !info.integer t || ints.contains t
       | none => true) = true := by
  decide +kernel

inductive Expr
  | var (i : Nat)
  | bin (op : Op) (l r : Expr)

/-- every operator of the expression is one of `+ - * //` -/
def Expr.intOnly : Expr → Bool
  | .var _ => true
  | .bin op l r => intOps.contains op && l.intOnly && r.intOnly

/-- numpy: element type and value of the expression (`env i` = dtype and value of Var `i`); `none`
    outside the integer fragment, on division by zero and on `INT_MIN // -1` -/
def npExpr (env : Nat → Nat × Int) : Expr → Option (Nat × Int)
  | .var i => some (env i)
  | .bin op l r =>
      match npExpr env l, npExpr env r with
      | some (dl, x), some (dr, y) =>
          (match info.rt2 dl dr with
           | some t =>
               if !info.integer t then none
               else if op == .floordiv && (y == 0 || (x == intMin t && y == -1)) then none
               else some (t, npInt info op t x y)
           | none => none)
      | _, _ => none

/-- spox: every application is dispatched on the operands' element types alone, and the emitted
    operators are evaluated by ONNX's integer semantics on the operands' values -/
def spoxExpr (cp : Bool) (env : Nat → Nat × Int) : Expr → Option (Nat × Int)
  | .var i => some (env i)
  | .bin op l r =>
      match spoxExpr cp env l, spoxExpr cp env r with
      | some (dl, x), some (dr, y) =>
          (match dispatch info (some (true, cp)) op (.var dl) (.var dr) with
           | .ok (tree, _) => eval info (.var dl) (.var dr) x y tree
           | .error _ => none)
      | _, _ => none

/-- **Agreement with numpy composes over whole expressions**: for every expression built from
    `+ - * //` over integer Vars (any dtypes, any values they can hold), wherever numpy computes an
    integer result the graph spox emits computes the same element type and the same value — every
    intermediate result included (the statement is inductive). -/
theorem expr_matches (cp : Bool) (env : Nat → Nat × Int)
    (henv : ∀ i, (env i).1 ∈ ints ∧ inRange info (env i).1 (env i).2 = true) :
    ∀ (e : Expr), e.intOnly = true → ∀ t v, npExpr env e = some (t, v) →
      t ∈ ints ∧ inRange info t v = true ∧ spoxExpr cp env e = some (t, v)
  | .var i, _, t, v, h => by
    simp only [npExpr, Option.some.injEq] at h
    have := henv i
    rw [h] at this
    exact ⟨this.1, this.2, by simp [spoxExpr, h]⟩
  | .bin op l r, hio, t, v, h => by
    simp only [Expr.intOnly, Bool.and_eq_true, List.contains_iff_mem] at hio
    obtain ⟨⟨hop, hl⟩, hr⟩ := hio
    simp only [npExpr] at h
    cases hnl : npExpr env l with
    | none => simp [hnl] at h
    | some pl =>
      cases hnr : npExpr env r with
      | none => simp [hnl, hnr] at h
      | some pr =>
        obtain ⟨dl, x⟩ := pl
        obtain ⟨dr, y⟩ := pr
        obtain ⟨hdl, hxr, hsl⟩ := expr_matches cp env henv l hl dl x hnl
        obtain ⟨hdr, hyr, hsr⟩ := expr_matches cp env henv r hr dr y hnr
        simp only [hnl, hnr] at h
        cases hrt : info.rt2 dl dr with
        | none => simp [hrt] at h
        | some t' =>
          simp only [hrt] at h
          by_cases hint : info.integer t' = true
          · simp only [hint, Bool.not_true, Bool.false_eq_true, if_false] at h
            by_cases hdz : (op == .floordiv && (y == 0 || (x == intMin t' && y == -1))) = true
            · simp [hdz] at h
            · simp only [hdz, Bool.false_eq_true, if_false, Option.some.injEq, Prod.mk.injEq] at h
              obtain ⟨rfl, rfl⟩ := h
              have hclosed := int_closed dl hdl dr hdr
              simp only [hrt, hint, Bool.not_true, Bool.false_or, List.contains_iff_mem] at hclosed
              have hdiv : op = .floordiv → y ≠ 0 ∧ ¬(x = intMin t' ∧ y = -1) := by
                intro ho
                subst ho
                simp only [beq_self_eq_true, Bool.true_and, Bool.or_eq_true, beq_iff_eq, Bool.and_eq_true,
                  not_or, not_and] at hdz
                exact ⟨hdz.1, fun hh => hdz.2 hh.1 hh.2⟩
              obtain ⟨tree, hd, he⟩ := arith_matches cp op hop dl dr hdl hdr t' hrt hint x y hxr hyr hdiv
              have hbits : 1 ≤ info.bits t' := by
                have : ∀ t ∈ ints, 1 ≤ info.bits t := by decide +kernel
                exact this t' hclosed
              refine ⟨hclosed, ?_, ?_⟩
              · simp only [intOps, List.mem_cons, List.not_mem_nil, or_false] at hop
                rcases hop with rfl | rfl | rfl | rfl <;> exact wrap_inRange info t' hbits _
              · simp only [spoxExpr, hsl, hsr, hd, he]
          · simp [hint] at h


/-! ## Values: a Python bool on either side of an integer Var (all values) -/

/-- generated table: a Python bool next to an integer Var (promotion on or off, constant promotion on) is wrapped as a
    Constant of the Var's own element type; the Var is cast (promotion on) or passed on as it is -/
theorem int_bool_shape :
    ∀ tp ∈ [true, false], ∀ b ∈ [true, false], ∀ op ∈ intOps, ∀ da ∈ ints,
      ((match dispatch info (some (tp, true)) op (.var da) (.pyBool b) with
        | .ok (tree, d) => tree == arithTree info op da (varTree tp da 0) (.constOf 1 da) && d == da
        | .error _ => false) &&
       (match dispatch info (some (tp, true)) op (.pyBool b) (.var da) with
        | .ok (tree, d) => tree == arithTree info op da (.constOf 0 da) (varTree tp da 1) && d == da
        | .error _ => false) &&
       info.integer da && da != boolDt && decide (2 ≤ info.bits da) && inRange info da 1 && inRange info da 0) = true := by
  decide +kernel

/-- **`x <op> True/False` and `True/False <op> y` on integer Vars** (`+ - * //`; a Python bool is an int: 1 / 0) for all
    values of the Var: numpy's wrapped exact result in the Var's element type. -/
theorem arith_bool_right (tp : Bool) (htp : tp ∈ [true, false]) (b : Bool) (op : Op) (hop : op ∈ intOps)
    (da : Nat) (hda : da ∈ ints) (x : Int) (hx : inRange info da x = true)
    (hdiv : op = .floordiv → b2i b ≠ 0 ∧ ¬(x = intMin da ∧ b2i b = -1)) :
    ∃ tree, dispatch info (some (tp, true)) op (.var da) (.pyBool b) = .ok (tree, da) ∧
      eval info (.var da) (.pyBool b) x (b2i b) tree = some (da, npInt info op da x (b2i b)) := by
  have hb : b ∈ [true, false] := by cases b <;> simp
  have h := int_bool_shape tp htp b hb op hop da hda
  simp only [Bool.and_eq_true, decide_eq_true_eq, bne_iff_ne, ne_eq] at h
  obtain ⟨⟨⟨⟨⟨⟨hr, _⟩, hint⟩, htb⟩, hbits⟩, h1⟩, h0⟩ := h
  cases hdisp : dispatch info (some (tp, true)) op (.var da) (.pyBool b) with
  | error e => simp [hdisp] at hr
  | ok p =>
    obtain ⟨tree, d⟩ := p
    simp only [hdisp, Bool.and_eq_true, beq_iff_eq] at hr
    obtain ⟨rfl, rfl⟩ := hr
    refine ⟨_, rfl, ?_⟩
    have hv : inRange info d (b2i b) = true := by cases b <;> simpa [b2i] using (by assumption)
    apply arith_eval _ _ op hop d hint htb hbits _ _ x (b2i b) _ _ hx hv hdiv
    · exact eval_varTree tp _ _ d 0 x (b2i b) hint htb hbits rfl hx
    · simp [eval, hint]

theorem arith_bool_left (tp : Bool) (htp : tp ∈ [true, false]) (b : Bool) (op : Op) (hop : op ∈ intOps)
    (da : Nat) (hda : da ∈ ints) (y : Int) (hy : inRange info da y = true)
    (hdiv : op = .floordiv → y ≠ 0 ∧ ¬(b2i b = intMin da ∧ y = -1)) :
    ∃ tree, dispatch info (some (tp, true)) op (.pyBool b) (.var da) = .ok (tree, da) ∧
      eval info (.pyBool b) (.var da) (b2i b) y tree = some (da, npInt info op da (b2i b) y) := by
  have hb : b ∈ [true, false] := by cases b <;> simp
  have h := int_bool_shape tp htp b hb op hop da hda
  simp only [Bool.and_eq_true, decide_eq_true_eq, bne_iff_ne, ne_eq] at h
  obtain ⟨⟨⟨⟨⟨⟨_, hl⟩, hint⟩, htb⟩, hbits⟩, h1⟩, h0⟩ := h
  cases hdisp : dispatch info (some (tp, true)) op (.pyBool b) (.var da) with
  | error e => simp [hdisp] at hl
  | ok p =>
    obtain ⟨tree, d⟩ := p
    simp only [hdisp, Bool.and_eq_true, beq_iff_eq] at hl
    obtain ⟨rfl, rfl⟩ := hl
    refine ⟨_, rfl, ?_⟩
    have hv : inRange info d (b2i b) = true := by cases b <;> simpa [b2i] using (by assumption)
    apply arith_eval _ _ op hop d hint htb hbits _ _ (b2i b) y _ _ hv hy hdiv
    · simp [eval, hint]
    · exact eval_varTree tp _ _ d 1 (b2i b) y hint htb hbits rfl hy

-- non-vacuity: x - True on a uint8 Var (dtype 4) at x = 0 wraps to 255
example : ∃ tree, dispatch info (some (true, true)) .sub (.var 4) (.pyBool true) = .ok (tree, 4) ∧
    eval info (.var 4) (.pyBool true) 0 1 tree = some (4, 255) := by
  obtain ⟨tree, h1, h2⟩ := arith_bool_right true (by simp) true .sub (by simp [intOps]) 4 (by simp [ints]) 0
    (by decide +kernel) (fun h => by simp at h)
  refine ⟨tree, h1, ?_⟩
  change eval info (.var 4) (.pyBool true) 0 (b2i true) tree = _
  rw [h2]; decide +kernel


/-! ## Values: a numpy integer scalar on either side of an integer Var (all values) -/

/-- generated table: a numpy integer scalar of dtype `db` (operand kind `15 + db`) next to an integer Var of dtype `da`,
    promotion on: where numpy's promoted type `t` is an integer type, the Var is cast to `t`, the scalar becomes a
    Constant of type `t`, and both operand ranges embed in `t` -/
theorem int_npscalar_shape :
    ∀ cp ∈ [true], ∀ op ∈ intOps, ∀ da ∈ ints, ∀ db ∈ ints,
      (match info.rt2 da (15 + db) with
       | some t => !info.integer t ||
           ((match dispatch info (some (true, cp)) op (.var da) (.npScalar db) with
             | .ok (tree, d) => tree == arithTree info op t (.cast t (.arg 0)) (.constOf 1 t) && d == t
             | .error _ => false) &&
            (match dispatch info (some (true, cp)) op (.npScalar db) (.var da) with
             | .ok (tree, d) => tree == arithTree info op t (.constOf 0 t) (.cast t (.arg 1)) && d == t
             | .error _ => false) &&
            info.rt2 (15 + db) da == some t &&
            t != boolDt && rangeSub info da t && rangeSub info db t && decide (2 ≤ info.bits t))
       | none => true) = true := by
  decide +kernel

/-- **`x <op> np.intN(v)` and `np.intN(v) <op> y`** (a numpy integer scalar on either side of an integer Var, promotion
    and constant promotion on): wherever numpy's promoted type is an integer type, for all values of the Var and of the
    scalar the emitted tree evaluates to numpy's wrapped exact result in the promoted type. -/
theorem arith_npscalar_right (op : Op) (hop : op ∈ intOps) (da db : Nat) (hda : da ∈ ints) (hdb : db ∈ ints)
    (t : Nat) (ht : info.rt2 da (15 + db) = some t) (hint : info.integer t = true)
    (x v : Int) (hx : inRange info da x = true) (hv : inRange info db v = true)
    (hdiv : op = .floordiv → v ≠ 0 ∧ ¬(x = intMin t ∧ v = -1)) :
    ∃ tree, dispatch info (some (true, true)) op (.var da) (.npScalar db) = .ok (tree, t) ∧
      eval info (.var da) (.npScalar db) x v tree = some (t, npInt info op t x v) := by
  have h := int_npscalar_shape true (by simp) op hop da hda db hdb
  simp only [ht, hint, Bool.not_true, Bool.false_or, Bool.and_eq_true, decide_eq_true_eq, bne_iff_ne, ne_eq] at h
  obtain ⟨⟨⟨⟨⟨⟨hr, _⟩, _⟩, htb⟩, hra⟩, hrb⟩, hbits⟩ := h
  cases hdisp : dispatch info (some (true, true)) op (.var da) (.npScalar db) with
  | error e => simp [hdisp] at hr
  | ok p =>
    obtain ⟨tree, d⟩ := p
    simp only [hdisp, Bool.and_eq_true, beq_iff_eq] at hr
    obtain ⟨rfl, rfl⟩ := hr
    refine ⟨_, rfl, ?_⟩
    have hxt := inRange_mono info da d hra x hx
    have hvt := inRange_mono info db d hrb v hv
    have htb' : (d == boolDt) = false := by simpa using htb
    apply arith_eval _ _ op hop d hint htb hbits _ _ x v _ _ hxt hvt hdiv
    · simp [eval, hint, htb', wrap_id info d (by omega) x hxt]
    · simp [eval, hint]

theorem arith_npscalar_left (op : Op) (hop : op ∈ intOps) (da db : Nat) (hda : da ∈ ints) (hdb : db ∈ ints)
    (t : Nat) (ht : info.rt2 da (15 + db) = some t) (hint : info.integer t = true)
    (v y : Int) (hv : inRange info db v = true) (hy : inRange info da y = true)
    (hdiv : op = .floordiv → y ≠ 0 ∧ ¬(v = intMin t ∧ y = -1)) :
    ∃ tree, dispatch info (some (true, true)) op (.npScalar db) (.var da) = .ok (tree, t) ∧
      eval info (.npScalar db) (.var da) v y tree = some (t, npInt info op t v y) := by
  have h := int_npscalar_shape true (by simp) op hop da hda db hdb
  simp only [ht, hint, Bool.not_true, Bool.false_or, Bool.and_eq_true, decide_eq_true_eq, bne_iff_ne, ne_eq] at h
  obtain ⟨⟨⟨⟨⟨⟨_, hl⟩, _⟩, htb⟩, hra⟩, hrb⟩, hbits⟩ := h
  cases hdisp : dispatch info (some (true, true)) op (.npScalar db) (.var da) with
  | error e => simp [hdisp] at hl
  | ok p =>
    obtain ⟨tree, d⟩ := p
    simp only [hdisp, Bool.and_eq_true, beq_iff_eq] at hl
    obtain ⟨rfl, rfl⟩ := hl
    refine ⟨_, rfl, ?_⟩
    have hyt := inRange_mono info da d hra y hy
    have hvt := inRange_mono info db d hrb v hv
    have htb' : (d == boolDt) = false := by simpa using htb
    apply arith_eval _ _ op hop d hint htb hbits _ _ v y _ _ hvt hyt hdiv
    · simp [eval, hint]
    · simp [eval, hint, htb', wrap_id info d (by omega) y hyt]

-- non-vacuity: int8 Var + np.int32(1000): numpy 2 promotes to int32 (dtype 2), no wrap at int8
example : ∃ tree, dispatch info (some (true, true)) .add (.var 0) (.npScalar 2) = .ok (tree, 2) ∧
    eval info (.var 0) (.npScalar 2) 100 1000 tree = some (2, 1100) := by
  obtain ⟨tree, h1, h2⟩ := arith_npscalar_right .add (by simp [intOps]) 0 2 (by simp [ints]) (by simp [ints]) 2
    (by decide +kernel) (by decide +kernel) 100 1000 (by decide +kernel) (by decide +kernel) (fun h => by simp at h)
  exact ⟨tree, h1, by rw [h2]; decide +kernel⟩


/-- unary minus on signed integer Vars: numpy's value for every operand value (wrap-around at INT_MIN) -/
theorem neg_matches (s : Bool × Bool) (d : Nat) (hd : d ∈ [0, 1, 2, 3]) (x : Int) :
    dispatch info (some s) .neg (.var d) .other = .ok (.un .Neg (.arg 0), d) ∧
      eval info (.var d) .other x 0 (.un .Neg (.arg 0)) = some (d, npInt info .neg d x 0) := by
  have hs : s ∈ [(true, true), (true, false), (false, true), (false, false)] := by
    obtain ⟨a, b⟩ := s; cases a <;> cases b <;> simp
  have h : ∀ s ∈ [(true, true), (true, false), (false, true), (false, false)], ∀ d ∈ [0, 1, 2, 3],
      (match dispatch info (some s) .neg (.var d) .other with
       | .ok (tree, r) => tree == Tree.un .Neg (.arg 0) && r == d
       | .error _ => false) = true := by decide +kernel
  have h' := h s hs d hd
  refine ⟨?_, rfl⟩
  cases hdisp : dispatch info (some s) .neg (.var d) .other with
  | error e => simp [hdisp] at h'
  | ok p =>
    obtain ⟨tree, r⟩ := p
    simp only [hdisp, Bool.and_eq_true, beq_iff_eq] at h'
    obtain ⟨rfl, rfl⟩ := h'
    rfl


/-! ## Expressions with Python int literals on either side -/

/-- Expressions over integer Vars **and Python int literals** on either side of an operator. -/
inductive ExprS
  | var (i : Nat)
  | bin (op : Op) (l r : ExprS)
  | binR (op : Op) (l : ExprS) (v : Int)
  | binL (op : Op) (v : Int) (r : ExprS)
  | neg (e : ExprS)            -- round 10: unary minus inside expressions

def ExprS.intOnly : ExprS → Bool
  | .var _ => true
  | .bin op l r => intOps.contains op && l.intOnly && r.intOnly
  | .binR op l _ => intOps.contains op && l.intOnly
  | .binL op _ r => intOps.contains op && r.intOnly
  | .neg e => e.intOnly

/-- numpy (version 2 rules): a Python int next to an integer array takes the array's element type and must be
    representable in it (otherwise OverflowError: `none`). -/
def npExprS (env : Nat → Nat × Int) : ExprS → Option (Nat × Int)
  | .var i => some (env i)
  | .bin op l r =>
      match npExprS env l, npExprS env r with
      | some (dl, x), some (dr, y) =>
          (match info.rt2 dl dr with
           | some t =>
               if !info.integer t then none
               else if op == .floordiv && (y == 0 || (x == intMin t && y == -1)) then none
               else some (t, npInt info op t x y)
           | none => none)
      | _, _ => none
  | .binR op l v =>
      match npExprS env l with
      | some (dl, x) =>
          if !inRange info dl v then none
          else if op == .floordiv && (v == 0 || (x == intMin dl && v == -1)) then none
          else some (dl, npInt info op dl x v)
      | none => none
  | .binL op v r =>
      match npExprS env r with
      | some (dr, y) =>
          if !inRange info dr v then none
          else if op == .floordiv && (y == 0 || (v == intMin dr && y == -1)) then none
          else some (dr, npInt info op dr v y)
      | none => none
  | .neg e =>
      -- numpy negates with wrap-around (`-INT_MIN = INT_MIN`); unsigned element types are the listed finding
      -- `neg:unsigned:refused` (`neg_unsigned_counterexample`) and stay outside the claim
      match npExprS env e with
      | some (d, x) => if [0, 1, 2, 3].contains d then some (d, npInt info .neg d x 0) else none
      | none => none

/-- spox, promotion and constant promotion on: each application dispatched on the operand kinds alone. -/
def spoxExprS (env : Nat → Nat × Int) : ExprS → Option (Nat × Int)
  | .var i => some (env i)
  | .bin op l r =>
      match spoxExprS env l, spoxExprS env r with
      | some (dl, x), some (dr, y) =>
          (match dispatch info (some (true, true)) op (.var dl) (.var dr) with
           | .ok (tree, _) => eval info (.var dl) (.var dr) x y tree
           | .error _ => none)
      | _, _ => none
  | .binR op l v =>
      match spoxExprS env l with
      | some (dl, x) =>
          (match dispatch info (some (true, true)) op (.var dl) (.pyInt v) with
           | .ok (tree, _) => eval info (.var dl) (.pyInt v) x v tree
           | .error _ => none)
      | none => none
  | .binL op v r =>
      match spoxExprS env r with
      | some (dr, y) =>
          (match dispatch info (some (true, true)) op (.pyInt v) (.var dr) with
           | .ok (tree, _) => eval info (.pyInt v) (.var dr) v y tree
           | .error _ => none)
      | none => none
  | .neg e =>
      match spoxExprS env e with
      | some (d, x) =>
          (match dispatch info (some (true, true)) .neg (.var d) .other with
           | .ok (tree, _) => eval info (.var d) .other x 0 tree
           | .error _ => none)
      | none => none

theorem ints_bits : ∀ t ∈ ints, 1 ≤ info.bits t := by decide +kernel

theorem npInt_inRange (op : Op) (hop : op ∈ intOps) (t : Nat) (ht : t ∈ ints) (x y : Int) :
    inRange info t (npInt info op t x y) = true := by
  have hbits := ints_bits t ht
  simp only [intOps, List.mem_cons, List.not_mem_nil, or_false] at hop
  rcases hop with rfl | rfl | rfl | rfl <;> exact wrap_inRange info t hbits _

/-- **Agreement with numpy composes over expressions with Python int literals on either side**:
    wherever numpy computes an integer result (every literal representable in the element type it meets),
    the graph spox emits computes the same element type and value, every intermediate included. -/
theorem expr_scalars_match (env : Nat → Nat × Int)
    (henv : ∀ i, (env i).1 ∈ ints ∧ inRange info (env i).1 (env i).2 = true) :
    ∀ (e : ExprS), e.intOnly = true → ∀ t v, npExprS env e = some (t, v) →
      t ∈ ints ∧ inRange info t v = true ∧ spoxExprS env e = some (t, v)
  | .var i, _, t, v, h => by
    simp only [npExprS, Option.some.injEq] at h
    have := henv i
    rw [h] at this
    exact ⟨this.1, this.2, by simp [spoxExprS, h]⟩
  | .bin op l r, hio, t, v, h => by
    simp only [ExprS.intOnly, Bool.and_eq_true, List.contains_iff_mem] at hio
    obtain ⟨⟨hop, hl⟩, hr⟩ := hio
    simp only [npExprS] at h
    cases hnl : npExprS env l with
    | none => simp [hnl] at h
    | some pl =>
      cases hnr : npExprS env r with
      | none => simp [hnl, hnr] at h
      | some pr =>
        obtain ⟨dl, x⟩ := pl
        obtain ⟨dr, y⟩ := pr
        obtain ⟨hdl, hxr, hsl⟩ := expr_scalars_match env henv l hl dl x hnl
        obtain ⟨hdr, hyr, hsr⟩ := expr_scalars_match env henv r hr dr y hnr
        simp only [hnl, hnr] at h
        cases hrt : info.rt2 dl dr with
        | none => simp [hrt] at h
        | some t' =>
          simp only [hrt] at h
          by_cases hint : info.integer t' = true
          · simp only [hint, Bool.not_true, Bool.false_eq_true, if_false] at h
            by_cases hdz : (op == .floordiv && (y == 0 || (x == intMin t' && y == -1))) = true
            · simp [hdz] at h
            · simp only [hdz, Bool.false_eq_true, if_false, Option.some.injEq, Prod.mk.injEq] at h
              obtain ⟨rfl, rfl⟩ := h
              have hclosed := int_closed dl hdl dr hdr
              simp only [hrt, hint, Bool.not_true, Bool.false_or, List.contains_iff_mem] at hclosed
              have hdiv : op = .floordiv → y ≠ 0 ∧ ¬(x = intMin t' ∧ y = -1) := by
                intro ho
                subst ho
                simp only [beq_self_eq_true, Bool.true_and, Bool.or_eq_true, beq_iff_eq, Bool.and_eq_true,
                  not_or, not_and] at hdz
                exact ⟨hdz.1, fun hh => hdz.2 hh.1 hh.2⟩
              obtain ⟨tree, hd, he⟩ := arith_matches true op hop dl dr hdl hdr t' hrt hint x y hxr hyr hdiv
              exact ⟨hclosed, npInt_inRange op hop t' hclosed x y, by simp only [spoxExprS, hsl, hsr, hd, he]⟩
          · simp [hint] at h
  | .binR op l c, hio, t, v, h => by
    simp only [ExprS.intOnly, Bool.and_eq_true, List.contains_iff_mem] at hio
    obtain ⟨hop, hl⟩ := hio
    simp only [npExprS] at h
    cases hnl : npExprS env l with
    | none => simp [hnl] at h
    | some pl =>
      obtain ⟨dl, x⟩ := pl
      obtain ⟨hdl, hxr, hsl⟩ := expr_scalars_match env henv l hl dl x hnl
      simp only [hnl] at h
      by_cases hc : inRange info dl c = true
      · simp only [hc, Bool.not_true, Bool.false_eq_true, if_false] at h
        by_cases hdz : (op == .floordiv && (c == 0 || (x == intMin dl && c == -1))) = true
        · simp [hdz] at h
        · simp only [hdz, Bool.false_eq_true, if_false, Option.some.injEq, Prod.mk.injEq] at h
          obtain ⟨rfl, rfl⟩ := h
          have hdiv : op = .floordiv → c ≠ 0 ∧ ¬(x = intMin dl ∧ c = -1) := by
            intro ho
            subst ho
            simp only [beq_self_eq_true, Bool.true_and, Bool.or_eq_true, beq_iff_eq, Bool.and_eq_true,
              not_or, not_and] at hdz
            exact ⟨hdz.1, fun hh => hdz.2 hh.1 hh.2⟩
          obtain ⟨tree, hd, he⟩ := arith_scalar_right true (by simp) op hop dl hdl x c hxr hc hdiv
          exact ⟨hdl, npInt_inRange op hop dl hdl x c, by simp only [spoxExprS, hsl, hd, he]⟩
      · simp [hc] at h
  | .binL op c r, hio, t, v, h => by
    simp only [ExprS.intOnly, Bool.and_eq_true, List.contains_iff_mem] at hio
    obtain ⟨hop, hr⟩ := hio
    simp only [npExprS] at h
    cases hnr : npExprS env r with
    | none => simp [hnr] at h
    | some pr =>
      obtain ⟨dr, y⟩ := pr
      obtain ⟨hdr, hyr, hsr⟩ := expr_scalars_match env henv r hr dr y hnr
      simp only [hnr] at h
      by_cases hc : inRange info dr c = true
      · simp only [hc, Bool.not_true, Bool.false_eq_true, if_false] at h
        by_cases hdz : (op == .floordiv && (y == 0 || (c == intMin dr && y == -1))) = true
        · simp [hdz] at h
        · simp only [hdz, Bool.false_eq_true, if_false, Option.some.injEq, Prod.mk.injEq] at h
          obtain ⟨rfl, rfl⟩ := h
          have hdiv : op = .floordiv → y ≠ 0 ∧ ¬(c = intMin dr ∧ y = -1) := by
            intro ho
            subst ho
            simp only [beq_self_eq_true, Bool.true_and, Bool.or_eq_true, beq_iff_eq, Bool.and_eq_true,
              not_or, not_and] at hdz
            exact ⟨hdz.1, fun hh => hdz.2 hh.1 hh.2⟩
          obtain ⟨tree, hd, he⟩ := arith_scalar_left true (by simp) op hop dr hdr c y hc hyr hdiv
          exact ⟨hdr, npInt_inRange op hop dr hdr c y, by simp only [spoxExprS, hsr, hd, he]⟩
      · simp [hc] at h
  | .neg e, hio, t, v, h => by
    simp only [ExprS.intOnly] at hio
    simp only [npExprS] at h
    cases hne : npExprS env e with
    | none => simp [hne] at h
    | some pe =>
      obtain ⟨d, x⟩ := pe
      obtain ⟨hd, _, hse⟩ := expr_scalars_match env henv e hio d x hne
      simp only [hne] at h
      by_cases hsg : [0, 1, 2, 3].contains d = true
      · simp only [hsg, if_true, Option.some.injEq, Prod.mk.injEq] at h
        obtain ⟨rfl, rfl⟩ := h
        have hsg' : d ∈ [0, 1, 2, 3] := by simpa using hsg
        obtain ⟨hdisp, hev⟩ := neg_matches (true, true) d hsg' x
        refine ⟨hd, ?_, by simp only [spoxExprS, hse, hdisp, hev]⟩
        exact wrap_inRange info d (ints_bits d hd) _
      · have hsg' : [0, 1, 2, 3].contains d = false := by simpa using hsg
        simp only [hsg', Bool.false_eq_true, if_false] at h
        cases h

-- non-vacuity: (x0 // 2 - 3) * x1 with x0 : int8 = -7, x1 : int32 = 5, and 100 - x0
example : npExprS (fun i => if i = 0 then (0, -7) else (2, 5))
    (.bin .mul (.binR .sub (.binR .floordiv (.var 0) 2) 3) (.var 1)) = some (2, -35) := by decide +kernel
example : npExprS (fun _ => (0, -7)) (.binL .sub 100 (.var 0)) = some (0, 107) := by decide +kernel
-- a literal that does not fit the element type it meets: numpy raises OverflowError
example : npExprS (fun _ => (0, -7)) (.binR .add (.var 0) 1000) = none := by decide +kernel
-- round 10: unary minus inside an expression: -(x0 // 2) * 3 with x0 : int8 = -7 is 12; -(-128) wraps to -128
example : npExprS (fun _ => (0, -7)) (.binR .mul (.neg (.binR .floordiv (.var 0) 2)) 3) = some (0, 12) ∧
    spoxExprS (fun _ => (0, -128)) (.neg (.var 0)) = some (0, -128) := by decide +kernel


/-! ## Scoping: after any blocks the previous settings are in force again -/

theorem probesList_append (cur : Option (Bool × Bool)) (xs ys : List Scoped) :
    probesList cur (xs ++ ys) = probesList cur xs ++ probesList cur ys := by
  induction xs with
  | nil => simp [probesList]
  | cons x xs ih => simp [probesList, ih, List.append_assoc]

/-- **After any sequence of blocks — nested to any depth, recursive, sharing settings or not — a probe
    sees the settings that were in force before them.** -/
theorem scoped_restored (cur : Option (Bool × Bool)) (xs : List Scoped) :
    probesList cur (xs ++ [.probe]) = probesList cur xs ++ [cur] := by
  rw [probesList_append]; simp [probesList, Scoped.probes]

/-- Outside all blocks, after any history of blocks, every operator raises TypeError. -/
theorem outside_after_blocks (np : NpInfo) (xs : List Scoped) (op : Op) (a b : Operand) :
    (probesList none (xs ++ [.probe])).getLast? = some none ∧
      dispatch np none op a b = .error .typeError := by
  rw [scoped_restored]; simp [outside_block_typeerror]

/-- Inside an enclosing block with settings `s`, after any inner blocks (with whatever settings), the
    enclosing block's rules apply again. -/
theorem enclosing_after_inner (cur : Option (Bool × Bool)) (s : Bool × Bool) (xs : List Scoped) :
    (Scoped.probes cur (.block s (xs ++ [.probe]))).getLast? = some (some s) := by
  simp only [Scoped.probes]; rw [scoped_restored]; simp

/-! ## How a block is opened: an explicit `False` is not "unset"; nothing is inherited from the enclosing block -/

/-- Obligation (tie G): the defaults in the signature of `operator_overloading` are the documented ones. -/
theorem oo_defaults : ooDefaultsKnown = true ∧ ooDefaults = (false, true) := by decide

/-- **A given option is taken as given** - `type_promotion=False` (and `constant_promotion=False`) included; only an
    omitted option takes the default. -/
theorem explicit_option_kept (b b' : Bool) :
    (OOCall.settings ooDefaults ⟨some b, some b'⟩) = (b, b') ∧
    (OOCall.settings ooDefaults ⟨some b, none⟩) = (b, true) ∧
    (OOCall.settings ooDefaults ⟨none, some b'⟩) = (false, b') ∧
    (OOCall.settings ooDefaults ⟨none, none⟩) = (false, true) := by
  simp [OOCall.settings, oo_defaults.2]

/-- **The settings inside a block are those of ITS call, whatever block encloses it**: in particular an inner
    `type_promotion=False` (explicit or by default) inside an outer `type_promotion=True` switches promotion off. -/
theorem inner_call_not_inherited (cur : Option (Bool × Bool)) (c : OOCall) (body : List ScopedC) :
    Scoped.probes cur ((ScopedC.block c (.probe :: body)).toScoped ooDefaults)
      = some (c.settings ooDefaults) ::
          probesList (some (c.settings ooDefaults)) (ScopedC.listToScoped ooDefaults body) := by
  simp [ScopedC.toScoped, ScopedC.listToScoped, Scoped.probes, probesList]

/-- ... so inside an inner block opened with promotion off - explicitly or by omission - within ANY enclosing block,
    Vars of different element types and a Python float meeting an integer Var are TypeError (operands as in
    `no_promotion_strict`: here the two probes the scoped histories make). -/
theorem inner_false_is_strict (outer : Bool × Bool) :
    ∀ c ∈ [OOCall.mk (some false) (some true), ⟨some false, none⟩, ⟨none, some true⟩, ⟨none, none⟩, ⟨some false, some false⟩],
      Scoped.probes none ((ScopedC.block ⟨some outer.1, some outer.2⟩ [.block c [.probe]]).toScoped ooDefaults)
          = [some (false, (c.settings ooDefaults).2)] ∧
        isErr (dispatch info (some (c.settings ooDefaults)) .add (.var 3) (.var 9)) .typeError = true ∧
        isErr (dispatch info (some (c.settings ooDefaults)) .add (.var 2) .pyFloat) .typeError = true := by
  have h : ∀ c ∈ [OOCall.mk (some false) (some true), ⟨some false, none⟩, ⟨none, some true⟩, ⟨none, none⟩, ⟨some false, some false⟩],
      (c.settings ooDefaults).1 = false ∧
      isErr (dispatch info (some (c.settings ooDefaults)) .add (.var 3) (.var 9)) .typeError = true ∧
      isErr (dispatch info (some (c.settings ooDefaults)) .add (.var 2) .pyFloat) .typeError = true := by decide +kernel
  intro c hc
  obtain ⟨h1, h2, h3⟩ := h c hc
  refine ⟨?_, h2, h3⟩
  simp only [ScopedC.toScoped, ScopedC.listToScoped, Scoped.probes, probesList, List.append_nil]
  rw [← h1]

/-! ## Python floats are judged by type, not by value -/

/-- Obligation (tie G, numpy executed on this run): for whole-number (`2.0`, `-3.0`, `0.0`, `-0.0`, `1.0`, `2**53`),
    huge, tiny and non-finite Python floats alike, `np.result_type(v)` and `np.result_type(dtype, v)` are what they are
    for the `2.5` the promotion tables are made with, and every one of them is a constant for `isinstance`. The
    operand kind `pyFloat` of the model therefore stands for EVERY Python float. -/
theorem float_judged_by_type :
    ∀ f ∈ floatSamples, f.2.2.1 = true ∧ f.2.2.2.1 = info.rt1 13 ∧
      f.2.2.2.2 = (List.range 12).map (fun d => info.rt2 d 13) := by decide +kernel

/-- non-vacuity: whole-number samples are among them -/
example : ∃ f ∈ floatSamples, f.1 = "2.0" ∧ f.2.1 = true := by decide +kernel
example : ∃ f ∈ floatSamples, f.1 = "-3.0" ∧ f.2.1 = true := by decide +kernel

/-- **With promotion off a Python float next to an integer Var is TypeError whatever its value** (`2.0`, `-3.0`, `0.0`
    like `1.5`): every integer dtype, either side, all five arithmetic operators, both constant-promotion settings. -/
theorem float_constant_strict :
    ∀ cp ∈ [true, false], ∀ op ∈ binOps, ∀ d ∈ [0, 1, 2, 3, 4, 5, 6, 7],
      isErr (dispatch info (some (false, cp)) op (.var d) .pyFloat) .typeError = true ∧
      isErr (dispatch info (some (false, cp)) op .pyFloat (.var d)) .typeError = true := by decide +kernel

/-! ## The wiring: Python's operators reach the dispatcher methods the theorems are about -/

open Generated.VarDunders in
/-- Obligation (tie G): the operator dunders `Var` defines are exactly these bare delegations to
    `Var._operator_dispatcher` (method, operand order, arity) - no other operator dunder (`__pow__`,
    `__iadd__`, comparisons ...), no body with anything besides the delegation (an early check, a cache) -
    and the two dispatcher classes define exactly the methods `Model/Dispatch.lean` describes. -/
theorem var_dunders_wired :
    wires =
      [⟨"__add__", "add", false, 2⟩, ⟨"__and__", "and_", false, 2⟩, ⟨"__floordiv__", "floordiv", false, 2⟩,
       ⟨"__invert__", "not_", false, 1⟩, ⟨"__mul__", "mul", false, 2⟩, ⟨"__neg__", "neg", false, 1⟩,
       ⟨"__or__", "or_", false, 2⟩, ⟨"__radd__", "add", true, 2⟩, ⟨"__rand__", "and_", true, 2⟩,
       ⟨"__rfloordiv__", "floordiv", true, 2⟩, ⟨"__rmul__", "mul", true, 2⟩, ⟨"__ror__", "or_", true, 2⟩,
       ⟨"__rsub__", "sub", true, 2⟩, ⟨"__rtruediv__", "truediv", true, 2⟩, ⟨"__rxor__", "xor", true, 2⟩,
       ⟨"__sub__", "sub", false, 2⟩, ⟨"__truediv__", "truediv", false, 2⟩, ⟨"__xor__", "xor", false, 2⟩]
    ∧ numpyDispatcher = ["__init__", "_promote", "add", "and_", "floordiv", "mul", "neg", "not_", "or_", "sub", "truediv", "xor"]
    ∧ defaultDispatcher = ["_not_impl", "_not_impl_unary", "add=_not_impl", "and_=_not_impl", "floordiv=_not_impl",
        "mul=_not_impl", "neg=_not_impl_unary", "not_=_not_impl_unary", "or_=_not_impl", "sub=_not_impl",
        "truediv=_not_impl", "xor=_not_impl"] := by decide +kernel

def Op.ofMethod : String → Option Op
  | "add" => some .add | "sub" => some .sub | "mul" => some .mul | "truediv" => some .truediv
  | "floordiv" => some .floordiv | "neg" => some .neg | "and_" => some .and_ | "or_" => some .or_
  | "xor" => some .xor | "not_" => some .not_ | _ => none

/-- the name Python looks up for `a <op> b` / `<op> a` on the left operand, and for the reflected call -/
def fwdName : Op → String
  | .add => "__add__" | .sub => "__sub__" | .mul => "__mul__" | .truediv => "__truediv__"
  | .floordiv => "__floordiv__" | .neg => "__neg__" | .and_ => "__and__" | .or_ => "__or__"
  | .xor => "__xor__" | .not_ => "__invert__"
def revName : Op → String
  | .add => "__radd__" | .sub => "__rsub__" | .mul => "__rmul__" | .truediv => "__rtruediv__"
  | .floordiv => "__rfloordiv__" | .and_ => "__rand__" | .or_ => "__ror__" | .xor => "__rxor__"
  | .neg => "<no reflected form>" | .not_ => "<no reflected form>"

def lookup (name : String) : Option (Op × Bool) :=
  (Generated.VarDunders.wires.find? (fun w => w.dunder == name)).bind
    (fun w => (Op.ofMethod w.method).map (fun m => (m, w.swapped)))

/-- the wiring of `Var` as read from its class body on this run -/
def genWiring : Wiring := ⟨fun op => lookup (fwdName op), fun op => lookup (revName op)⟩

def allOps : List Op := [.add, .sub, .mul, .truediv, .floordiv, .neg, .and_, .or_, .xor, .not_]

theorem genWiring_fwd : ∀ op ∈ allOps, genWiring.fwd op = some (op, false) := by decide +kernel
theorem genWiring_rev : ∀ op ∈ [Op.add, .sub, .mul, .truediv, .floordiv, .and_, .or_, .xor],
    genWiring.rev op = some (op, true) := by decide +kernel

/-- **`a <op> b` written with Python's operators is `dispatch … op a b`** - the left operand stays on
    the left whichever of the two is the `Var` (so every theorem about `dispatch` is about the Python
    expression): for all binary operators, all settings (and outside a block), all operands of which at
    least one is a `Var`. -/
theorem operator_is_dispatch (np : NpInfo) (settings : Option (Bool × Bool)) (op : Op)
    (hop : op ∈ [Op.add, .sub, .mul, .truediv, .floordiv, .and_, .or_, .xor]) (a b : Operand)
    (h : Operand.isVar a = true ∨ Operand.isVar b = true) :
    applyOperator genWiring np settings op a b = dispatch np settings op a b := by
  have hall : ∀ o ∈ [Op.add, .sub, .mul, .truediv, .floordiv, .and_, .or_, .xor], o ∈ allOps := by decide
  have hf := genWiring_fwd op (hall op hop)
  have hr := genWiring_rev op hop
  cases a with
  | var d => simp [applyOperator, hf]
  | _ =>
    cases b with
    | var d => simp [applyOperator, hr]
    | _ => simp [Operand.isVar] at h

/-- the unary operators `-a`, `~a` on a `Var` -/
theorem unary_operator_is_dispatch (np : NpInfo) (settings : Option (Bool × Bool)) (op : Op)
    (hop : op = .neg ∨ op = .not_) (d : Nat) (b : Operand) :
    applyOperator genWiring np settings op (.var d) b = dispatch np settings op (.var d) b := by
  have hf := genWiring_fwd op (by rcases hop with rfl | rfl <;> simp [allOps])
  simp [applyOperator, hf]

/-! ## Round 10: the logical operators compose over whole expressions (every setting, any depth) -/

/-- expressions over boolean Vars built with `& | ^` and `~` -/
inductive LExpr
  | var (i : Nat)
  | not (e : LExpr)
  | bin (op : Op) (l r : LExpr)

/-- every binary operator of the expression is one of `& | ^` -/
def LExpr.logicOnly : LExpr → Bool
  | .var _ => true
  | .not e => e.logicOnly
  | .bin op l r => logicOps.contains op && l.logicOnly && r.logicOnly

/-- numpy: `np.logical_and/or/xor/not` composed (`env i` = the value of boolean Var `i`) -/
def npLExpr (env : Nat → Bool) : LExpr → Bool
  | .var i => env i
  | .not e => npLogical .not_ (npLExpr env e) false
  | .bin op l r => npLogical op (npLExpr env l) (npLExpr env r)

/-- spox: every application dispatched on the element types of its operands (the ones computed for the
    sub-expressions), the emitted operator evaluated by ONNX semantics on the operands' values -/
def spoxLExpr (s : Bool × Bool) (env : Nat → Bool) : LExpr → Option (Nat × Int)
  | .var i => some (boolDt, b2i (env i))
  | .not e =>
      match spoxLExpr s env e with
      | some (d, x) =>
          (match dispatch info (some s) .not_ (.var d) .other with
           | .ok (tree, _) => eval info (.var d) .other x 0 tree
           | .error _ => none)
      | none => none
  | .bin op l r =>
      match spoxLExpr s env l, spoxLExpr s env r with
      | some (dl, x), some (dr, y) =>
          (match dispatch info (some s) op (.var dl) (.var dr) with
           | .ok (tree, _) => eval info (.var dl) (.var dr) x y tree
           | .error _ => none)
      | _, _ => none

theorem settings_mem (s : Bool × Bool) : s ∈ [(true, true), (true, false), (false, true), (false, false)] := by
  obtain ⟨a, b⟩ := s; cases a <;> cases b <;> simp

theorem bool_mem (x : Bool) : x ∈ [false, true] := by cases x <;> simp

/-- **`& | ^ ~` on boolean Vars are numpy's logical operators over whole expressions**: for every expression
    tree (any depth, any re-use of Vars), every promotion setting and every assignment of truth values, the
    graph spox emits is accepted, stays boolean at every intermediate and evaluates to numpy's value.
    Lifts the one-application table `logical_matches` by induction. -/
theorem logical_expr_matches (s : Bool × Bool) (env : Nat → Bool) :
    ∀ e : LExpr, e.logicOnly = true → spoxLExpr s env e = some (boolDt, b2i (npLExpr env e))
  | .var i, _ => rfl
  | .not e, h => by
    simp only [LExpr.logicOnly] at h
    have ih := logical_expr_matches s env e h
    have hm := (logical_matches s (settings_mem s) (npLExpr env e) (bool_mem _) false (bool_mem _)).2
    cases hd : dispatch info (some s) .not_ (.var boolDt) .other with
    | error err => simp [hd] at hm
    | ok p =>
      obtain ⟨tree, d⟩ := p
      simp only [hd, Bool.and_eq_true, beq_iff_eq] at hm
      simp only [spoxLExpr, ih, hd, npLExpr, hm.2]
  | .bin op l r, h => by
    simp only [LExpr.logicOnly, Bool.and_eq_true, List.contains_iff_mem] at h
    obtain ⟨⟨hop, hl⟩, hr⟩ := h
    have ihl := logical_expr_matches s env l hl
    have ihr := logical_expr_matches s env r hr
    have hm := (logical_matches s (settings_mem s) (npLExpr env l) (bool_mem _) (npLExpr env r) (bool_mem _)).1 op hop
    cases hd : dispatch info (some s) op (.var boolDt) (.var boolDt) with
    | error err => simp [hd] at hm
    | ok p =>
      obtain ⟨tree, d⟩ := p
      simp only [hd, Bool.and_eq_true, beq_iff_eq] at hm
      simp only [spoxLExpr, ihl, ihr, hd, npLExpr, hm.2]

/-- Consequence: what is computed does not depend on the promotion settings of the block. -/
theorem logical_expr_setting_independent (s s' : Bool × Bool) (env : Nat → Bool) (e : LExpr)
    (h : e.logicOnly = true) : spoxLExpr s env e = spoxLExpr s' env e := by
  rw [logical_expr_matches s env e h, logical_expr_matches s' env e h]

/-! ## Round 10: numpy's result element type over whole expressions (floats, `/`, scalars included) -/

/-- expressions over the operand kinds of `result_dtype_matches`: numeric Vars of all 11 dtypes (floating ones
    included), Python int / float / bool, numpy scalars, under `+ - * / //` -/
inductive DExpr
  | leaf (o : Operand)
  | bin (op : Op) (l r : DExpr)

def DExpr.wf : DExpr → Bool
  | .leaf o => operands.contains o
  | .bin op l r => binOps.contains op && l.wf && r.wf

/-- numpy: what the expression is as an operand of the next operator - a leaf is itself, an application with at
    least one array operand is an array of numpy's result dtype (`none`: numpy raises, or both operands are plain
    scalars, which is Python's own arithmetic and not the subject) -/
def npD : DExpr → Option Operand
  | .leaf o => some o
  | .bin op l r =>
      match npD l, npD r with
      | some a, some b => if Operand.isVar a || Operand.isVar b then (npResult op a b).map .var else none
      | _, _ => none

/-- spox (promotion and constant promotion on): each application dispatched on the operand kinds computed so far -/
def spoxD : DExpr → Option Operand
  | .leaf o => some o
  | .bin op l r =>
      match spoxD l, spoxD r with
      | some a, some b =>
          if Operand.isVar a || Operand.isVar b then (resultDtype (dispatch info (some (true, true)) op a b)).map .var else none
      | _, _ => none

/-- numpy's result dtypes stay inside the 11 numeric dtypes (needed to iterate `result_dtype_matches`) -/
theorem npResult_closed :
    ∀ op ∈ binOps, ∀ a ∈ operands, ∀ b ∈ operands,
      (match npResult op a b with | some t => numeric.contains t | none => true) = true := by
  decide +kernel

theorem var_mem_operands (t : Nat) (h : t ∈ numeric) : Operand.var t ∈ operands := by
  simp only [operands, List.mem_append, List.mem_map]
  exact Or.inl (Or.inl ⟨t, h, rfl⟩)

/-- **The result element type is numpy's over whole expressions**: for every expression built with `+ - * / //`
    from numeric Vars (integer and floating), Python ints / floats / bools and numpy scalars on either side, the
    element type of every intermediate and of the result of the emitted graph is the one numpy gives - and spox
    refuses exactly where numpy raises. Lifts `result_dtype_matches` by induction (values of floating results are
    not the subject: see `floordiv_float_partial`). -/
theorem expr_dtype_matches :
    ∀ e : DExpr, e.wf = true → spoxD e = npD e ∧ ∀ o, npD e = some o → o ∈ operands
  | .leaf o, h => by
    simp only [DExpr.wf, List.contains_iff_mem] at h
    exact ⟨rfl, fun o' ho => by simp only [npD, Option.some.injEq] at ho; subst ho; exact h⟩
  | .bin op l r, h => by
    simp only [DExpr.wf, Bool.and_eq_true, List.contains_iff_mem] at h
    obtain ⟨⟨hop, hl⟩, hr⟩ := h
    obtain ⟨el, ml⟩ := expr_dtype_matches l hl
    obtain ⟨er, mr⟩ := expr_dtype_matches r hr
    simp only [spoxD, npD, el, er]
    cases hnl : npD l with
    | none => simp
    | some a =>
      cases hnr : npD r with
      | none => simp
      | some b =>
        have ha := ml a hnl
        have hb := mr b hnr
        by_cases hv : (Operand.isVar a || Operand.isVar b) = true
        · simp only [hv, if_true]
          rw [result_dtype_matches op hop a ha b hb hv]
          refine ⟨rfl, ?_⟩
          intro o ho
          have hc := npResult_closed op hop a ha b hb
          cases hres : npResult op a b with
          | none => simp [hres] at ho
          | some t =>
            simp only [hres, Option.map_some, Option.some.injEq] at ho
            subst ho
            simp only [hres, List.contains_iff_mem] at hc
            exact var_mem_operands t hc
        · simp [hv]

/-- Obligation (tie G, round 10): **the dispatcher has no state besides its three settings** - the only instance
    attributes `_NumpyLikeOperatorDispatcher` ever assigns are `op`, `type_promotion`, `constant_promotion` (set in
    `__init__`); a new attribute (a cache of promoted constants, a memo table) fails this whatever inputs are generated.
    Class-level statements and method decorators are part of `var_dunders_wired`. This is what lets `dispatch` be a
    function of the operands and the settings alone. -/
theorem dispatcher_state_inventory :
    Generated.VarDunders.numpyDispatcherAttrs = ["constant_promotion", "op", "type_promotion"] := by decide

/-! ## What does not hold (listed findings), with the part that does -/

/-- Known finding `neg:unsigned:refused`: numpy negates unsigned arrays (wrap-around), ONNX defines no
    `Neg` on unsigned tensors, so `-x` is refused (InferenceError) for every unsigned element type. -/
theorem neg_unsigned_counterexample :
    ∀ s ∈ [(true, true), (true, false), (false, true), (false, false)], ∀ d ∈ [4, 5, 6, 7],
      isErr (dispatch info (some s) .neg (.var d) .other) .inferenceError = true ∧ npNeg.getD d none = some d := by
  decide +kernel

/-- Float floor division is emitted as `Floor(Div(a, b))` in the promoted floating type (known finding
    `floordiv:float:rounded-quotient`: numpy's `floor_divide` is `fmod`-based and can be one below the
    floor of the rounded quotient, e.g. `1.0 // 0.1`). The element type is numpy's
    (`result_dtype_matches`); agreement of the *values* is not a theorem: it holds exactly where the
    IEEE quotient is not rounded up to an integer, and is checked against numpy by the oracle. -/
theorem floordiv_float_partial :
    ∀ a ∈ operands, ∀ b ∈ operands, (Operand.isVar a || Operand.isVar b) = true →
      (match npResult .floordiv a b with
       | some t => !info.floating t ||
           (match dispatch info (some (true, true)) .floordiv a b with
            | .ok (.un .Floor (.bin .Div _ _), r) => r == t
            | _ => false)
       | none => true) = true := by
  decide +kernel

/-- What the pinned tree emitted for integer `//` (a bare `Div`) is *not* numpy's floor division:
    `-7 // 2` evaluates to `-3`, numpy gives `-4` (fixed: `arith_matches` now covers `//`). -/
theorem floordiv_bare_div_counterexample :
    eval info (.var 3) (.var 3) (-7) 2 (.bin .Div (.cast 3 (.arg 0)) (.cast 3 (.arg 1))) = some (3, -3) ∧
      npInt info .floordiv 3 (-7) 2 = -4 := by
  decide +kernel

/-! ## Non-vacuity -/

example : ∃ tree, dispatch info (some (true, true)) .floordiv (.var 2) (.var 3) = .ok (tree, 3) ∧
    eval info (.var 2) (.var 3) (-7) 2 tree = some (3, -4) := by
  obtain ⟨tree, h1, h2⟩ := arith_matches true .floordiv (by simp [intOps]) 2 3 (by simp [ints]) (by simp [ints]) 3
    (by decide +kernel) (by decide +kernel) (-7) 2 (by decide +kernel) (by decide +kernel) (fun _ => ⟨by decide, by decide⟩)
  exact ⟨tree, h1, by rw [h2]; decide +kernel⟩
-- (x0 + x1) // x2 with x0 : int8 = -7, x1 : int32 = 2, x2 : int64 = 2:  numpy int64 -3, and so does the emitted graph
example : npExpr (fun i => [(0, -7), (2, 2), (3, 2)].getD i (0, 0)) (.bin .floordiv (.bin .add (.var 0) (.var 1)) (.var 2)) = some (3, -3) ∧
    spoxExpr true (fun i => [(0, -7), (2, 2), (3, 2)].getD i (0, 0)) (.bin .floordiv (.bin .add (.var 0) (.var 1)) (.var 2)) = some (3, -3) := by
  decide +kernel
example : resultDtype (dispatch info (some (true, true)) .truediv (.var 2) (.var 2)) = some f64 := by decide +kernel
example : resultDtype (dispatch info (some (true, true)) .add (.var 7) (.var 3)) = some f64 := by decide +kernel
example : isErr (dispatch info (some (false, true)) .add (.var 2) .pyFloat) .typeError = true := by decide +kernel
example : isErr (dispatch info (some (true, true)) .add (.var 0) (.pyInt 1000)) .overflowError = true := by decide +kernel

-- ~(x0 & x1) ^ (x0 | ~x1) with x0 = True, x1 = False: numpy True ^ True = False, and so does the emitted graph, promotion off
example : npLExpr (fun i => [true, false].getD i false) (.bin .xor (.not (.bin .and_ (.var 0) (.var 1))) (.bin .or_ (.var 0) (.not (.var 1)))) = false ∧
    spoxLExpr (false, false) (fun i => [true, false].getD i false)
      (.bin .xor (.not (.bin .and_ (.var 0) (.var 1))) (.bin .or_ (.var 0) (.not (.var 1)))) = some (boolDt, 0) := by
  decide +kernel

-- (x0 + 1) / x1 * 2.5 with x0 : int8, x1 : int32 -> float64; uint64 + int8 -> float64 (numpy's rule), then // int16 stays float64
example : npD (.bin .mul (.bin .truediv (.bin .add (.leaf (.var 0)) (.leaf (.pyInt 1))) (.leaf (.var 2))) (.leaf .pyFloat)) = some (.var 10) ∧
    spoxD (.bin .floordiv (.bin .add (.leaf (.var 7)) (.leaf (.var 0))) (.leaf (.var 1))) = some (.var 10) := by decide +kernel

end C17
