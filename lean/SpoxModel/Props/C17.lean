/-! Property theorems for C17 (only property-level statements and non-vacuity examples live here). -/
