import SpoxModel.Lemmas.Emit
import SpoxModel.Model.Conform
import SpoxModel.Lemmas.Conform
import SpoxModel.Generated.Conforms_v17
import SpoxModel.Generated.Conforms_v18
import SpoxModel.Generated.Conforms_v19
import SpoxModel.Generated.Conforms_v20
import SpoxModel.Generated.Conforms_v21
import SpoxModel.Generated.Conforms_ml_v3
import SpoxModel.Generated.Conforms_ml_v4
import SpoxModel.Generated.Conforms_ml_v5
import SpoxModel.Generated.AdaptAttrInventory
import SpoxModel.Lemmas.SchemaSel
/-!
# C11 — every shipped operator constructor conforms to its ONNX schema

Property theorems only.

* finite part — `table_conforms`: every operator/module pair of the tables *extracted from /repo on
  this run* (source text of the 8 opset modules; `onnx.defs`) satisfies `Conform.entryOK`
  (one kernel-evaluated obligation per pair, `Generated/Conforms_*.lean`), except the pairs listed as
  known deviations, for which `table_conforms_except` holds;
* unbounded part — `emit_slots`, `slot_position`, `emit_attrs`, `conforming_call`: for *any*
  signature and *any* subset of supplied optional inputs / attributes the emitted node has each
  argument in its schema slot and each attribute under its schema name with the value given.
-/
namespace C11
open Emit Conform

variable {α β : Type}

/-! ## slots (unbounded) -/

/-- **emit_slots.** For every field list (any mix of single / optional / variadic), every assignment
    of arguments and every minimum `minN`:
    1. the emitted list is a *prefix* of the full positional list — so position `k` still holds
       argument `k`, and an omitted optional that is not dropped stays as an empty name (`none`);
    2. everything that was dropped is an omitted optional;
    3. nothing is dropped below `minN` (a list no longer than `minN` is emitted whole);
    4. *all* omitted trailing optionals above `minN` are dropped (if more than `minN` names are
       emitted, the last one is a present value). -/
theorem emit_slots (minN : Nat) (args : List (Arg α)) :
    emitSlots minN args <+: flatten args ∧
    (∃ k, flatten args = emitSlots minN args ++ List.replicate k none) ∧
    min minN (flatten args).length ≤ (emitSlots minN args).length ∧
    (minN < (emitSlots minN args).length →
      ∃ v, (emitSlots minN args).getLast? = some (some v)) :=
  ⟨trim_prefix _ _, trim_dropped _ _, trim_min' _ _, trim_last _ _⟩

/-- **emit_slots_exact.** The four facts of `emit_slots` determine the emitted list: it is *the*
    prefix of the positional list that drops only omitted optionals, keeps at least
    `min(min_input, length)` names and, above `min_input`, does not end in an empty name. So
    "exactly the trailing omitted optionals above `min_input` are dropped" is not an approximation. -/
theorem emit_slots_exact (minN : Nat) (args : List (Arg α)) (ys : List (Option α))
    (h1 : ys <+: flatten args) (h2 : ∃ k, flatten args = ys ++ List.replicate k none)
    (h3 : min minN (flatten args).length ≤ ys.length)
    (h4 : minN < ys.length → ∃ v, ys.getLast? = some (some v)) :
    ys = emitSlots minN args :=
  trim_unique minN _ ys h1 h2 h3 h4

/-- Positional form of (1): whatever is emitted at index `k` is the `k`-th positional argument. -/
theorem emit_slots_index (minN : Nat) (args : List (Arg α)) (k : Nat) (x : Option α)
    (h : (emitSlots minN args)[k]? = some x) : (flatten args)[k]? = some x := by
  obtain ⟨t, ht⟩ := (emit_slots minN args).1
  rw [← ht, List.getElem?_append_left]
  · exact h
  · exact (List.getElem?_eq_some_iff.mp h).1

/-- A supplied argument is never dropped nor moved. -/
theorem emit_slots_present (minN : Nat) (args : List (Arg α)) (k : Nat) (v : α)
    (h : (flatten args)[k]? = some (some v)) : (emitSlots minN args)[k]? = some (some v) :=
  trim_keeps_present minN _ k v h

/-- **slot_position.** A non-variadic field preceded by `k` non-variadic fields sits at positional
    index `k` (ONNX allows a variadic field only in last place; then it starts at index `k` too). -/
theorem slot_position (pre post : List (Arg α)) (a : Arg α) (h : noVariadic pre = true) :
    match a with
    | .single v => (flatten (pre ++ a :: post))[pre.length]? = some (some v)
    | .opt v => (flatten (pre ++ a :: post))[pre.length]? = some v
    | .variadic vs => ∀ i, i < vs.length →
        (flatten (pre ++ a :: post))[pre.length + i]? = (vs[i]?).map some := by
  have hl := flatten_length_noVariadic pre h
  cases a with
  | single v => simp [flatten_append, flatten, ← hl]
  | opt v => simp [flatten_append, flatten, ← hl]
  | variadic vs =>
    intro i hi
    rw [flatten_append, ← hl, List.getElem?_append_right (by omega)]
    simp [flatten, List.getElem?_append_left, hi]

/-- Plain `Node` subclasses (`min_input = len(inputs)`): nothing is trimmed (used by C18). -/
theorem emit_slots_custom (args : List (Arg α)) : emitSlotsCustom args = flatten args :=
  trim_len _

/-- **emit_identity_free.** Emission depends on the *positions and presence* of the arguments only,
    never on which Var sits where: for any renaming `f` of the arguments — in particular a
    non-injective one, i.e. the same Var passed in several slots (`clip(x, lo, x)`, `where(c, x, x)`,
    `concat([a, b, a])`, `slice(x, k, n, k)`) — emitting the renamed node is renaming the emitted node.
    Hence every slot theorem above holds verbatim when arguments repeat. -/
theorem emit_identity_free {γ : Type} (f : α → γ) (n : NodeIn α β) :
    emitNode { n with inputs := n.inputs.map (Arg.map f), outputs := n.outputs.map (Arg.map f) } =
      { opType := (emitNode n).opType, domain := (emitNode n).domain,
        inputs := (emitNode n).inputs.map (Option.map f),
        outputs := (emitNode n).outputs.map (Option.map f),
        attrs := (emitNode n).attrs } := by
  cases h : n.mins with
  | none => simp [emitNode, h, emitSlotsCustom_map]
  | some m => obtain ⟨i, o⟩ := m; simp [emitNode, h, emitSlots_map]

/-- the length of the emitted list and which of its entries are empty do not depend on the
    arguments either (take `f` constant) -/
theorem emit_shape_free (minN : Nat) (args : List (Arg α)) :
    (emitSlots minN (args.map (Arg.map fun _ => ()))) = (emitSlots minN args).map (Option.map fun _ => ()) :=
  emitSlots_map _ _ _

/-- a repeated argument: `Clip(x, lo, x)` keeps all three names, `Clip(x, x)` keeps two -/
example : emitSlots 1 [Arg.single "x", .opt (some "lo"), .opt (some "x")] = [some "x", some "lo", some "x"] := by
  decide
example : emitSlots 1 [Arg.single "x", .opt (some "x"), .opt none] = [some "x", some "x"] := by decide

/-! ## attributes (unbounded) -/

/-- **emit_attrs.** Exactly the attributes that are set (not `None`) are emitted, each under the
    name its `Attr` object carries and with its value, in field order. -/
theorem emit_attrs (l : List (Option (String × β))) :
    emitAttrs l = l.filterMap id ∧ (∀ a, a ∈ emitAttrs l ↔ some a ∈ l) := by
  refine ⟨emitAttrs_eq_filterMap l, fun a => ?_⟩
  rw [emitAttrs_eq_filterMap]; simp [List.mem_filterMap]

/-! ## the finite part: the tables generated from /repo -/

open Generated.Conforms in
/-- all operator/module pairs without a listed deviation -/
def allPairs : List Entry :=
  v17.table ++ v18.table ++ v19.table ++ v20.table ++ v21.table ++
  ml_v3.table ++ ml_v4.table ++ ml_v5.table

open Generated.Conforms in
/-- pairs with a listed deviation (known findings: `Constant.sparse_value`; `GroupNormalization-18`
    deprecated), each with what is excepted -/
def deviatingPairs : List (List String × Entry) :=
  v17.deviating ++ v18.deviating ++ v19.deviating ++ v20.deviating ++ v21.deviating ++
  ml_v3.deviating ++ ml_v4.deviating ++ ml_v5.deviating

open Generated.Conforms in
/-- **table_conforms.** Every shipped operator/module pair (as extracted from the source on this
    run) conforms to the ONNX schema in force at its module's version. -/
theorem table_conforms : ∀ e ∈ allPairs, entryOK e = true := by
  intro e he
  simp only [allPairs, List.mem_append] at he
  rcases he with ((((((h | h) | h) | h) | h) | h) | h) | h
  · exact v17.table_conforms e h
  · exact v18.table_conforms e h
  · exact v19.table_conforms e h
  · exact v20.table_conforms e h
  · exact v21.table_conforms e h
  · exact ml_v3.table_conforms e h
  · exact ml_v4.table_conforms e h
  · exact ml_v5.table_conforms e h

/-- What `entryOK` says, as propositions (so that the Boolean predicate cannot hide anything). -/
theorem entryOK_sound (e : Entry) (h : entryOK e = true) :
    e.2.1.cls.pyName = e.1 ∧
    e.2.1.cls.opName = e.2.2.name ∧ e.2.1.cls.domain = e.2.2.domain ∧
    e.2.1.cls.version = e.2.2.since ∧
    e.2.1.cls.inputs = e.2.2.inputs ∧ e.2.1.cls.outputs = e.2.2.outputs ∧
    inputsOK e.2.2.inputs e.2.1.inputWires (positional e.2.1.params) = true ∧
    attrsOK e.2.1.params e.2.1.cls.attrs e.2.1.attrWires e.2.2.attrs = true := by
  simp only [entryOK, conformsTo, Bool.and_eq_true, beq_iff_eq, and_assoc] at h
  obtain ⟨h0, h1, h2, h3, _, _, h5, h6, h7, h8, _⟩ := h
  exact ⟨h0, h1, h2, h3, h5, h6, h7, h8⟩

/-! ## conformance ⇒ emission (unbounded in the call) -/

/-- **conforming_call.** For *any* constructor `c` and schema `s` with `conformsTo c s` (in
    particular every pair of `table_conforms`), *any* assignment of arguments to the input
    parameters and *any* subset of supplied attribute parameters (with any values), the node built
    by the constructor call and emitted by `Node.to_onnx`
    * carries the schema's operator name and domain and requires `(domain, since_version)`;
    * has as inputs the schema's formal inputs in schema order, each bound to the argument of the
      same name, trimmed as `emit_slots` describes with `min_input` of the schema;
    * has as attributes, for each schema attribute in turn: the supplied value under the schema
      name; else the schema default under the schema name if there is one; else nothing. -/
theorem conforming_call (c : Ctor) (s : Schema) (h : conformsTo c s = true)
    (args : String → Arg α) (outs : List (Arg α)) (supplied : String → Option Val) :
    let n : NodeIn α Val :=
      { opType := c.cls.opName, domain := c.cls.domain, version := c.cls.version,
        mins := some (s.minInput, s.minOutput), inputs := callInputs c args, outputs := outs,
        attrs := callAttrs c supplied }
    (emitNode n).opType = s.name ∧ (emitNode n).domain = s.domain ∧
    opsetReq n = (s.domain, s.since) ∧
    (emitNode n).inputs = emitSlots s.minInput (s.inputs.map fun f => args f.1) ∧
    (emitNode n).attrs =
      (List.zipWith (expectedAttr supplied) s.attrs c.attrWires).filterMap id ∧
    c.attrWires.length = s.attrs.length := by
  simp only [conformsTo, Bool.and_eq_true, beq_iff_eq, and_assoc] at h
  obtain ⟨h1, h2, h3, _, _, h5, _, h7, h8, _⟩ := h
  have hin := callInputs_of_inputsOK c s.inputs h5 _ h7 args
  have hat := callAttrs_of_attrsOK c.params supplied _ _ _ h8
  refine ⟨h1, h2, ?_, ?_, ?_, attrsOK_length _ _ _ _ h8⟩
  · simp [opsetReq, h2, h3]
  · simp [emitNode, hin]
  · simp only [emitNode, emitAttrs_eq_filterMap, callAttrs_eq, hat]

/-- … in particular for every shipped operator/module pair of this run's tables. -/
theorem shipped_call (e : Entry) (he : e ∈ allPairs)
    (args : String → Arg α) (supplied : String → Option Val) :
    emitSlots e.2.2.minInput (callInputs e.2.1 args) =
      emitSlots e.2.2.minInput (e.2.2.inputs.map fun f => args f.1) ∧
    emitAttrs (callAttrs e.2.1 supplied) =
      (List.zipWith (expectedAttr supplied) e.2.2.attrs e.2.1.attrWires).filterMap id := by
  have h := table_conforms e he
  simp only [entryOK, Bool.and_eq_true] at h
  have hc := conforming_call (α := α) e.2.1 e.2.2 h.2 args [] supplied
  simp only [emitNode] at hc
  exact ⟨hc.2.2.2.1, hc.2.2.2.2.1⟩

/-! ## requiredness and defaults: every spelling of an attribute argument, error branch included -/

/-- **conforming_call_total.** For *any* constructor/schema pair with `conformsTo c s` and *any*
    spelling of each attribute argument — left out, `None`, a value of the attribute's kind, a value
    that is not (`Spell`) — the `Attributes(...)` expression of the constructor body
    1. raises (`TypeError` family) **iff** some schema attribute is spelled in a way its schema entry
       refuses: a malformed value; left out although required; `None` although required *or*
       although the schema has a default for it (`AttrX(None, …)` raises, it never invents a value);
    2. otherwise yields, for each schema attribute in turn: the value given under the schema name;
       else (left out, or `None` on an optional attribute without default) the schema default if
       there is one; else nothing. -/
theorem conforming_call_total (c : Ctor) (s : Schema) (h : conformsTo c s = true)
    (spelled : String → Spell) :
    (callAttrsE c spelled = none ↔ ∃ a ∈ s.attrs, rejects a (spelled a.name) = true) ∧
    (∀ l, callAttrsE c spelled = some l →
      l = List.zipWith (acceptedAttr spelled) s.attrs c.attrWires ∧
      emitAttrs l = (List.zipWith (acceptedAttr spelled) s.attrs c.attrWires).filterMap id) := by
  simp only [conformsTo, Bool.and_eq_true, beq_iff_eq, and_assoc] at h
  obtain ⟨_, _, _, _, _, _, _, _, h8, _⟩ := h
  have hat := callAttrsE_of_attrsOK c.params spelled _ _ _ h8
  have hlen := attrsOK_length _ _ _ _ h8
  unfold callAttrsE
  rw [hat]
  constructor
  · rw [allSome_eq_none]
    constructor
    · intro hm
      obtain ⟨i, hi, he⟩ := List.getElem_of_mem hm
      simp only [List.getElem_zipWith, expectedAttrE] at he
      refine ⟨s.attrs[i]'(by simp at hi; omega), List.getElem_mem _, ?_⟩
      cases hr : rejects (s.attrs[i]'(by simp at hi; omega)) (spelled (s.attrs[i]'(by simp at hi; omega)).name) with
      | true => rfl
      | false => simp [hr] at he
    · intro ⟨a, ha, hr⟩
      obtain ⟨i, hi, he⟩ := List.getElem_of_mem ha
      have hi' : i < c.attrWires.length := by omega
      have : (List.zipWith (expectedAttrE spelled) s.attrs c.attrWires)[i]'(by simp; omega) = none := by
        simp [List.getElem_zipWith, expectedAttrE, he, hr]
      rw [← this]
      exact List.getElem_mem _
  · intro l hl
    rw [allSome_eq_some] at hl
    have key : l = List.zipWith (acceptedAttr spelled) s.attrs c.attrWires := by
      apply List.ext_getElem
      · have := congrArg List.length hl
        simpa using this.symm
      · intro i h1 h2
        have := congrArg (fun x => x[i]?) hl
        simp only [List.getElem?_map, List.getElem?_zipWith] at this
        simp only [List.length_zipWith] at h2
        rw [List.getElem?_eq_getElem (by omega), List.getElem?_eq_getElem (by omega),
          List.getElem?_eq_getElem h1] at this
        simp only [Option.map_some, Option.some.injEq, expectedAttrE] at this
        split at this
        · cases this
        · simp only [Option.some.injEq] at this
          simp [List.getElem_zipWith, this]
    exact ⟨key, by rw [emitAttrs_eq_filterMap, key]⟩

/-- **none_never_invents.** `None` on a *required* attribute, or on an attribute the schema has a
    default for, makes a conforming constructor raise — whatever the other arguments are. In
    particular `cast(x, to=None)` cannot come out as `to=DOUBLE`, nor `random_normal(dtype=None)` as
    anything but an exception. -/
theorem none_never_invents (c : Ctor) (s : Schema) (h : conformsTo c s = true)
    (spelled : String → Spell) (a : SAttr) (ha : a ∈ s.attrs)
    (hn : spelled a.name = Spell.none) (hreq : a.required = true ∨ a.default ≠ Val.none) :
    callAttrsE c spelled = none := by
  refine ((conforming_call_total c s h spelled).1).mpr ⟨a, ha, ?_⟩
  rcases hreq with hr | hd
  · simp [rejects, hn, hr]
  · simp [rejects, hn, hd]

/-- a malformed value makes a conforming constructor raise; so does leaving out a required attribute -/
theorem malformed_raises (c : Ctor) (s : Schema) (h : conformsTo c s = true)
    (spelled : String → Spell) (a : SAttr) (ha : a ∈ s.attrs)
    (hb : spelled a.name = Spell.bad ∨ (spelled a.name = Spell.omitted ∧ a.required = true)) :
    callAttrsE c spelled = none := by
  refine ((conforming_call_total c s h spelled).1).mpr ⟨a, ha, ?_⟩
  rcases hb with hb | ⟨hb, hr⟩
  · simp [rejects, hb]
  · simp [rejects, hb, hr]

/-- the well-formed calls of `conforming_call` are the `ok`/`omitted` spellings: on those the two
    call models agree (so `callAttrsE` extends `callAttrs`, it does not replace it) -/
theorem total_extends_call (c : Ctor) (s : Schema) (h : conformsTo c s = true)
    (supplied : String → Option Val) (l : List (Option (String × Val)))
    (hl : callAttrsE c (fun n => match supplied n with | some v => Spell.ok v | none => Spell.omitted) = some l) :
    l = callAttrs c supplied := by
  obtain ⟨hk, _⟩ := (conforming_call_total c s h _).2 l hl
  have h' := h
  simp only [conformsTo, Bool.and_eq_true, beq_iff_eq, and_assoc] at h'
  obtain ⟨_, _, _, _, _, _, _, _, h8, _⟩ := h'
  rw [hk, callAttrs_eq, callAttrs_of_attrsOK c.params supplied _ _ _ h8]
  congr 1
  funext a w
  simp only [acceptedAttr, expectedAttr]
  cases supplied a.name <;> rfl

/-- non-vacuity on shipped constructors (this run's extraction): `cast` (required dtype attribute
    `to`) refuses `None` and a missing `to`, and emits `to=INT32 (6)` for `np.int32`;
    `random_normal` (dtype with schema default FLOAT, required `shape`) refuses `dtype=None` and
    emits the default when `dtype` is left out; `eye_like` (optional dtype without default) accepts
    `None` and emits nothing for it. -/
example : callAttrsE Generated.Ctors.v17.f_cast (fun _ => Spell.none) = none ∧
    callAttrsE Generated.Ctors.v17.f_cast (fun _ => Spell.omitted) = none ∧
    callAttrsE Generated.Ctors.v17.f_cast (fun _ => Spell.bad) = none ∧
    callAttrsE Generated.Ctors.v17.f_cast (fun _ => Spell.ok (Val.dtype "int32")) =
      some [some ("to", Val.int 6)] := by decide +kernel
example : callAttrsE Generated.Ctors.v17.f_random_normal
      (fun n => if n = "shape" then Spell.ok (Val.ints [2]) else Spell.none) = none ∧
    (callAttrsE Generated.Ctors.v17.f_random_normal
      (fun n => if n = "shape" then Spell.ok (Val.ints [2]) else Spell.omitted)).map emitAttrs =
      some [("dtype", Val.int 1), ("mean", Val.float 0), ("scale", Val.float 1065353216),
            ("shape", Val.ints [2])] := by decide +kernel
example : (callAttrsE Generated.Ctors.v17.f_eye_like (fun _ => Spell.none)).map emitAttrs = none ∧
    (callAttrsE Generated.Ctors.v17.f_eye_like
      (fun n => if n = "k" then Spell.omitted else Spell.none)).map emitAttrs =
      some [("k", Val.int 0)] := by decide +kernel

/-! ## the input side and the whole call, error branch included -/

/-- **conforming_inputs_total.** For *any* pair with `conformsTo c s` and *any* spelling of every input
    argument (left out / `None` / a Var / a sequence of Vars / something else), the `Inputs(...)`
    expression
    1. raises (`TypeError`) **iff** some formal input of the schema is spelled in a way its kind refuses:
       a Single input that is not a Var (left out, `None`, a list); an Optional one that is neither a
       Var nor `None`/left out; a Variadic one that is not a sequence of Vars (or left out where the
       constructor has no `()` default);
    2. otherwise binds, in schema order, every formal input to the argument of the same name — an
       Optional input spelled `None` or left out as an empty slot. -/
theorem conforming_inputs_total (c : Ctor) (s : Schema) (h : conformsTo c s = true)
    (spelled : String → InSpell α) :
    (callInputsE c spelled = none ↔
      ∃ f ∈ s.inputs, rejectsIn f.2 (paramHasDefault c.params f.1) (spelled f.1) = true) ∧
    (∀ l, callInputsE c spelled = some l → l = s.inputs.map fun f => acceptedIn f.2 (spelled f.1)) := by
  simp only [conformsTo, Bool.and_eq_true, beq_iff_eq, and_assoc] at h
  obtain ⟨_, _, _, _, _, h5, _, h7, _, hd, _⟩ := h
  have hmap : c.cls.inputs.map (callInputE c spelled) = s.inputs.map (expectedInE c.params spelled) := by
    rw [h5]
    exact List.map_congr_left fun f hf => callInputE_of_inputsOK c s.inputs h7 hd spelled f hf
  unfold callInputsE
  rw [hmap]
  constructor
  · rw [allSome_eq_none]
    simp only [List.mem_map, expectedInE]
    constructor
    · rintro ⟨f, hf, he⟩
      refine ⟨f, hf, ?_⟩
      cases hr : rejectsIn f.2 (paramHasDefault c.params f.1) (spelled f.1) with
      | true => rfl
      | false => simp [hr] at he
    · rintro ⟨f, hf, hr⟩
      exact ⟨f, hf, by simp [hr]⟩
  · intro l hl
    rw [allSome_eq_some] at hl
    apply List.ext_getElem
    · have := congrArg List.length hl
      simpa using this.symm
    · intro i h1 h2
      have := congrArg (fun x => x[i]?) hl
      simp only [List.getElem?_map] at this
      simp only [List.length_map] at h2
      rw [List.getElem?_eq_getElem h2, List.getElem?_eq_getElem h1] at this
      simp only [Option.map_some, Option.some.injEq, expectedInE] at this
      split at this
      · cases this
      · simp only [Option.some.injEq] at this
        simp [this]

/-! ## tie G for the spelling model: the override table of `_attributes.py` -/

/-- **attr_classes_covered.** The classes of `src/spox/_attributes.py` as read from the source on this
    run — bases, the methods each class body defines (which class overrides `__init__` / `maybe` /
    `_validate` / `_to_onnx_deref`), class-level assignments (`_attribute_proto_type`), raise sites — are
    exactly the ones `Conform.mkAttr` was written against. -/
theorem attr_classes_covered :
    Generated.AdaptAttrInventory.attrClasses = Conform.coveredAttrClasses :=
  eq_of_beq (by decide +kernel)

/-- **dtype_exits_covered.** … and so are the exits of `dtype_to_tensor_type`. -/
theorem dtype_exits_covered :
    Generated.AdaptAttrInventory.dtypeExits.map (fun e => (e.1, e.2.2)) = Conform.coveredDtypeExits := by
  decide +kernel

/-- **dtype_raises_typeerror.** Every `raise` of `dtype_to_tensor_type` raises a `TypeError` built on
    the spot (no bare re-raise of numpy's / onnx's exception): the "TypeError family" of
    `conforming_call_total` for dtype-valued attributes, whatever input triggers it. -/
theorem dtype_raises_typeerror :
    Generated.AdaptAttrInventory.dtypeExits.all
      (fun e => e.1 != "raise" || e.2.1.startsWith "TypeError(") = true := by decide +kernel

/-- **slotting_sources_covered** (tie G). `BaseVars._flatten/__iter__/__len__`, `Node.min_input/min_output`,
    `StandardNode.min_input/min_output` and the popping loops of `Node.to_onnx`, as read from the source on
    this run, are statement for statement the ones `Model/Emit.lean` (`flatten`, `len`, `emitSlots`,
    `emitSlotsCustom`, `trimRev`) was written against: a `__len__` that counts declared fields, a changed
    minimum or loop condition breaks this obligation whatever inputs are generated. (C11 pins the parts
    standard operators go through; `BaseVars.__len__` / `Node.min_*` concern plain `Node`s: C18.) -/
theorem slotting_sources_covered :
    let mine := fun (e : String × String × List String) =>
      !["BaseVars.__len__", "Node.min_input", "Node.min_output"].contains e.2.1
    Generated.AdaptAttrInventory.slotting.filter mine = Emit.coveredSlotting.filter mine := by
  decide +kernel

/-- only `Attr` and `_AttrIterable` define `maybe`; no class but `AttrTensor`, `_AttrIterable`,
    `AttrTensors` (and the bases `Attr`, `_Ref`) has an `__init__` of its own -/
theorem attr_overrides_shape :
    (Generated.AdaptAttrInventory.attrClasses.filter (fun c => c.2.2.1.contains "maybe")).map (·.1)
      = ["Attr", "_AttrIterable"] ∧
    (Generated.AdaptAttrInventory.attrClasses.filter (fun c => c.2.2.1.contains "__init__")).map (·.1)
      = ["Attr", "_Ref", "AttrTensor", "_AttrIterable", "AttrTensors"] ∧
    (Generated.AdaptAttrInventory.attrClasses.filter (fun c => c.2.2.1.contains "_validate")).map (·.1)
      = ["Attr", "AttrDtype", "AttrGraph"] := by decide +kernel

open Generated.Conforms in
/-- the deviating pairs conform in everything but their listed deviation -/
theorem table_conforms_except : ∀ d ∈ deviatingPairs, entryOKExcept d.1 d.2 = true := by
  intro e he
  simp only [deviatingPairs, List.mem_append] at he
  rcases he with ((((((h | h) | h) | h) | h) | h) | h) | h
  · exact v17.deviating_conforms e h
  · exact v18.deviating_conforms e h
  · exact v19.deviating_conforms e h
  · exact v20.deviating_conforms e h
  · exact v21.deviating_conforms e h
  · exact ml_v3.deviating_conforms e h
  · exact ml_v4.deviating_conforms e h
  · exact ml_v5.deviating_conforms e h

/-! ## known finding: `Constant` has no `sparse_value` (v17–v21)

The full statement is *false* for `Constant`; the witness below is the pinned extraction of
`v17.constant` / `ai.onnx::Constant-13` (kept verbatim here so that the theorem documents the
finding independently of the generated files). -/

def pinnedConstantCls : ClassSig :=
  { pyName := "v17._Constant", base := "StandardNode", opName := "Constant", domain := "", version := 13,
    inputs := [],
    outputs := [("output", .single)],
    attrs := [⟨"value", .tensor, true⟩, ⟨"value_float", .float, true⟩, ⟨"value_floats", .floats, true⟩, ⟨"value_int", .int, true⟩, ⟨"value_ints", .ints, true⟩, ⟨"value_string", .string, true⟩, ⟨"value_strings", .strings, true⟩] }

def pinnedConstant : Ctor :=
  { pyName := "v17.constant", cls := pinnedConstantCls,
    params := [⟨"value", true, .attr, some Val.none⟩, ⟨"value_float", true, .attr, some Val.none⟩, ⟨"value_floats", true, .attr, some Val.none⟩, ⟨"value_int", true, .attr, some Val.none⟩, ⟨"value_ints", true, .attr, some Val.none⟩, ⟨"value_string", true, .attr, some Val.none⟩, ⟨"value_strings", true, .attr, some Val.none⟩],
    attrWires := [⟨"value", .tensor, true, "value", "value", false⟩, ⟨"value_float", .float, true, "value_float", "value_float", false⟩, ⟨"value_floats", .floats, true, "value_floats", "value_floats", false⟩, ⟨"value_int", .int, true, "value_int", "value_int", false⟩, ⟨"value_ints", .ints, true, "value_ints", "value_ints", false⟩, ⟨"value_string", .string, true, "value_string", "value_string", false⟩, ⟨"value_strings", .strings, true, "value_strings", "value_strings", false⟩],
    inputWires := [],
    outVar := .none, ret := .field "output" }

def pinnedConstantSchema : Schema :=
  { name := "Constant", domain := "", since := 13, deprecated := false, minInput := 0, minOutput := 1,
    inputs := [],
    outputs := [("output", .single)],
    attrs := [⟨"sparse_value", .SPARSE_TENSOR, false, Val.none⟩, ⟨"value", .TENSOR, false, Val.none⟩, ⟨"value_float", .FLOAT, false, Val.none⟩, ⟨"value_floats", .FLOATS, false, Val.none⟩, ⟨"value_int", .INT, false, Val.none⟩, ⟨"value_ints", .INTS, false, Val.none⟩, ⟨"value_string", .STRING, false, Val.none⟩, ⟨"value_strings", .STRINGS, false, Val.none⟩] }

/-- **constant_sparse_value_counterexample.** `Constant` does not conform: the schema attribute
    `sparse_value` has no counterpart; dropping it from the schema restores conformance. -/
theorem constant_sparse_value_counterexample :
    conformsTo pinnedConstant pinnedConstantSchema = false ∧
    (pinnedConstantSchema.attrs.any fun a =>
      a.name == "sparse_value" && !pinnedConstant.cls.attrs.any (fun f => f.name == a.name)) = true ∧
    conformsTo pinnedConstant (dropAttrs pinnedConstantSchema ["sparse_value"]) = true := by
  decide +kernel

/-! ## known finding: `GroupNormalization-18` is deprecated (modules v18–v20)

onnx 1.22 marks the schema in force at versions 18–20 as deprecated: the checker refuses the node. -/

def pinnedGroupNorm : Ctor :=
  { pyName := "v18.group_normalization",
    cls := { pyName := "v18._GroupNormalization", base := "StandardNode", opName := "GroupNormalization",
             domain := "", version := 18,
             inputs := [("X", .single), ("scale", .single), ("bias", .single)],
             outputs := [("Y", .single)],
             attrs := [⟨"epsilon", .float, false⟩, ⟨"num_groups", .int, false⟩] },
    params := [⟨"X", false, .var, none⟩, ⟨"scale", false, .var, none⟩, ⟨"bias", false, .var, none⟩, ⟨"epsilon", true, .attr, some (Val.float 925353388)⟩, ⟨"num_groups", true, .attr, none⟩],
    attrWires := [⟨"epsilon", .float, false, "epsilon", "epsilon", false⟩, ⟨"num_groups", .int, false, "num_groups", "num_groups", false⟩],
    inputWires := [("X", "X"), ("scale", "scale"), ("bias", "bias")],
    outVar := .none, ret := .field "Y" }

def pinnedGroupNormSchema : Schema :=
  { name := "GroupNormalization", domain := "", since := 18, deprecated := true, minInput := 3, minOutput := 1,
    inputs := [("X", .single), ("scale", .single), ("bias", .single)],
    outputs := [("Y", .single)],
    attrs := [⟨"epsilon", .FLOAT, false, (Val.float 925353388)⟩, ⟨"num_groups", .INT, true, Val.none⟩] }

/-- **group_normalization_deprecated_counterexample.** -/
theorem group_normalization_deprecated_counterexample :
    conformsTo pinnedGroupNorm pinnedGroupNormSchema = false ∧
    conformsTo pinnedGroupNorm (undeprecate pinnedGroupNormSchema ["@deprecated"]) = true := by
  decide +kernel

/-! ## outputs: every declared output is always emitted

`Node._init_output_vars` creates a Var for every declared output, so — unlike inputs — an optional
output can never be omitted and nothing is ever trimmed from the output list. For almost all
schemas that is harmless; `BatchNormalization` is the exception (known finding): its ONNX inference
demands exactly one output when `training_mode = 0`. -/

theorem initOutputs_present (outs : List (String × FieldKind)) (nvar : Nat) :
    ∀ x ∈ flatten (initOutputs outs nvar), x ≠ none := by
  induction outs with
  | nil => simp [initOutputs, flatten]
  | cons f rest ih =>
    obtain ⟨n, k⟩ := f
    have ih' : ∀ x ∈ flatten (initOutputs rest nvar), x ≠ none := ih
    cases k <;> simp only [initOutputs, List.map_cons, flatten] <;> intro x hx
    · rcases List.mem_cons.mp hx with h | h
      · simp [h]
      · exact ih' x h
    · rcases List.mem_cons.mp hx with h | h
      · simp [h]
      · exact ih' x h
    · rcases List.mem_append.mp hx with h | h
      · obtain ⟨y, _, rfl⟩ := List.mem_map.mp h; simp
      · exact ih' x h

/-- **outputs_never_omitted.** Whatever `min_output` is, the emitted output list is the full list
    of declared outputs (optional ones included, the variadic one expanded to `out_variadic`). -/
theorem outputs_never_omitted (minN : Nat) (outs : List (String × FieldKind)) (nvar : Nat) :
    emitSlots minN (initOutputs outs nvar) = flatten (initOutputs outs nvar) :=
  trim_all_present _ _ (initOutputs_present outs nvar)

/-- **batchnorm_outputs_counterexample.** `BatchNormalization-15` declares
    `Y, running_mean?, running_var?` (min_output 1); the constructor emits three output names, while
    ONNX's inference for `training_mode = 0` (the default) accepts exactly one. -/
theorem batchnorm_outputs_counterexample :
    (emitSlots 1 (initOutputs [("Y", .single), ("running_mean", .optional), ("running_var", .optional)] 0)).length = 3 := by
  decide

/-- **conforming_call_full.** The whole constructor call, for *any* spelling of every input and every
    attribute argument: when both `Inputs(...)` and `Attributes(...)` are accepted, the node that
    `Node.to_onnx` emits has the schema's name and domain, as inputs the schema's formal inputs in
    schema order bound to the arguments of the same name, trimmed exactly as `emit_slots` says with
    the schema's `min_input`; one output name per declared output (optional ones included) plus `nvar`
    for a variadic one — never fewer; and per schema attribute the value given, else the schema
    default, else nothing. (When either is refused the call raises: `conforming_inputs_total`,
    `conforming_call_total`.) -/
theorem conforming_call_full (c : Ctor) (s : Schema) (h : conformsTo c s = true)
    (inSp : String → InSpell String) (atSp : String → Spell) (nvar : Nat)
    (ins : List (Arg String)) (ats : List (Option (String × Val)))
    (hi : callInputsE c inSp = some ins) (ha : callAttrsE c atSp = some ats) :
    let n : NodeIn String Val :=
      { opType := c.cls.opName, domain := c.cls.domain, version := c.cls.version,
        mins := some (s.minInput, s.minOutput), inputs := ins,
        outputs := initOutputs c.cls.outputs nvar, attrs := ats }
    (emitNode n).opType = s.name ∧ (emitNode n).domain = s.domain ∧
    opsetReq n = (s.domain, s.since) ∧
    (emitNode n).inputs = emitSlots s.minInput (s.inputs.map fun f => acceptedIn f.2 (inSp f.1)) ∧
    (emitNode n).outputs = flatten (initOutputs s.outputs nvar) ∧
    (emitNode n).attrs = (List.zipWith (acceptedAttr atSp) s.attrs c.attrWires).filterMap id := by
  have hin := (conforming_inputs_total c s h inSp).2 ins hi
  have hat := ((conforming_call_total c s h atSp).2 ats ha).2
  simp only [conformsTo, Bool.and_eq_true, beq_iff_eq, and_assoc] at h
  obtain ⟨h1, h2, h3, _, _, _, h6, _⟩ := h
  refine ⟨h1, h2, by simp [opsetReq, h2, h3], by simp [emitNode, hin], ?_, by simp [emitNode, hat]⟩
  simp only [emitNode, h6]
  exact outputs_never_omitted s.minOutput s.outputs nvar

/-- **emit_slots_closed_form.** `Node.to_onnx`'s popping loop, for every field list, every argument
    assignment and every minimum, is the closed form the per-pair obligations `slots_<m>_<Op>` are
    stated with: the positional list cut after its last present name, but never below
    `min(min_input, length)`. -/
theorem emit_slots_closed_form (minN : Nat) (args : List (Arg String)) :
    emitSlots minN args = specSlots minN (flatten args) :=
  emitSlots_closed minN args

open Generated.Conforms in
/-- every operator/module pair of this run, deviating ones included -/
def everyPair : List Entry :=
  v17.allEntries ++ v18.allEntries ++ v19.allEntries ++ v20.allEntries ++ v21.allEntries ++
  ml_v3.allEntries ++ ml_v4.allEntries ++ ml_v5.allEntries

open Generated.Conforms in
/-- **table_slotting.** For every shipped operator/module pair (one kernel-decided obligation each,
    `slots_<m>_<Op>`): on every presence pattern of its inputs — each optional input given or `None`,
    the variadic one with 0 / 1 / 2 Vars — the constructor call is accepted and the emitted input list
    is the closed form `specSlots` (the schema's formal inputs in order, cut after the last present
    one, never below `min_input`); and the number of emitted outputs is the number of declared
    non-variadic outputs plus the variadic ones requested. -/
theorem table_slotting : ∀ e ∈ everyPair, slotOK e = true := by
  intro e he
  simp only [everyPair, List.mem_append] at he
  rcases he with ((((((h | h) | h) | h) | h) | h) | h) | h
  · exact v17.table_slots e h
  · exact v18.table_slots e h
  · exact v19.table_slots e h
  · exact v20.table_slots e h
  · exact v21.table_slots e h
  · exact ml_v3.table_slots e h
  · exact ml_v4.table_slots e h
  · exact ml_v5.table_slots e h

example : everyPair.length = 980 := by decide +kernel

/-- the closed form on `Clip(x, None, hi)` / `Clip(x, lo, None)` / `Clip(x)` -/
example : specSlots 1 [some "x", none, some "hi"] = [some "x", none, some "hi"] ∧
    specSlots 1 [some "x", some "lo", none] = [some "x", some "lo"] ∧
    specSlots 1 [some "x", none, none] = [some "x"] ∧
    specSlots 2 [none, none, none] = [none, none] := by decide

/-! ## non-vacuity -/

example : allPairs.length > 900 := by decide +kernel
example : deviatingPairs.length = 8 := by decide +kernel
/-- `Clip(x, None, max)`: the inner omitted optional stays as an empty name -/
example : emitSlots 1 [Arg.single "x", .opt none, .opt (some "hi")] = [some "x", none, some "hi"] := by
  decide
/-- `Clip(x, min, None)`: the trailing one is dropped -/
example : emitSlots 1 [Arg.single "x", .opt (some "lo"), .opt none] = [some "x", some "lo"] := by
  decide
/-- never below `min_input` -/
example : emitSlots 2 [Arg.opt (none : Option String), .opt none, .variadic []] = [none, none] := by
  decide
/-- the predicate does reject: a changed default (`ReduceSum.keepdims = 0`) -/
example :
    let c := Generated.Ctors.v17.f_reduce_sum
    let c' : Ctor := { c with params := c.params.map fun p =>
      if p.name == "keepdims" then { p with default := some (Val.int 0) } else p }
    conformsTo c Generated.Schemas.v17.s_ReduceSum_13 = true ∧
    conformsTo c' Generated.Schemas.v17.s_ReduceSum_13 = false := by decide +kernel

/-! ## which schema a node class is bound to (`_schemas.py`, round 10)

`StandardNode.get_schema()` = `SCHEMAS[domain][op_type.version][name]`; `Model/SchemaSel.lean` models
`_current_schema` / `_get_schemas_map` (tie H: driver kinds `schemasel`, `schemasget` against the real
functions and the real `SCHEMAS` table on every run). -/
section SchemaSel
open SchemaSel
variable {σ : Type}

/-- **current_schema_sound.** Whatever the list (unsorted, repeated since-versions, empty) and the version:
    what `_current_schema` returns is one of the schemas, not newer than `version`, and no schema of
    the list that is not newer than `version` is newer than it. -/
theorem current_schema_sound (l : List (Nat × σ)) (v : Nat) (s : Nat × σ)
    (h : currentSchema l (some v) = some s) :
    s ∈ l ∧ s.1 ≤ v ∧ ∀ t ∈ l, t.1 ≤ v → t.1 ≤ s.1 := by
  have ⟨hm, hmax⟩ := pyMax_spec _ s h
  have hm' := List.mem_filter.1 hm
  refine ⟨hm'.1, by simpa using hm'.2, ?_⟩
  intro t ht htv
  exact hmax t (List.mem_filter.2 ⟨ht, by simpa using htv⟩)

/-- **current_schema_none_iff.** `_current_schema` answers `None` exactly when every schema of the list is
    newer than `version` (total: it never fails otherwise). -/
theorem current_schema_none_iff (l : List (Nat × σ)) (v : Nat) :
    currentSchema l (some v) = none ↔ ∀ t ∈ l, v < t.1 := by
  unfold currentSchema
  rw [pyMax_none, List.filter_eq_nil_iff]
  constructor
  · intro h t ht
    have := h t ht
    simp only [decide_eq_true_eq] at this
    omega
  · intro h t ht
    have := h t ht
    simp only [decide_eq_true_eq]
    omega

/-- **current_schema_exact.** When the since-versions of one operator are pairwise distinct (ONNX registers
    one schema per (name, domain, since_version)), `_current_schema` returns `s` **iff** `s` is the schema
    with the greatest since-version not above `version` — the definition of "the schema in force". -/
theorem current_schema_exact (l : List (Nat × σ)) (hn : (l.map (·.1)).Nodup) (v : Nat) (s : Nat × σ) :
    currentSchema l (some v) = some s ↔ (s ∈ l ∧ s.1 ≤ v ∧ ∀ t ∈ l, t.1 ≤ v → t.1 ≤ s.1) := by
  constructor
  · exact current_schema_sound l v s
  · intro ⟨hs, hsv, hmax⟩
    cases hr : currentSchema l (some v) with
    | none =>
      have := (current_schema_none_iff l v).1 hr s hs
      omega
    | some r =>
      have ⟨hrl, hrv, hrmax⟩ := current_schema_sound l v r hr
      have h1 := hmax r hrl hrv
      have h2 := hrmax s hs hsv
      have : r = s := fst_inj_of_nodup l hn r s hrl hs (by omega)
      rw [this]

/-- **schema_at_own_version.** `get_schema` looks a class up at its own `op_type.version`: a schema is in
    force at its own since-version. -/
theorem schema_at_own_version (l : List (Nat × σ)) (hn : (l.map (·.1)).Nodup) (s : Nat × σ) (hs : s ∈ l) :
    currentSchema l (some s.1) = some s :=
  (current_schema_exact l hn s.1 s).2 ⟨hs, Nat.le_refl _, fun _ _ h => h⟩

/-- **schema_in_force_stable.** Between two consecutive since-versions nothing changes: if `s` is in force at
    `v` and no schema of the operator has a since-version in `(v, v']`, then `s` is in force at `v'` —
    every module version between two ONNX revisions of an operator is bound to the same schema. -/
theorem schema_in_force_stable (l : List (Nat × σ)) (hn : (l.map (·.1)).Nodup) (v v' : Nat) (s : Nat × σ)
    (h : currentSchema l (some v) = some s) (hv : v ≤ v')
    (hgap : ∀ t ∈ l, ¬ (v < t.1 ∧ t.1 ≤ v')) :
    currentSchema l (some v') = some s := by
  have ⟨hs, hsv, hmax⟩ := current_schema_sound l v s h
  refine (current_schema_exact l hn v' s).2 ⟨hs, by omega, ?_⟩
  intro t ht htv
  have := hgap t ht
  exact hmax t ht (by omega)

/-- **schemas_table_lookup.** `SCHEMAS[d][version]` has an entry for `name` **iff** `version` lies between the
    smallest and the greatest since-version of the whole domain, the domain knows the name, and some schema of
    that name is not newer than `version`; the entry is then `_current_schema` of that name's list. -/
theorem schemas_table_lookup (lists : List (String × List (Nat × σ))) (version : Nat) (name : String)
    (s : Nat × σ) :
    schemasGet lists version name = some s ↔
      ((∃ a ∈ allSinces lists, a ≤ version) ∧ (∃ b ∈ allSinces lists, version ≤ b)) ∧
      ∃ l, findList lists name = some l ∧ currentSchema l (some version) = some s := by
  unfold schemasGet inRange
  by_cases hr : ((allSinces lists).any (fun s => decide (s ≤ version)) &&
      (allSinces lists).any (fun s => decide (version ≤ s))) = true
  · rw [if_pos hr]
    have hr' := hr
    simp only [Bool.and_eq_true, List.any_eq_true, decide_eq_true_eq] at hr'
    cases hf : findList lists name with
    | none => simp
    | some l => simp [hr']
  · rw [if_neg hr]
    simp only [Bool.and_eq_true, List.any_eq_true, decide_eq_true_eq] at hr
    constructor
    · intro h; cases h
    · intro ⟨h, _⟩; exact absurd h hr

/-- ReduceSum (since 1, 11, 13): opset 17 is bound to ReduceSum-13, opset 12 to ReduceSum-11 -/
example : currentSchema [(1, "a"), (11, "b"), (13, "c")] (some 17) = some (13, "c") ∧
    currentSchema [(1, "a"), (11, "b"), (13, "c")] (some 12) = some (11, "b") ∧
    currentSchema [(13, "c"), (1, "a"), (11, "b")] (some 0) = none ∧
    currentSchema [(13, "c"), (1, "a"), (11, "b")] none = some (13, "c") := by decide
/-- first maximal element on repeated since-versions (`max` keeps the first) -/
example : currentSchema [(3, "x"), (3, "y")] (some 5) = some (3, "x") := by decide
/-- a name that appears later than the version asked for is absent; outside the domain's range everything is -/
example : schemasGet [("A", [(1, 0), (6, 1)]), ("B", [(4, 2)])] 3 "B" = none ∧
    schemasGet [("A", [(1, 0), (6, 1)]), ("B", [(4, 2)])] 5 "B" = some (4, 2) ∧
    schemasGet [("A", [(1, 0), (6, 1)]), ("B", [(4, 2)])] 7 "A" = none := by decide

/-- **lookup_at_class_version.** The lookup `get_schema` performs — at the class's own `op_type.version` — and the
    lookup at the module's version give the same answer whenever the class carries the since-version of the schema
    in force at the module's version: for any version list with pairwise distinct since-versions, any module version
    `v` and class version `cv`, if `s` is in force at `v` and `cv = s.since`, then `_current_schema(l, cv)` is `s`. -/
theorem lookup_at_class_version (l : List (Nat × σ)) (hn : (l.map (·.1)).Nodup) (v cv : Nat) (s : Nat × σ)
    (h : currentSchema l (some v) = some s) (hcv : cv = s.1) :
    currentSchema l (some cv) = currentSchema l (some v) := by
  rw [h, hcv]
  exact schema_at_own_version l hn s (current_schema_sound l v s h).1

/-- **shipped_class_binds_in_force** (composition of `table_conforms`, `schema_at_own_version` and
    `schemas_table_lookup`). For EVERY shipped operator/module pair of this run's tables, every domain table
    `lists` (as `SCHEMAS_VER_LISTS[domain]`: per name the list of (since-version, schema)) whose since-versions for
    that operator are pairwise distinct, and every module version `v`: if the schema the pair was checked against
    is the one in force at `v` in that table, then `SCHEMAS[domain][<class version>][<operator>]` — what
    `StandardNode.get_schema()` evaluates — **is that same schema**, i.e. the class is bound to the schema in force
    at its module's version (whose `min_input` / `min_output` the slot theorems then use). -/
theorem shipped_class_binds_in_force (e : Entry) (he : e ∈ allPairs)
    (lists : List (String × List (Nat × Schema))) (l : List (Nat × Schema))
    (hl : findList lists e.2.2.name = some l) (hn : (l.map (·.1)).Nodup) (v : Nat)
    (hforce : schemasGet lists v e.2.2.name = some (e.2.2.since, e.2.2)) :
    schemasGet lists e.2.1.cls.version e.2.1.cls.opName = some (e.2.2.since, e.2.2) := by
  have hs := entryOK_sound e (table_conforms e he)
  obtain ⟨_, hname, _, hver, _⟩ := hs
  rw [hname, hver]
  have hlk := (schemas_table_lookup lists v e.2.2.name (e.2.2.since, e.2.2)).1 hforce
  obtain ⟨_, l', hl', hcur⟩ := hlk
  rw [hl] at hl'
  cases hl'
  have hmem := (current_schema_sound l v _ hcur).1
  refine (schemas_table_lookup lists e.2.2.since e.2.2.name (e.2.2.since, e.2.2)).2 ⟨⟨?_, ?_⟩, l, hl, ?_⟩
  · exact ⟨e.2.2.since, by
      unfold allSinces
      exact List.mem_flatMap.2 ⟨(e.2.2.name, l), findList_mem lists _ l hl, List.mem_map.2 ⟨_, hmem, rfl⟩⟩, Nat.le_refl _⟩
  · exact ⟨e.2.2.since, by
      unfold allSinces
      exact List.mem_flatMap.2 ⟨(e.2.2.name, l), findList_mem lists _ l hl, List.mem_map.2 ⟨_, hmem, rfl⟩⟩, Nat.le_refl _⟩
  · exact schema_at_own_version l hn (e.2.2.since, e.2.2) hmem

/-- non-vacuity: the shipped v17 ReduceSum pair against a three-revision table; the class (version 13) is looked up
    at 13 and gets the schema in force at 17
    (a second operator revised at 21 keeps 17 inside the domain's version range) -/
example :
    let s := Generated.Schemas.v17.s_ReduceSum_13
    let old1 : Schema := { s with since := 1 }
    let old11 : Schema := { s with since := 11 }
    let lists := [("ReduceSum", [(1, old1), (11, old11), (13, s)]), ("Newer", [(21, s)])]
    (schemasGet lists 17 "ReduceSum").map (·.1) = some 13 ∧
    (schemasGet lists 13 "ReduceSum").map (·.1) = some 13 ∧
    (schemasGet lists 12 "ReduceSum").map (·.1) = some 11 := by decide +kernel

end SchemaSel

end C11
