/-! Property theorems for C11 (only property-level statements and non-vacuity examples live here). -/
