import SpoxModel.Lemmas.Func
import SpoxModel.Lemmas.FuncSem
import SpoxModel.Lemmas.FuncProg
/-!
# C14 — functions mean their body, are defined once; inconsistent bodies are rejected

Property theorems only. `Func.toModel` is the model of function collection
(`compile_graph` + `Function.update_metadata` + sub-build merge) followed by `to_onnx_model`'s
`(domain, name)` table; `Func.usedG` is the independent description "every Function node reachable from
the program: main graph, control-flow bodies, bodies of called functions, recursively".
-/
namespace C14
open Func

/-- **Defined once.** If the build returns, `model.functions` has pairwise distinct keys, contains a
    definition for exactly the keys used anywhere (main graph, control-flow bodies, other functions'
    bodies — at any depth), and nothing else. -/
theorem defined_once (g : FGraph) (tbl : List Inst) (h : toModel g = some tbl) :
    (tbl.map (·.1)).Nodup ∧ (∀ k, k ∈ tbl.map (·.1) ↔ k ∈ (usedG g).map (·.1)) ∧
    (∀ e ∈ tbl, e ∈ usedG g) := by
  unfold toModel at h
  have hfrom := table_from h
  have hhas := table_has h
  refine ⟨table_nodup h (by simp), ?_, ?_⟩
  · intro k
    constructor
    · intro hk
      rcases List.mem_map.mp hk with ⟨e, he, rfl⟩
      rcases hfrom e he with h0 | h1
      · cases h0
      · exact List.mem_map.mpr ⟨e, (collectG_mem e g).mp h1, rfl⟩
    · intro hk
      rcases List.mem_map.mp hk with ⟨e, he, rfl⟩
      have := hhas e.1 e.2 ((collectG_mem e g).mpr he)
      exact List.mem_map.mpr ⟨(e.1, e.2), lookup_isSome_mem this, rfl⟩
  · intro e he
    rcases hfrom e he with h0 | h1
    · cases h0
    · exact (collectG_mem e g).mp h1

/-- The definition stored under a key is the one of *every* instance used under that key: looking a
    call's key up in the model gives that call's own body. -/
theorem definition_is_own_body (g : FGraph) (tbl : List Inst) (h : toModel g = some tbl)
    (k : Key) (fp : Nat) (hu : (k, fp) ∈ usedG g) : lookup tbl k = some fp :=
  table_has h k fp ((collectG_mem (k, fp) g).mpr hu)

/-- **Inconsistent bodies are rejected.** Two Function nodes anywhere in the program with the same
    `(domain, name)` whose rendered definitions differ make the build fail (RuntimeError); they are
    never silently merged. -/
theorem inconsistent_rejected (g : FGraph) (k : Key) (f1 f2 : Nat)
    (h1 : (k, f1) ∈ usedG g) (h2 : (k, f2) ∈ usedG g) (hne : f1 ≠ f2) : toModel g = none := by
  cases h : toModel g with
  | none => rfl
  | some tbl =>
    have a := definition_is_own_body g tbl h k f1 h1
    have b := definition_is_own_body g tbl h k f2 h2
    rw [a] at b
    exact absurd (Option.some.inj b) hne

/-- …and only those: a program whose same-key instances all agree is not rejected by this rule. -/
theorem consistent_accepted (g : FGraph)
    (hc : ∀ k f1 f2, (k, f1) ∈ usedG g → (k, f2) ∈ usedG g → f1 = f2) : (toModel g).isSome := by
  unfold toModel
  apply table_accepts
  intro k f1 f2 h1 h2
  simp only [List.nil_append] at h1 h2
  exact hc k f1 f2 ((collectG_mem _ g).mp h1) ((collectG_mem _ g).mp h2)

/-- **Rejected exactly when inconsistent** (mini-round; the two directions above as one statement). The
    build raises `two different definitions` if and only if two `Function` nodes reachable anywhere in the
    program share a `(domain, name)` and differ in their rendered definition. -/
theorem rejected_iff_inconsistent (g : FGraph) :
    toModel g = none ↔ ∃ k f1 f2, (k, f1) ∈ usedG g ∧ (k, f2) ∈ usedG g ∧ f1 ≠ f2 := by
  constructor
  · intro hnone
    apply Classical.byContradiction
    intro hno
    have hc : ∀ k f1 f2, (k, f1) ∈ usedG g → (k, f2) ∈ usedG g → f1 = f2 := by
      intro k f1 f2 h1 h2
      apply Classical.byContradiction
      intro hne
      exact hno ⟨k, f1, f2, h1, h2, hne⟩
    have := consistent_accepted g hc
    rw [hnone] at this
    cases this
  · rintro ⟨k, f1, f2, h1, h2, hne⟩
    exact inconsistent_rejected g k f1 f2 h1 h2 hne

-- non-vacuity: both sides true (variant hidden in an If body) and both sides false
example : toModel (.mk [.call ("d", "f") 1 (.mk [.op]), .ctrl [.mk [.call ("d", "f") 7 (.mk [])]]]) = none ∧
    (("d", "f"), 1) ∈ usedG (.mk [.call ("d", "f") 1 (.mk [.op]), .ctrl [.mk [.call ("d", "f") 7 (.mk [])]]]) ∧
    (("d", "f"), 7) ∈ usedG (.mk [.call ("d", "f") 1 (.mk [.op]), .ctrl [.mk [.call ("d", "f") 7 (.mk [])]]]) := by
  decide
example : toModel (.mk [.call ("d", "f") 1 (.mk [.op]), .call ("d", "f") 1 (.mk [.op])]) ≠ none := by decide

/-- **Why the comparison has to be on the WHOLE rendered definition** (the static types of nested graphs
    included). Let `q` be any coarser view of a definition (e.g. "the proto with the types of the nested
    graphs' inputs / outputs / value_infos cleared"). If comparing through `q` accepts a program that the
    exact comparison rejects, then two call sites under one key have *different* definitions that `q`
    cannot tell apart: one of them is silently given the other's body — the merge the property forbids
    (with `definition_is_own_body`: under the exact comparison every call site finds its own). -/
theorem coarse_comparison_merges {γ : Type} [DecidableEq γ] (q : Nat → γ) (g : FGraph)
    (tblq : List (Key × γ))
    (hq : table [] ((collectG g).map (fun e => (e.1, q e.2))) = some tblq)
    (hex : toModel g = none) :
    ∃ k f1 f2, (k, f1) ∈ usedG g ∧ (k, f2) ∈ usedG g ∧ f1 ≠ f2 ∧ q f1 = q f2 := by
  apply Classical.byContradiction
  intro hno
  have hc : ∀ k f1 f2, (k, f1) ∈ usedG g → (k, f2) ∈ usedG g → f1 = f2 := by
    intro k f1 f2 h1 h2
    apply Classical.byContradiction
    intro hne
    apply hno
    refine ⟨k, f1, f2, h1, h2, hne, ?_⟩
    have m1 : (k, q f1) ∈ (collectG g).map (fun e => (e.1, q e.2)) :=
      List.mem_map.mpr ⟨(k, f1), (collectG_mem _ g).mpr h1, rfl⟩
    have m2 : (k, q f2) ∈ (collectG g).map (fun e => (e.1, q e.2)) :=
      List.mem_map.mpr ⟨(k, f2), (collectG_mem _ g).mpr h2, rfl⟩
    have a := table_has hq k (q f1) m1
    have b := table_has hq k (q f2) m2
    rw [a] at b
    exact Option.some.inj b
  have := consistent_accepted g hc
  rw [hex] at this
  cases this

/-- non-vacuity: one key, definitions 0 and 1, a view that identifies them: the exact table rejects, the
    coarse one accepts (and stores the first). -/
example : toModel (.mk [.call ("d", "f") 0 (.mk []), .call ("d", "f") 1 (.mk [])]) = none ∧
    table [] ((collectG (.mk [.call ("d", "f") 0 (.mk []), .call ("d", "f") 1 (.mk [])])).map
      (fun e => (e.1, (fun _ : Nat => ()) e.2))) = some [(("d", "f"), ())] := by
  decide

/-- **Imports cover the body.** Every opset requirement of a function's body is met by the function's
    opset imports (same domain up to `ai.onnx` = `""`, version at least the required one). -/
theorem imports_cover_body (bodyReq modelOpsets : List (String × Nat)) (p : String × Nat)
    (hp : p ∈ bodyReq) :
    ∃ v', getV (funcImports bodyReq modelOpsets) (norm p.1) = some v' ∧ p.2 ≤ v' :=
  fold_ge _ [] p (List.mem_append_left _ hp)

/-- **Imports cover the body, nested bodies included.** For a function body with control flow: the
    requirement of *every node at any nesting depth* (inside If/Loop/Scan branches of the body, inside
    branches of branches, …) is met by the function's opset imports, which are computed from the body
    build's requirement collection (`reqG`: node loop, then what the builds of the branches collected). -/
theorem imports_cover_nested_body (body : RGraph) (modelOpsets : List (String × Nat)) (p : String × Nat)
    (hp : p ∈ allReqG body) :
    ∃ v', getV (funcImports (reqG body) modelOpsets) (norm p.1) = some v' ∧ p.2 ≤ v' :=
  imports_cover_body (reqG body) modelOpsets p ((reqG_mem p body).mpr hp)

/-- …they are never below the model's own imports (one opset per domain across model and functions)… -/
theorem imports_cover_model (bodyReq modelOpsets : List (String × Nat)) (p : String × Nat)
    (hp : p ∈ modelOpsets) :
    ∃ v', getV (funcImports bodyReq modelOpsets) (norm p.1) = some v' ∧ p.2 ≤ v' :=
  fold_ge _ [] p (List.mem_append_right _ hp)

/-- …and never invented: each imported version is one that the body or the model asked for. -/
theorem imports_attained (bodyReq modelOpsets : List (String × Nat)) (d : String) (v : Nat)
    (h : getV (funcImports bodyReq modelOpsets) d = some v) :
    ∃ p ∈ bodyReq ++ modelOpsets, norm p.1 = d ∧ p.2 = v := by
  rcases fold_attained _ [] d v h with h0 | h1
  · simp [getV] at h0
  · exact h1

/-- **One opset per domain, model and functions alike.** The body requirements of a function are part
    of the model's requirements (`Function.opset_req` includes its body build's; `compile_graph`
    merges them). Then, for every domain the model imports, the function imports exactly the model's
    version. -/
theorem imports_agree_with_model (bodyReq modelReq : List (String × Nat))
    (hsub : ∀ p ∈ bodyReq, p ∈ modelReq) (d : String) (m : Nat)
    (hm : getV (policy modelReq) d = some m) :
    getV (funcImports bodyReq (policy modelReq)) d = some m := by
  have hk := policy_kinv modelReq
  have hmem : (d, m) ∈ policy modelReq := lookup_isSome_mem (κ := String) (β := Nat) hm
  have hnd : norm d = d := hk.normed d (List.mem_map.mpr ⟨(d, m), hmem, rfl⟩)
  obtain ⟨v', hv', hle⟩ := imports_cover_model bodyReq (policy modelReq) (d, m) hmem
  simp only [hnd] at hv'
  obtain ⟨p, hp, hpd, hpv⟩ := imports_attained bodyReq (policy modelReq) d v' hv'
  have hge : v' ≤ m := by
    rcases List.mem_append.mp hp with hb | hM
    · obtain ⟨w, hw, hpw⟩ := fold_ge modelReq [] p (hsub p hb)
      rw [hpd] at hw
      have : w = m := by
        have h' : getV (policy modelReq) d = some w := hw
        rw [hm] at h'; exact (Option.some.inj h').symm
      omega
    · obtain ⟨d', w⟩ := p
      simp only at hpd hpv
      have hd' : norm d' = d' := hk.normed d' (List.mem_map.mpr ⟨(d', w), hM, rfl⟩)
      have hdd : d' = d := by rw [← hd', hpd]
      subst hdd
      have := getV_of_mem hk hM
      rw [hm] at this
      have : m = w := Option.some.inj this
      omega
  have : v' = m := by omega
  rw [hv', this]

/-! ### round 10: the hypothesis of `imports_agree_with_model` proved from the code's collection

`Func.PGraph` (`Model/FuncProg.lean`) is the whole program as one tree: plain nodes and control-flow nodes
with their own `Node.opset_req`, `Function` nodes with their own requirement, key, proto and *body*.
`preqG` = `BuildResult.opset_req` of `compile_graph` (node loop — `Function.opset_req` = own ∪ the body
build's — then the merge of what the builds of body graphs collected); `bodiesG` = every `Function` node
reachable by structural descent, with its body. -/

/-- **Body requirements are model requirements** (no hypothesis): for every `Function` node reachable
    anywhere in the program — main graph, If/Loop/Scan bodies, bodies of other functions, any depth —
    everything its body build requires is in the requirement set of the program's own build. -/
theorem body_req_in_model_req (g : PGraph) (e : Inst) (b : PGraph) (hb : (e, b) ∈ bodiesG g)
    (p : String × Nat) (hp : p ∈ preqG b) : p ∈ preqG g :=
  body_req_sub p e b hp g hb

/-- the reachable bodies are exactly (same order, same multiplicity) the instances `usedG` lists — the ones
    `defined_once` / `definition_is_own_body` speak about -/
theorem reachable_bodies_are_used (g : PGraph) : (bodiesG g).map (·.1) = usedG (toF g) :=
  bodies_used g

/-- **One opset per domain, model and functions alike — for the program.** `extra` = the graph's
    `_extra_opset_req`. For every function instance used anywhere in the program and every domain the model
    imports, the function's `opset_import` (computed from its body build's requirements and the model's
    opsets) carries exactly the model's version. No side condition: the former hypothesis "body
    requirements ⊆ model requirements" is `body_req_in_model_req`. -/
theorem imports_agree_with_model_program (g : PGraph) (extra : List (String × Nat)) (e : Inst) (b : PGraph)
    (hb : (e, b) ∈ bodiesG g) (d : String) (m : Nat)
    (hm : getV (policy (preqG g ++ extra)) d = some m) :
    getV (funcImports (preqG b) (policy (preqG g ++ extra))) d = some m :=
  imports_agree_with_model (preqG b) (preqG g ++ extra)
    (fun p hp => List.mem_append_left _ (body_req_in_model_req g e b hb p hp)) d m hm

/-- …and every used key has such a body: an instance in `usedG` comes with a reachable body graph. -/
theorem used_has_body (g : PGraph) (e : Inst) (he : e ∈ usedG (toF g)) : ∃ b, (e, b) ∈ bodiesG g := by
  rw [← reachable_bodies_are_used g] at he
  rcases List.mem_map.mp he with ⟨⟨e', b⟩, hmem, rfl⟩
  exact ⟨b, hmem⟩

-- non-vacuity: `g` (domain "d2", needs ai.onnx.ml 3 inside a Loop of its body) is called only inside an If
-- branch of `f`'s body; the program itself is written at opset 17, `extra` asks for 19
example :
    let gb : PGraph := .mk [.ctrl [("", 18)] [.mk [.op [("ai.onnx.ml", 3)]]]]
    let fb : PGraph := .mk [.ctrl [("", 17)] [.mk [.call [("d2", 1)] ("d2", "g") 1 gb]]]
    let prog : PGraph := .mk [.op [("", 17)], .call [("d1", 1)] ("d1", "f") 0 fb]
    (bodiesG prog).map (·.1) = [(("d1", "f"), 0), (("d2", "g"), 1)] ∧
    policy (preqG prog ++ [("ai.onnx", 19)]) = [("", 19), ("d1", 1), ("d2", 1), ("ai.onnx.ml", 3)] ∧
    funcImports (preqG gb) (policy (preqG prog ++ [("ai.onnx", 19)])) =
      [("", 19), ("ai.onnx.ml", 3), ("d1", 1), ("d2", 1)] := by decide

open FuncSem in
/-- **A call means its body.** For any operator semantics `S`, any straight-line program with (multi-output)
    function calls at any number of call sites and any nesting depth: if the build produces a function table
    (`buildTable` — one definition per key, differs ⇒ error), then evaluating the built model the ONNX
    way (a call node carries only its key; the definition is looked up in the table and run on the
    actual arguments) gives exactly what the Python bodies compute. -/
theorem function_sem {Val : Type} (S : Nat → List Val → Val) (dflt : Val) (prog : List SNode)
    (tbl : List (Nat × ODef)) (h : buildTable prog = some tbl) (fuel : Nat) (hf : depthNs prog ≤ fuel)
    (env : List Val) :
    evalO S dflt tbl fuel (eraseNs prog) env = some (evalNodes S dflt prog env) :=
  sem_nodes S dflt tbl prog fuel env (buildTable_covered h) hf

open FuncSem in
/-- the same rule at the level of bodies: two reachable instances with one key and different erased
    bodies ⇒ no table (the build raises) -/
theorem function_sem_rejects (prog : List SNode) (k : Nat) (d1 d2 : ODef)
    (h1 : (k, d1) ∈ defsNs prog) (h2 : (k, d2) ∈ defsNs prog) (hne : d1 ≠ d2) : buildTable prog = none := by
  cases h : buildTable prog with
  | none => rfl
  | some tbl =>
    have a := Func.table_has h k d1 h1
    have b := Func.table_has h k d2 h2
    rw [a] at b
    exact absurd (Option.some.inj b) hne

/-! ### non-vacuity -/
-- f used only inside an If body, g only inside f: both defined, once
example : toModel (.mk [.ctrl [.mk [.call ("dom", "f") 1 (.mk [.op, .call ("dom", "g") 2 (.mk [.op])])]],
                        .call ("dom", "g") 2 (.mk [.op])])
    = some [(("dom", "g"), 2), (("dom", "f"), 1)] := by decide
-- a body that differs between two calls is rejected
example : toModel (.mk [.call ("dom", "f") 1 (.mk [.op]), .ctrl [.mk [.call ("dom", "f") 7 (.mk [.op, .op])]]])
    = none := by decide
example : getV (funcImports [("", 19), ("ai.onnx", 17)] [("", 18), ("dom", 0)]) "" = some 19 := by decide
-- a domain required only inside a branch of a branch is imported
example : getV (funcImports (reqG (.mk [.mk [("", 16)] [.mk [.mk [("", 16)] [.mk [.mk [("ai.onnx.ml", 1)] []]]]]]))
    [("", 17)]) "ai.onnx.ml" = some 1 := by decide
open FuncSem in
example : evalO (fun l xs => l + xs.sum) 0 [(5, ⟨[.op 1 [0, 0]], [1, 0]⟩)] 1 [.call 5 [0], .call 5 [1]] [10]
    = some [10, 21, 10, 43, 21] := by simp [evalO, Func.lookup]

end C14
