/-! Property theorems for C14 (only property-level statements and non-vacuity examples live here). -/
