import SpoxModel.Lemmas.Scope
import SpoxModel.Lemmas.ScopeHist
import SpoxModel.Lemmas.Named
import SpoxModel.Lemmas.NamedComplete
import SpoxModel.Lemmas.BuildIR
import SpoxModel.Lemmas.InlineCheck
import SpoxModel.Lemmas.Func
import SpoxModel.Model.InternalReq
import SpoxModel.Generated.IdentityTypes
import SpoxModel.Model.Naming
import SpoxModel.Generated.BuildFlags
/-!
# C02 — build never hands back an invalid ONNX model

Property theorems only.

* namespace level (`ops_inv`, `lookup_bijective`, `clash_raises_*`): every state of a `ScopeSpace`
  chain reachable by operations that did not raise keeps names and objects in bijection and off the
  reserved names; a clash raises.
* naming of a build (`update_inv`, `names_unique`): all names handed out by a build's naming calls
  are pairwise distinct.
* translation validation (`checkStructural_sound`): the checker that the driver runs on the real
  ModelProto of every generated build accepts only graphs in which every value name and every
  non-empty node name is defined once in the whole tree and every node input is defined earlier in
  the same or an enclosing graph.
* `build_returns_only_checked`: over the IR extracted from /repo on this run, every path of
  `build` returns a model that went through `onnx.checker.check_model` last.
-/
namespace C02
open Scope

/-- Every namespace state reachable from the empty one by any sequence of `__setitem__`, `reserve`,
    `enum`, `maybe_enum`, `__delitem__`, child creation and return, none of which raised, satisfies
    the invariant: visible names ↔ objects is a bijection, disjoint from the reserved names, which are
    themselves reserved once. -/
theorem ops_inv (ops : List Op) (s : Space) (h : run {} ops = .ok s) : Inv s :=
  run_inv ops empty_inv h

/-- Under the invariant the two lookups are mutually inverse on everything visible
    (`space[name]` is the object, `space[obj]` is the name). -/
theorem lookup_bijective (s : Space) (h : Inv s) (o : Nat) (n : String)
    (hm : (o, n) ∈ allPairs s.frames) :
    getName s.frames n = some o ∧ getObj s.frames o = some n :=
  ⟨getName_of_mem h hm, getObj_of_mem h hm⟩

/-- A name already bound (anywhere visible) to another object cannot be given again: the code
    raises. -/
theorem clash_raises_name (s : Space) (h : Inv s) (o o' : Nat) (n : String)
    (hm : (o', n) ∈ allPairs s.frames) (hne : o' ≠ o) : s.setitem n o = .error .scope := by
  have hg := getName_of_mem h hm
  have hc : s.hasName n = true :=
    (containsName_iff s.frames n).mpr (Or.inr (List.mem_map.mpr ⟨(o', n), hm, rfl⟩))
  unfold Space.setitem
  simp only [hc, ↓reduceIte, hg]
  simp [hne]

/-- A reserved name (an inlined model's internal) cannot be given to an object: the code raises. -/
theorem clash_raises_reserved (s : Space) (h : Inv s) (o : Nat) (n : String)
    (hr : n ∈ allReserved s.frames) : ∃ e, s.setitem n o = .error e := by
  have hc : s.hasName n = true := (containsName_iff s.frames n).mpr (Or.inl hr)
  unfold Space.setitem
  simp only [hc, ↓reduceIte]
  cases hg : getName s.frames n with
  | none => exact ⟨.key, rfl⟩
  | some o' =>
    -- the name would have to be bound as well as reserved, which the invariant excludes
    exfalso
    have : ∀ fs : List Frame, getName fs n = some o' → n ∈ (allPairs fs).map (·.2) := by
      intro fs
      induction fs with
      | nil => simp [getName]
      | cons f ps ih =>
        simp only [getName]
        split
        · intro hh; simp only [allPairs_cons, List.map_append, List.mem_append]; exact Or.inr (ih hh)
        · intro hh
          simp only [allPairs_cons, List.map_append, List.mem_append]
          left
          simp only [Frame.ofNameLocal, Option.map_eq_some_iff] at hh
          obtain ⟨p, hp, _⟩ := hh
          have hp2 := List.find?_some hp
          exact List.mem_map.mpr ⟨p, List.mem_of_find?_eq_some hp, by simpa using hp2⟩
    exact h.disj n (this _ hg) hr

/-- An object that already has a name cannot silently get another one. -/
theorem clash_raises_rename (s : Space) (h : Inv s) (o : Nat) (n n' : String)
    (hm : (o, n') ∈ allPairs s.frames) (hne : n ≠ n') : ∃ e, s.setitem n o = .error e := by
  have hg := getObj_of_mem h hm
  have hO : s.hasObj o = true :=
    (containsObj_iff s.frames o).mpr (List.mem_map.mpr ⟨(o, n'), hm, rfl⟩)
  unfold Space.setitem
  simp only [hO, ↓reduceIte, hg, hne]
  split
  · split
    · exact ⟨_, rfl⟩
    · split <;> exact ⟨_, rfl⟩
  · exact ⟨_, rfl⟩

/-- `reserve` refuses a name that is visible in any way. -/
theorem reserve_clash_raises (s : Space) (n : String) (hc : s.hasName n = true) :
    s.reserve n = .error .scope := by
  unfold Space.reserve; simp [hc]

/-! ### round 10: the one-step clash lemmas lifted to every history

The four lemmas above speak about ONE operation on a state that satisfies `Inv`. Here the state is
*any* state reachable from the empty namespace by *any* successful operation sequence (any length, child
namespaces, deletions, counters …) and the conclusion is about the whole history: it raises at that
operation, whatever operations would follow — no later operation can "repair" a double binding. -/

/-- **No history binds one name to two objects.** After any successful history in which `n` is visible
    as the name of `o'`, every continuation that starts by giving `n` to another object raises
    `ScopeError`. -/
theorem history_never_binds_twice (ops rest : List Op) (s : Space) (h : run {} ops = .ok s) (o o' : Nat)
    (n : String) (hm : (o', n) ∈ allPairs s.frames) (hne : o' ≠ o) :
    run {} (ops ++ .set n o :: rest) = .error .scope :=
  run_stops ops s (.set n o) rest .scope h (clash_raises_name s (ops_inv ops s h) o o' n hm hne)

/-- **No history binds a reserved name** (an inlined model's internal name, an adapter-introduced name). -/
theorem history_never_binds_reserved (ops rest : List Op) (s : Space) (h : run {} ops = .ok s) (o : Nat)
    (n : String) (hr : n ∈ allReserved s.frames) : ∃ e, run {} (ops ++ .set n o :: rest) = .error e := by
  obtain ⟨e, he⟩ := clash_raises_reserved s (ops_inv ops s h) o n hr
  exact ⟨e, run_stops ops s (.set n o) rest e h he⟩

/-- **No history renames an object.** -/
theorem history_never_renames (ops rest : List Op) (s : Space) (h : run {} ops = .ok s) (o : Nat)
    (n n' : String) (hm : (o, n') ∈ allPairs s.frames) (hne : n ≠ n') :
    ∃ e, run {} (ops ++ .set n o :: rest) = .error e := by
  obtain ⟨e, he⟩ := clash_raises_rename s (ops_inv ops s h) o n n' hm hne
  exact ⟨e, run_stops ops s (.set n o) rest e h he⟩

/-- **No history reserves a name that is visible** (bound or reserved, here or in an enclosing namespace). -/
theorem history_never_reserves_visible (ops rest : List Op) (s : Space) (h : run {} ops = .ok s)
    (n : String) (hc : s.hasName n = true) : run {} (ops ++ .reserve n :: rest) = .error .scope :=
  run_stops ops s (.reserve n) rest .scope h (reserve_clash_raises s n hc)

/-- …and the other direction (the check never refuses what the property allows): a name that is not visible
    can be given to an object that has no name yet, and is then visible as that object's name. -/
theorem fresh_binding_accepted (s : Space) (o : Nat) (n : String) (hn : s.hasName n = false)
    (ho : s.hasObj o = false) :
    ∃ s', s.setitem n o = .ok s' ∧ (o, n) ∈ allPairs s'.frames := by
  refine ⟨{ s with cur := { s.cur with pairs := (o, n) :: s.cur.pairs } }, ?_, ?_⟩
  · unfold Space.setitem
    simp [hn, ho]
  · simp [Space.frames, allPairs]

/-- **…lifted to every history** (mini-round): after ANY successful operation sequence from the empty
    namespace, a name that is not visible can be given to an object that has no name — the extended history
    succeeds, the pair is visible afterwards, and the new state is again one in which names ↔ objects is a
    bijection off the reserved names. -/
theorem history_fresh_binding_accepted (ops : List Op) (s : Space) (h : run {} ops = .ok s) (o : Nat)
    (n : String) (hn : s.hasName n = false) (ho : s.hasObj o = false) :
    ∃ s', run {} (ops ++ [.set n o]) = .ok s' ∧ (o, n) ∈ allPairs s'.frames ∧ Inv s' := by
  obtain ⟨s', hs', hm⟩ := fresh_binding_accepted s o n hn ho
  have hr : run {} (ops ++ [.set n o]) = .ok s' := by
    rw [run_append ops {} _ s h]
    simp only [run, step, hs']
  exact ⟨s', hr, hm, ops_inv _ s' hr⟩

/-- `Scope.update` (naming a node and its outputs) keeps the invariant of both namespaces. -/
theorem update_keeps_inv (sc sc' : Scope) (pfx opId nm : String) (nodeId : Nat) (outs : List OutVar)
    (h : SInv sc) (hs : sc.update pfx nodeId opId outs = .ok (nm, sc')) : SInv sc' :=
  update_inv h hs

theorem replayOp_inv {sc sc' : Scope} (op : Naming.TraceOp) (h : SInv sc)
    (hs : Naming.replayOp sc op = .ok sc') : SInv sc' := by
  cases op with
  | update pfx id opId outs =>
    simp only [Naming.replayOp] at hs
    cases hu : sc.update pfx id opId outs with
    | error e => simp [hu, Except.map] at hs
    | ok r =>
      obtain ⟨nm, sc1⟩ := r
      simp only [hu, Except.map, Except.ok.injEq] at hs
      subst hs
      exact update_inv h hu
  | maybeEnumVar b =>
    simp only [Naming.replayOp, Except.ok.injEq] at hs
    subst hs
    exact ⟨by show Scope.Inv _; unfold Scope.Inv; rw [maybeEnum_frames]; exact h.1, h.2⟩
  | reserveVar n =>
    simp only [Naming.replayOp] at hs
    cases hr : sc.var.reserve n with
    | error e => simp [hr, Except.map] at hs
    | ok v =>
      simp only [hr, Except.map, Except.ok.injEq] at hs
      subst hs
      exact ⟨reserve_inv h.1 hr, h.2⟩
  | maybeEnumNode b =>
    simp only [Naming.replayOp, Except.ok.injEq] at hs
    subst hs
    exact ⟨h.1, by show Scope.Inv _; unfold Scope.Inv; rw [maybeEnum_frames]; exact h.2⟩
  | reserveNode n =>
    simp only [Naming.replayOp] at hs
    cases hr : sc.node.reserve n with
    | error e => simp [hr, Except.map] at hs
    | ok v =>
      simp only [hr, Except.map, Except.ok.injEq] at hs
      subst hs
      exact ⟨h.1, reserve_inv h.2 hr⟩

theorem replay_inv {sc sc' : Scope} (ops : List Naming.TraceOp) (h : SInv sc)
    (hs : Naming.replay sc ops = .ok sc') : SInv sc' := by
  induction ops generalizing sc with
  | nil => simp only [Naming.replay, Except.ok.injEq] at hs; subst hs; exact h
  | cons op ops ih =>
    simp only [Naming.replay] at hs
    split at hs
    · rename_i sc1 h1
      exact ih (replayOp_inv op h h1) hs
    · cases hs

/-- **Naming of a build.** After any successful sequence of the naming calls a build performs
    (`Scope.update` for arguments and nodes, `maybe_enum` + `reserve` for the internal values and
    nodes of inlined models — in any order, any prefixes, any preset names): all value names handed
    out — names of Vars and reserved internals together — are pairwise distinct, and so are all node
    names — names of Nodes and reserved inlined node names together.
    (That `compileGraph` touches the scope only through these calls is checked by the driver on every
    case: the recorded trace replays to the same final scope.) -/
theorem names_unique (ops : List Naming.TraceOp) (sc : Scope) (h : Naming.replay {} ops = .ok sc) :
    ((allPairs sc.var.frames).map (·.2) ++ allReserved sc.var.frames).Nodup ∧
    ((allPairs sc.node.frames).map (·.2) ++ allReserved sc.node.frames).Nodup := by
  have hi : SInv sc := replay_inv ops ⟨empty_inv, empty_inv⟩ h
  constructor
  · rw [List.nodup_append]
    refine ⟨hi.1.names, hi.1.res, ?_⟩
    intro a ha b hb hab
    subst hab
    exact hi.1.disj a ha hb
  · rw [List.nodup_append]
    refine ⟨hi.2.names, hi.2.res, ?_⟩
    intro a ha b hb hab
    subst hab
    exact hi.2.disj a ha hb

/-- **Naming of a build, on the compilation itself.** Whenever the naming model of
    `Builder.compile_graph` succeeds on an emission tree — any nesting of bodies, any inlined models,
    any preset user names — the final scope has pairwise distinct value names (Vars ∪ reserved
    internals) and pairwise distinct node names (Nodes ∪ reserved inlined node names). The state of
    `compileGraph` carries the invariant; only the three scope-changing primitives construct it. -/
theorem compile_names_unique (g : Naming.EGraph) (ng : Named.NGraph) (st : Naming.St)
    (_h : Naming.compile g = .ok (ng, st)) :
    ((allPairs st.sc.var.frames).map (·.2) ++ allReserved st.sc.var.frames).Nodup ∧
    ((allPairs st.sc.node.frames).map (·.2) ++ allReserved st.sc.node.frames).Nodup := by
  have hi : SInv st.sc := st.inv
  constructor
  · rw [List.nodup_append]
    exact ⟨hi.1.names, hi.1.res, fun a ha b hb hab => by subst hab; exact hi.1.disj a ha hb⟩
  · rw [List.nodup_append]
    exact ⟨hi.2.names, hi.2.res, fun a ha b hb hab => by subst hab; exact hi.2.disj a ha hb⟩

/-- …and a user-chosen (preset) name equal to a name some other Var already has makes the naming
    step fail — the build raises instead of emitting a duplicate. -/
theorem clash_raises (var : Space) (h : Inv var) (nodeName : String) (ov : OutVar) (rest : List OutVar)
    (p : String) (hp : ov.preset = some p) (o' : Nat) (hm : (o', p) ∈ allPairs var.frames)
    (hne : o' ≠ ov.id) : nameOutputs var nodeName (ov :: rest) = .error .scope := by
  simp only [nameOutputs, hp]
  rw [clash_raises_name var h ov.id o' p hm hne]

/-- **Translation validation.** If the structural checker accepts a named graph then every value
    name and every non-empty node name is defined exactly once in the whole graph tree, and every
    non-empty node input (and every graph output) refers to a value defined earlier in the same graph
    or in an enclosing graph. -/
theorem checkStructural_sound (g : Named.NGraph) (h : Named.checkStructural g = true) :
    (Named.valueNames (Named.defsG g)).Nodup ∧ (Named.nodeNames (Named.defsG g)).Nodup ∧
    Named.ScopedG [] g := by
  unfold Named.checkStructural at h
  cases hc : Named.checkGraph [] [] g with
  | none => simp [hc] at h
  | some st =>
    have := Named.checkGraph_sound g [] [] st hc
    exact ⟨Named.valueNames_nodup this.1.nodup, Named.nodeNames_nodup this.1.nodup, this.2⟩

/-- **The translation validator refuses nothing the statement allows** (round 10, the converse of
    `checkStructural_sound`). A graph tree — any nesting depth, any number of nodes and bodies — in which
    every value name and every non-empty node name is defined once model-wide and every non-empty node
    input / graph output is defined earlier in the same or an enclosing graph is ACCEPTED by the checker,
    provided it is well-formed in the two extra respects the checker looks at (`WfG`: no graph lists an
    initializer twice, no graph input / initializer has the empty name). So a `walker`/`checkStructural`
    rejection of a model returned by `build` always exhibits a violated clause. -/
theorem checkStructural_complete (g : Named.NGraph)
    (hv : (Named.valueNames (Named.defsG g)).Nodup) (hn : (Named.nodeNames (Named.defsG g)).Nodup)
    (hs : Named.ScopedG [] g) (hw : Named.WfG g) : Named.checkStructural g = true := by
  unfold Named.checkStructural
  obtain ⟨st', h⟩ := Named.checkGraph_complete g [] [] (Named.defs_nodup_of_split _ hv hn)
    (fun d _ hd => by cases hd) hs hw
  simp [h]

/-- acceptance = the declarative statement, exactly (on well-formed trees) -/
theorem checkStructural_iff (g : Named.NGraph) (hw : Named.WfG g) :
    Named.checkStructural g = true ↔
      ((Named.valueNames (Named.defsG g)).Nodup ∧ (Named.nodeNames (Named.defsG g)).Nodup ∧
       Named.ScopedG [] g) :=
  ⟨checkStructural_sound g, fun h => checkStructural_complete g h.1 h.2.1 h.2.2 hw⟩

/-- the program the driver runs next to the checker on every real graph decides `WfG`; with
    `checkStructural_iff`: where it answers `true`, the checker's verdict IS the declarative statement -/
theorem wf_decided (g : Named.NGraph) : Named.wfB g = true ↔ Named.WfG g := Named.wfB_iff g

theorem checkStructural_exact (g : Named.NGraph) (hw : Named.wfB g = true) :
    Named.checkStructural g = true ↔
      ((Named.valueNames (Named.defsG g)).Nodup ∧ (Named.nodeNames (Named.defsG g)).Nodup ∧
       Named.ScopedG [] g) :=
  checkStructural_iff g ((wf_decided g).mp hw)

open Generated.BuildFlags BuildIR in
/-- Obligation tying the theorem to the source: with the parameters `build` passes, every path of
    `Graph.to_onnx_model` that returns, returns the variable that was the argument of the last
    `onnx.checker.check_model` call with nothing assigned to or done with it since. -/
theorem generated_to_model_safe : safeBody false toOnnxModelIR = true := by decide

open Generated.BuildFlags BuildIR in
/-- …and `build` returns exactly what that call returned, untouched. -/
theorem generated_build_safe : safeBody true buildIR = true ∧ toModelCalls = 1 ∧ concreteIO = true := by
  decide

open Generated.BuildFlags BuildIR in
/-- **Nothing is returned unchecked.** For the code as it is in /repo now: whatever the branch
    decisions, if `to_onnx_model` (called as `build` calls it) returns, the returned model was checked
    by `onnx.checker.check_model` and not modified afterwards; and if `build` returns, it returns that
    very model. Neither falls off its end. -/
theorem build_returns_only_checked (ch ch' : List Bool) :
    (∀ ok, (execL false [] ch toOnnxModelIR).1 = .returned ok → ok = true) ∧
    (∀ ok, (execL true [] ch' buildIR).1 = .returned ok → ok = true) ∧
    (∀ c, (execL false [] ch toOnnxModelIR).1 ≠ .fell c) ∧
    (∀ c, (execL true [] ch' buildIR).1 ≠ .fell c) :=
  ⟨safeBody_sound generated_to_model_safe ch, safeBody_sound generated_build_safe.1 ch',
   safeBody_no_fall generated_to_model_safe ch, safeBody_no_fall generated_build_safe.1 ch'⟩

/-! ### known finding `dup-value:version-converter-fresh-name`

The full-strength statement "whenever `build` returns, every value name of the model is defined
once" is **false** of the code as it is: names invented by `onnx.version_converter` during per-node
adaptation (`_v_4`, …) never pass through the scope, so the scope theorems above (which hold for every
name the scope hands out) do not cover them. `adapterWitness` is the name structure of the model
`build` really returns for the committed replay `findings/C02-adapter-fresh-name.json`
(a v17 `ReduceMax` inside a Loop body whose other operator needs opset 19, and another v17 `ReduceMax`
after the loop). What *is* proved excludes exactly these names: `names_unique` /
`compile_names_unique` speak about the names issued by the scope, `checkStructural_sound` about each
returned model individually (and the checker run on the real model rejects this one). -/
def adapterWitness : Named.NGraph :=
  .mk ["x"] [] [
    .mk "Constant_0" [] ["Constant_0_output"] [],
    .mk "Loop_0" ["Constant_0_output", "", "x"] ["Loop_0_v_final_and_scan_outputs_0"] [.mk ["Loop_0_body__Argument_0_arg", "Loop_0_body__Argument_1_arg", "Loop_0_body__Argument_2_arg"] [] [
        .mk "" [] ["_v_4"] [],
        .mk "Loop_0_body__ReduceMax_0" ["Loop_0_body__Argument_2_arg", "_v_4"] ["Loop_0_body__ReduceMax_0_reduced"] [],
        .mk "Loop_0_body__Add_0" ["Loop_0_body__Argument_2_arg", "Loop_0_body__ReduceMax_0_reduced"] ["Loop_0_body__Add_0_C"] [],
        .mk "Loop_0_body__Identity_0" ["Loop_0_body__Add_0_C"] ["Loop_0_body__Identity_0_output"] [],
        .mk "Loop_0_body__Introduce_0_id0" ["Loop_0_body__Argument_1_arg"] ["Loop_0_body__Introduce_0_outputs_0"] [],
        .mk "Loop_0_body__Introduce_0_id1" ["Loop_0_body__Identity_0_output"] ["Loop_0_body__Introduce_0_outputs_1"] []] ["Loop_0_body__Introduce_0_outputs_0", "Loop_0_body__Introduce_0_outputs_1"]],
    .mk "" [] ["_v_4"] [],
    .mk "ReduceMax_0" ["Loop_0_v_final_and_scan_outputs_0", "_v_4"] ["ReduceMax_0_reduced"] [],
    .mk "Add_0" ["Loop_0_v_final_and_scan_outputs_0", "ReduceMax_0_reduced"] ["Add_0_C"] [],
    .mk "Introduce_0_id0" ["Add_0_C"] ["y"] []] ["y"]

/-- the returned model of the witness defines `_v_4` twice — the negation of "every value name is
    defined exactly once" on a concrete output of the pinned code; the structural checker rejects it -/
theorem adapter_names_counterexample :
    ¬ (Named.valueNames (Named.defsG adapterWitness)).Nodup ∧ Named.checkStructural adapterWitness = false := by
  decide

/-! ### known finding `inline:sibling-bodies-share-names`

`_Inline.to_onnx` memoises its renaming per inner *name*; `Model/Naming.lean` does the same
(`Ren.memoV` / `Ren.memoN`). An inlined model may use one name in two sibling bodies (both branches of an
If define `tmp`, both hold a node `n`): valid ONNX, and all of them become `Inline_0__tmp` /
`Inline_0__n`. `siblingWitness` is the name structure of the model `build` returns for
`findings/C02-inline-sibling-names.json`: the full-strength statement "every value name and every
non-empty node name is defined once in the whole model" is false of it. What is proved is unaffected:
the scope still hands each of these names out once (`names_unique`) — it is the renaming that places one
issued name at two definition sites; `checkStructural` rejects the model (run-time: reported as
KNOWN-FINDING, key specific to duplicates that lie only in sibling bodies under `Inline_k__` names). -/
def siblingWitness : Named.NGraph :=
  .mk ["x", "c"] [] [
    .mk "Inline_0__if0" ["c"] ["Inline_0_outputs_0"] [
      .mk [] [] [.mk "Inline_0__n" ["x"] ["Inline_0__tmp"] []] ["Inline_0__tmp"],
      .mk [] [] [.mk "Inline_0__n" ["x"] ["Inline_0__tmp"] []] ["Inline_0__tmp"]],
    .mk "Introduce_0_id0" ["Inline_0_outputs_0"] ["y"] []] ["y"]

theorem sibling_names_counterexample :
    ¬ (Named.valueNames (Named.defsG siblingWitness)).Nodup ∧
    ¬ (Named.nodeNames (Named.defsG siblingWitness)).Nodup ∧
    Named.checkStructural siblingWitness = false := by
  decide

/-! ### non-vacuity -/

def outcome {α} : Except Err α → Option Err
  | .ok _ => none
  | .error e => some e

-- a user name colliding with a generated one raises; a clean sequence does not
/-! ### Ill-typed calls are refused: the argument check of an inlined model (`_Inline.infer_output_types`)

`InlineCheck.accepts` is the loop over `zip(graph.input, inputs)` with `Types.subtype` (= `_subtype`,
`Shape.__le__`, `Natural.__le__`); tie H: run against the real `inline(model)(…)` on the whole
shape-boundary grid of every run. The statements hold for ANY dtype table. -/

open InlineCheck Types in
/-- **An accepted tensor argument has the declared rank** (and an element type the table relates to the
    declared one, and the same constant wherever both dimensions are constants) — at every position of
    the call. In particular a scalar never passes for a declared rank ≥ 1, nor the other way round. -/
theorem inline_arg_rank (tbl : DtypeTable) (decls : List Ty) (args : List (Option Ty))
    (h : accepts tbl decls args = true) (i e e' : Nat) (as ds : List Natural)
    (hd : decls[i]? = some (.tensor e' (some ds)))
    (ha : args[i]? = some (some (.tensor e (some as)))) :
    (e = e' ∨ tbl.sub e e' = true) ∧ as.length = ds.length ∧
      ∀ (j n m : Nat), as[j]? = some (Natural.const n) → ds[j]? = some (Natural.const m) → n = m :=
  subtype_tensor_known tbl (accepts_get tbl h i _ _ hd ha)

open InlineCheck Types in
/-- **The rank-0 boundary, both directions**: a scalar argument for an input declared with rank ≥ 1 makes
    the check raise, and so does an argument of rank ≥ 1 for a declared scalar — whatever the element
    types and the table. -/
theorem inline_scalar_boundary (tbl : DtypeTable) (e e' : Nat) (d : Natural) (ds : List Natural)
    (rest : List Ty) (more : List (Option Ty)) :
    accepts tbl (.tensor e' (some (d :: ds)) :: rest) (some (.tensor e (some [])) :: more) = false ∧
    accepts tbl (.tensor e' (some []) :: rest) (some (.tensor e (some (d :: ds))) :: more) = false := by
  constructor
  · cases hacc : accepts tbl (.tensor e' (some (d :: ds)) :: rest) (some (.tensor e (some [])) :: more) with
    | false => rfl
    | true => exact absurd (inline_arg_rank tbl _ _ hacc 0 e e' [] (d :: ds) rfl rfl).2.1 (by simp)
  · cases hacc : accepts tbl (.tensor e' (some []) :: rest) (some (.tensor e (some (d :: ds))) :: more) with
    | false => rfl
    | true => exact absurd (inline_arg_rank tbl _ _ hacc 0 e e' (d :: ds) [] rfl rfl).2.1 (by simp)

open InlineCheck Types in
/-- **Rank r vs r ± 1 and constant vs another constant** are refused as well (known ranks). -/
theorem inline_rank_or_const_mismatch_refused (tbl : DtypeTable) (e e' : Nat) (as ds : List Natural)
    (rest : List Ty) (more : List (Option Ty))
    (hbad : as.length ≠ ds.length ∨
      ∃ (j n m : Nat), as[j]? = some (Natural.const n) ∧ ds[j]? = some (Natural.const m) ∧ n ≠ m) :
    accepts tbl (.tensor e' (some ds) :: rest) (some (.tensor e (some as)) :: more) = false := by
  cases hacc : accepts tbl (.tensor e' (some ds) :: rest) (some (.tensor e (some as)) :: more) with
  | false => rfl
  | true =>
    have h := inline_arg_rank tbl _ _ hacc 0 e e' as ds rfl rfl
    rcases hbad with hb | ⟨j, n, m, h1, h2, hne⟩
    · exact absurd h.2.1 hb
    · exact absurd (h.2.2 j n m h1 h2) hne

/-! ### One declared opset per domain, whatever the spelling (`max_opset_policy`)

`Func.policy` is `max_opset_policy` (`_schemas.py`): requirements are collected per canonical domain
(`"ai.onnx"` = `""`) and the maximum is taken. Tie H: the real function on random requirement sets that spell
the default domain both ways, with duplicates, in any order, every run. -/

open Func in
/-- **The declared version of a domain meets EVERY requirement on it, under either spelling of the default
    domain, whatever the order and multiplicity of the requirements** (an inlined model importing `"ai.onnx"` at
    a lower version than the rest of the program cannot pull the model's opset down). -/
theorem model_opset_covers_both_spellings (req : List (String × Nat)) (p : String × Nat) (hp : p ∈ req) :
    ∃ v, getV (policy req) (norm p.1) = some v ∧ p.2 ≤ v :=
  fold_ge req [] p hp

open Func in
/-- …is one that was asked for (the maximum is attained, nothing is invented)… -/
theorem model_opset_attained (req : List (String × Nat)) (d : String) (v : Nat)
    (h : getV (policy req) d = some v) : ∃ p ∈ req, norm p.1 = d ∧ p.2 = v := by
  rcases fold_attained req [] d v h with h0 | h1
  · simp [getV] at h0
  · exact h1

open Func in
/-- …and the result has one entry per canonical domain: no key is spelled `"ai.onnx"`, no key occurs twice. -/
theorem model_opset_one_entry_per_domain (req : List (String × Nat)) :
    ((policy req).map (·.1)).Nodup ∧ "ai.onnx" ∉ (policy req).map (·.1) := by
  have h := policy_kinv req
  refine ⟨h.nodup, fun hm => ?_⟩
  have := h.normed "ai.onnx" hm
  simp [norm] at this

open Func in
example : getV (policy [("", 17), ("ai.onnx", 12), ("", 14)]) "" = some 17 ∧
    getV (policy [("ai.onnx", 12), ("", 17)]) "" = some 17 ∧
    getV (policy [("ai.onnx", 19), ("", 17), ("ai.onnx.ml", 3)]) "" = some 19 := by decide

/-! ### spox's own Identity nodes are valid at the model's opset (`_Introduce.opset_req`)

`InternalReq.introReq` is the requirement of the internal forwarding operator (tie H: the real `opset_req` of
`intros(...)` nodes for every combination of value kinds up to length 3, every run); the versions from which
ONNX's `Identity` accepts tensors / sequences / optionals are generated from `onnx.defs` on every run (tie G). -/

open InternalReq in
/-- If `Identity` takes tensors and sequences from some version ≤ 14 on and optionals from some version ≤ 16
    on, then at ANY model opset that meets the internal operator's requirement every forwarded value — whatever
    mix of tensors, sequences, optionals, untyped values — is accepted by the `Identity` node it is built into. -/
theorem intro_identity_accepts (mt ms mo : Nat) (ht : mt ≤ 14) (hs : ms ≤ 14) (ho : mo ≤ 16)
    (ks : List Kind) (k : Kind) (hk : k ∈ ks) (opset : Nat) (hreq : introReq ks ≤ opset) :
    identityMin mt ms mo k ≤ opset := by
  have hge : 14 ≤ introReq ks := by unfold introReq; split <;> omega
  cases k with
  | optional =>
    have hany : ks.any (· == Kind.optional) = true := List.any_eq_true.mpr ⟨.optional, hk, by simp⟩
    have h16 : introReq ks = 16 := by simp [introReq, hany]
    simp only [identityMin]; omega
  | untyped => simp only [identityMin]; omega
  | tensor => simp only [identityMin]; omega
  | seq => simp only [identityMin]; omega

open Generated.IdentityTypes in
/-- generated obligation (tie G): the installed ONNX's `Identity` meets those bounds -/
theorem generated_identity_versions_ok : minTensor ≤ 14 ∧ minSeq ≤ 14 ∧ minOptional ≤ 16 := by decide

open InternalReq Generated.IdentityTypes in
/-- **The Identity nodes spox emits for requested outputs / `intros` are valid for every forwarded value**, at
    every model opset ≥ the operator's own requirement (the model's opset is the maximum of all requirements). -/
theorem intro_identity_valid (ks : List Kind) (k : Kind) (hk : k ∈ ks) (opset : Nat)
    (hreq : introReq ks ≤ opset) : identityMin minTensor minSeq minOptional k ≤ opset :=
  intro_identity_accepts _ _ _ generated_identity_versions_ok.1 generated_identity_versions_ok.2.1
    generated_identity_versions_ok.2.2 ks k hk opset hreq

open InternalReq Generated.IdentityTypes Func in
/-- **The pass-through Identity of an inlined model is valid at the model's opset**: whatever the inlined model
    imports (either spelling) and whatever the rest of the program requires (`others`), the version the model
    declares for the default domain (`max_opset_policy` over all requirements) is one at which `Identity` accepts
    every output that is directly an input of the inlined model - optional-typed ones included. -/
theorem inline_passthrough_identity_valid (imports others : List (String × Nat)) (ks : List Kind) (k : Kind)
    (hk : k ∈ ks) :
    ∃ v, getV (policy (inlineReq imports ks ++ others)) "" = some v ∧
      identityMin minTensor minSeq minOptional k ≤ v := by
  have hn : norm "" = "" := by decide
  have h14 : (("", 14) : String × Nat) ∈ inlineReq imports ks ++ others := by simp [inlineReq]
  obtain ⟨v, hv, hle⟩ := model_opset_covers_both_spellings _ _ h14
  rw [hn] at hv
  refine ⟨v, hv, ?_⟩
  have hb := generated_identity_versions_ok
  cases k with
  | optional =>
    have hany : ks.any (· == Kind.optional) = true := List.any_eq_true.mpr ⟨.optional, hk, by simp⟩
    have h16 : (("", 16) : String × Nat) ∈ inlineReq imports ks ++ others := by simp [inlineReq, hany]
    obtain ⟨v', hv', hle'⟩ := model_opset_covers_both_spellings _ _ h16
    rw [hn, hv] at hv'
    cases hv'
    simp only [identityMin]
    exact Nat.le_trans hb.2.2 hle'
  | untyped => simp only [identityMin]; exact Nat.le_trans hb.1 hle
  | tensor => simp only [identityMin]; exact Nat.le_trans hb.1 hle
  | seq => simp only [identityMin]; exact Nat.le_trans hb.2.1 hle

open InternalReq Func in
example : getV (policy (inlineReq [("ai.onnx", 15)] [.optional] ++ [("", 14)])) "" = some 16 ∧
    getV (policy (inlineReq [("", 15)] [.tensor])) "" = some 15 := by decide

open Generated.IdentityTypes in
/-- the code before fix 8b10170 asked for opset 14 whatever the values: not enough for an optional -/
theorem intro_req_14_counterexample : ¬ (minOptional ≤ 14) := by decide

open InternalReq in
example : introReq [.tensor, .optional] = 16 ∧ introReq [.tensor, .seq, .untyped] = 14 ∧ introReq [] = 14 := by decide

/-! non-vacuity: a symbolic / anonymous / unknown-rank argument IS accepted (compatibility, not equality) -/
open InlineCheck Types in
example : accepts ⟨fun _ => none, fun _ => none, fun a b => a == b⟩
    [.tensor 7 (some [.const 2, .const 3])] [some (.tensor 7 (some [.unk "N", .const 3]))] = true := by decide
open InlineCheck Types in
example : accepts ⟨fun _ => none, fun _ => none, fun a b => a == b⟩
    [.tensor 7 (some [.const 2, .const 3]), .tensor 7 (some [])] [some (.tensor 7 none), none] = true := by decide
open InlineCheck Types in
example : accepts ⟨fun _ => none, fun _ => none, fun a b => a == b⟩
    [.tensor 7 (some [.const 2])] [some (.tensor 7 (some []))] = false := by decide

example : outcome (run {} [.set "Abs_0_Y" 1, .set "Abs_0_Y" 2]) = some .scope := by decide
example : outcome (run {} [.set "x" 1, .reserve "Inline_0__x", .set "y" 2, .push, .set "z" 3, .pop]) = none := by
  decide
-- a child namespace sees its parent's names
example : outcome (run {} [.set "x" 1, .push, .set "x" 2]) = some .scope := by decide
example : outcome (run {} ([.set "x" 1, .push, .enum "x", .reserve "r"] ++ [.set "y" 2])) = none := by decide
example : outcome (run {} ([.set "x" 1, .push, .enum "x", .set "y" 2] ++ .set "x" 3 :: [.pop, .del "x"])) = some .scope := by
  decide
example : outcome (run {} ([.reserve "Inline_0__t", .push] ++ .reserve "Inline_0__t" :: [.pop])) = some .scope := by decide
-- the checker accepts a nested well-formed graph and rejects shadowing / use-before-def / duplicates
open Named in
example : checkStructural (.mk ["x", "c"] [] [.mk "If_0" ["c"] ["r"] [.mk [] [] [.mk "n" ["x"] ["t"] []] ["t"]]] ["r"]) = true := by
  decide
open Named in
example : checkStructural (.mk ["x"] [] [.mk "a" ["x"] ["y"] [.mk [] [] [.mk "b" ["x"] ["y"] []] ["y"]]] ["y"]) = false := by
  decide
open Named in
example : checkStructural (.mk ["x"] [] [.mk "a" ["y"] ["z"] [], .mk "b" ["x"] ["y"] []] ["z"]) = false := by decide
open Named in
example : checkStructural (.mk ["x"] [] [.mk "a" ["x"] ["y"] [], .mk "a" ["y"] ["z"] []] ["z"]) = false := by decide
-- completeness: the hypotheses are satisfiable on a nested tree, and `WfG` is needed (an initializer listed
-- twice under an input's name defines nothing twice, yet the checker refuses it)
example : Named.WfG (.mk ["x", "c"] ["w"] [.mk "If_0" ["c"] ["r"] [.mk [] [] [.mk "n" ["x", "w"] ["t"] []] ["t"]]] ["r"]) := by
  simp [Named.WfG, Named.WfNs, Named.WfGs, Named.entryNames]
example : Named.checkStructural (.mk ["x"] ["x", "x"] [] ["x"]) = false ∧
    Named.defsG (.mk ["x"] ["x", "x"] [] ["x"]) = [(true, "x")] := by decide
-- deleting the checker call, or checking a different variable, is not a safe shape
open Named in
-- a body-local value of a Loop body leaked to a SIBLING If branch (use without a visible definition): rejected
example : checkStructural (.mk ["x", "c"] []
    [.mk "Loop_0" ["x"] ["l"] [.mk ["i", "cnd", "s"] [] [.mk "Add_0" ["s", "x"] ["t"] []] ["cnd", "t"]],
     .mk "If_0" ["c"] ["r"] [.mk [] [] [.mk "Add_1" ["s", "l"] ["u"] []] ["u"], .mk [] [] [] ["l"]]] ["r"]) = false := by
  decide
open BuildIR in
example : safeBody false [.assign 0, .ret (some 0)] = false := by decide
open BuildIR in
example : safeBody false [.assign 0, .assign 1, .check 1, .ret (some 0)] = false := by decide
open BuildIR in
example : safeBody false [.assign 0, .check 0, .assign 0, .ret (some 0)] = false := by decide
open BuildIR in
example : safeBody false [.assign 0, .ifKnown true [.check 0], .ret (some 0)] = true := by decide

end C02
