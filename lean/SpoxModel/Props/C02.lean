/-! Property theorems for C02 (only property-level statements and non-vacuity examples live here). -/
