/-! Property theorems for C01 (only property-level statements and non-vacuity examples live here). -/
