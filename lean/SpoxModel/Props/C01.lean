import SpoxModel.Lemmas.Prog
import SpoxModel.Lemmas.ProgRename
import SpoxModel.Lemmas.ProgUsed
import SpoxModel.Lemmas.ProgRequest
import SpoxModel.Generated.C01Entry
import SpoxModel.Generated.C01Variadic
import SpoxModel.Model.Containers
/-!
# C01 — a built model computes exactly the dataflow the program describes

Property-level theorems about the shared program model (`Model/Prog.lean`).

* `valid_sound` — **translation validation**: for *any* operator semantics `S`, any well-formed
  program, any emission accepted by the decidable `validG`, any actual inputs (and any outer
  binding), running the emission the ONNX way (`evalG`) succeeds and yields, for each requested
  output, the direct denotation of the program's dataflow.  The harness runs `validG` on the nested
  emission extracted from the *real* `ModelProto` of every generated program, so the theorem applies
  to what `spox.build` actually returned.  (That the build algorithm always produces an accepted
  emission — `build_valid` — is C04's algorithm model plus this per-run validation.)
* `written_differently_same_values`, `creation_order_irrelevant`, `later_nodes_irrelevant`,
  `emission_irrelevant`, `outer_binding_irrelevant` — nothing about how the program was written
  (creation order, what else was constructed, which valid emission the builder chose) changes the
  computed values: `denote` only reads the dataflow.
* `denote_congr_needed`, `unused_inputs_irrelevant`, `drop_unused_inputs_sound` — the non-default
  build option: the requested values depend only on the arguments the traversal `needed` reaches
  (through inputs and through bodies at ANY depth); an accepted emission of the main graph that lists
  only `usedArgs` (what `build(..., drop_unused_inputs=True)` must return), run on the values of those
  inputs alone, yields the dataflow's value on the full binding.
* non-vacuity: the nested-If program of `tests/test_subgraphs.py` and a 3-level If/Loop/If program
  with a value used only in the innermost body, with concrete integer semantics.
-/
namespace C01
open Prog
variable {Val : Type} [Inhabited Val]

/-- Translation validation (full strength). -/
theorem valid_sound (S : Sem Val) (prog : List PNode) (hwf : WF prog) (e : EGraph) (main : PGraph)
    (hv : validG prog e main [] = true) (b : Nat → Val) (vals : List Val) :
    evalG S prog e (fun _ => none) vals = some (denoteG S prog b main vals) := by
  unfold denoteG denote
  apply graphOK S prog hwf e main (fun _ => none) [] b hv
  · intro id hid; cases hid
  · exact Agree.refl _ _ _

/-- The same with both hypotheses executable (this is the form the driver evaluates). -/
theorem valid_sound_checked (S : Sem Val) (p : Program) (e : EGraph)
    (hwf : wfCheck p.nodes = true) (hv : validG p.nodes e p.main [] = true)
    (b : Nat → Val) (vals : List Val) :
    evalG S p.nodes e (fun _ => none) vals = some (denoteG S p.nodes b p.main vals) :=
  valid_sound S p.nodes (wfCheck_sound _ hwf) e p.main hv b vals

/-- Bodies: an accepted emission of a body, run where its owner sits (any environment that holds the
    denotations of the visible ids), is the body's direct denotation as a function of its actual
    arguments — closures over outer values included. -/
theorem valid_sound_nested (S : Sem Val) (prog : List PNode) (hwf : WF prog) (g : EGraph)
    (pg : PGraph) (env : Env Val) (vis : List Nat) (b : Nat → Val)
    (hv : validG prog g pg vis = true) (henv : EnvOK S prog env vis b) (vals : List Val) :
    evalG S prog g env vals = some (denoteG S prog b pg vals) := by
  unfold denoteG denote
  exact graphOK S prog hwf g pg env vis b hv henv b (Agree.refl _ _ _) vals

/-- Which accepted emission the builder chose (order inside a scope, scope placement, how often a
    node is emitted) does not matter. -/
theorem emission_irrelevant (S : Sem Val) (prog : List PNode) (hwf : WF prog) (e₁ e₂ : EGraph)
    (main : PGraph) (h₁ : validG prog e₁ main [] = true) (h₂ : validG prog e₂ main [] = true)
    (vals : List Val) :
    evalG S prog e₁ (fun _ => none) vals = evalG S prog e₂ (fun _ => none) vals := by
  rw [valid_sound S prog hwf e₁ main h₁ (fun _ => default) vals,
      valid_sound S prog hwf e₂ main h₂ (fun _ => default) vals]

/-- The outputs of an accepted main emission depend on the actual inputs only (not on whatever the
    other arguments of the program are bound to). -/
theorem outer_binding_irrelevant (S : Sem Val) (prog : List PNode) (hwf : WF prog) (e : EGraph)
    (main : PGraph) (hv : validG prog e main [] = true) (b₁ b₂ : Nat → Val) (vals : List Val) :
    denoteG S prog b₁ main vals = denoteG S prog b₂ main vals := by
  have h1 := valid_sound S prog hwf e main hv b₁ vals
  have h2 := valid_sound S prog hwf e main hv b₂ vals
  rw [h1] at h2
  exact Option.some.inj h2

/-- What is constructed later (and not requested) changes no older value. -/
theorem later_nodes_irrelevant (S : Sem Val) (extra p : List PNode) (b : Nat → Val) (r : VarRef)
    (hr : r.node < p.length) : denote S (extra ++ p) b r = denote S p b r := by
  unfold denote getVar
  rw [table_append S extra p b r.node hr]

/-- Creation order / interleaved constructions: if the dataflow-closed part `D` of `p` occurs in
    `p'` under an injective renaming `σ` of node ids, all values of `D` agree. -/
theorem creation_order_irrelevant (S : Sem Val) (p p' : List PNode) (hwf : WF p) (hwf' : WF p')
    (σ : Nat → Nat) (hσ : ∀ x y, σ x = σ y → x = y) (D : Nat → Prop)
    (hD : ∀ k, D k → ∃ n, nodeAt p k = some n ∧ nodeAt p' (σ k) = some (mapNode σ n) ∧
      (∀ r, some r ∈ n.inputs → D r.node) ∧ (∀ g ∈ n.subs, ∀ r ∈ g.results, D r.node))
    (b b' : Nat → Val) (hb : ∀ a, b' (σ a) = b a) (r : VarRef) (hr : D r.node) :
    denote S p' b' (mapRef σ r) = denote S p b r := by
  unfold denote getVar mapRef
  simp only
  rw [denote_embed S p p' hwf hwf' σ hσ D hD r.node hr b b' hb]

/-- **Nothing about how the program was written changes the computed values.**  Two programs that
    contain the same dataflow for the requested outputs (under a renaming of ids: other creation
    order, other values constructed in between or besides), each built into *some* accepted
    emission, compute the same outputs on the same inputs. -/
theorem written_differently_same_values (S : Sem Val) (p p' : List PNode) (hwf : WF p)
    (hwf' : WF p') (σ : Nat → Nat) (hσ : ∀ x y, σ x = σ y → x = y) (D : Nat → Prop)
    (hD : ∀ k, D k → ∃ n, nodeAt p k = some n ∧ nodeAt p' (σ k) = some (mapNode σ n) ∧
      (∀ r, some r ∈ n.inputs → D r.node) ∧ (∀ g ∈ n.subs, ∀ r ∈ g.results, D r.node))
    (main : PGraph) (hmain : ∀ r ∈ main.results, D r.node)
    (e e' : EGraph) (hv : validG p e main [] = true)
    (hv' : validG p' e' (mapGraph σ main) [] = true) (vals : List Val) :
    evalG S p e (fun _ => none) vals = evalG S p' e' (fun _ => none) vals := by
  rw [valid_sound S p hwf e main hv (fun _ => default) vals,
      valid_sound S p' hwf' e' (mapGraph σ main) hv' (fun _ => default) vals]
  congr 1
  unfold denoteG
  simp only [mapGraph, List.map_map]
  apply List.map_congr_left
  intro r hr
  simp only [Function.comp]
  exact (creation_order_irrelevant S p p' hwf hwf' σ hσ D hD _ _
    (updArgs_map σ hσ (fun _ => default) (fun _ => default) (fun _ => rfl) main.args vals)
    r (hmain r hr)).symm


/-! ## Non-default build option: only the inputs that are read -/

/-- The requested values depend only on the arguments reached by the traversal `needed` (node inputs
    and body results, at any nesting depth): two bindings that agree there give the same values. -/
theorem denote_congr_needed (S : Sem Val) (prog : List PNode) (hwf : WF prog) (results : List VarRef)
    (b b' : Nat → Val) (hb : ∀ a ∈ needed prog (results.map (·.node)), b a = b' a) :
    results.map (denote S prog b) = results.map (denote S prog b') := by
  apply List.map_congr_left
  intro r hr
  unfold denote getVar
  have hmem : r.node ∈ needed prog (results.map (·.node)) :=
    needed_mono prog _ _ (List.mem_map.mpr ⟨r, hr, rfl⟩)
  by_cases hlt : r.node < prog.length
  · rw [table_congr_needed S prog hwf _ b b' hb r.node hmem hlt]
  · by_cases heq : r.node = prog.length
    · -- one past the newest node: both tables have no such entry
      have h1 : ∀ c : Nat → Val, valAt (table S prog c) r.node = [] := by
        intro c
        cases hp : table S prog c with
        | nil => rfl
        | cons v t =>
          have hl : (table S prog c).length = prog.length := table_length S prog c
          rw [hp] at hl
          simp only [valAt]
          have hne : ¬ r.node = t.length := by simp at hl; omega
          rw [if_neg hne]
          exact valAt_ge t r.node (Or.inl (by simp at hl; omega))
      rw [h1 b, h1 b']
    · rw [valAt_ge _ _ (Or.inl (by simp; omega)), valAt_ge _ _ (Or.inl (by simp; omega))]

/-- What is bound to the inputs that are NOT read — declared but unused model inputs — changes no
    requested value. -/
theorem unused_inputs_irrelevant (S : Sem Val) (prog : List PNode) (hwf : WF prog) (main : PGraph)
    (b : Nat → Val) (vals vals' : List Val)
    (h : ∀ a ∈ usedArgs prog main, updArgs b main.args vals a = updArgs b main.args vals' a) :
    denoteG S prog b main vals = denoteG S prog b main vals' := by
  unfold denoteG
  apply denote_congr_needed S prog hwf
  intro a ha
  by_cases hm : a ∈ main.args
  · apply h
    unfold usedArgs
    rw [List.mem_filter]
    exact ⟨hm, by simpa using ha⟩
  · rw [updArgs_not_mem b main.args vals a hm, updArgs_not_mem b main.args vals' a hm]

/-- **`drop_unused_inputs=True`.**  Any accepted emission of the main graph that lists only the used
    arguments (`dropUnused`), run on the actual values of those inputs alone, yields for each
    requested output the program's dataflow value on the full binding — however deep in nested bodies
    the inputs are read, and whatever the dropped inputs were bound to. -/
theorem drop_unused_inputs_sound (S : Sem Val) (prog : List PNode) (hwf : WF prog) (e : EGraph)
    (main : PGraph) (hv : validG prog e (dropUnused prog main) [] = true) (b : Nat → Val)
    (vals : List Val) :
    evalG S prog e (fun _ => none)
        (usedVals (needed prog (main.results.map (·.node))).contains main.args vals)
      = some (denoteG S prog b main vals) := by
  rw [valid_sound S prog hwf e (dropUnused prog main) hv b]
  congr 1
  unfold denoteG dropUnused usedArgs
  apply denote_congr_needed S prog hwf
  intro a ha
  exact updArgs_filter _ b main.args vals a (by simpa using ha)

/-- **Every input that is read must be listed.**  Whatever emission is accepted for results `main'.results`
    with input list `main'.args`: an argument reached from the results through node inputs and bodies —
    at whatever nesting depth — that is not a formal of some body is one of the listed inputs.
    (Side conditions executable: `argsLeaf`, `isArg`, `notFormal`; the driver evaluates them on every run.) -/
theorem read_inputs_must_be_listed (prog : List PNode) (hleaf : argsLeaf prog = true) (e : EGraph)
    (main' : PGraph) (hv : validG prog e main' [] = true) (a : Nat)
    (ha : a ∈ needed prog (main'.results.map (·.node))) (hisarg : isArg prog a = true)
    (hnf : notFormal prog a = true) : a ∈ main'.args :=
  needed_arg_listed prog (argsLeaf_sound prog hleaf) e main' hv a ha hisarg
    (fun pg ⟨k, pn, hk, hpg⟩ => notFormal_sound prog a hnf k pn hk pg hpg)

/-- `usedArgs` is the LEAST input list: any accepted model of the same results lists every used input
    of the caller's list — no build option may drop an input that is read, however deep. -/
theorem usedArgs_least (prog : List PNode) (hleaf : argsLeaf prog = true) (e : EGraph) (main : PGraph)
    (args' : List Nat) (hv : validG prog e ⟨args', main.results⟩ [] = true)
    (hmain : ∀ a ∈ main.args, isArg prog a = true ∧ notFormal prog a = true) :
    ∀ a ∈ usedArgs prog main, a ∈ args' := by
  intro a ha
  unfold usedArgs at ha
  rw [List.mem_filter] at ha
  obtain ⟨hm, hc⟩ := ha
  exact read_inputs_must_be_listed prog hleaf e ⟨args', main.results⟩ hv a (by simpa using hc)
    (hmain a hm).1 (hmain a hm).2

/-- The inputs that remain are listed in the caller's order (a sublist of the caller's list). -/
theorem usedArgs_caller_order (prog : List PNode) (main : PGraph) :
    (usedArgs prog main).Sublist main.args := by
  unfold usedArgs
  exact List.filter_sublist

/-- Asking again for the dropped graph drops nothing more. -/
theorem dropUnused_idempotent (prog : List PNode) (main : PGraph) :
    dropUnused prog (dropUnused prog main) = dropUnused prog main := by
  unfold dropUnused usedArgs
  simp only [List.filter_filter, Bool.and_self]

/-! ## Round 10: the needed part alone decides the values; other requests over the same program -/

/-- **What else was constructed, where and in which order is irrelevant — with an executable hypothesis.**
    `written_differently_same_values` asked for *some* dataflow-closed set `D`; here `D` is computed: it is
    `needed` of the requested outputs, and closure is PROVED (`needed_closed`), not assumed.  If every node
    reached from the requested outputs of `p` (through inputs and bodies at any depth) sits in `p'` at the
    renamed position (`embedsNeeded`, a `Bool`), then whatever else `p` and `p'` contain — unrequested
    constructions older, newer or in between, different in the two programs —, any two accepted emissions
    compute the same outputs on the same inputs. -/
theorem needed_part_decides_values (S : Sem Val) (p p' : List PNode) (hwf : WF p) (hwf' : WF p')
    (σ : Nat → Nat) (hσ : ∀ x y, σ x = σ y → x = y) (main : PGraph)
    (hemb : embedsNeeded p p' σ (main.results.map (·.node)) = true)
    (e e' : EGraph) (hv : validG p e main [] = true)
    (hv' : validG p' e' (mapGraph σ main) [] = true) (vals : List Val) :
    evalG S p e (fun _ => none) vals = evalG S p' e' (fun _ => none) vals := by
  apply written_differently_same_values S p p' hwf hwf' σ hσ
    (fun k => k ∈ needed p (main.results.map (·.node))) _ main _ e e' hv hv' vals
  · exact embedsNeeded_spec p p' hwf σ _ hemb
  · intro r hr
    exact needed_mono p _ _ (List.mem_map.mpr ⟨r, hr, rfl⟩)

/-- The same at the level of the direct denotation (no emission involved), and with the bindings compared on
    the needed ids only: if the needed part of `p` sits in `p'` under `σ` and the binding of `p'` gives every
    NEEDED id `σ a` the value `a` has in `p` (a binding is read at argument ids only; the hypothesis is stated for
    all needed ids because no "read at arguments only" lemma exists yet), every requested value is the same —
    whatever the arguments that are not needed are bound to in either program. -/
theorem needed_part_decides_denotation (S : Sem Val) (p p' : List PNode) (hwf : WF p) (hwf' : WF p')
    (σ : Nat → Nat) (hσ : ∀ x y, σ x = σ y → x = y) (results : List VarRef)
    (hemb : embedsNeeded p p' σ (results.map (·.node)) = true) (b b' : Nat → Val)
    (hb : ∀ a ∈ needed p (results.map (·.node)), b' (σ a) = b a) :
    results.map (fun r => denote S p' b' (mapRef σ r)) = results.map (denote S p b) := by
  rw [← denote_congr_needed S p hwf results (fun a => b' (σ a)) b hb]
  apply List.map_congr_left
  intro r hr
  exact creation_order_irrelevant S p p' hwf hwf' σ hσ (fun k => k ∈ needed p (results.map (·.node)))
    (embedsNeeded_spec p p' hwf σ _ hemb) (fun a => b' (σ a)) b' (fun _ => rfl) r
    (needed_mono p _ _ (List.mem_map.mpr ⟨r, hr, rfl⟩))

/-- **The bindings are compared on the needed ARGUMENT ids only** (strengthening of
    `needed_part_decides_denotation`, via `table_congr_args`: a binding is read at argument ids only).  If the
    needed part of `p` sits in `p'` under `σ` and the binding of `p'` gives every needed id `σ a` *whose node is an
    argument* the value `a` has in `p`, every requested value is the same — whatever the two bindings say at operator
    / initializer ids and at arguments that are not needed. -/
theorem needed_part_decides_denotation_args (S : Sem Val) (p p' : List PNode) (hwf : WF p) (hwf' : WF p')
    (σ : Nat → Nat) (hσ : ∀ x y, σ x = σ y → x = y) (results : List VarRef)
    (hemb : embedsNeeded p p' σ (results.map (·.node)) = true) (b b' : Nat → Val)
    (hb : ∀ a ∈ needed p (results.map (·.node)), isArg p a = true → b' (σ a) = b a) :
    results.map (fun r => denote S p' b' (mapRef σ r)) = results.map (denote S p b) := by
  rw [needed_part_decides_denotation S p p' hwf hwf' σ hσ results hemb (fun a => b' (σ a)) b'
    (fun _ _ => rfl)]
  -- b'' := b' ∘ σ and b₃ := b'' at argument ids, b elsewhere: same table as b''; agrees with b on needed ids
  have h3 : ∀ r, denote S p (fun a => b' (σ a)) r
      = denote S p (fun a => if isArg p a = true then b' (σ a) else b a) r := by
    intro r
    unfold denote
    rw [table_congr_args S p (fun a => b' (σ a)) (fun a => if isArg p a = true then b' (σ a) else b a)
      (fun a ha => by simp only [ha, if_true])]
  rw [List.map_congr_left (fun r _ => h3 r)]
  apply denote_congr_needed S p hwf
  intro a ha
  by_cases hA : isArg p a = true
  · simp only [hA, if_true]; exact hb a ha hA
  · simp only [hA]; rfl

/-- The same with every hypothesis executable: the renaming is a finite table (`sigmaOf`, injective by
    `sigmaOk`), well-formedness by `wfCheck` — the form the driver evaluates on real runs. -/
theorem needed_part_decides_values_checked (S : Sem Val) (p p' : List PNode) (tbl : List Nat)
    (bound : Nat) (main : PGraph) (hwf : wfCheck p = true) (hwf' : wfCheck p' = true)
    (hσ : sigmaOk tbl bound = true)
    (hemb : embedsNeeded p p' (sigmaOf tbl bound) (main.results.map (·.node)) = true)
    (e e' : EGraph) (hv : validG p e main [] = true)
    (hv' : validG p' e' (mapGraph (sigmaOf tbl bound) main) [] = true) (vals : List Val) :
    evalG S p e (fun _ => none) vals = evalG S p' e' (fun _ => none) vals :=
  needed_part_decides_values S p p' (wfCheck_sound _ hwf) (wfCheck_sound _ hwf') _
    (sigmaOf_injective tbl bound hσ) main hemb e e' hv hv' vals

/-- **Another request over the same program** (a further `build` over the same Python objects: more / fewer /
    other outputs, in another order; the inputs handed over in another order).  Two accepted emissions — of
    different requests, hence in general with different scope placement and order — give the same value to every
    output both requests contain, when fed the same (input, value) pairs in whatever order. -/
theorem other_request_same_values (S : Sem Val) (prog : List PNode) (hwf : WF prog)
    (args₁ args₂ : List Nat) (rs₁ rs₂ : List VarRef) (e₁ e₂ : EGraph)
    (h₁ : validG prog e₁ ⟨args₁, rs₁⟩ [] = true) (h₂ : validG prog e₂ ⟨args₂, rs₂⟩ [] = true)
    (vals₁ vals₂ : List Val) (hl₁ : args₁.length = vals₁.length) (hl₂ : args₂.length = vals₂.length)
    (hnd : args₁.Nodup) (hp : (args₁.zip vals₁).Perm (args₂.zip vals₂))
    (i j : Nat) (hij : rs₁[i]? = rs₂[j]?) :
    (evalG S prog e₁ (fun _ => none) vals₁).map (·[i]?)
      = (evalG S prog e₂ (fun _ => none) vals₂).map (·[j]?) := by
  rw [valid_sound S prog hwf e₁ _ h₁ (fun _ => default) vals₁,
      valid_sound S prog hwf e₂ _ h₂ (fun _ => default) vals₂]
  simp only [Option.map_some, denoteG, List.getElem?_map]
  rw [updArgs_perm (fun _ => default) args₁ args₂ vals₁ vals₂ hl₁ hl₂ hnd hp, hij]

/-- In particular: asking for more (or other) outputs besides, or listing them in another order, changes no
    requested value (same inputs, same order). -/
theorem more_outputs_irrelevant (S : Sem Val) (prog : List PNode) (hwf : WF prog)
    (args : List Nat) (rs₁ rs₂ : List VarRef) (e₁ e₂ : EGraph)
    (h₁ : validG prog e₁ ⟨args, rs₁⟩ [] = true) (h₂ : validG prog e₂ ⟨args, rs₂⟩ [] = true)
    (vals : List Val) (i j : Nat) (hij : rs₁[i]? = rs₂[j]?) :
    (evalG S prog e₁ (fun _ => none) vals).map (·[i]?)
      = (evalG S prog e₂ (fun _ => none) vals).map (·[j]?) := by
  rw [valid_sound S prog hwf e₁ _ h₁ (fun _ => default) vals,
      valid_sound S prog hwf e₂ _ h₂ (fun _ => default) vals]
  simp only [Option.map_some, denoteG, List.getElem?_map]
  rw [hij]

/-- The default build and the `drop_unused_inputs=True` build over the same program (the harness makes both
    over the same Python objects): any accepted emission of each, the second fed only the used inputs, return
    the same outputs. -/
theorem default_and_drop_builds_agree (S : Sem Val) (prog : List PNode) (hwf : WF prog) (e e' : EGraph)
    (main : PGraph) (hv : validG prog e main [] = true)
    (hv' : validG prog e' (dropUnused prog main) [] = true) (vals : List Val) :
    evalG S prog e' (fun _ => none)
        (usedVals (needed prog (main.results.map (·.node))).contains main.args vals)
      = evalG S prog e (fun _ => none) vals := by
  rw [drop_unused_inputs_sound S prog hwf e' main hv' (fun _ => default) vals,
      valid_sound S prog hwf e main hv (fun _ => default) vals]

/-! ## Tie G: every way to build that the source offers is one the check exercises -/

/-- The `to_onnx_model` options the harness varies (`TO_MODEL_KW` in `harness/props/c01.py`; the harness
    compares its table with this list on every run). -/
def exercisedToModelOptions : List String :=
  ["producer_name", "model_doc_string", "infer_shapes", "check_model", "ir_version", "concrete"]
/-- The `Graph` setters the harness's graph route calls. -/
def exercisedSetters : List String := ["with_arguments", "with_doc", "with_name", "with_opset"]

/-- Generated from the source on every run: `spox.build(inputs, outputs, *, drop_unused_inputs=False)`
    has no further option, `drop_unused_inputs` defaults to `False` (the default build lists every
    caller input — `valid_sound`'s main graph; `True` is `dropUnused` — `drop_unused_inputs_sound`), and
    every `Graph.to_onnx_model` option / `Graph.with_*` setter is one the harness varies.  A new option,
    setter or a flipped default fails this obligation whatever programs are generated. -/
theorem generated_entry_options_exercised :
    Generated.C01Entry.buildPositional = ["inputs", "outputs"]
    ∧ Generated.C01Entry.buildOptions = [("drop_unused_inputs", "False")]
    ∧ (Generated.C01Entry.toModelOptions.map (·.1)).all exercisedToModelOptions.contains = true
    ∧ Generated.C01Entry.graphSetters.all exercisedSetters.contains = true := by decide

/-! ## Caller-owned containers: the dataflow is what was constructed -/

section Containers
open Containers

/-- Whatever the caller does to its containers AFTER the last constructor call changes no operand of any
    constructed node. -/
theorem later_mutations_irrelevant (es ms : List Ev) (h : Nat → List Nat)
    (hms : ms.all isSet = true) : snapshots (es ++ ms) h = snapshots es h := by
  induction es generalizing h with
  | nil =>
    induction ms generalizing h with
    | nil => rfl
    | cons m ms ih =>
      simp only [List.all_cons, Bool.and_eq_true] at hms
      cases m with
      | set l vs => simpa [snapshots] using ih hms.2 (upd h l vs)
      | call l => simp [isSet] at hms
  | cons e es ih =>
    cases e with
    | set l vs => simpa [snapshots] using ih (upd h l vs)
    | call l => simp [snapshots, ih h]

/-- A mutation between two calls affects only the later call: the operands of a node are exactly the
    contents of its container at the moment of its construction. -/
theorem operands_are_contents_at_call (es₁ es₂ : List Ev) (l : Nat) (h : Nat → List Nat) :
    snapshots (es₁ ++ Ev.call l :: es₂) h
      = snapshots es₁ h ++ finalHeap es₁ h l :: snapshots es₂ (finalHeap es₁ h) := by
  induction es₁ generalizing h with
  | nil => rfl
  | cons e es ih =>
    cases e with
    | set l' vs => simpa [snapshots, finalHeap] using ih (upd h l' vs)
    | call l' => simp [snapshots, finalHeap, ih h]

/-- The held-out change (the node keeps the caller's list object): `terms = [a, b]; ab = concat(terms);
    terms.append(c)` builds `concat(a, b, c)`. -/
theorem aliasing_counterexample :
    let es := [Ev.set 0 [1, 2], Ev.call 0, Ev.set 0 [1, 2, 3]]
    snapshots es (fun _ => []) = [[1, 2]] ∧ aliased es (fun _ => []) = [[1, 2, 3]] := by decide

end Containers

/-- The constructor parameters the harness calls with a caller-owned list that is mutated after construction
    (generator: concat max min sum mean einsum loop scan; probes: sequence_construct sequence_map
    feature_vectorizer). -/
def exercisedSequenceParams : List String :=
  ["concat.inputs", "einsum.Inputs", "feature_vectorizer.X", "loop.v_initial", "max.data_0", "mean.data_0",
   "min.data_0", "scan.initial_state_and_scan_inputs", "sequence_construct.inputs",
   "sequence_map.additional_inputs", "sum.data_0"]

/-- Generated from the opset modules on every run: every public constructor parameter annotated
    `Sequence[Var]` is one the harness exercises with a mutated caller-owned list. -/
theorem generated_sequence_parameters_exercised :
    Generated.C01Variadic.sequenceParams.all exercisedSequenceParams.contains = true := by decide

/-! ## Non-vacuity: concrete programs, concrete semantics -/

/-- Integer semantics for the examples: 0 Add, 1 Mul, 2 If (subs = [then, else]),
    3 Loop (inputs M, cond, state…; body (iter, cond, state…) ↦ (cond, state…)). -/
def loopN (body : List Int → List Int) : Nat → Nat → List Int → List Int
  | 0, _, st => st
  | n + 1, i, st =>
    let r := body (Int.ofNat i :: 1 :: st)
    if r.headD 0 = 0 then r.tail else loopN body n (i + 1) r.tail

def exSem : Sem Int where
  op l ins subs :=
    let v (i : Nat) : Int := (ins.getD i none).getD 0
    match l with
    | 0 => [v 0 + v 1]
    | 1 => [v 0 * v 1]
    | 2 => if v 0 ≠ 0 then (subs.getD 0 (fun _ => [])) [] else (subs.getD 1 (fun _ => [])) []
    | 3 => loopN (subs.getD 0 (fun _ => [])) (v 0).toNat 0 ((ins.drop 2).map (·.getD 0))
    | _ => []

/-- `tests/test_subgraphs.py::test_outer_scope_arguments_nested_used_in_both`:
    `r = If(b, then: If(c, then: x + y, else: y), else: y) + x`.  Newest first. -/
def nestedIf : Program where
  nodes := [
    ⟨.op 0, [some ⟨6, 0⟩, some ⟨2, 0⟩], []⟩,                                -- 7: r + x
    ⟨.op 2, [some ⟨0, 0⟩], [⟨[], [⟨5, 0⟩]⟩, ⟨[], [⟨3, 0⟩]⟩]⟩,              -- 6: If b
    ⟨.op 2, [some ⟨1, 0⟩], [⟨[], [⟨4, 0⟩]⟩, ⟨[], [⟨3, 0⟩]⟩]⟩,              -- 5: If c
    ⟨.op 0, [some ⟨2, 0⟩, some ⟨3, 0⟩], []⟩,                                -- 4: x + y
    ⟨.arg, [], []⟩, ⟨.arg, [], []⟩, ⟨.arg, [], []⟩, ⟨.arg, [], []⟩]         -- 3 y, 2 x, 1 c, 0 b
  main := ⟨[0, 1, 2, 3], [⟨7, 0⟩]⟩

/-- What the real builder emits for it: `x + y` lands in the innermost `then`. -/
def nestedIfEmission : EGraph :=
  .mk [0, 1, 2, 3]
    [.mk 6 [.mk [] [.mk 5 [.mk [] [.mk 4 []] [⟨4, 0⟩], .mk [] [] [⟨3, 0⟩]]] [⟨5, 0⟩],
            .mk [] [] [⟨3, 0⟩]],
     .mk 7 []]
    [⟨7, 0⟩]

example : wfCheck nestedIf.nodes = true := by decide
example : validG nestedIf.nodes nestedIfEmission nestedIf.main [] = true := by decide
example : evalG exSem nestedIf.nodes nestedIfEmission (fun _ => none) [1, 1, 10, 5] = some [25] := by
  decide
example : denoteG exSem nestedIf.nodes (fun _ => 0) nestedIf.main [1, 1, 10, 5] = [25] := by decide
example : denoteG exSem nestedIf.nodes (fun _ => 0) nestedIf.main [1, 0, 10, 5] = [15] := by decide
/-- the theorem instantiated on it -/
example (vals : List Int) :
    evalG exSem nestedIf.nodes nestedIfEmission (fun _ => none) vals
      = some (denoteG exSem nestedIf.nodes (fun _ => 0) nestedIf.main vals) :=
  valid_sound_checked exSem nestedIf nestedIfEmission (by decide) (by decide) _ vals

/-- An emission that puts `x + y` into the *else* branch of the inner If while the *then* branch
    returns it is rejected, and indeed does not compute the program's value. -/
def nestedIfBad : EGraph :=
  .mk [0, 1, 2, 3]
    [.mk 6 [.mk [] [.mk 5 [.mk [] [] [⟨4, 0⟩], .mk [] [.mk 4 []] [⟨3, 0⟩]]] [⟨5, 0⟩],
            .mk [] [] [⟨3, 0⟩]],
     .mk 7 []]
    [⟨7, 0⟩]
example : validG nestedIf.nodes nestedIfBad nestedIf.main [] = false := by decide
example : evalG exSem nestedIf.nodes nestedIfBad (fun _ => none) [1, 1, 10, 5]
    ≠ some (denoteG exSem nestedIf.nodes (fun _ => 0) nestedIf.main [1, 1, 10, 5]) := by decide

/-- Three levels: main ▸ If(c).then ▸ Loop(n).body ▸ If(c).then; `k = x * x` is created first, in the
    main program, and used only in the innermost body (closure through three scopes).
    0 n, 1 x, 2 c, 3 k = x*x, 4 iter, 5 cond, 6 acc (loop formals), 7 acc + k, 8 (7) + iter,
    9 If c then (8) else acc, 10 Loop(n, -, x) body (iter, cond, acc) ↦ (cond, 9), 11 If c then (10) else x. -/
def deep : Program where
  nodes := [
    ⟨.op 2, [some ⟨2, 0⟩], [⟨[], [⟨10, 0⟩]⟩, ⟨[], [⟨1, 0⟩]⟩]⟩,                       -- 11
    ⟨.op 3, [some ⟨0, 0⟩, none, some ⟨1, 0⟩], [⟨[4, 5, 6], [⟨5, 0⟩, ⟨9, 0⟩]⟩]⟩,      -- 10
    ⟨.op 2, [some ⟨2, 0⟩], [⟨[], [⟨8, 0⟩]⟩, ⟨[], [⟨6, 0⟩]⟩]⟩,                        -- 9
    ⟨.op 0, [some ⟨7, 0⟩, some ⟨4, 0⟩], []⟩,                                          -- 8
    ⟨.op 0, [some ⟨6, 0⟩, some ⟨3, 0⟩], []⟩,                                          -- 7
    ⟨.arg, [], []⟩, ⟨.arg, [], []⟩, ⟨.arg, [], []⟩,                                   -- 6 5 4
    ⟨.op 1, [some ⟨1, 0⟩, some ⟨1, 0⟩], []⟩,                                          -- 3
    ⟨.arg, [], []⟩, ⟨.arg, [], []⟩, ⟨.arg, [], []⟩]                                   -- 2 1 0
  main := ⟨[0, 1, 2], [⟨11, 0⟩]⟩

/-- The emission of the real builder: `k` is emitted in the innermost body (its only user). -/
def deepEmission : EGraph :=
  .mk [0, 1, 2]
    [.mk 11 [
      .mk [] [.mk 10 [
        .mk [4, 5, 6] [.mk 9 [
          .mk [] [.mk 3 [], .mk 7 [], .mk 8 []] [⟨8, 0⟩],
          .mk [] [] [⟨6, 0⟩]]] [⟨5, 0⟩, ⟨9, 0⟩]]] [⟨10, 0⟩],
      .mk [] [] [⟨1, 0⟩]]]
    [⟨11, 0⟩]

/-- Another accepted emission of the same program: `k` hoisted to the main graph. -/
def deepEmissionHoisted : EGraph :=
  .mk [0, 1, 2]
    [.mk 3 [],
     .mk 11 [
      .mk [] [.mk 10 [
        .mk [4, 5, 6] [.mk 9 [
          .mk [] [.mk 7 [], .mk 8 []] [⟨8, 0⟩],
          .mk [] [] [⟨6, 0⟩]]] [⟨5, 0⟩, ⟨9, 0⟩]]] [⟨10, 0⟩],
      .mk [] [] [⟨1, 0⟩]]]
    [⟨11, 0⟩]

example : wfCheck deep.nodes = true := by decide
example : validG deep.nodes deepEmission deep.main [] = true := by decide
example : validG deep.nodes deepEmissionHoisted deep.main [] = true := by decide
-- n = 3, x = 5, c = 1:  acc: 5 → 30 → 56 → 83
example : evalG exSem deep.nodes deepEmission (fun _ => none) [3, 5, 1] = some [83] := by decide
example : denoteG exSem deep.nodes (fun _ => 0) deep.main [3, 5, 1] = [83] := by decide
example : denoteG exSem deep.nodes (fun _ => 0) deep.main [3, 5, 0] = [5] := by decide
example (vals : List Int) :
    evalG exSem deep.nodes deepEmission (fun _ => none) vals
      = evalG exSem deep.nodes deepEmissionHoisted (fun _ => none) vals :=
  emission_irrelevant exSem deep.nodes (wfCheck_sound _ (by decide)) _ _ deep.main
    (by decide) (by decide) vals

/-- A loop formal used outside its body (leak): rejected — `6` is not visible in main. -/
example : validG deep.nodes
    (.mk [0, 1, 2] [.mk 7 []] [⟨7, 0⟩]) ⟨[0, 1, 2], [⟨7, 0⟩]⟩ [] = false := by decide

/-- Where an input is read: `u` (3) only in the innermost body (depth 3), `z` (4) nowhere.
    0 n, 1 x, 2 c, 3 u, 4 z, 5 iter, 6 cond, 7 acc (loop formals), 8 acc + u, 9 If c then (8) else acc,
    10 Loop(n, -, x) body (5, 6, 7) ↦ (6, 9), 11 If c then (10) else x. -/
def deepU : Program where
  nodes := [
    ⟨.op 2, [some ⟨2, 0⟩], [⟨[], [⟨10, 0⟩]⟩, ⟨[], [⟨1, 0⟩]⟩]⟩,                       -- 11
    ⟨.op 3, [some ⟨0, 0⟩, none, some ⟨1, 0⟩], [⟨[5, 6, 7], [⟨6, 0⟩, ⟨9, 0⟩]⟩]⟩,      -- 10
    ⟨.op 2, [some ⟨2, 0⟩], [⟨[], [⟨8, 0⟩]⟩, ⟨[], [⟨7, 0⟩]⟩]⟩,                        -- 9
    ⟨.op 0, [some ⟨7, 0⟩, some ⟨3, 0⟩], []⟩,                                          -- 8
    ⟨.arg, [], []⟩, ⟨.arg, [], []⟩, ⟨.arg, [], []⟩,                                   -- 7 6 5
    ⟨.arg, [], []⟩, ⟨.arg, [], []⟩, ⟨.arg, [], []⟩, ⟨.arg, [], []⟩, ⟨.arg, [], []⟩]   -- 4 3 2 1 0
  main := ⟨[0, 1, 2, 3, 4], [⟨11, 0⟩]⟩

/-- What `build(..., drop_unused_inputs=True)` returns: inputs `n x c u`, not `z`. -/
def deepUDropped : EGraph :=
  .mk [0, 1, 2, 3]
    [.mk 11 [
      .mk [] [.mk 10 [
        .mk [5, 6, 7] [.mk 9 [
          .mk [] [.mk 8 []] [⟨8, 0⟩],
          .mk [] [] [⟨7, 0⟩]]] [⟨6, 0⟩, ⟨9, 0⟩]]] [⟨10, 0⟩],
      .mk [] [] [⟨1, 0⟩]]]
    [⟨11, 0⟩]

/-- A listing that looks for reads in the main graph and first-level bodies only loses `u`. -/
def deepUDepth1 : EGraph :=
  match deepUDropped with
  | .mk _ body res => .mk [0, 1, 2] body res

example : wfCheck deepU.nodes = true := by decide
example : usedArgs deepU.nodes deepU.main = [0, 1, 2, 3] := by decide
example : validG deepU.nodes deepUDropped (dropUnused deepU.nodes deepU.main) [] = true := by decide
-- n = 2, x = 5, c = 1, u = 7 (z = 99 is not fed):  acc: 5 → 12 → 19
example : usedVals (needed deepU.nodes (deepU.main.results.map (·.node))).contains deepU.main.args
    [2, 5, 1, 7, (99 : Int)] = [2, 5, 1, 7] := by decide
example : evalG exSem deepU.nodes deepUDropped (fun _ => none) [2, 5, 1, 7] = some [19] := by decide
example : denoteG exSem deepU.nodes (fun _ => 0) deepU.main [2, 5, 1, 7, 99] = [19] := by decide
example (vals : List Int) :
    evalG exSem deepU.nodes deepUDropped (fun _ => none)
        (usedVals (needed deepU.nodes (deepU.main.results.map (·.node))).contains deepU.main.args vals)
      = some (denoteG exSem deepU.nodes (fun _ => 0) deepU.main vals) :=
  drop_unused_inputs_sound exSem deepU.nodes (wfCheck_sound _ (by decide)) _ deepU.main (by decide) _ vals
example : argsLeaf deepU.nodes = true := by decide
example : ∀ a ∈ deepU.main.args, isArg deepU.nodes a = true ∧ notFormal deepU.nodes a = true := by decide
/-- the theorem instantiated: whatever accepted emission lists inputs `args'`, `u` (3) is among them -/
example (e : EGraph) (args' : List Nat) (hv : validG deepU.nodes e ⟨args', deepU.main.results⟩ [] = true) :
    3 ∈ args' :=
  usedArgs_least deepU.nodes (by decide) e deepU.main args' hv (by decide) 3 (by decide)
/-- dropping the input that is read only at depth 3: rejected, and the value is not the dataflow's -/
example : validG deepU.nodes deepUDepth1 ⟨[0, 1, 2], [⟨11, 0⟩]⟩ [] = false := by decide
example : evalG exSem deepU.nodes deepUDepth1 (fun _ => none) [2, 5, 1]
    ≠ some (denoteG exSem deepU.nodes (fun _ => 0) deepU.main [2, 5, 1, 7, 99]) := by decide

/-! ### Round 10 non-vacuity -/

/-- `nestedIf` written differently: an unrequested argument `w` created first, an unrequested `x * w` created
    in between, everything else shifted.  0 w, 1 b, 2 c, 3 x, 4 y, 5 x*w, 6 x+y, 7 If c, 8 If b, 9 r + x. -/
def nestedIfOther : Program where
  nodes := [
    ⟨.op 0, [some ⟨8, 0⟩, some ⟨3, 0⟩], []⟩,
    ⟨.op 2, [some ⟨1, 0⟩], [⟨[], [⟨7, 0⟩]⟩, ⟨[], [⟨4, 0⟩]⟩]⟩,
    ⟨.op 2, [some ⟨2, 0⟩], [⟨[], [⟨6, 0⟩]⟩, ⟨[], [⟨4, 0⟩]⟩]⟩,
    ⟨.op 0, [some ⟨3, 0⟩, some ⟨4, 0⟩], []⟩,
    ⟨.op 1, [some ⟨3, 0⟩, some ⟨0, 0⟩], []⟩,
    ⟨.arg, [], []⟩, ⟨.arg, [], []⟩, ⟨.arg, [], []⟩, ⟨.arg, [], []⟩, ⟨.arg, [], []⟩]
  main := ⟨[1, 2, 3, 4], [⟨9, 0⟩]⟩

def nestedIfSigma : List Nat := [1, 2, 3, 4, 6, 7, 8, 9]

/-- an accepted emission of the other program (here: `x + y` hoisted to the main graph) -/
def nestedIfOtherEmission : EGraph :=
  .mk [1, 2, 3, 4]
    [.mk 6 [],
     .mk 8 [.mk [] [.mk 7 [.mk [] [] [⟨6, 0⟩], .mk [] [] [⟨4, 0⟩]]] [⟨7, 0⟩], .mk [] [] [⟨4, 0⟩]],
     .mk 9 []]
    [⟨9, 0⟩]

example : wfCheck nestedIfOther.nodes = true := by decide
example : sigmaOk nestedIfSigma 100 = true := by decide
example : mapGraph (sigmaOf nestedIfSigma 100) nestedIf.main = nestedIfOther.main := by decide
example : embedsNeeded nestedIf.nodes nestedIfOther.nodes (sigmaOf nestedIfSigma 100)
    (nestedIf.main.results.map (·.node)) = true := by decide
example : validG nestedIfOther.nodes nestedIfOtherEmission nestedIfOther.main [] = true := by decide
/-- the theorem instantiated: same outputs on all inputs, whatever `w` and `x * w` are -/
example (vals : List Int) :
    evalG exSem nestedIf.nodes nestedIfEmission (fun _ => none) vals
      = evalG exSem nestedIfOther.nodes nestedIfOtherEmission (fun _ => none) vals :=
  needed_part_decides_values_checked exSem nestedIf.nodes nestedIfOther.nodes nestedIfSigma 100 nestedIf.main
    (by decide) (by decide) (by decide) (by decide) _ _ (by decide) (by decide) vals
/-- a program in which a NEEDED node differs (`x * y` where `x + y` was) does not embed, and computes
    another value -/
def nestedIfChanged : List PNode :=
  match nestedIfOther.nodes with
  | a :: b :: c :: _ :: rest => a :: b :: c :: ⟨.op 1, [some ⟨3, 0⟩, some ⟨4, 0⟩], []⟩ :: rest
  | l => l
example : embedsNeeded nestedIf.nodes nestedIfChanged (sigmaOf nestedIfSigma 100)
    (nestedIf.main.results.map (·.node)) = false := by decide
example : evalG exSem nestedIfChanged nestedIfOtherEmission (fun _ => none) [1, 1, 10, 5] = some [60] := by
  decide
/-- a table with a repetition is refused -/
example : sigmaOk [1, 2, 2] 100 = false := by decide

/-- A second build over the same program: `x + y` requested as well and listed first, the inputs handed over
    in the reverse order.  `x + y` must now be emitted in the main graph — another emission. -/
def nestedIfSecondBuild : EGraph :=
  .mk [3, 2, 1, 0]
    [.mk 4 [],
     .mk 6 [.mk [] [.mk 5 [.mk [] [] [⟨4, 0⟩], .mk [] [] [⟨3, 0⟩]]] [⟨5, 0⟩], .mk [] [] [⟨3, 0⟩]],
     .mk 7 []]
    [⟨4, 0⟩, ⟨7, 0⟩]
example : validG nestedIf.nodes nestedIfSecondBuild ⟨[3, 2, 1, 0], [⟨4, 0⟩, ⟨7, 0⟩]⟩ [] = true := by decide
example : evalG exSem nestedIf.nodes nestedIfSecondBuild (fun _ => none) [5, 10, 1, 1] = some [15, 25] := by
  decide
/-- the theorem instantiated: output 0 of the first build = output 1 of the second, for all inputs -/
example (b c x y : Int) :
    (evalG exSem nestedIf.nodes nestedIfEmission (fun _ => none) [b, c, x, y]).map (·[0]?)
      = (evalG exSem nestedIf.nodes nestedIfSecondBuild (fun _ => none) [y, x, c, b]).map (·[1]?) :=
  other_request_same_values exSem nestedIf.nodes (wfCheck_sound _ (by decide))
    [0, 1, 2, 3] [3, 2, 1, 0] [⟨7, 0⟩] [⟨4, 0⟩, ⟨7, 0⟩] _ _ (by decide) (by decide)
    [b, c, x, y] [y, x, c, b] rfl rfl (by decide)
    (List.reverse_perm [(3, y), (2, x), (1, c), (0, b)]) 0 1 rfl

/-- the default build of `deepU` (all five inputs listed) and its drop build agree -/
def deepUDefault : EGraph :=
  match deepUDropped with
  | .mk _ body res => .mk [0, 1, 2, 3, 4] body res
example : validG deepU.nodes deepUDefault deepU.main [] = true := by decide
example (vals : List Int) :
    evalG exSem deepU.nodes deepUDropped (fun _ => none)
        (usedVals (needed deepU.nodes (deepU.main.results.map (·.node))).contains deepU.main.args vals)
      = evalG exSem deepU.nodes deepUDefault (fun _ => none) vals :=
  default_and_drop_builds_agree exSem deepU.nodes (wfCheck_sound _ (by decide)) _ _ deepU.main
    (by decide) (by decide) vals

/-- `needed_part_decides_denotation` instantiated: the bindings need to agree on the eight needed ids only (not on
    `w`, whose value `b'` may choose freely) -/
example (b b' : Nat → Int) (hb : ∀ a ∈ [0, 1, 2, 3, 4, 5, 6, 7], b' (sigmaOf nestedIfSigma 100 a) = b a) :
    denote exSem nestedIfOther.nodes b' ⟨9, 0⟩ = denote exSem nestedIf.nodes b ⟨7, 0⟩ := by
  have h := needed_part_decides_denotation exSem nestedIf.nodes nestedIfOther.nodes
    (wfCheck_sound _ (by decide)) (wfCheck_sound _ (by decide)) _
    (sigmaOf_injective nestedIfSigma 100 (by decide)) [⟨7, 0⟩] (by decide) b b'
    (fun a ha => hb a (by revert a; decide))
  simpa [mapRef, sigmaOf, nestedIfSigma] using h

/-- `needed_part_decides_denotation_args` instantiated: the bindings need to agree on `b c x y` only — not on the
    operator ids 4–7, not on `w` -/
example (b b' : Nat → Int) (hb : ∀ a ∈ [0, 1, 2, 3], b' (sigmaOf nestedIfSigma 100 a) = b a) :
    denote exSem nestedIfOther.nodes b' ⟨9, 0⟩ = denote exSem nestedIf.nodes b ⟨7, 0⟩ := by
  have h := needed_part_decides_denotation_args exSem nestedIf.nodes nestedIfOther.nodes
    (wfCheck_sound _ (by decide)) (wfCheck_sound _ (by decide)) _
    (sigmaOf_injective nestedIfSigma 100 (by decide)) [⟨7, 0⟩] (by decide) b b'
    (fun a ha hA => hb a ((by decide : ∀ a ∈ needed nestedIf.nodes (([⟨7, 0⟩] : List VarRef).map VarRef.node),
      isArg nestedIf.nodes a = true → a ∈ [0, 1, 2, 3]) a ha hA))
  simpa [mapRef, sigmaOf, nestedIfSigma] using h
/-- and the hypothesis is not vacuous there: needed ids that are no arguments exist (4 = `x + y`) -/
example : 4 ∈ needed nestedIf.nodes [7] ∧ isArg nestedIf.nodes 4 = false := by decide

end C01
