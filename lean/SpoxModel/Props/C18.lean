/-! Property theorems for C18 (only property-level statements and non-vacuity examples live here). -/
