import SpoxModel.Lemmas.Emit
import SpoxModel.Model.Custom
import SpoxModel.Model.CustomInline
import SpoxModel.Generated.AdaptAttrInventory
import SpoxModel.Props.C04
import SpoxModel.Props.C01
import SpoxModel.Lemmas.Prog
/-!
# C18 — user-defined operators are emitted verbatim and compose like standard ones

Property theorems only. The model (`Model/Custom.lean`, `Model/Emit.lean`) is tied to the code by
correspondence (H): every run synthesises operator classes, instantiates them on the real spox and
compares NodeProto, opset imports, output Var types/values and warnings with these definitions.
-/
namespace C18
open Emit Custom

variable {α β T V : Type}

/-! ## emission -/

/-- **custom_verbatim.** A user-defined operator is emitted as exactly one node carrying the
    declared operator name and domain; its inputs (and outputs) are the full positional list in
    declared field order — variadics flattened in place, `""` (`none`) for every absent optional,
    *nothing trimmed*; its attributes are exactly the ones that are set, under the names their
    `Attr` objects carry, in declared order. -/
theorem custom_verbatim (n : NodeIn α β) :
    ∃ p, toOnnx n = [p] ∧ p.opType = n.opType ∧ p.domain = n.domain ∧
      p.inputs = flatten n.inputs ∧ p.outputs = flatten n.outputs ∧
      p.attrs = n.attrs.filterMap id := by
  refine ⟨_, rfl, rfl, rfl, ?_, ?_, ?_⟩
  · exact trim_len _
  · exact trim_len _
  · exact emitAttrs_eq_filterMap _

/-- the number of emitted input names is the number of declared slots (after flattening) -/
theorem custom_arity (n : NodeIn α β) (p : NodeOut α β) (h : toOnnx n = [p]) :
    p.inputs.length = len n.inputs ∧ p.outputs.length = len n.outputs := by
  obtain ⟨q, hq, _, _, hi, ho, _⟩ := custom_verbatim n
  rw [hq] at h; cases h
  simp [hi, ho, len]

/-- **custom_slot_offset.** Declared input positions are kept for *every* field arrangement — a
    variadic field first, in the middle or last, any number of members, optionals set or unset before
    and after it: the field that follows the fields `pre` starts at the flattened length of `pre`
    (`len pre`, what `len(self.inputs)` counts), a Single/Optional field occupying exactly that
    position (`""` when unset — also at the very tail), a Variadic one its `vs.length` positions. -/
theorem custom_slot_offset (pre post : List (Arg α)) (a : Arg α) :
    match a with
    | .single v => (emitSlotsCustom (pre ++ a :: post))[len pre]? = some (some v)
    | .opt v => (emitSlotsCustom (pre ++ a :: post))[len pre]? = some v
    | .variadic vs => ∀ i, i < vs.length →
        (emitSlotsCustom (pre ++ a :: post))[len pre + i]? = (vs[i]?).map some := by
  have hc : emitSlotsCustom (pre ++ a :: post) = flatten pre ++ flatten (a :: post) := by
    rw [show emitSlotsCustom (pre ++ a :: post) = flatten (pre ++ a :: post) from trim_len _, flatten_append]
  cases a with
  | single v => simp [hc, len, flatten]
  | opt v => simp [hc, len, flatten]
  | variadic vs =>
    intro i hi
    rw [hc, len, List.getElem?_append_right (by omega)]
    simp [flatten, List.getElem?_append_left, hi]

/-- **custom_length_is_flattened.** The emitted list has one name per *flattened* position — the sum
    of the field sizes, not the number of declared fields. -/
theorem custom_length_is_flattened (args : List (Arg α)) :
    (emitSlotsCustom args).length =
      (args.map fun a => match a with | .variadic vs => vs.length | _ => 1).sum := by
  rw [show emitSlotsCustom args = flatten args from trim_len _]
  induction args with
  | nil => rfl
  | cons a rest ih => cases a <;> simp [flatten, ih] <;> omega

/-- **fields_len_counterexample.** Why `len(self.inputs)` must count flattened positions: with the
    number of declared *fields* as minimum (3 here), `xs=[a,b,c], scale=None, bias=None` would lose its
    two trailing declared positions. -/
theorem fields_len_counterexample :
    emitSlots 3 [Arg.variadic ["a", "b", "c"], .opt none, .opt none] = [some "a", some "b", some "c"] ∧
    emitSlotsCustom [Arg.variadic ["a", "b", "c"], .opt none, .opt none]
      = [some "a", some "b", some "c", none, none] := by decide

/-- **custom_identity_free.** One Var in several declared inputs changes nothing: emission of a
    user-defined operator commutes with any (non-injective) renaming of its arguments. -/
theorem custom_identity_free {γ : Type} (f : α → γ) (n : NodeIn α β) :
    toOnnx { n with inputs := n.inputs.map (Arg.map f), outputs := n.outputs.map (Arg.map f) } =
      (toOnnx n).map fun p =>
        { opType := p.opType, domain := p.domain, inputs := p.inputs.map (Option.map f),
          outputs := p.outputs.map (Option.map f), attrs := p.attrs } := by
  simp [toOnnx, emitNode, emitSlotsCustom_map]

/-! ## opset imports -/

theorem mem_domainsOf (reqs : List (String × Nat)) (d : String) :
    d ∈ domainsOf reqs ↔ ∃ r ∈ reqs, normDomain r.1 = d := by
  induction reqs with
  | nil => simp [domainsOf]
  | cons r rest ih =>
    obtain ⟨d', v⟩ := r
    simp only [domainsOf]
    split
    · rename_i hc
      rw [ih]
      constructor
      · rintro ⟨r, hr, he⟩; exact ⟨r, List.mem_cons_of_mem _ hr, he⟩
      · rintro ⟨r, hr, he⟩
        rcases List.mem_cons.mp hr with h | h
        · subst h
          have hthis : normDomain d' ∈ domainsOf rest := by simpa using hc
          have he' : normDomain d' = d := he
          exact ih.mp (he' ▸ hthis)
        · exact ⟨r, h, he⟩
    · simp only [List.mem_cons, ih]
      constructor
      · rintro (h | ⟨r, hr, he⟩)
        · exact ⟨(d', v), Or.inl rfl, h.symm⟩
        · exact ⟨r, Or.inr hr, he⟩
      · rintro ⟨r, hr | hr, he⟩
        · subst hr; exact Or.inl he.symm
        · exact Or.inr ⟨r, hr, he⟩

theorem domainsOf_nodup (reqs : List (String × Nat)) : (domainsOf reqs).Nodup := by
  induction reqs with
  | nil => simp [domainsOf]
  | cons r rest ih =>
    obtain ⟨d', v⟩ := r
    simp only [domainsOf]
    split
    · exact ih
    · rename_i hc
      exact List.nodup_cons.mpr ⟨by simpa using hc, ih⟩

theorem maxFor_ge (d : String) (reqs : List (String × Nat)) (r : String × Nat)
    (hr : r ∈ reqs) (hd : normDomain r.1 = d) : r.2 ≤ maxFor d reqs := by
  induction reqs with
  | nil => cases hr
  | cons x rest ih =>
    obtain ⟨d', v⟩ := x
    simp only [maxFor]
    rcases List.mem_cons.mp hr with h | h
    · subst h; simp [hd]; omega
    · have := ih h
      split <;> omega

theorem maxFor_attained (d : String) (reqs : List (String × Nat))
    (h : ∃ r ∈ reqs, normDomain r.1 = d) :
    ∃ r ∈ reqs, normDomain r.1 = d ∧ r.2 = maxFor d reqs := by
  induction reqs with
  | nil => obtain ⟨r, hr, _⟩ := h; cases hr
  | cons x rest ih =>
    obtain ⟨d', v⟩ := x
    simp only [maxFor]
    by_cases hx : normDomain d' = d
    · simp only [hx, beq_self_eq_true, if_true]
      by_cases hrest : ∃ r ∈ rest, normDomain r.1 = d
      · obtain ⟨r, hr, hd, hm⟩ := ih hrest
        by_cases hv : maxFor d rest ≤ v
        · exact ⟨(d', v), List.mem_cons_self, hx, by simp [Nat.max_eq_left hv]⟩
        · exact ⟨r, List.mem_cons_of_mem _ hr, hd, by simp [hm]; omega⟩
      · have h0 : maxFor d rest = 0 := by
          clear ih h
          induction rest with
          | nil => rfl
          | cons y ys ihy =>
            obtain ⟨d2, v2⟩ := y
            simp only [maxFor]
            have hne : ¬ normDomain d2 = d := fun e => hrest ⟨(d2, v2), List.mem_cons_self, e⟩
            have : (normDomain d2 == d) = false := by simpa using hne
            rw [this]
            exact ihy (fun ⟨r, hr, he⟩ => hrest ⟨r, List.mem_cons_of_mem _ hr, he⟩)
        exact ⟨(d', v), List.mem_cons_self, hx, by simp [h0]⟩
    · have hb : (normDomain d' == d) = false := by simpa using hx
      simp only [hb]
      obtain ⟨r, hr, hd⟩ := h
      rcases List.mem_cons.mp hr with h1 | h1
      · subst h1; exact absurd hd hx
      · obtain ⟨r', hr', hd', hm'⟩ := ih ⟨r, h1, hd⟩
        exact ⟨r', List.mem_cons_of_mem _ hr', hd', by simpa using hm'⟩

/-- **custom_import.** Whatever the program's requirement set is (any mix of standard operators,
    several user-defined operators of the same or different domains, at any versions): for every
    requirement `(d, v)` — in particular the `(domain, version)` of every custom node — the opset
    imports contain exactly one entry for `d`, its version is the *highest* version required for
    `d` by anything in the program (so `≥ v`, and some node really asks for it). -/
theorem custom_import (reqs : List (String × Nat)) (d : String) (v : Nat) (h : (d, v) ∈ reqs) :
    let imports := maxOpsetPolicy reqs
    (normDomain d, maxFor (normDomain d) reqs) ∈ imports ∧
    (∀ w, (normDomain d, w) ∈ imports → w = maxFor (normDomain d) reqs) ∧
    (imports.map (·.1)).Nodup ∧
    v ≤ maxFor (normDomain d) reqs ∧
    (∃ r ∈ reqs, normDomain r.1 = normDomain d ∧ r.2 = maxFor (normDomain d) reqs) ∧
    (∀ r ∈ reqs, normDomain r.1 = normDomain d → r.2 ≤ maxFor (normDomain d) reqs) := by
  have hmem : normDomain d ∈ domainsOf reqs := (mem_domainsOf reqs _).mpr ⟨(d, v), h, rfl⟩
  refine ⟨?_, ?_, ?_, ?_, ?_, ?_⟩
  · exact List.mem_map.mpr ⟨_, hmem, rfl⟩
  · intro w hw
    obtain ⟨d2, _, he⟩ := List.mem_map.mp hw
    cases he; rfl
  · simp only [maxOpsetPolicy, List.map_map]
    have : ((fun x : String × Nat => x.1) ∘ fun d => (d, maxFor d reqs)) = id := rfl
    rw [this, List.map_id]; exact domainsOf_nodup reqs
  · exact maxFor_ge _ reqs (d, v) h rfl
  · exact maxFor_attained _ reqs ⟨(d, v), h, rfl⟩
  · intro r hr he; exact maxFor_ge _ reqs r hr he

/-- a custom domain is never folded into the default one -/
theorem custom_domain_kept (d : String) (h : d ≠ "ai.onnx") : normDomain d = d := by
  simp [normDomain, h]

/-! ## hooks -/

/-- **hooks_determine.** After `Node.inference`, for every output Var (same keys, same order):
    * its type is what it was if it had one, else exactly the type hook's entry for its key (keys
      the hook does not mention stay untyped; keys that are no outputs are ignored);
    * its value is what it was if it had one, else the value hook's entry for its key *iff* the Var
      is typed and the entry passes `check` against that type; otherwise it stays without value;
    nothing else enters: the result is a function of the two hook results and `check` alone. -/
theorem hooks_determine (check : T → V → Bool) (thook : List (String × T))
    (vhook : List (String × V)) (outs : List (OutState T V)) :
    (inference check thook vhook outs).1 = outs.map fun o =>
      let ty := match o.type with
        | some t => some t
        | none => lookup thook o.key
      { key := o.key, type := ty,
        value := match o.value with
          | some v => some v
          | none => match ty, lookup vhook o.key with
            | some t, some v => if check t v then some v else none
            | _, _ => none } := by
  simp only [inference, List.map_map]
  apply List.map_congr_left
  intro o _
  obtain ⟨k, ty, va⟩ := o
  cases ty <;> cases va <;> simp only [Function.comp, mergeType, mergeValue] <;>
    cases h1 : lookup thook k <;> cases h2 : lookup vhook k <;> simp <;>
    (try (split <;> simp_all))

/-- **missing hooks.** Without hooks (or with hooks returning nothing) every output Var stays
    untyped and without value, no value warning is raised, and `validate_types` emits exactly one
    "missing type" warning per output (at warning levels above NONE) — a total function: there is
    no error case. -/
theorem no_hooks_untyped (check : T → V → Bool) (keys : List String) (level : Nat)
    (concrete : T → Bool) (inTypes : List (Option T)) (hl : 0 < level) :
    (inference check [] [] (freshOuts keys)).1 = freshOuts keys ∧
    (inference check [] [] (freshOuts keys : List (OutState T V))).2 = [] ∧
    ∀ k, Warn.missing k ∈ validateWarnings level concrete inTypes
        (inference check [] [] (freshOuts keys : List (OutState T V))).1 ↔ k ∈ keys := by
  have h1 : (inference check [] [] (freshOuts keys : List (OutState T V))).1 = freshOuts keys := by
    rw [hooks_determine]
    simp [freshOuts, lookup]
  refine ⟨h1, ?_, ?_⟩
  · simp only [inference, freshOuts, List.map_map, List.flatMap_eq_nil_iff]
    intro l hl
    obtain ⟨k, _, rfl⟩ := List.mem_map.mp hl
    simp [mergeType, mergeValue, lookup]
  · intro k
    rw [h1]
    have hne : level ≠ 0 := by omega
    have hmiss : ∀ (l : List (OutState T V)), l = freshOuts keys →
        (Warn.missing k ∈ l.filterMap (fun o => if o.type.isNone then some (Warn.missing o.key) else none)
          ↔ k ∈ keys) := by
      intro l hl; subst hl
      simp [freshOuts, List.mem_filterMap]
    have hnc : ∀ (l : List (OutState T V)), l = freshOuts keys →
        ¬ Warn.missing k ∈ l.filterMap (fun o => match o.type with
          | some t => if concrete t then none else some (Warn.notConcrete o.key)
          | none => none) := by
      intro l hl; subst hl
      simp [freshOuts, List.mem_filterMap]
    simp only [validateWarnings, if_neg hne]
    split
    · exact hmiss _ rfl
    · split
      · exact hmiss _ rfl
      · rw [List.mem_append]
        constructor
        · rintro (h | h)
          · exact (hmiss _ rfl).mp h
          · exact absurd h (hnc _ rfl)
        · intro h; exact Or.inl ((hmiss _ rfl).mpr h)

/-- **validate_warnings_exact** (round 10; `no_hooks_untyped` lifted from fresh outputs to every state the
    hooks can leave behind). For *any* output Vars (typed, untyped, concrete or not, any hook results
    behind them), any input types and any `TypeWarningLevel`, `Node.validate_types` raises exactly:
    * one "type is missing" warning for each untyped output — at every level above NONE;
    * one "was not concrete" warning for each output whose type is not concrete — at level OUTPUTS (3) and
      above always, at level INITIAL (2) only when every input is typed and concrete, never below;
    and nothing else (in particular never a "dropping" warning, and never an error: the function is total). -/
theorem validate_warnings_exact (level : Nat) (concrete : T → Bool) (inTypes : List (Option T))
    (outs : List (OutState T V)) (w : Warn) :
    w ∈ validateWarnings level concrete inTypes outs ↔
      (0 < level ∧ ∃ o ∈ outs, o.type = none ∧ w = Warn.missing o.key) ∨
      ((3 ≤ level ∨ (level = 2 ∧ ∀ it ∈ inTypes, ∃ t', it = some t' ∧ concrete t' = true)) ∧
        ∃ o ∈ outs, ∃ t, o.type = some t ∧ concrete t = false ∧ w = Warn.notConcrete o.key) := by
  have hm : w ∈ outs.filterMap (fun o => if o.type.isNone then some (Warn.missing o.key) else none) ↔
      ∃ o ∈ outs, o.type = none ∧ w = Warn.missing o.key := by
    simp only [List.mem_filterMap]
    constructor
    · rintro ⟨o, ho, h⟩
      cases ht : o.type with
      | none => simp [ht] at h; exact ⟨o, ho, ht, h.symm⟩
      | some t => simp [ht] at h
    · rintro ⟨o, ho, ht, rfl⟩
      exact ⟨o, ho, by simp [ht]⟩
  have hn : ∀ g : OutState T V → Option Warn,
      (∀ o, g o = match o.type with
        | some t => if concrete t then none else some (Warn.notConcrete o.key)
        | none => none) →
      (w ∈ outs.filterMap g ↔
        ∃ o ∈ outs, ∃ t, o.type = some t ∧ concrete t = false ∧ w = Warn.notConcrete o.key) := by
    intro g hg
    simp only [List.mem_filterMap]
    constructor
    · rintro ⟨o, ho, h⟩
      rw [hg o] at h
      cases ht : o.type with
      | none => simp [ht] at h
      | some t =>
        simp only [ht] at h
        by_cases hc : concrete t = true
        · simp [hc] at h
        · simp [hc] at h
          exact ⟨o, ho, t, ht, by simpa using hc, h.symm⟩
    · rintro ⟨o, ho, t, ht, hc, rfl⟩
      exact ⟨o, ho, by rw [hg o]; simp [ht, hc]⟩
  have hall : ∀ f : Option T → Bool, (∀ x, f x = true ↔ ∃ t', x = some t' ∧ concrete t' = true) →
      (inTypes.all f = true ↔ ∀ it ∈ inTypes, ∃ t', it = some t' ∧ concrete t' = true) := by
    intro f hf
    simp only [List.all_eq_true]
    exact forall_congr' fun it => imp_congr Iff.rfl (hf it)
  by_cases h0 : level = 0
  · simp [validateWarnings, h0]
  · simp only [validateWarnings]
    rw [if_neg h0]
    by_cases h1 : level ≤ 1
    · rw [if_pos h1, hm]
      constructor
      · intro h; exact Or.inl ⟨by omega, h⟩
      · rintro (⟨_, h⟩ | ⟨hl, _⟩)
        · exact h
        · omega
    · rw [if_neg h1]
      split
      · rename_i hc
        simp only [Bool.and_eq_true, Bool.not_eq_true', decide_eq_true_eq] at hc
        obtain ⟨hAf, h2⟩ := hc
        have hA' : ¬ ∀ it ∈ inTypes, ∃ t', it = some t' ∧ concrete t' = true := by
          have key : ∀ f : Option T → Bool, inTypes.all f = false →
              (∀ x, f x = true ↔ ∃ t', x = some t' ∧ concrete t' = true) →
              ¬ ∀ it ∈ inTypes, ∃ t', it = some t' ∧ concrete t' = true := by
            intro f hf hx h
            have := (hall f hx).2 h
            rw [this] at hf
            cases hf
          exact key _ hAf (fun x => by cases x <;> simp)
        rw [hm]
        constructor
        · intro h; exact Or.inl ⟨by omega, h⟩
        · rintro (⟨_, h⟩ | ⟨hl, _⟩)
          · exact h
          · rcases hl with hl | ⟨_, hl⟩
            · omega
            · exact absurd hl hA'
      · rename_i hc
        simp only [Bool.and_eq_true, Bool.not_eq_true', decide_eq_true_eq, not_and] at hc
        have hdis : 3 ≤ level ∨ (level = 2 ∧ ∀ it ∈ inTypes, ∃ t', it = some t' ∧ concrete t' = true) := by
          by_cases hA : ∀ it ∈ inTypes, ∃ t', it = some t' ∧ concrete t' = true
          · by_cases h3 : 3 ≤ level
            · exact Or.inl h3
            · exact Or.inr ⟨by omega, hA⟩
          · have key : ∀ f : Option T → Bool, (inTypes.all f = false → ¬ level ≤ 2) →
                (∀ x, f x = true ↔ ∃ t', x = some t' ∧ concrete t' = true) → ¬ level ≤ 2 := by
              intro f hf hx
              apply hf
              have := (not_congr (hall f hx)).2 hA
              simpa using this
            have := key _ hc (fun x => by cases x <;> simp)
            exact Or.inl (by omega)
        rw [List.mem_append, hm, hn _ (fun o => by cases o with | mk k t v => cases t <;> rfl)]
        constructor
        · rintro (h | h)
          · exact Or.inl ⟨by omega, h⟩
          · exact Or.inr ⟨hdis, h⟩
        · rintro (⟨_, h⟩ | ⟨_, h⟩)
          · exact Or.inl h
          · exact Or.inr h

/-- a typed-but-symbolic output next to an untyped one, inputs concrete: level 1 reports only the missing
    type, level 2 both; with an untyped input level 2 falls back to the missing type, level 3 does not -/
example :
    let outs : List (OutState Nat Nat) := [⟨"a", some 7, none⟩, ⟨"b", none, none⟩]
    let conc : Nat → Bool := fun t => t < 5
    validateWarnings 1 conc [some 1] outs = [Warn.missing "b"] ∧
    validateWarnings 2 conc [some 1] outs = [Warn.missing "b", Warn.notConcrete "a"] ∧
    validateWarnings 2 conc [some 1, none] outs = [Warn.missing "b"] ∧
    validateWarnings 3 conc [some 1, none] outs = [Warn.missing "b", Warn.notConcrete "a"] ∧
    validateWarnings 0 conc [some 1] outs = [] := by decide

/-! ### `validate_types`: the exact list (round 10c — multiplicities and order, not only membership) -/

/-- `validate_types` with the two case distinctions abstracted (`f` = "this input is typed and concrete",
    `g` = "the not-concrete warning of this output, if any") -/
def vwGen (f : Option T → Bool) (g : OutState T V → Option Warn) (level : Nat)
    (inTypes : List (Option T)) (outs : List (OutState T V)) : List Warn :=
  if level = 0 then [] else
  let missing := outs.filterMap fun o => if o.type.isNone then some (Warn.missing o.key) else none
  if level ≤ 1 then missing else
  if !(inTypes.all f) && level ≤ 2 then missing else
  missing ++ outs.filterMap g

theorem filterMap_ite_eq_filter_map {α β : Type} (p : α → Bool) (h : α → β) (l : List α) :
    l.filterMap (fun a => if p a then some (h a) else none) = (l.filter p).map h := by
  induction l with
  | nil => rfl
  | cons a rest ih =>
    by_cases hp : p a = true
    · simp [List.filterMap_cons, List.filter_cons, hp, ih]
    · simp [List.filterMap_cons, List.filter_cons, hp, ih]

/-- **validate_warnings_list.** For any outputs, inputs and level the warnings of `Node.validate_types` are, *as a
    list*: nothing at level NONE; otherwise one "type is missing" warning per untyped output, in declaration order,
    followed — iff the level is OUTPUTS or above, or INITIAL with every input typed and concrete — by one "was not
    concrete" warning per output whose type is not concrete, in declaration order. So each warning occurs exactly as
    often as there are such outputs (`validate_warnings_count`), and `validate_warnings_exact` is its membership
    reading. -/
theorem validate_warnings_list (level : Nat) (concrete : T → Bool) (inTypes : List (Option T))
    (outs : List (OutState T V)) :
    validateWarnings level concrete inTypes outs =
      if level = 0 then [] else
        (outs.filter fun o => o.type.isNone).map (fun o => Warn.missing o.key) ++
        if (decide (3 ≤ level) || (decide (level = 2) && inTypes.all fun t => t.any concrete)) = true then
          (outs.filter fun o => o.type.any fun t => !concrete t).map (fun o => Warn.notConcrete o.key)
        else [] := by
  have hgen : validateWarnings level concrete inTypes outs =
      vwGen (fun t => match t with
          | some t => concrete t
          | none => false)
        (fun o => match o.type with
          | some t => if concrete t then none else some (Warn.notConcrete o.key)
          | none => none) level inTypes outs := rfl
  have hf : (fun (t : Option T) => match t with
      | some t => concrete t
      | none => false) = fun t => t.any concrete := by
    funext t; cases t <;> rfl
  have hg : (fun (o : OutState T V) => match o.type with
      | some t => if concrete t then none else some (Warn.notConcrete o.key)
      | none => none) =
      fun o => if (o.type.any fun t => !concrete t) then some (Warn.notConcrete o.key) else none := by
    funext o
    cases o with
    | mk k t v =>
      cases t with
      | none => rfl
      | some t => by_cases hc : concrete t = true <;> simp [hc]
  rw [hgen, hf, hg]
  unfold vwGen
  by_cases h0 : level = 0
  · simp [h0]
  · rw [if_neg h0, if_neg h0]
    simp only [filterMap_ite_eq_filter_map]
    by_cases h1 : level ≤ 1
    · have h3 : ¬ 3 ≤ level := by omega
      have h2 : ¬ level = 2 := by omega
      simp [h1, h3, h2]
    · rw [if_neg h1]
      by_cases h2 : level ≤ 2
      · have h2' : level = 2 := by omega
        have h3 : ¬ 3 ≤ level := by omega
        by_cases hA : (inTypes.all fun t => t.any concrete) = true
        · simp [h2', hA]
        · have hA' : (inTypes.all fun t => t.any concrete) = false := by simpa using hA
          simp [h2', hA']
      · have h3 : 3 ≤ level := by omega
        simp [h2, h3]

/-- **validate_warnings_count.** Above level NONE the number of warnings is the number of untyped outputs plus —
    when the not-concrete check applies — the number of outputs with a non-concrete type. -/
theorem validate_warnings_count (level : Nat) (concrete : T → Bool) (inTypes : List (Option T))
    (outs : List (OutState T V)) (hl : 0 < level) :
    (validateWarnings level concrete inTypes outs).length =
      (outs.filter fun o => o.type.isNone).length +
      if (decide (3 ≤ level) || (decide (level = 2) && inTypes.all fun t => t.any concrete)) = true then
        (outs.filter fun o => o.type.any fun t => !concrete t).length
      else 0 := by
  rw [validate_warnings_list, if_neg (by omega)]
  split <;> simp

/-- two untyped outputs with the SAME key-less shape and two symbolic ones: two + two warnings, in order -/
example :
    let outs : List (OutState Nat Nat) := [⟨"a", some 7, none⟩, ⟨"b", none, none⟩, ⟨"c", some 9, none⟩, ⟨"d", none, none⟩, ⟨"e", some 1, none⟩]
    validateWarnings 3 (fun t => t < 5) [none] outs =
      [Warn.missing "b", Warn.missing "d", Warn.notConcrete "a", Warn.notConcrete "c"] ∧
    (validateWarnings 2 (fun t => t < 5) [none] outs).length = 2 := by decide

/-- every dropped value is reported, and only those -/
theorem dropped_iff (check : T → V → Bool) (thook : List (String × T)) (vhook : List (String × V))
    (outs : List (OutState T V)) (w : Warn) :
    w ∈ (inference check thook vhook outs).2 ↔
      ∃ o ∈ outs, ∃ t v, (mergeType thook o).type = some t ∧ o.value = none ∧
        lookup vhook o.key = some v ∧ check t v = false ∧ w = Warn.dropped o.key := by
  simp only [inference, List.mem_flatMap, List.mem_map]
  constructor
  · rintro ⟨x, ⟨o', ⟨o, ho, rfl⟩, rfl⟩, hw⟩
    refine ⟨o, ho, ?_⟩
    have hk : (mergeType thook o).key = o.key := by unfold mergeType; split <;> rfl
    have hv : (mergeType thook o).value = o.value := by unfold mergeType; split <;> rfl
    unfold mergeValue at hw
    split at hw
    · rename_i t v h1 h2 h3
      split at hw
      · simp at hw
      · rename_i hc
        simp at hw
        exact ⟨t, v, h1, hv ▸ h2, hk ▸ h3, by simpa using hc, by rw [hw, hk]⟩
    · simp at hw
  · rintro ⟨o, ho, t, v, h1, h2, h3, h4, rfl⟩
    refine ⟨_, ⟨_, ⟨o, ho, rfl⟩, rfl⟩, ?_⟩
    have hk : (mergeType thook o).key = o.key := by unfold mergeType; split <;> rfl
    have hv : (mergeType thook o).value = o.value := by unfold mergeType; split <;> rfl
    unfold mergeValue
    rw [h1, hv, h2, hk, h3]
    simp [h4]

/-! ## composition: what is inherited from the Builder theorems (C04)

`Model/BuildAlg.lean` — the model of `spox._build.Builder` the C04 theorems are about — sees a node
only through `isArg`, `inputs` (its dependencies) and `subs` (the Graphs in its attributes); it has
no field for *what kind* of operator a node is. A program with user-defined operators is therefore a
`BuildAlg.Prog` like any other: `KProg.erase` forgets the kinds, and

* `relabel_build` — turning any non-argument node into a user-defined operator of any domain and
  version (or back) leaves `build` — scopes, order, nested emission, error — *unchanged*;
* `custom_composes` — the C04 theorems instantiated at a user-defined operator anywhere in the
  program (top level, any body, any depth): it is emitted exactly once iff a requested output depends
  on it (never otherwise), and it sits in the lowest scope enclosing all its uses.

That the real `Builder` likewise does not look at the node's class is the tie (H) of this part:
every run realises abstract programs twice — with standard operators and with user-defined ones in
their place — and compares the Builder's decisions and the nested emission (harness/props/c18.py,
`relabel_cases`). -/

/-- what kind of operator a node is -/
inductive NodeKind where
  | argument
  | standard (op : String)
  | custom (op : String) (domain : String) (version : Nat)
  | other (what : String)      -- inline, function, initializer, …
  deriving Repr, DecidableEq

def NodeKind.isArg : NodeKind → Bool
  | .argument => true
  | _ => false

structure KNode where
  kind : NodeKind
  inputs : List Nat
  subs : List Nat

/-- a program whose nodes carry their kind -/
structure KProg where
  nodes : List KNode
  graphs : List BuildAlg.PGraph

/-- the Builder's view: kinds forgotten -/
def KProg.erase (p : KProg) : BuildAlg.Prog :=
  { nodes := p.nodes.map fun n => { isArg := n.kind.isArg, inputs := n.inputs, subs := n.subs },
    graphs := p.graphs }

/-- replace the kind of node `i` -/
def KProg.relabel (p : KProg) (i : Nat) (k : NodeKind) : KProg :=
  { p with nodes := p.nodes.mapIdx fun j n => if j = i then { n with kind := k } else n }

theorem erase_relabel (p : KProg) (i : Nat) (k : NodeKind) (n : KNode)
    (hn : p.nodes[i]? = some n) (hk : k.isArg = n.kind.isArg) :
    (p.relabel i k).erase = p.erase := by
  simp only [KProg.erase, KProg.relabel, BuildAlg.Prog.mk.injEq, and_true]
  apply List.ext_getElem?
  intro j
  simp only [List.getElem?_map, List.getElem?_mapIdx]
  cases hj : p.nodes[j]? with
  | none => rfl
  | some m =>
    simp only [Option.map_some]
    by_cases hji : j = i
    · subst hji
      rw [hn] at hj; cases hj
      simp [hk]
    · simp [hji]

/-- **relabel_build.** Swapping a standard operator for a user-defined one (any name, domain,
    version) — or the other way round — anywhere in a program does not change anything the Builder
    computes. -/
theorem relabel_build (p : KProg) (i : Nat) (k : NodeKind) (n : KNode)
    (hn : p.nodes[i]? = some n) (hk : k.isArg = false) (hn' : n.kind.isArg = false) :
    BuildAlg.build (p.relabel i k).erase = BuildAlg.build p.erase := by
  rw [erase_relabel p i k n hn (by rw [hk, hn'])]

/-- **custom_composes.** For a user-defined operator `n` at any position of any well-formed program
    whose build succeeds: exactly one emission if some requested output depends on it, none otherwise;
    and its scope is the lowest one enclosing every graph that uses it. -/
theorem custom_composes (p : KProg) (hwf : BuildAlg.WF p.erase) (b : BuildAlg.Built)
    (tr : List BuildAlg.Ev) (h : BuildAlg.build p.erase = .ok (b, tr))
    (n : Nat) (kn : KNode) (hn : p.nodes[n]? = some kn)
    (op dom : String) (ver : Nat) (hc : kn.kind = .custom op dom ver) :
    (BuildAlg.Reach p.erase.adjFull (.src 0) (.node n) →
      (BuildAlg.emitted tr).count (.node n) = 1) ∧
    (¬ BuildAlg.Reach p.erase.adjFull (.src 0) (.node n) →
      (BuildAlg.emitted tr).count (.node n) = 0) ∧
    (∀ c, b.scopeOf.get (.node n) = some c →
      BuildAlg.LowestP (BuildAlg.parent b.owner b.scopeOf)
        (fun g => g ∈ b.graphTopo ∧ BuildAlg.Reach p.erase.adjIn (.src g) (.node n)) c) := by
  have hna : p.erase.isArg n = false := by
    simp [BuildAlg.Prog.isArg, KProg.erase, List.getElem?_map, hn, hc, NodeKind.isArg]
  obtain ⟨h1, h2⟩ := C04.emitted_once p.erase hwf b tr h n hna
  exact ⟨h1, h2, fun c hc' => C04.least_enclosing p.erase hwf b tr h (.node n) c hc'⟩

/-! ## the declared types are what the Vars report and what the built graph carries -/

section carried
variable {T V : Type}

/-- `Node.inference` on the fresh output Vars works key by key -/
theorem inference_pointwise (check : T → V → Bool) (thook : List (String × T)) (vhook : List (String × V))
    (keys : List String) :
    (inference check thook vhook (freshOuts keys)).1 = keys.map (outAfter check thook vhook) := by
  simp [inference, freshOuts, outAfter, List.map_map, Function.comp]

/-- **declared_type_reported.** The type an output Var of a user-defined operator reports is exactly
    the type hook's entry for its key — `none` (untyped) when the hook has no entry or is absent. -/
theorem declared_type_reported (check : T → V → Bool) (thook : List (String × T))
    (vhook : List (String × V)) (k : String) :
    (outAfter check thook vhook k).type = lookup thook k ∧ (outAfter check thook vhook k).key = k := by
  unfold outAfter mergeType mergeValue
  cases h1 : lookup thook k <;> cases h2 : lookup vhook k <;> simp <;> (try (split <;> simp_all))

/-- **declared_types_carried.** Request any outputs of a user-defined operator as results
    (`req`: result name, output key). If `Graph.to_onnx` produces the result infos at all, then they
    are, in order, each requested name with *exactly the type the hook declared for that key*; in
    particular every requested output had a hook entry (and a concrete one when `concrete=True`). -/
theorem declared_types_carried (check : T → V → Bool) (thook : List (String × T))
    (vhook : List (String × V)) (conc : T → Bool) (rc : Bool) (req : List (String × String))
    (infos : List (String × T))
    (h : resultInfo conc rc (req.map fun p => (p.1, outAfter check thook vhook p.2)) = .ok infos) :
    infos.map (fun i => (i.1, some i.2)) = req.map (fun p => (p.1, lookup thook p.2)) ∧
    (rc = true → ∀ i ∈ infos, conc i.2 = true) := by
  induction req generalizing infos with
  | nil => simp [resultInfo] at h; subst h; simp
  | cons p rest ih =>
    simp only [List.map_cons, resultInfo, (declared_type_reported check thook vhook p.2).1] at h
    cases hl : lookup thook p.2 with
    | none => rw [hl] at h; simp at h
    | some t =>
      rw [hl] at h
      simp only at h
      by_cases hc : (rc && !conc t) = true
      · simp [hc] at h
      · simp only [hc, Bool.false_eq_true, if_false] at h
        cases hr : resultInfo conc rc (rest.map fun p => (p.1, outAfter check thook vhook p.2)) with
        | error e => rw [hr] at h; simp at h
        | ok l =>
          rw [hr] at h
          simp only [Except.ok.injEq] at h
          subst h
          obtain ⟨ih1, ih2⟩ := ih l hr
          refine ⟨by simp [ih1, hl], fun hrc i hi => ?_⟩
          rcases List.mem_cons.mp hi with rfl | hi
          · simpa [hrc] using hc
          · exact ih2 hrc i hi

/-- **untyped_result_refused.** An output without hook entry cannot be made a result: the build
    raises (it is never written out with an invented type). -/
theorem untyped_result_refused (check : T → V → Bool) (thook : List (String × T))
    (vhook : List (String × V)) (conc : T → Bool) (rc : Bool) (req : List (String × String))
    (p : String × String) (hp : p ∈ req) (hn : lookup thook p.2 = none) :
    ∀ infos, resultInfo conc rc (req.map fun p => (p.1, outAfter check thook vhook p.2)) ≠ .ok infos := by
  intro infos h
  have h1 := (declared_types_carried check thook vhook conc rc req infos h).1
  have : (p.1, lookup thook p.2) ∈ req.map (fun p => (p.1, lookup thook p.2)) :=
    List.mem_map.mpr ⟨p, hp, rfl⟩
  rw [← h1, hn] at this
  simp at this

/-- **construct_reports.** `Node.__init__` of a user-defined operator, for every declared output list,
    `out_variadic`, hook results and flag combination: the output Vars are keyed `field` / `field_i` in
    declaration order; each reports exactly the type hook's entry for its key when `infer_types` is on
    and no type at all when it is off (whatever the hook would say); a value only if the Var is typed,
    `propagate_values` is on, the value hook has an entry and it passes `check`. -/
theorem construct_reports (check : T → V → Bool) (thook : List (String × T)) (vhook : List (String × V))
    (fl : Flags) (level : Nat) (conc : T → Bool) (inTypes : List (Option T))
    (decl : List (String × Bool)) (nvar : Nat) :
    let outs := (construct check thook vhook fl level conc inTypes decl nvar).1
    outs.map (·.key) = outKeysOf decl nvar ∧
    (∀ o ∈ outs, o.type = if fl.inferTypes then lookup thook o.key else none) ∧
    (∀ o ∈ outs, ∀ v, o.value = some v →
      fl.propValues = true ∧ lookup vhook o.key = some v ∧ ∃ t, o.type = some t ∧ check t v = true) := by
  simp only [construct]
  rw [inference_pointwise]
  refine ⟨?_, ?_, ?_⟩
  · simp only [List.map_map]
    conv => rhs; rw [← List.map_id (outKeysOf decl nvar)]
    apply List.map_congr_left
    intro k _
    exact (declared_type_reported check _ _ k).2
  · intro o ho
    obtain ⟨k, _, rfl⟩ := List.mem_map.mp ho
    rw [(declared_type_reported check _ _ k).1, (declared_type_reported check _ _ k).2]
    cases fl.inferTypes <;> simp [lookup]
  · intro o ho v hv
    obtain ⟨k, _, rfl⟩ := List.mem_map.mp ho
    have hk := (declared_type_reported check (if fl.inferTypes then thook else []) (if fl.propValues then vhook else []) k)
    rw [hk.2]
    unfold outAfter mergeType mergeValue at hv ⊢
    cases hp : fl.propValues <;> simp only [hp, Bool.false_eq_true, if_false, if_true] at hv ⊢
    · cases h1 : lookup (if fl.inferTypes then thook else []) k <;> simp [h1, lookup] at hv
    · cases h1 : lookup (if fl.inferTypes then thook else []) k <;> cases h2 : lookup vhook k <;>
        simp [h1, h2] at hv ⊢
      split at hv
      · simp at hv; subst hv; simp_all
      · simp at hv


example : (match resultInfo (fun (t : String) => t != "f32[?]") true
      [("r0", outAfter (fun _ (_ : Nat) => true) [("Y", "f32[2]")] [] "Y")] with
    | .ok l => l == [("r0", "f32[2]")]
    | .error _ => false) = true := by decide
example : (match resultInfo (fun (t : String) => t != "f32[?]") true
      [("r0", outAfter (fun _ (_ : Nat) => true) [("Y", "f32[2]")] [] "Z")] with
    | .ok _ => false
    | .error e => e == ResErr.untyped "r0") = true := by decide
example : (match resultInfo (fun (t : String) => t != "f32[?]") true
      [("r0", outAfter (fun _ (_ : Nat) => true) [("Y", "f32[?]")] [] "Y")] with
    | .ok _ => false
    | .error e => e == ResErr.notConcrete "r0") = true := by decide

end carried

/-! ## composition, the C01 half: a user-defined operator is just another operator of the semantics

`Model/Prog.lean` gives a program its meaning relative to an arbitrary operator semantics
`Sem.op : label → inputs → bodies → outputs`, and C01's translation validation (`valid_sound`) holds
for *every* `Sem`. A user-defined operator adds one label whose meaning is whatever the user's
runtime kernel computes (`f`, a function of the node's inputs — a plain `Node` has no bodies);
nothing else changes. Hence user-defined operators inherit C01's build soundness verbatim. -/

section c01
open Prog
variable {Val : Type} [Inhabited Val]

/-- the semantics extended by a user-defined operator with label `c` and kernel `f` -/
def withCustom (S : Sem Val) (c : Nat) (f : List (Option Val) → List Val) : Sem Val :=
  { op := fun l ins bodies => if l = c then f ins else S.op l ins bodies }

/-- **custom_build_sound.** For every semantics of the standard operators, every user-defined
    operator (label `c`, *any* kernel `f`), every well-formed program — custom nodes anywhere: top
    level, inside bodies, feeding or fed by control flow — and every emission the validator accepts:
    running the emitted (nested) graph computes exactly the program's dataflow. -/
theorem custom_build_sound (S : Sem Val) (c : Nat) (f : List (Option Val) → List Val)
    (prog : List PNode) (hwf : WF prog) (e : EGraph) (main : PGraph)
    (hv : validG prog e main [] = true) (b : Nat → Val) (vals : List Val) :
    evalG (withCustom S c f) prog e (fun _ => none) vals
      = some (denoteG (withCustom S c f) prog b main vals) :=
  C01.valid_sound (withCustom S c f) prog hwf e main hv b vals

/-- … inside bodies too (the emission of a body, run where its owner sits) -/
theorem custom_build_sound_nested (S : Sem Val) (c : Nat) (f : List (Option Val) → List Val)
    (prog : List PNode) (hwf : WF prog) (g : EGraph) (pg : PGraph) (env : Env Val) (vis : List Nat)
    (b : Nat → Val) (hv : validG prog g pg vis = true)
    (henv : EnvOK (withCustom S c f) prog env vis b) (vals : List Val) :
    evalG (withCustom S c f) prog g env vals = some (denoteG (withCustom S c f) prog b pg vals) :=
  C01.valid_sound_nested (withCustom S c f) prog hwf g pg env vis b hv henv vals

/-- **custom_node_value.** In that dataflow a custom node's outputs are its kernel applied to the
    values of its inputs in declared order (`none` for an absent optional) — nothing else … -/
theorem custom_node_value (S : Sem Val) (c : Nat) (f : List (Option Val) → List Val)
    (prog : List PNode) (hwf : WF prog) (b : Nat → Val) (k : Nat) (n : PNode)
    (hk : nodeAt prog k = some n) (hc : n.kind = Kind.op c) :
    valAt (table (withCustom S c f) prog b) k
      = f (n.inputs.map (getOpt (table (withCustom S c f) prog b))) := by
  rw [table_unfold _ prog hwf b k n hk]
  simp [nodeVal, hc, Kind.label?, withCustom]

/-- … and every other operator keeps its own meaning next to it. -/
theorem standard_node_value (S : Sem Val) (c : Nat) (f : List (Option Val) → List Val)
    (prog : List PNode) (hwf : WF prog) (b : Nat → Val) (k : Nat) (n : PNode) (l : Nat)
    (hk : nodeAt prog k = some n) (hl : n.kind.label? = some l) (hne : l ≠ c) :
    valAt (table (withCustom S c f) prog b) k
      = S.op l (n.inputs.map (getOpt (table (withCustom S c f) prog b)))
          (n.subs.map fun g => fun vals =>
            g.results.map (getVar (table (withCustom S c f) prog (updArgs b g.args vals)))) := by
  rw [table_unfold _ prog hwf b k n hk]
  simp [nodeVal, hl, withCustom, hne]

/-- non-vacuity: `If(c, then: MyOp(x), else: x)` with the custom node emitted inside the then-branch;
    kernel `MyOp(v) = 3·v` next to the example semantics of C01 -/
def customInIf : List PNode :=
  [ { kind := .op 2, inputs := [some ⟨1, 0⟩],
      subs := [{ args := [], results := [⟨2, 0⟩] }, { args := [], results := [⟨0, 0⟩] }] },
    { kind := .op 99, inputs := [some ⟨0, 0⟩], subs := [] },
    { kind := .arg, inputs := [], subs := [] },
    { kind := .arg, inputs := [], subs := [] } ]

def customInIfEmission : EGraph :=
  .mk [0, 1] [.mk 3 [.mk [] [.mk 2 []] [⟨2, 0⟩], .mk [] [] [⟨0, 0⟩]]] [⟨3, 0⟩]

example : wfCheck customInIf = true ∧
    validG customInIf customInIfEmission { args := [0, 1], results := [⟨3, 0⟩] } [] = true := by decide

example : evalG (withCustom C01.exSem 99 fun ins => [3 * ((ins.getD 0 none).getD 0)]) customInIf
      customInIfEmission (fun _ => none) [5, 1] = some [15] ∧
    evalG (withCustom C01.exSem 99 fun ins => [3 * ((ins.getD 0 none).getD 0)]) customInIf
      customInIfEmission (fun _ => none) [5, 0] = some [5] := by decide

end c01

/-! ## non-vacuity -/

/-- `MyOp(a, None, c, rest=[r0, r1])`: inner *and* trailing absent optionals stay -/
example : (toOnnx ({
      opType := "MyOp", domain := "my.domain", version := 3, mins := none,
      inputs := [Arg.single "a", .opt none, .opt (some "c"), .variadic ["r0", "r1"], .opt none],
      outputs := [Arg.single "y"], attrs := [some ("k", 3), none, some ("s", 7)] } : NodeIn String Nat)) =
    [{ opType := "MyOp", domain := "my.domain",
       inputs := [some "a", none, some "c", some "r0", some "r1", none],
       outputs := [some "y"], attrs := [("k", 3), ("s", 7)] }] := by decide

example : maxOpsetPolicy [("", 17), ("my.domain", 2), ("ai.onnx", 18), ("my.domain", 5), ("other", 1)] =
    [("", 18), ("my.domain", 5), ("other", 1)] := by decide

/-- partial type hook, junk key, ill-typed value -/
example : inference (fun (t : Nat) (v : Nat) => t == v) [("y", 1), ("junk", 9)] [("y", 2), ("z", 1), ("junk", 0)]
      (freshOuts ["y", "z"]) =
    ([⟨"y", some 1, none⟩, ⟨"z", none, none⟩], [Warn.dropped "y"]) := by decide

/-! ## a user-defined operator inside an inlined model, under opset adaptation -/

section adapt
open CustomInline

private theorem filter_default_append (l e : List (String × Nat))
    (he : ∀ i ∈ e, isDefault i.1 = false) :
    (l ++ e).filter (fun i => isDefault i.1) = l.filter (fun i => isDefault i.1) := by
  rw [List.filter_append]
  have : e.filter (fun i => isDefault i.1) = [] := by
    apply List.filter_eq_nil_iff.mpr
    intro i hi; simp [he i hi]
  rw [this, List.append_nil]

/-- **adapt_ignores_foreign.** Whether an inlined model is converted, and from which version to
    which, does not depend on nodes and opset imports of other domains: adding any number of
    user-defined (or `ai.onnx.ml`, `com.microsoft`, …) nodes and imports to a model leaves
    `adapt_inline`'s decision unchanged. -/
theorem adapt_ignores_foreign (m : Inlined) (target : Nat)
    (doms : List String) (imps : List (String × Nat))
    (hd : ∀ d ∈ doms, isDefault d = false) (hi : ∀ i ∈ imps, isDefault i.1 = false) :
    CustomInline.decide { imports := m.imports ++ imps, nodeDomains := m.nodeDomains ++ doms } target =
      CustomInline.decide m target := by
  have h1 : (m.nodeDomains ++ doms).any isDefault = m.nodeDomains.any isDefault := by
    rw [List.any_append]
    have : doms.any isDefault = false := by
      apply List.any_eq_false.mpr
      intro d hd'; simp [hd d hd']
    rw [this, Bool.or_false]
  have h2 : sourceVersion (m.imports ++ imps) target = sourceVersion m.imports target := by
    unfold sourceVersion
    rw [filter_default_append _ _ hi]
  simp only [CustomInline.decide, h1, h2]

/-- **adapt_converts_older.** A model with at least one default-domain node, written against a
    default-domain version other than the target, is converted — whatever else it contains. -/
theorem adapt_converts_older (m : Inlined) (target : Nat)
    (hn : m.nodeDomains.any isDefault = true) (hv : sourceVersion m.imports target ≠ target) :
    CustomInline.decide m target = .convert (sourceVersion m.imports target) target := by
  simp [CustomInline.decide, hn, hv]

/-- **convert_keeps_foreign.** The conversion passes every node of another domain through
    verbatim and in place: the foreign nodes of the result are exactly the foreign nodes of the
    original, in order (given that the converter's rewrites stay in the default domain). -/
theorem convert_keeps_foreign {ν : Type} (dom : ν → String) (conv : ν → List ν) (nodes : List ν)
    (hc : ∀ n, ∀ x ∈ conv n, isDefault (dom x) = true) :
    (convertNodes dom conv nodes).filter (fun n => !isDefault (dom n)) =
      nodes.filter (fun n => !isDefault (dom n)) := by
  induction nodes with
  | nil => rfl
  | cons n rest ih =>
    simp only [convertNodes, List.flatMap_cons, List.filter_append] at ih ⊢
    by_cases h : isDefault (dom n) = true
    · have : (conv n).filter (fun x => !isDefault (dom x)) = [] := by
        apply List.filter_eq_nil_iff.mpr
        intro x hx; simp [hc n x hx]
      simp only [h, if_true, this, List.nil_append, List.filter_cons, Bool.not_true, Bool.false_eq_true, if_false]
      exact ih
    · have h' : isDefault (dom n) = false := by simpa using h
      simp only [h', Bool.false_eq_true, if_false, List.filter_cons, Bool.not_false, if_true,
        List.filter_nil, List.cons_append, List.nil_append]
      exact congrArg _ ih

/-- non-vacuity: ai.onnx 12 + `my.domain` 2 under target 19 is converted 12 → 19, with or
    without the custom node; a model of custom nodes only is kept -/
example : CustomInline.decide { imports := [("", 12), ("my.domain", 2)], nodeDomains := ["my.domain", "", "my.domain"] } 19
    = .convert 12 19 := by decide
example : CustomInline.decide { imports := [("", 12)], nodeDomains := [""] } 19 = .convert 12 19 := by decide
example : CustomInline.decide { imports := [("", 12), ("my.domain", 2)], nodeDomains := ["my.domain"] } 19 = .keep := by decide

/-- **init_constants_shape.** `_initializers_to_constants`: the result has no initializers left unless
    nothing had to be rewritten, its nodes are the Constant nodes of the initializers that are not
    graph inputs (in order) followed by the original nodes, unchanged and in order. -/
theorem init_constants_shape {ν : Type} (mkConst : String → ν) (g : ConvGraph ν) :
    (initializersToConstants mkConst g).nodes =
      (g.initializers.filter (fun n => !g.inputs.contains n)).map mkConst ++ g.nodes ∧
    (g.initializers.filter (fun n => !g.inputs.contains n) ≠ [] →
      (initializersToConstants mkConst g).initializers = []) := by
  unfold initializersToConstants
  cases h : g.initializers.filter (fun n => !g.inputs.contains n) with
  | nil => simp
  | cons c cs => simp

/-- **adapt_nodes_keep_foreign.** Whatever `adapt_inline` decides, and whatever initializers the
    conversion introduces: the nodes of other domains in its result are exactly those of the inlined
    model, verbatim and in order (the converter's rewrites and the added `Constant` nodes are
    default-domain). -/
theorem adapt_nodes_keep_foreign {ν : Type} (dom : ν → String) (conv : ν → List ν)
    (mkConst : String → ν) (d : Decision) (inputs inits : List String) (nodes : List ν)
    (hc : ∀ n, ∀ x ∈ conv n, isDefault (dom x) = true) (hk : ∀ n, isDefault (dom (mkConst n)) = true) :
    (adaptNodes dom conv mkConst d inputs inits nodes).filter (fun n => !isDefault (dom n)) =
      nodes.filter (fun n => !isDefault (dom n)) := by
  cases d with
  | keep => rfl
  | convert s t =>
    simp only [adaptNodes, (init_constants_shape mkConst _).1, List.filter_append]
    have : ((inits.filter (fun n => !inputs.contains n)).map mkConst).filter (fun n => !isDefault (dom n)) = [] := by
      apply List.filter_eq_nil_iff.mpr
      intro x hx
      obtain ⟨n, _, rfl⟩ := List.mem_map.mp hx
      simp [hk n]
    rw [this, List.nil_append]
    exact convert_keeps_foreign dom conv nodes hc

example : (initializersToConstants (fun n => "Constant:" ++ n)
    { inputs := ["X"], initializers := ["pads", "X"], nodes := ["Pad", "my.domain::Op"] }).nodes
    = ["Constant:pads", "Pad", "my.domain::Op"] := by decide
example : (initializersToConstants (fun n => "Constant:" ++ n)
    { inputs := ["X"], initializers := [], nodes := ["Relu"] }).nodes = ["Relu"] := by decide

/-- **adapt_inline_refinement.** The property statements about inlined models with user-defined operators,
    as corollaries of the one model function `adaptInline` (= `adapt_inline`, tied by the driver kinds `adapt`
    and `initconst` and by the generated tables): for every inlined model, target version, converter and set of
    introduced initializers
    1. the nodes of other domains come out verbatim and in order;
    2. nodes and imports of other domains have no influence on what happens to the default-domain nodes
       (the result for the model with them = the result computed with the decision of the model without them);
    3. a model already at the target version is emitted unchanged. -/
theorem adapt_inline_refinement {ν : Type} (dom : ν → String) (conv : ν → List ν) (mkConst : String → ν)
    (m : Inlined) (target : Nat) (inputs inits : List String) (nodes : List ν)
    (hc : ∀ n, ∀ x ∈ conv n, isDefault (dom x) = true) (hk : ∀ n, isDefault (dom (mkConst n)) = true) :
    (adaptInline dom conv mkConst m target inputs inits nodes).filter (fun n => !isDefault (dom n)) =
      nodes.filter (fun n => !isDefault (dom n)) ∧
    (∀ doms imps, (∀ d ∈ doms, isDefault d = false) → (∀ i ∈ imps, isDefault i.1 = false) →
      adaptInline dom conv mkConst { imports := m.imports ++ imps, nodeDomains := m.nodeDomains ++ doms }
        target inputs inits nodes = adaptInline dom conv mkConst m target inputs inits nodes) ∧
    (sourceVersion m.imports target = target →
      adaptInline dom conv mkConst m target inputs inits nodes = nodes) := by
  refine ⟨adapt_nodes_keep_foreign dom conv mkConst _ inputs inits nodes hc hk, ?_, ?_⟩
  · intro doms imps hd hi
    simp only [adaptInline, adapt_ignores_foreign m target doms imps hd hi]
  · intro hv
    simp [adaptInline, CustomInline.decide, hv, adaptNodes]

/-- non-vacuity: Pad-10 next to a custom node under target 19 (the converter makes `pads` an initializer) -/
example : adaptInline (ν := String × String) Prod.fst
      (fun n => [(n.1, n.2 ++ "'")]) (fun n => ("", "Constant:" ++ n))
      { imports := [("", 10), ("my.domain", 2)], nodeDomains := ["my.domain", ""] } 19
      ["X"] ["pads"] [("my.domain", "Op"), ("", "Pad")]
      = [("", "Constant:pads"), ("my.domain", "Op"), ("", "Pad'")] := by decide

/-- **adapt_inline_calls_covered** (tie G). The calls `adapt_inline` makes, as read from the source on this
    run, are the ones the model has a counterpart for (`decide`, `convertNodes`, `initializersToConstants`,
    re-emission): a further processing step added to it breaks this obligation. -/
theorem adapt_inline_calls_covered :
    (Generated.AdaptAttrInventory.adaptFunctions.filter (fun f => f.1 == "adapt_inline")).map (·.2.2.2) =
      [CustomInline.coveredInlineCalls] := by decide +kernel

/-- **adapt_exits_covered** (tie G). The exits of `adapt_inline`, as read from `src/spox/_adapt.py` on this
    run, are exactly the three branches `CustomInline.decide` has: an added early exit — whatever its
    condition, whatever inputs the oracles generate — breaks this obligation. -/
theorem adapt_exits_covered :
    Generated.AdaptAttrInventory.adaptInlineExits = CustomInline.coveredExits := by decide +kernel

/-- **slotting_sources_covered** (tie G). `BaseVars._flatten/__iter__/__len__`, `Node.min_input/min_output`,
    `StandardNode.min_input/min_output` and the popping loops of `Node.to_onnx`, as read from the source on
    this run, are statement for statement the ones `Model/Emit.lean` (`flatten`, `len`, `emitSlots`,
    `emitSlotsCustom`, `trimRev`) was written against: a `__len__` that counts declared fields, a changed
    minimum or loop condition breaks this obligation whatever inputs are generated. -/
theorem slotting_sources_covered :
    Generated.AdaptAttrInventory.slotting = Emit.coveredSlotting := by decide +kernel

/-- **adapt_functions_covered** (tie G). `_adapt.py` as a whole: its functions and the (kind, guards) of
    every exit of each. -/
theorem adapt_functions_covered :
    Generated.AdaptAttrInventory.adaptFunctions.map
      (fun f => (f.1, f.2.2.1.map (fun e => (e.1, e.2.2)))) = CustomInline.coveredFunctions := by
  decide +kernel

end adapt

end C18
