import SpoxModel.Lemmas.BuildAlgDfs
import SpoxModel.Lemmas.BuildAlgLca
import SpoxModel.Lemmas.BuildAlgEmit
import SpoxModel.Lemmas.BuildAlgDiscover
import SpoxModel.Lemmas.BuildAlgLeak
import SpoxModel.Lemmas.BuildAlgScope
import SpoxModel.Lemmas.BuildAlgOrder
import SpoxModel.Lemmas.BuildAlgPlaced
import SpoxModel.Lemmas.BuildAlgLexical
import SpoxModel.Lemmas.BuildAlgArgsReq
import SpoxModel.Lemmas.BuildAlgArgs
import SpoxModel.Lemmas.BuildAlgDfsMany
import SpoxModel.Lemmas.BridgeWalk
import SpoxModel.Lemmas.BridgeFacts
import SpoxModel.Props.C01
import SpoxModel.Model.BuildAlgCover
import SpoxModel.Generated.BuildAlgFacts
/-! Property theorems for C04 (only property-level statements and non-vacuity examples live here). -/
namespace C04
open BuildAlg

/-- What a successful `build` hands to the theorems below. -/
theorem build_inv (p : Prog) (hwf : WF p) (b : Built) (tr : List Ev) (h : build p = .ok (b, tr)) :
    ∃ cs : CState, tr = cs.trace.reverse ∧ Post p b ⟨[], []⟩ cs ∧ V.src 0 ∈ cs.intro ∧
      b.topo = visit p.adjFull p.fuel (.src 0) [] ∧
      (∀ g, ∀ a ∈ lookupL b.argsOf g, p.isArg a = true) := by
  unfold build at h
  split at h
  · cases h
  · rename_i st hd
    simp only at h
    split at h
    · cases h
    · split at h
      · cases h
      · rename_i cs hc
        cases h
        obtain ⟨hp, hs⟩ := post_compileG p _ _ _ _ _ hc
        refine ⟨cs, rfl, hp, hs, rfl, ?_⟩
        intro g a ha
        have hg : ArgsGood p st :=
          discover_argsGood p hwf _ _ _ _
            ⟨by intro e he; simp [DState.empty] at he, by intro e he; simp [DState.empty] at he⟩ hd
        obtain ⟨e, he, _, hae⟩ := lookupL_mem ha
        exact hg.1 e he a hae

/-- **emitted_once** (at most once): in the nested emission of a successful build no vertex — operator
    application or per-graph source — occurs twice, whatever mixture of graphs and bodies uses it. -/
theorem emitted_nodup (p : Prog) (hwf : WF p) (b : Built) (tr : List Ev)
    (h : build p = .ok (b, tr)) : (emitted tr).Nodup := by
  obtain ⟨cs, rfl, ⟨new, ht, _, _, hd, _, _⟩, _⟩ := build_inv p hwf b tr h
  rw [emitted_reverse]
  simp only [List.append_nil] at ht
  rw [ht]; exact nodup_reverse' hd

/-- **emitted_once** (exactly the reachable ones): a vertex is in the nested emission of a
    successful build iff it is not an Argument and some requested output of the main graph
    depends on it through input and subgraph edges. -/
theorem emitted_iff_reachable (p : Prog) (hwf : WF p) (b : Built) (tr : List Ev)
    (h : build p = .ok (b, tr)) (v : V) :
    v ∈ emitted tr ↔ Reach p.adjFull (.src 0) v ∧ v.isArgOf p = false := by
  obtain ⟨cs, rfl, ⟨new, ht, _, he, _, hi, ha⟩, hsrc, htopo, hargs⟩ := build_inv p hwf b tr h
  simp only [List.append_nil] at ht
  rw [emitted_reverse, List.mem_reverse, ht]
  have hrank := rank_adjFull p hwf
  constructor
  · intro hv
    obtain ⟨_, _, _, hvt, hva⟩ := he v hv
    rw [htopo] at hvt
    exact ⟨(mem_visit_iff (rankV p) hrank p.fuel (.src 0) v (rank_src_lt_fuel p hwf 0)).mp hvt, hva⟩
  · rintro ⟨hr, hva⟩
    -- an introduced vertex that is not an emission was introduced as an argument of some graph
    have harg : ∀ x ∈ cs.intro, x ∈ emitted new ∨ x.isArgOf p = true := by
      intro x hx
      rcases hi x hx with h0 | h1 | ⟨a, hxa, hm⟩
      · cases h0
      · left; exact h1
      · right
        obtain ⟨g, hg⟩ := ha a hm
        subst hxa
        exact hargs g a hg
    have hreach : ∀ w, Reach p.adjFull (.src 0) w → w ∈ cs.intro := by
      intro w0 hr0
      induction hr0 with
      | refl => exact hsrc
      | @step u w hru hw ih =>
        rcases harg u ih with hu | hu
        · obtain ⟨hgood, _⟩ := he u hu
          cases u with
          | node n =>
            simp only [Prog.adjFull, List.mem_append, List.mem_map] at hw
            rcases hw with ⟨i, hi', rfl⟩ | ⟨s, hs, rfl⟩
            · exact hgood.1 _ (by simp only [Prog.adjIn, List.mem_map]; exact ⟨i, hi', rfl⟩)
            · exact hgood.2 n rfl s hs
          | src g => exact hgood.1 _ hw
        · cases u with
          | node n =>
            simp only [V.isArgOf] at hu
            obtain ⟨h1, h2⟩ := hwf.arg_leaf n hu
            simp [Prog.adjFull, h1, h2] at hw
          | src g => simp [V.isArgOf] at hu
    rcases harg v (hreach v hr) with h1 | h1
    · exact h1
    · rw [hva] at h1; cases h1

/-- **unreachable_not_emitted**: an operator application no requested output depends on is not in
    the built model at all. -/
theorem unreachable_not_emitted (p : Prog) (hwf : WF p) (b : Built) (tr : List Ev)
    (h : build p = .ok (b, tr)) (n : Nat) (hn : ¬ Reach p.adjFull (.src 0) (.node n)) :
    V.node n ∉ emitted tr :=
  fun hc => hn ((emitted_iff_reachable p hwf b tr h _).mp hc).1

/-- **emitted_once**, as a count: each operator application appears exactly once if some requested
    output depends on it and not at all otherwise. -/
theorem emitted_once (p : Prog) (hwf : WF p) (b : Built) (tr : List Ev)
    (h : build p = .ok (b, tr)) (n : Nat) (hna : p.isArg n = false) :
    (Reach p.adjFull (.src 0) (.node n) → (emitted tr).count (.node n) = 1) ∧
    (¬ Reach p.adjFull (.src 0) (.node n) → (emitted tr).count (.node n) = 0) := by
  constructor
  · intro hr
    have hm : V.node n ∈ emitted tr := (emitted_iff_reachable p hwf b tr h _).mpr ⟨hr, hna⟩
    exact count_eq_one_of_nodup (emitted_nodup p hwf b tr h) hm
  · intro hr
    exact List.count_eq_zero.mpr (unreachable_not_emitted p hwf b tr h n hr)

/-! ### the two traversals every step of the Builder is made of -/

/-- **lca_spec**: `ScopeTree.lca` (the alternating-ancestor walk) returns a common ancestor of both
    graphs, of maximal depth, on any tree — with fuel 2·(depth a + depth b) + 3. -/
theorem lca_spec {par d : Nat → Nat} (T : Tree par d) (P Q fuel : Nat)
    (hf : 2 * (d P + d Q) + 3 ≤ fuel) :
    (Anc par (lca par fuel P Q) P ∧ Anc par (lca par fuel P Q) Q) ∧
      ∀ c, Anc par c P → Anc par c Q → d c ≤ d (lca par fuel P Q) :=
  BuildAlg.lca_spec T P Q fuel hf

/-- **lca_lowest**: … hence every common ancestor of the two graphs encloses the result. -/
theorem lca_lowest {par d : Nat → Nat} (T : Tree par d) (P Q fuel : Nat)
    (hf : 2 * (d P + d Q) + 3 ≤ fuel) :
    Anc par (lca par fuel P Q) P ∧ Anc par (lca par fuel P Q) Q ∧
      ∀ c, Anc par c P → Anc par c Q → Anc par c (lca par fuel P Q) :=
  BuildAlg.lca_lowest T P Q fuel hf

/-- **least_enclosing_fixed_tree** (the relaxation fold on a fixed scope tree): starting from the
    first graph that reaches a node and relaxing with `scope := lca(G, scope)` for every further graph
    `G` that reaches it, the node ends in the lowest common ancestor of all those graphs: it encloses
    each of them, and every scope enclosing all of them encloses it. -/
theorem least_enclosing_fixed_tree {par d : Nat → Nat} (T : Tree par d) (D fuel : Nat)
    (hD : ∀ x, d x ≤ D) (hf : 4 * D + 3 ≤ fuel) (G0 : Nat) (Gs : List Nat) :
    Lowest par (G0 :: Gs) (Gs.foldl (fun acc G => lca par fuel G acc) G0) := by
  have h0 : Lowest par [G0] G0 :=
    ⟨fun G hG => by simp at hG; subst hG; exact Anc.refl G, fun c' hc' => hc' G0 (by simp)⟩
  simpa using relax_fold_lowest T D fuel hD hf Gs [G0] G0 h0

/-- **visit_spec** (`iterative_dfs` post-order on a program in creation order): every vertex is listed
    after all the vertices it depends on (inputs and bodies), exactly once, and the list is exactly
    the set of vertices the root depends on. -/
theorem visit_spec (p : Prog) (hwf : WF p) (g : Nat) :
    Closed p.adjFull (visit p.adjFull p.fuel (.src g) []) ∧
    (visit p.adjFull p.fuel (.src g) []).Nodup ∧
    ∀ x, x ∈ visit p.adjFull p.fuel (.src g) [] ↔ Reach p.adjFull (.src g) x := by
  have hrank := rank_adjFull p hwf
  have hf := rank_src_lt_fuel p hwf g
  refine ⟨(BuildAlg.visit_spec (rankV p) hrank p.fuel _ [] hf (closed_nil _)).1,
    visit_nodup (rankV p) hrank p.fuel _ [] List.nodup_nil,
    fun x => mem_visit_iff (rankV p) hrank p.fuel _ x hf⟩

/-- the same for the input-edge traversals of `discover` / `update_scope_tree` -/
theorem visit_spec_inputs (p : Prog) (hwf : WF p) (g : Nat) :
    Closed p.adjIn (p.postIn g) ∧ (p.postIn g).Nodup ∧
    ∀ x, x ∈ p.postIn g ↔ Reach p.adjIn (.src g) x := by
  have hrank := rank_adjIn p hwf
  have hf := rank_src_lt_fuel p hwf g
  refine ⟨(BuildAlg.visit_spec (rankV p) hrank p.fuel _ [] hf (closed_nil _)).1,
    visit_nodup (rankV p) hrank p.fuel _ [] List.nodup_nil,
    fun x => mem_visit_iff (rankV p) hrank p.fuel _ x hf⟩

/-- **dfs_many_spec** (round 10): `iterative_dfs(sources, adj)` as the driver runs it against the real
    function (`visitMany`: one `visit` per source, shared visited list), on ANY graph with a rank
    function (a DAG — for programs: creation order): the returned post-order lists every vertex after
    all of its successors, lists nothing twice, and lists exactly what the sources reach. -/
theorem dfs_many_spec {α : Type} [DecidableEq α] (adj : α → List α) (rank : α → Nat)
    (hrank : ∀ v, ∀ w ∈ adj v, rank w < rank v) (fuel : Nat) (sources : List α)
    (hf : ∀ s ∈ sources, rank s < fuel) :
    Closed adj (visitMany adj fuel sources []) ∧ (visitMany adj fuel sources []).Nodup ∧
    ∀ x, x ∈ visitMany adj fuel sources [] ↔ ∃ s ∈ sources, Reach adj s x := by
  obtain ⟨c, n, _, i⟩ := visitMany_spec rank hrank fuel sources [] hf (closed_nil _) List.nodup_nil
  exact ⟨c, n, fun x => by rw [i x]; simp⟩

/-- the diamond with a duplicate successor of `lib_dfstie` (3 → 1, 0, 2, 2; 2 → 0, 1; 1 → 0), two sources -/
example : visitMany (fun v => ([[], [0], [0, 1], [1, 0, 2, 2]][v]?).getD []) 6 [1, 3] [] = [0, 1, 2, 3] := by
  decide

/-! ### leaks to an outer scope are rejected at build time -/

/-- `Below p s g`: the body `s` is held by a node that `g` reaches through input edges, or by a node
    that a body below `g` reaches (any nesting depth). -/
inductive Below (p : Prog) : Nat → Nat → Prop
  | direct {g n s : Nat} : Reach p.adjIn (.src g) (.node n) → s ∈ p.subs n → Below p s g
  | trans {g t s : Nat} : Below p t g → Below p s t → Below p s g

theorem discover_final (p : Prog) (hwf : WF p) (b : Built) (tr : List Ev)
    (h : build p = .ok (b, tr)) :
    ∃ st : DState, DI p st ∧ (0 : Nat) ∈ st.topo ∧ b.graphTopo = st.topo.reverse ∧
      b.owner = st.owner ∧
      b.scopeOf = st.topo.reverse.foldl
        (updateScopeTree p st.owner (lcaFuel st.topo.reverse)) [] ∧
      TopoFacts p st.owner st.topo.reverse := by
  unfold build at h
  split at h
  · cases h
  · rename_i st hd
    simp only at h
    split at h
    · cases h
    · split at h
      · cases h
      · cases h
        have hdi0 : DI p DState.empty :=
          ⟨by simp [DState.empty], by simpa [DState.empty] using closed_nil (gadj p),
           by intro e he; simp [DState.empty] at he,
           by intro h hh; simp [DState.empty] at hh,
           by intro h hh; simp [DState.empty] at hh, by intro e he; simp [DState.empty] at he,
           by intro s hs; simp [DState.empty] at hs, by intro s hs; simp [DState.empty] at hs,
           by intro s hs; simp [DState.empty] at hs, by intro s hs; simp [DState.empty] at hs⟩
        obtain ⟨r1, _, r3, r4, _, _, r7, r8⟩ :=
          discover_spec p hwf _ (rankV p (.src 0) + 1) 0 DState.empty st
            (by omega) hdi0 (by intro h hh; simp [Unfin, DState.empty] at hh) hd
        refine ⟨st, r1, r4, rfl, rfl, rfl, ?_⟩
        apply topoFacts_of_discover p hwf st r1
        · intro h hh
          apply Classical.byContradiction
          intro hnt
          have := (r3 h).mp ⟨hh, hnt⟩
          simp [Unfin, DState.empty] at this
        · intro x hx
          rcases r7 x hx with h1 | h1 | h1
          · simp [DState.empty] at h1
          · left; exact h1
          · right; exact h1
        · rcases r8 with h1 | h1
          · simp [DState.empty] at h1
          · exact h1

theorem below_claimed (p : Prog) (hwf : WF p) (st : DState) (hdi : DI p st) {s g : Nat}
    (hb : Below p s g) : g ∈ st.topo →
      s ∈ st.topo ∧ ∃ n1 s1, V.node n1 ∈ p.postIn g ∧ s1 ∈ p.subs n1 ∧
        ∀ x ∈ lookupL st.claimedIn s, x ∈ lookupL st.claimedIn s1 := by
  induction hb with
  | @direct g n s hr hs =>
    intro hg
    have hn : V.node n ∈ p.postIn g :=
      (mem_visit_iff (rankV p) (rank_adjIn p hwf) p.fuel _ _ (rank_src_lt_fuel p hwf g)).mpr hr
    exact ⟨hdi.C g hg n hn s hs, n, s, hn, hs, fun x hx => hx⟩
  | @trans g t s _ _ ih1 ih2 =>
    intro hg
    obtain ⟨ht, n1, s1, hn1, hs1, hsub1⟩ := ih1 hg
    obtain ⟨hs, n2, s2, hn2, hs2, hsub2⟩ := ih2 ht
    refine ⟨hs, n1, s1, hn1, hs1, ?_⟩
    intro x hx
    exact hsub1 x (hdi.J2 t ht n2 hn2 s2 hs2 x (hsub2 x hx))

/-- In a successful build no graph reaches, through input edges, an argument of a body below it. -/
theorem no_outer_leak (p : Prog) (hwf : WF p) (b : Built) (tr : List Ev)
    (h : build p = .ok (b, tr)) (g s : Nat) (hg : g ∈ b.graphTopo) (hs : Below p s g)
    (pg : PGraph) (l : List Nat) (hpg : p.graphs[s]? = some pg) (hl : pg.args = some l)
    (a : Nat) (ha : a ∈ l) : ¬ Reach p.adjIn (.src g) (.node a) := by
  obtain ⟨st, hdi, _, htopo, _⟩ := discover_final p hwf b tr h
  have hg' : g ∈ st.topo := by rw [htopo] at hg; simpa using hg
  obtain ⟨hst, n1, s1, hn1, hs1, hsub⟩ := below_claimed p hwf st hdi hs hg'
  intro hr
  have hmem : V.node a ∈ p.postIn g :=
    (mem_visit_iff (rankV p) (rank_adjIn p hwf) p.fuel _ _ (rank_src_lt_fuel p hwf g)).mpr hr
  exact hdi.L g hg' n1 hn1 s1 hs1 a (hsub a (hdi.J1 s hst pg l hpg hl a ha))
    (hwf.args_arg s pg hpg l hl a ha) hmem

/-- **leak_rejected** (outer scope): if the main graph, or any body below it, uses directly (through
    input edges, i.e. outside every body) an argument that belongs to a body below it — at any
    nesting depth — then `build` raises (the `claimed & used` test: `BuildError`, or any earlier
    error); it never returns a model. -/
theorem leak_rejected (p : Prog) (hwf : WF p) (g s : Nat) (hg : g = 0 ∨ Below p g 0)
    (hs : Below p s g) (pg : PGraph) (l : List Nat) (hpg : p.graphs[s]? = some pg)
    (hl : pg.args = some l) (a : Nat) (ha : a ∈ l) (hleak : Reach p.adjIn (.src g) (.node a)) :
    ∀ b tr, build p ≠ .ok (b, tr) := by
  intro b tr h
  obtain ⟨st, hdi, h0, htopo, _⟩ := discover_final p hwf b tr h
  have hg' : g ∈ b.graphTopo := by
    rw [htopo]
    rcases hg with hg | hg
    · subst hg; simpa using h0
    · simpa using (below_claimed p hwf st hdi hg h0).1
  exact no_outer_leak p hwf b tr h g s hg' hs pg l hpg hl a ha hleak

/-! ### a body held by two operator applications is rejected (round 10: the multiple-owner check,
    lifted from the single test `multiple_owner_rejected` to every build, any nesting depth) -/

/-- Everything the main source reaches through input AND subgraph edges is reached, through input
    edges only, by the main graph or by a body below it. -/
theorem reach_full_split (p : Prog) {v : V} (h : Reach p.adjFull (.src 0) v) :
    ∃ G, (G = 0 ∨ Below p G 0) ∧ Reach p.adjIn (.src G) v := by
  induction h with
  | refl => exact ⟨0, .inl rfl, Reach.refl _⟩
  | @step u w _ hw ih =>
    obtain ⟨G, hG, hrG⟩ := ih
    cases u with
    | src g => exact ⟨G, hG, Reach.step hrG hw⟩
    | node n =>
      simp only [Prog.adjFull, List.mem_append, List.mem_map] at hw
      rcases hw with ⟨i, hi, rfl⟩ | ⟨s, hs, rfl⟩
      · exact ⟨G, hG, Reach.step hrG (by simp only [Prog.adjIn, List.mem_map]; exact ⟨i, hi, rfl⟩)⟩
      · refine ⟨s, .inr ?_, Reach.refl _⟩
        have hb : Below p s G := Below.direct hrG hs
        rcases hG with hG | hG
        · subst hG; exact hb
        · exact Below.trans hG hb

/-- … and conversely (so `G = 0 ∨ Below p G 0` is exactly "the body `G` is reachable"). -/
theorem below_reach_full (p : Prog) {s g : Nat} (h : Below p s g) :
    Reach p.adjFull (.src g) (.src s) := by
  have hin : ∀ {u v : V}, Reach p.adjIn u v → Reach p.adjFull u v := by
    intro u v hr
    induction hr with
    | refl => exact Reach.refl _
    | @step a c _ hw ih =>
      refine Reach.step ih ?_
      cases a with
      | src g => exact hw
      | node n =>
        simp only [Prog.adjIn, List.mem_map] at hw
        simp only [Prog.adjFull, List.mem_append, List.mem_map]
        exact .inl hw
  induction h with
  | @direct g n s hr hs =>
    exact Reach.step (hin hr) (by simp only [Prog.adjFull, List.mem_append, List.mem_map]; exact .inr ⟨s, hs, rfl⟩)
  | trans _ _ ih1 ih2 => exact Reach.trans ih1 ih2

/-- **owner_unique**: in a successful build the recorded owner (`scope_tree.subgraph_owner`) of every
    body held by an operator application some requested output depends on is THAT application — so
    the `parent` function all scoping theorems talk about is well defined on the program, not only on
    the Builder's table. -/
theorem owner_unique (p : Prog) (hwf : WF p) (b : Built) (tr : List Ev)
    (h : build p = .ok (b, tr)) (n s : Nat) (hn : Reach p.adjFull (.src 0) (.node n))
    (hs : s ∈ p.subs n) : lookupN b.owner s = some n := by
  obtain ⟨st, hdi, h0, _, hown, _⟩ := discover_final p hwf b tr h
  obtain ⟨G, hG, hr⟩ := reach_full_split p hn
  have hG' : G ∈ st.topo := by
    rcases hG with hG | hG
    · subst hG; exact h0
    · exact (below_claimed p hwf st hdi hG h0).1
  have hmem : V.node n ∈ p.postIn G :=
    (mem_visit_iff (rankV p) (rank_adjIn p hwf) p.fuel _ _ (rank_src_lt_fuel p hwf G)).mpr hr
  rw [hown]
  exact hdi.OU G hG' n hmem s hs

/-- **shared_body_rejected**: if two DIFFERENT operator applications some requested output depends on
    (through input and subgraph edges: main program or any body, any depth) hold the same graph in
    their attributes, `build` never returns a model (`BuildError` "multiple owners", or any earlier
    error). Without the rejection the body's applications would be emitted once per holder. -/
theorem shared_body_rejected (p : Prog) (hwf : WF p) (n1 n2 s : Nat) (hne : n1 ≠ n2)
    (h1 : Reach p.adjFull (.src 0) (.node n1)) (h2 : Reach p.adjFull (.src 0) (.node n2))
    (hs1 : s ∈ p.subs n1) (hs2 : s ∈ p.subs n2) : ∀ b tr, build p ≠ .ok (b, tr) := by
  intro b tr h
  have e1 := owner_unique p hwf b tr h n1 s h1 hs1
  have e2 := owner_unique p hwf b tr h n2 s h2 hs2
  rw [e1] at e2
  exact hne (Option.some.inj e2)

/-- **bodies_emitted_under_owner** (corollary): every emitted operator application holding a body is
    the recorded owner of that body. -/
theorem emitted_owner (p : Prog) (hwf : WF p) (b : Built) (tr : List Ev)
    (h : build p = .ok (b, tr)) (n s : Nat) (hn : V.node n ∈ emitted tr) (hs : s ∈ p.subs n) :
    lookupN b.owner s = some n :=
  owner_unique p hwf b tr h n s ((emitted_iff_reachable p hwf b tr h _).mp hn).1 hs

/-! ### least enclosing scope, on the algorithm (the scope tree changes while graphs are processed) -/

/-- **least_enclosing**: after `for graph in graph_topo: update_scope_tree(graph)` the scope of every
    vertex `v` is the lowest common ancestor — in the *final* scope tree
    (`parent g = scope_of[owner g]`) — of all graphs that use `v` (reach it through input edges):
    it encloses each of them, and every scope enclosing all of them encloses it. -/
theorem least_enclosing (p : Prog) (hwf : WF p) (b : Built) (tr : List Ev)
    (h : build p = .ok (b, tr)) (v : V) (c : Nat) (hc : b.scopeOf.get v = some c) :
    LowestP (parent b.owner b.scopeOf)
      (fun g => g ∈ b.graphTopo ∧ Reach p.adjIn (.src g) v) c := by
  obtain ⟨st, _, _, htopo, hown, hso, F⟩ := discover_final p hwf b tr h
  have hinv := scope_fold p hwf st.owner st.topo.reverse F (lcaFuel st.topo.reverse)
    (by simp only [lcaFuel]; omega) st.topo.reverse [] [] (by simp) (sinv_empty p st.owner)
  rw [← hso, ← hown] at hinv
  have := hinv.low v c hc
  rw [← htopo] at this
  apply LowestP.iff _ this
  intro G
  have hiff := mem_visit_iff (rankV p) (rank_adjIn p hwf) p.fuel (.src G) v (rank_src_lt_fuel p hwf G)
  constructor
  · rintro ⟨a, b'⟩; exact ⟨a, hiff.mp b'⟩
  · rintro ⟨a, b'⟩; exact ⟨a, hiff.mpr b'⟩

/-- … and every vertex some graph uses has a scope, which is one of the discovered graphs; the
    discovered graphs form a tree under `parent` rooted at the main graph. -/
theorem scope_defined (p : Prog) (hwf : WF p) (b : Built) (tr : List Ev)
    (h : build p = .ok (b, tr)) :
    (∀ v g, g ∈ b.graphTopo → Reach p.adjIn (.src g) v → ∃ c, b.scopeOf.get v = some c) ∧
    (∀ v c, b.scopeOf.get v = some c → c ∈ b.graphTopo) ∧
    ∃ d, TreeOn (· ∈ b.graphTopo) (parent b.owner b.scopeOf) d 0 := by
  obtain ⟨st, _, h0, htopo, hown, hso, F⟩ := discover_final p hwf b tr h
  have hinv := scope_fold p hwf st.owner st.topo.reverse F (lcaFuel st.topo.reverse)
    (by simp only [lcaFuel]; omega) st.topo.reverse [] [] (by simp) (sinv_empty p st.owner)
  rw [← hso, ← hown, ← htopo] at hinv
  refine ⟨?_, hinv.val, ?_⟩
  · intro v g hg hr
    exact hinv.dfn v g hg
      ((mem_visit_iff (rankV p) (rank_adjIn p hwf) p.fuel (.src g) v (rank_src_lt_fuel p hwf g)).mpr hr)
  · rcases hinv.tree with hnil | ⟨d, T, _⟩
    · exfalso
      have : (0 : Nat) ∈ b.graphTopo := by rw [htopo]; simpa using h0
      rw [hnil] at this; cases this
    · exact ⟨d, T⟩


/-! ### position in the built model = scope (`placed` reads the nested emission like the ModelProto is read) -/

theorem build_compile (p : Prog) (b : Built) (tr : List Ev) (h : build p = .ok (b, tr)) :
    ∃ cs, compileG p b (p.graphs.length + 1) 0 ⟨[], []⟩ = .ok cs ∧ tr = cs.trace.reverse := by
  unfold build at h
  split at h
  · cases h
  · simp only at h
    split at h
    · cases h
    · split at h
      · cases h
      · rename_i cs hcs
        cases h
        exact ⟨cs, hcs, rfl⟩

/-- **placed_in_scope**: in the nested emission of a successful build every vertex sits in the graph
    `scope_of` assigns to it (the innermost graph open when it is emitted is its scope). -/
theorem placed_in_scope (p : Prog) (b : Built) (tr : List Ev) (h : build p = .ok (b, tr))
    (v : V) (g : Nat) (hp : (v, g) ∈ placed tr []) : b.scopeOf.get v = some g := by
  obtain ⟨cs, hcs, rfl⟩ := build_compile p b tr h
  obtain ⟨new, ht, hok⟩ := relOK_compileG p b _ 0 _ cs hcs
  simp only [List.append_nil] at ht
  obtain ⟨pl, e, q⟩ := hok [] []
  rw [ht] at hp
  simp only [List.append_nil, placed] at e
  rw [e] at hp
  exact q (v, g) hp

/-- **emitted_in_least_enclosing** (the property statement about positions): every operator
    application of the built model sits in exactly one graph, and that graph is the innermost one
    enclosing all its uses: the lowest common ancestor, in the final scope tree, of all graphs that
    read it through input edges — it encloses each of them and every graph enclosing all of them
    encloses it. -/
theorem emitted_in_least_enclosing (p : Prog) (hwf : WF p) (b : Built) (tr : List Ev)
    (h : build p = .ok (b, tr)) (v : V) (hv : v ∈ emitted tr) :
    ∃ g, (v, g) ∈ placed tr [] ∧ (∀ g', (v, g') ∈ placed tr [] → g' = g) ∧
      LowestP (parent b.owner b.scopeOf)
        (fun G => G ∈ b.graphTopo ∧ Reach p.adjIn (.src G) v) g := by
  rw [← placed_fst tr []] at hv
  obtain ⟨⟨v', g⟩, hm, hv'⟩ := List.mem_map.mp hv
  simp only at hv'
  subst hv'
  have hs := placed_in_scope p b tr h v' g hm
  refine ⟨g, hm, ?_, least_enclosing p hwf b tr h v' g hs⟩
  intro g' hm'
  have hs' := placed_in_scope p b tr h v' g' hm'
  rw [hs] at hs'
  cases hs'; rfl

/-- … and exactly once there (`emitted_once` + `placed_fst`): the list of positions has one entry per
    emitted vertex. -/
theorem placed_once (p : Prog) (hwf : WF p) (b : Built) (tr : List Ev)
    (h : build p = .ok (b, tr)) : ((placed tr []).map Prod.fst).Nodup := by
  rw [placed_fst]; exact emitted_nodup p hwf b tr h

/-! ### values depending on a body's own arguments are not read from above (outer half) -/

/-- **arg_dependent_not_read_above**: in a successful build, a value that depends — through any chain
    of input edges — on an argument of a body `s` is not read (through input edges, i.e. outside every
    body) by the main graph or any graph `g` that `s` is nested below. The sibling half is the final
    checker's (see `exSiblingLeak`). -/
theorem arg_dependent_not_read_above (p : Prog) (hwf : WF p) (b : Built) (tr : List Ev)
    (h : build p = .ok (b, tr)) (g s : Nat) (hg : g ∈ b.graphTopo) (hs : Below p s g)
    (pg : PGraph) (l : List Nat) (hpg : p.graphs[s]? = some pg) (hl : pg.args = some l)
    (a : Nat) (ha : a ∈ l) (v : V) (hdep : Reach p.adjIn v (.node a)) :
    ¬ Reach p.adjIn (.src g) v :=
  fun hr => no_outer_leak p hwf b tr h g s hg hs pg l hpg hl a ha (Reach.trans hr hdep)

/-! ### `spox.build(inputs, outputs, drop_unused_inputs=…)` -/

/-- **public_inputs_sublist**: with `drop_unused_inputs=True` the inputs of the returned model are a
    sub-list of the given inputs — nothing is invented, the given relative order is kept. -/
theorem public_inputs_sublist (p : Prog) (inputs : List Nat) (b : Built) (tr : List Ev)
    (kept : List Nat) (h : publicBuild p inputs true = .ok (b, tr, kept)) :
    kept.Sublist inputs := by
  unfold publicBuild at h
  split at h
  · cases h
  · simp only at h
    split at h
    · cases h
    · split at h
      · cases h
      · cases h
        simp only [keptInputs, if_true]
        exact List.filter_sublist

/-- **public_inputs_exact**: an input is kept iff it was given and the traversal found it as an
    argument of the main graph (`arguments_of[main]`, which no body claims); and every argument the
    main graph needs was given (else `KeyError`), with or without `drop_unused_inputs`; the emission is
    the one of `build` and passed the final checker (`structOk`, tested before the inputs). -/
theorem public_inputs_exact (p : Prog) (inputs : List Nat) (drop : Bool) (b : Built) (tr : List Ev)
    (kept : List Nat) (h : publicBuild p inputs drop = .ok (b, tr, kept)) :
    (∀ a, a ∈ lookupL b.argsOf 0 → a ∈ inputs) ∧
    (∀ a, a ∈ kept ↔ a ∈ inputs ∧ a ∈ lookupL b.argsOf 0) ∧
    build (p.withMainArgs (if drop then none else some inputs)) = .ok (b, tr) ∧
    structOk (p.withMainArgs (if drop then none else some inputs)) tr [] = true := by
  unfold publicBuild at h
  split at h
  · cases h
  · rename_i b' tr' hb
    simp only at h
    split at h
    · cases h
    · rename_i hso
      split at h
      · cases h
      · rename_i hany
        cases h
        have hall : ∀ a, a ∈ lookupL b.argsOf 0 → a ∈ inputs := by
          intro a ha
          apply Classical.byContradiction
          intro hn
          apply hany
          rw [List.any_eq_true]
          exact ⟨a, ha, by simpa using hn⟩
        refine ⟨hall, ?_, hb, hso⟩
        intro a
        cases drop with
        | true =>
          simp only [keptInputs, if_true, List.mem_filter, List.contains_iff_mem]
        | false =>
          simp only [keptInputs, Bool.false_eq_true, if_false]
          exact ⟨fun ha => ⟨hall a ha, ha⟩, fun ha => ha.2⟩

/-! ### the bridge to the shared program model (C01): the built emission is accepted by `validG` -/

/-- **build_valid_of_facts**: from the scope facts `BridgeFacts` (all of which are consequences of the
    theorems above, except that no argument is used outside its body), the nested emission of a
    successful build, rendered as a `Prog.EGraph`, is accepted by C01's `validG` for the translated
    program. Proof: induction along the compile walk with a ghost stack of frames. -/
theorem build_valid_of_facts (p : BuildAlg.Prog) (hwf : WF p) (b : Built) (tr : List Ev)
    (h : build p = .ok (b, tr)) (d : Nat → Nat) (F : Bridge.BridgeFacts p b d) :
    Prog.validG (Bridge.toProg p b.argsOf).nodes (Bridge.toEGraph p b)
      (Bridge.toProg p b.argsOf).main [] = true := by
  have hc : ∃ cs, compileG p b (p.graphs.length + 1) 0 ⟨[], []⟩ = .ok cs ∧ (0 : Nat) ∈ b.graphTopo := by
    obtain ⟨st, _, h0, htopo, _⟩ := discover_final p hwf b tr h
    unfold build at h
    split at h
    · cases h
    · simp only at h
      split at h
      · cases h
      · split at h
        · cases h
        · rename_i cs hcs
          cases h
          exact ⟨cs, hcs, by rw [htopo]; simpa using h0⟩
  obtain ⟨cs, hcs, h0⟩ := hc
  have I0 : Bridge.WInv p b ⟨[], []⟩ [] [] [] [] :=
    ⟨fun x hx => (by simp [Bridge.visOf] at hx), trivial, fun e he => (by cases he),
     fun e he => (by cases he), fun c hc => (by cases hc), fun e he => (by cases he),
     fun x hx => (by cases hx), fun w hw => (by cases hw)⟩
  exact (Bridge.walk_graph p hwf b d F _ 0 ⟨[], []⟩ cs [] [] [] [] I0 h0
    (by intro w hw; cases hw) (Or.inl ⟨rfl, rfl⟩) hcs).1

/-- **build_valid**: the emission computed by the Builder model is accepted by C01's `validG`:
    for every program in creation order whose build succeeds and in which no argument is used
    outside the graph that owns it (`LeakFree`: the outer-scope half is rejected by the Builder itself
    — `leak_rejected` — the sibling half only by the final checker, hence the explicit hypothesis),
    `validG (toProg p) (toEGraph (build p)) main [] = true`. -/
theorem build_valid (p : BuildAlg.Prog) (hwf : WF p) (b : Built) (tr : List Ev)
    (h : build p = .ok (b, tr)) (LF : Bridge.LeakFree p b) :
    Prog.validG (Bridge.toProg p b.argsOf).nodes (Bridge.toEGraph p b)
      (Bridge.toProg p b.argsOf).main [] = true := by
  obtain ⟨st, hdi, _, htopo, hown, hso, TF⟩ := discover_final p hwf b tr h
  obtain ⟨_, _, _, _, hbtopo, hargs⟩ := build_inv p hwf b tr h
  have hinv := scope_fold p hwf st.owner st.topo.reverse TF (lcaFuel st.topo.reverse)
    (by simp only [lcaFuel]; omega) st.topo.reverse [] [] (by simp) (sinv_empty p st.owner)
  rw [← hso, ← hown, ← htopo] at hinv
  rw [← hown, ← htopo] at TF
  obtain ⟨d, F⟩ := Bridge.bridgeFacts p hwf b st hdi htopo hown TF hinv hbtopo hargs LF
  exact build_valid_of_facts p hwf b tr h d F

/-! ### `LeakFree` derived from a condition on graphs only -/

/-- The graph-level discipline of the front end (closures only capture values of enclosing callbacks):
    every argument that some discovered graph reads directly (input edges from its source) belongs to
    a graph that encloses, in the final scope tree, every discovered graph reading it directly.
    Nothing is said about nodes or their scopes. -/
def ReadersEnclosed (p : Prog) (b : Built) : Prop :=
  ∀ a, p.isArg a = true →
    (∃ G, G ∈ b.graphTopo ∧ Reach p.adjIn (.src G) (.node a)) →
    ∃ t, a ∈ lookupL b.argsOf t ∧
      ∀ G, G ∈ b.graphTopo → Reach p.adjIn (.src G) (.node a) →
        Anc (parent b.owner b.scopeOf) t G

/-- **leakFree_of_readers**: the node-level hypothesis `LeakFree` (every argument a node reads belongs
    to a graph enclosing the node's *scope*) follows from the graph-level one: the scope of a node is
    the lowest common ancestor of the graphs reading it (`least_enclosing`), each of which reads the
    argument too, so the owner of the argument — enclosing them all — encloses the scope. -/
theorem leakFree_of_readers (p : Prog) (hwf : WF p) (b : Built) (tr : List Ev)
    (h : build p = .ok (b, tr)) (R : ReadersEnclosed p b) : Bridge.LeakFree p b := by
  obtain ⟨st, _, _, htopo, hown, hso, F⟩ := discover_final p hwf b tr h
  have hinv := scope_fold p hwf st.owner st.topo.reverse F (lcaFuel st.topo.reverse)
    (by simp only [lcaFuel]; omega) st.topo.reverse [] [] (by simp) (sinv_empty p st.owner)
  rw [← hso, ← hown, ← htopo] at hinv
  have hiff : ∀ G v, v ∈ p.postIn G ↔ Reach p.adjIn (.src G) v := fun G v =>
    mem_visit_iff (rankV p) (rank_adjIn p hwf) p.fuel (.src G) v (rank_src_lt_fuel p hwf G)
  constructor
  · intro n c a _ hc ha harg
    obtain ⟨g0, hg0, hv0⟩ := hinv.wit (.node n) c hc
    have hstep : ∀ G, Reach p.adjIn (.src G) (.node n) → Reach p.adjIn (.src G) (.node a) :=
      fun G hr => Reach.step hr (by simp only [Prog.adjIn, List.mem_map]; exact ⟨a, ha, rfl⟩)
    obtain ⟨t, hat, henc⟩ := R a harg ⟨g0, hg0, hstep g0 ((hiff g0 _).mp hv0)⟩
    refine ⟨t, ?_, hat⟩
    apply (hinv.low (.node n) c hc).2 t
    rintro G ⟨hG, hGv⟩
    exact henc G hG (hstep G ((hiff G _).mp hGv))
  · intro s a hs ha harg
    have hr : Reach p.adjIn (.src s) (.node a) :=
      Reach.step (Reach.refl _) (by simp only [Prog.adjIn, List.mem_map]; exact ⟨a, ha, rfl⟩)
    obtain ⟨t, hat, henc⟩ := R a harg ⟨s, hs, hr⟩
    exact ⟨t, henc s hs hr, hat⟩

/-- **build_valid_of_readers**: `build_valid` with the graph-level hypothesis. -/
theorem build_valid_of_readers (p : BuildAlg.Prog) (hwf : WF p) (b : Built) (tr : List Ev)
    (h : build p = .ok (b, tr)) (R : ReadersEnclosed p b) :
    Prog.validG (Bridge.toProg p b.argsOf).nodes (Bridge.toEGraph p b)
      (Bridge.toProg p b.argsOf).main [] = true :=
  build_valid p hwf b tr h (leakFree_of_readers p hwf b tr h R)

/-! ### `LeakFree` derived from a condition on the main graph only (round 7) -/

/-- What the front end guarantees (closures only capture values of enclosing callbacks), stated on
    the main graph alone — no scope tree, no `scope_of`: every argument a discovered graph reads belongs
    to a discovered graph, and the main graph reads (through input edges) no value that depends *freely*
    on an argument of a body — freely: along input and subgraph edges that do not enter the body binding
    it (`Bridge.adjCut`). -/
structure MainClean (p : Prog) (b : Built) : Prop where
  owned : ∀ a, p.isArg a = true →
    (∃ G, G ∈ b.graphTopo ∧ Reach p.adjIn (.src G) (.node a)) → ∃ s, a ∈ lookupL b.argsOf s
  clean : ∀ s a, s ≠ 0 → a ∈ lookupL b.argsOf s → ∀ v,
    Reach (Bridge.adjCut p s) v (.node a) → ¬ Reach p.adjIn (.src 0) v

/-- **readersEnclosed_of_mainClean**: every leak — to an outer scope or to a sibling — surfaces in the
    main graph: if main reads nothing that freely depends on a body's argument, every discovered graph
    reading such a value is enclosed, in the final scope tree, by the body owning the argument.
    (Induction along `graph_topo`: the owner of a reading graph depends freely on the argument too and
    is read only by graphs processed earlier.) -/
theorem readersEnclosed_of_mainClean (p : Prog) (hwf : WF p) (b : Built) (tr : List Ev)
    (h : build p = .ok (b, tr)) (M : MainClean p b) : ReadersEnclosed p b := by
  obtain ⟨st, hdi, _, htopo, hown, hso, TF⟩ := discover_final p hwf b tr h
  obtain ⟨_, _, _, _, hbtopo, _⟩ := build_inv p hwf b tr h
  have hinv := scope_fold p hwf st.owner st.topo.reverse TF (lcaFuel st.topo.reverse)
    (by simp only [lcaFuel]; omega) st.topo.reverse [] [] (by simp) (sinv_empty p st.owner)
  rw [← hso, ← hown, ← htopo] at hinv
  rw [← hown, ← htopo] at TF
  intro a harg hex
  obtain ⟨s, hs⟩ := M.owned a harg hex
  refine ⟨s, hs, ?_⟩
  intro G hG hGa
  obtain ⟨pre, suf, hsplit⟩ := List.append_of_mem hG
  exact Bridge.freeDep_enclosed p hwf b st hdi htopo hown TF hinv hbtopo s a
    (fun hs0 => M.clean s a hs0 hs) pre.length pre G suf rfl hsplit (.node a) hGa (Reach.refl _)

/-- **build_valid_of_mainClean**: `build_valid` for front-end programs — no hypothesis about scopes or
    the scope tree: a program in creation order whose build succeeds and whose main graph reads nothing
    that freely depends on a body's argument is emitted as a model C01's `validG` accepts. -/
theorem build_valid_of_mainClean (p : BuildAlg.Prog) (hwf : WF p) (b : Built) (tr : List Ev)
    (h : build p = .ok (b, tr)) (M : MainClean p b) :
    Prog.validG (Bridge.toProg p b.argsOf).nodes (Bridge.toEGraph p b)
      (Bridge.toProg p b.argsOf).main [] = true :=
  build_valid_of_readers p hwf b tr h (readersEnclosed_of_mainClean p hwf b tr h M)

theorem rank_le_of_reach (p : Prog) (hwf : WF p) {u v : V} (h : Reach p.adjIn u v) :
    rankV p v ≤ rankV p u := by
  induction h with
  | refl => exact Nat.le_refl _
  | step _ hw ih => exact Nat.le_trans (Nat.le_of_lt (rank_adjIn p hwf _ _ hw)) ih

/-- the executable check (what the driver evaluates on every built case) implies `MainClean` -/
theorem mainClean_of_check (p : Prog) (hwf : WF p) (b : Built)
    (h : Bridge.mainCleanB p b = true) : MainClean p b := by
  simp only [Bridge.mainCleanB, Bool.and_eq_true, List.all_eq_true] at h
  obtain ⟨h1, h2⟩ := h
  constructor
  · intro a harg ⟨G, hG, hr⟩
    have hm : V.node a ∈ p.postIn G :=
      (mem_visit_iff (rankV p) (rank_adjIn p hwf) p.fuel _ _ (rank_src_lt_fuel p hwf G)).mpr hr
    have := h1 G hG (.node a) hm
    simp only [harg, Bool.not_true, Bool.false_or, List.any_eq_true, List.contains_iff_mem] at this
    obtain ⟨s, _, hs⟩ := this
    exact ⟨s, hs⟩
  · intro s a hs0 ha v hdep hmain
    obtain ⟨e, he, hes, hae⟩ := lookupL_mem ha
    have := h2 e he
    simp only [Bool.or_eq_true, beq_iff_eq, List.all_eq_true] at this
    rcases this with h0 | hall
    · exact hs0 (hes ▸ h0)
    · have hv : v ∈ p.postIn 0 :=
        (mem_visit_iff (rankV p) (rank_adjIn p hwf) p.fuel _ _ (rank_src_lt_fuel p hwf 0)).mpr hmain
      have hno := hall a hae v hv
      have hrank : ∀ x, ∀ w ∈ Bridge.adjCut p e.1 x, rankV p w < rankV p x := by
        intro x w hw
        exact rank_adjFull p hwf x w (List.mem_filter.mp hw).1
      have hf : rankV p v < p.fuel :=
        Nat.lt_of_le_of_lt (rank_le_of_reach p hwf hmain) (rank_src_lt_fuel p hwf 0)
      have hin : V.node a ∈ visit (Bridge.adjCut p e.1) p.fuel v [] :=
        (mem_visit_iff (rankV p) hrank p.fuel v _ hf).mpr (hes ▸ hdep)
      have hc : (visit (Bridge.adjCut p e.1) p.fuel v []).contains (V.node a) = true :=
        List.contains_iff_mem.mpr hin
      rw [hc] at hno
      cases hno

/-- `build_valid_of_mainClean` with every hypothesis executable -/
theorem build_valid_mainClean_checked (p : BuildAlg.Prog) (hwf : p.WFb = true) (b : Built)
    (tr : List Ev) (h : build p = .ok (b, tr)) (hm : Bridge.mainCleanB p b = true) :
    Prog.validG (Bridge.toProg p b.argsOf).nodes (Bridge.toEGraph p b)
      (Bridge.toProg p b.argsOf).main [] = true :=
  build_valid_of_mainClean p (wf_of_wfb p hwf) b tr h (mainClean_of_check p (wf_of_wfb p hwf) b hm)

/-- `build_valid` with every hypothesis executable (what the driver evaluates on each case). -/
theorem build_valid_checked (p : BuildAlg.Prog) (hwf : p.WFb = true) (b : Built) (tr : List Ev)
    (h : build p = .ok (b, tr)) (hlf : Bridge.leakFreeB p b = true) :
    Prog.validG (Bridge.toProg p b.argsOf).nodes (Bridge.toEGraph p b)
      (Bridge.toProg p b.argsOf).main [] = true :=
  build_valid p (wf_of_wfb p hwf) b tr h (Bridge.leakFree_of_check p b hlf)

/-- **build_correct** (composition with C01's `valid_sound`): running the built emission with the
    ONNX scoping rule computes the program's direct denotation, for any operator semantics, any
    binding of the outer arguments and any actual inputs. -/
theorem build_correct {Val : Type} [Inhabited Val] (S : Prog.Sem Val) (p : BuildAlg.Prog)
    (hwf : WF p) (b : Built) (tr : List Ev) (h : build p = .ok (b, tr))
    (LF : Bridge.LeakFree p b) (bind : Nat → Val) (vals : List Val) :
    Prog.evalG S (Bridge.toProg p b.argsOf).nodes (Bridge.toEGraph p b) (fun _ => none) vals =
      some (Prog.denoteG S (Bridge.toProg p b.argsOf).nodes bind
        (Bridge.toProg p b.argsOf).main vals) :=
  C01.valid_sound S _ (Bridge.wf_toProg p hwf b.argsOf) _ _ (build_valid p hwf b tr h LF) bind vals

/-- **build_correct_of_mainClean**: … hence (C01 `valid_sound`) evaluating the built emission gives the
    program's denotation. -/
theorem build_correct_of_mainClean {Val : Type} [Inhabited Val] (S : Prog.Sem Val)
    (p : BuildAlg.Prog) (hwf : WF p) (b : Built) (tr : List Ev) (h : build p = .ok (b, tr))
    (M : MainClean p b) (bind : Nat → Val) (vals : List Val) :
    Prog.evalG S (Bridge.toProg p b.argsOf).nodes (Bridge.toEGraph p b) (fun _ => none) vals =
      some (Prog.denoteG S (Bridge.toProg p b.argsOf).nodes bind
        (Bridge.toProg p b.argsOf).main vals) :=
  build_correct S p hwf b tr h
    (leakFree_of_readers p hwf b tr h (readersEnclosed_of_mainClean p hwf b tr h M)) bind vals

/-! ### `arguments_of` is the requested argument list; `MainClean` from a purely lexical condition (round 8) -/

theorem build_argsReq (p : Prog) (b : Built) (tr : List Ev) (h : build p = .ok (b, tr)) :
    ∃ st : DState, ArgsReq p st ∧ b.argsOf = st.argsOf ∧ b.graphTopo = st.topo.reverse := by
  unfold build at h
  split at h
  · cases h
  · rename_i st hd
    simp only at h
    split at h
    · cases h
    · split at h
      · cases h
      · cases h
        refine ⟨st, ?_, rfl, rfl⟩
        exact discover_argsReq p _ 0 DState.empty st
          ⟨by intro e he; simp [DState.empty] at he, by intro g hg; simp [DState.empty] at hg⟩ hd

/-- **arguments_of_requested**: in a successful build `arguments_of[s]` of every discovered graph with a
    requested argument list is that list; and only discovered graphs have an entry. -/
theorem arguments_of_requested (p : Prog) (b : Built) (tr : List Ev) (h : build p = .ok (b, tr)) :
    (∀ s pg l, s ∈ b.graphTopo → p.graphs[s]? = some pg → pg.args = some l →
      lookupL b.argsOf s = l) ∧
    (∀ s a, a ∈ lookupL b.argsOf s → s ∈ b.graphTopo ∧ ∃ pg, p.graphs[s]? = some pg) := by
  obtain ⟨st, hA, hao, hgt⟩ := build_argsReq p b tr h
  constructor
  · intro s pg l hs hpg hl
    rw [hao]
    exact lookupL_argsOf_of_argsReq p st hA s (by rw [hgt] at hs; simpa using hs) pg l hpg hl
  · intro s a ha
    rw [hao] at ha
    obtain ⟨e, he, hes, _⟩ := lookupL_mem ha
    obtain ⟨h1, pg, hpg, _⟩ := hA.1 e he
    subst hes
    exact ⟨by rw [hgt]; simpa using h1, pg, hpg⟩

/-- The front-end discipline as a property of the PROGRAM alone (nothing of the build in it): bodies have
    requested argument lists; every argument the outputs depend on is in the requested list of a graph
    the outputs depend on; the main graph reads no value that depends freely on a body's argument. -/
structure Lexical (p : Prog) : Prop where
  explicit : ∀ s pg, s ≠ 0 → p.graphs[s]? = some pg → pg.args ≠ none
  owned : ∀ a, p.isArg a = true → Reach p.adjFull (.src 0) (.node a) →
    ∃ s pg l, p.graphs[s]? = some pg ∧ pg.args = some l ∧ a ∈ l ∧ Reach p.adjFull (.src 0) (.src s)
  clean : ∀ s pg l a, s ≠ 0 → p.graphs[s]? = some pg → pg.args = some l → a ∈ l → ∀ v,
    Reach (Bridge.adjCut p s) v (.node a) → ¬ Reach p.adjIn (.src 0) v

/-- **mainClean_of_lexical**: for a successful build, `MainClean` (stated with `arguments_of` and
    `graph_topo`) follows from the lexical condition on the program. -/
theorem mainClean_of_lexical (p : Prog) (hwf : WF p) (b : Built) (tr : List Ev)
    (h : build p = .ok (b, tr)) (X : Lexical p) : MainClean p b := by
  obtain ⟨st, hdi, _, htopo, hown, hso, TF⟩ := discover_final p hwf b tr h
  obtain ⟨_, _, _, _, hbtopo, _⟩ := build_inv p hwf b tr h
  have hinv := scope_fold p hwf st.owner st.topo.reverse TF (lcaFuel st.topo.reverse)
    (by simp only [lcaFuel]; omega) st.topo.reverse [] [] (by simp) (sinv_empty p st.owner)
  rw [← hso, ← hown, ← htopo] at hinv
  rw [← hown, ← htopo] at TF
  obtain ⟨hreq, hent⟩ := arguments_of_requested p b tr h
  constructor
  · rintro a harg ⟨G, hG, hr⟩
    obtain ⟨pre, suf, hsplit⟩ := List.append_of_mem hG
    have r1 := Bridge.discovered_reach p hwf b st hdi htopo hown TF hinv hbtopo pre.length pre G suf rfl hsplit
    obtain ⟨s, pg, l, hpg, hl, hal, hrs⟩ := X.owned a harg (Reach.trans r1 (Bridge.reach_in_full hr))
    have hs : s ∈ b.graphTopo := by
      cases hrs with
      | refl =>
        obtain ⟨rest, hr0⟩ := TF.head
        rw [hr0]; simp
      | @step u _ hru hmem =>
        cases u with
        | node w =>
          simp only [Prog.adjFull, List.mem_append, List.mem_map] at hmem
          rcases hmem with ⟨i, _, hi⟩ | ⟨s', hs', hi⟩
          · cases hi
          · cases hi
            exact (Bridge.sub_discovered p hwf b st hdi htopo hown TF hinv hbtopo w s
              ((Bridge.mem_topo_iff p hwf b st hdi htopo hown TF hinv hbtopo _).mpr hru) hs').1
        | src g' =>
          simp only [Prog.adjFull, List.mem_map] at hmem
          obtain ⟨i, _, hi⟩ := hmem
          cases hi
    exact ⟨s, by rw [hreq s pg l hs hpg hl]; exact hal⟩
  · intro s a hs0 ha v hdep hmain
    obtain ⟨hs, pg, hpg⟩ := hent s a ha
    cases hl : pg.args with
    | none => exact X.explicit s pg hs0 hpg hl
    | some l =>
      rw [hreq s pg l hs hpg hl] at ha
      exact X.clean s pg l a hs0 hpg hl ha v hdep hmain

/-- **build_valid_of_lexical**, **build_correct_of_lexical**: the bridge to C01 with only the lexical
    hypothesis on the program: `WF p`, `Lexical p`, `build p = ok` ⇒ the emission is accepted by `validG`
    and evaluates to the program's denotation. -/
theorem build_valid_of_lexical (p : BuildAlg.Prog) (hwf : WF p) (X : Lexical p) (b : Built)
    (tr : List Ev) (h : build p = .ok (b, tr)) :
    Prog.validG (Bridge.toProg p b.argsOf).nodes (Bridge.toEGraph p b)
      (Bridge.toProg p b.argsOf).main [] = true :=
  build_valid_of_mainClean p hwf b tr h (mainClean_of_lexical p hwf b tr h X)

theorem build_correct_of_lexical {Val : Type} [Inhabited Val] (S : Prog.Sem Val)
    (p : BuildAlg.Prog) (hwf : WF p) (X : Lexical p) (b : Built) (tr : List Ev)
    (h : build p = .ok (b, tr)) (bind : Nat → Val) (vals : List Val) :
    Prog.evalG S (Bridge.toProg p b.argsOf).nodes (Bridge.toEGraph p b) (fun _ => none) vals =
      some (Prog.denoteG S (Bridge.toProg p b.argsOf).nodes bind
        (Bridge.toProg p b.argsOf).main vals) :=
  build_correct_of_mainClean S p hwf b tr h (mainClean_of_lexical p hwf b tr h X) bind vals

theorem graph_lt_of_get (p : Prog) (s : Nat) (pg : PGraph) (h : p.graphs[s]? = some pg) :
    s ∈ List.range p.graphs.length := by
  rw [List.mem_range]
  exact (List.getElem?_eq_some_iff.mp h).1

/-- the executable check on the program implies `Lexical` -/
theorem lexical_of_check (p : Prog) (hwf : WF p) (h : Bridge.lexicalB p = true) : Lexical p := by
  simp only [Bridge.lexicalB, Bool.and_eq_true, List.all_eq_true] at h
  obtain ⟨⟨h1, h2⟩, h3⟩ := h
  have hfull : ∀ x, x ∈ visit p.adjFull p.fuel (V.src 0) [] ↔ Reach p.adjFull (.src 0) x := fun x =>
    mem_visit_iff (rankV p) (rank_adjFull p hwf) p.fuel _ x (rank_src_lt_fuel p hwf 0)
  constructor
  · intro s pg hs0 hpg hnone
    have := h1 s (graph_lt_of_get p s pg hpg)
    simp [hs0, hpg, hnone] at this
  · intro a harg hr
    have := h2 (.node a) ((hfull _).mpr hr)
    simp only [harg, Bool.not_true, Bool.false_or, List.any_eq_true] at this
    obtain ⟨s, _, hs⟩ := this
    cases hpg : p.graphs[s]? with
    | none => simp [hpg] at hs
    | some pg =>
      cases hl : pg.args with
      | none => simp [hpg, hl] at hs
      | some l =>
        simp only [hpg, hl, Bool.and_eq_true, List.contains_iff_mem] at hs
        exact ⟨s, pg, l, hpg, hl, hs.1, (hfull _).mp hs.2⟩
  · intro s pg l a hs0 hpg hl ha v hdep hmain
    have := h3 s (graph_lt_of_get p s pg hpg)
    simp only [hpg, hl, Bool.or_eq_true, beq_iff_eq, List.all_eq_true] at this
    rcases this with h0 | hall
    · exact hs0 h0
    · have hv : v ∈ p.postIn 0 :=
        (mem_visit_iff (rankV p) (rank_adjIn p hwf) p.fuel _ _ (rank_src_lt_fuel p hwf 0)).mpr hmain
      have hno := hall a ha v hv
      have hrank : ∀ x, ∀ w ∈ Bridge.adjCut p s x, rankV p w < rankV p x := by
        intro x w hw
        exact rank_adjFull p hwf x w (List.mem_filter.mp hw).1
      have hf : rankV p v < p.fuel :=
        Nat.lt_of_le_of_lt (rank_le_of_reach p hwf hmain) (rank_src_lt_fuel p hwf 0)
      have hin : V.node a ∈ visit (Bridge.adjCut p s) p.fuel v [] :=
        (mem_visit_iff (rankV p) hrank p.fuel v _ hf).mpr hdep
      have hc : (visit (Bridge.adjCut p s) p.fuel v []).contains (V.node a) = true :=
        List.contains_iff_mem.mpr hin
      rw [hc] at hno
      cases hno

/-- **build_valid_lexical_checked**: every hypothesis is an executable check on the PROGRAM
    (`WFb`, `lexicalB`) or the success of the build itself. -/
theorem build_valid_lexical_checked (p : BuildAlg.Prog) (hwf : p.WFb = true)
    (hx : Bridge.lexicalB p = true) (b : Built) (tr : List Ev) (h : build p = .ok (b, tr)) :
    Prog.validG (Bridge.toProg p b.argsOf).nodes (Bridge.toEGraph p b)
      (Bridge.toProg p b.argsOf).main [] = true :=
  build_valid_of_lexical p (wf_of_wfb p hwf) (lexical_of_check p (wf_of_wfb p hwf) hx) b tr h

/-- **args_stay_local** (the property's sentence "values that depend on a subgraph's own arguments never
    appear outside that subgraph", at full strength for main-clean — in particular lexical — programs):
    in a successful build every emitted vertex that depends freely on an argument of body `s` sits in a
    graph enclosed by `s` in the final scope tree (`s` itself or a body nested in it). -/
theorem args_stay_local (p : Prog) (hwf : WF p) (b : Built) (tr : List Ev)
    (h : build p = .ok (b, tr)) (M : MainClean p b) (s a : Nat) (ha : a ∈ lookupL b.argsOf s)
    (v : V) (g : Nat) (hp : (v, g) ∈ placed tr [])
    (hdep : Reach (Bridge.adjCut p s) v (.node a)) :
    Anc (parent b.owner b.scopeOf) s g := by
  obtain ⟨st, hdi, _, htopo, hown, hso, TF⟩ := discover_final p hwf b tr h
  obtain ⟨_, _, _, _, hbtopo, _⟩ := build_inv p hwf b tr h
  have hinv := scope_fold p hwf st.owner st.topo.reverse TF (lcaFuel st.topo.reverse)
    (by simp only [lcaFuel]; omega) st.topo.reverse [] [] (by simp) (sinv_empty p st.owner)
  rw [← hso, ← hown, ← htopo] at hinv
  rw [← hown, ← htopo] at TF
  have hs := placed_in_scope p b tr h v g hp
  apply (hinv.low v g hs).2 s
  rintro G ⟨hG, hGv⟩
  obtain ⟨pre, suf, hsplit⟩ := List.append_of_mem hG
  exact Bridge.freeDep_enclosed p hwf b st hdi htopo hown TF hinv hbtopo s a
    (fun hs0 => M.clean s a hs0 ha) pre.length pre G suf rfl hsplit v
    ((mem_visit_iff (rankV p) (rank_adjIn p hwf) p.fuel (.src G) v (rank_src_lt_fuel p hwf G)).mp hGv)
    hdep

/-- … for lexical programs, with the requested argument list in the place of `arguments_of` -/
theorem args_stay_local_of_lexical (p : Prog) (hwf : WF p) (X : Lexical p) (b : Built)
    (tr : List Ev) (h : build p = .ok (b, tr)) (s : Nat) (pg : PGraph) (l : List Nat)
    (hs : s ∈ b.graphTopo) (hpg : p.graphs[s]? = some pg) (hl : pg.args = some l) (a : Nat)
    (ha : a ∈ l) (v : V) (g : Nat) (hp : (v, g) ∈ placed tr [])
    (hdep : Reach (Bridge.adjCut p s) v (.node a)) :
    Anc (parent b.owner b.scopeOf) s g :=
  args_stay_local p hwf b tr h (mainClean_of_lexical p hwf b tr h X) s a
    (by rw [(arguments_of_requested p b tr h).1 s pg l hs hpg hl]; exact ha) v g hp hdep

/-- **property_of_lexical** — the statement of C04 for programs of the front end, in one theorem: if a
    program in creation order satisfies the lexical condition and its build succeeds, then in the built
    model (1) every operator application occurs exactly once if some requested output depends on it and
    not at all otherwise; (2) every emitted vertex sits in exactly one graph, the lowest common ancestor
    of all graphs reading it; (3) every emitted vertex depending freely on an argument of a body sits
    inside that body; (4) the emission is accepted by the ONNX scoping rule of C01's `validG` (hence
    evaluates to the program's denotation, `build_correct_of_lexical`). Programs that leak a body's
    argument to an outer scope are rejected: `leak_rejected`. -/
theorem property_of_lexical (p : Prog) (hwf : WF p) (X : Lexical p) (b : Built) (tr : List Ev)
    (h : build p = .ok (b, tr)) :
    (∀ n, p.isArg n = false →
      (Reach p.adjFull (.src 0) (.node n) → (emitted tr).count (.node n) = 1) ∧
      (¬ Reach p.adjFull (.src 0) (.node n) → (emitted tr).count (.node n) = 0)) ∧
    (∀ v, v ∈ emitted tr → ∃ g, (v, g) ∈ placed tr [] ∧ (∀ g', (v, g') ∈ placed tr [] → g' = g) ∧
      LowestP (parent b.owner b.scopeOf)
        (fun G => G ∈ b.graphTopo ∧ Reach p.adjIn (.src G) v) g) ∧
    (∀ s pg l a v g, s ∈ b.graphTopo → p.graphs[s]? = some pg → pg.args = some l → a ∈ l →
      (v, g) ∈ placed tr [] → Reach (Bridge.adjCut p s) v (.node a) →
      Anc (parent b.owner b.scopeOf) s g) ∧
    Prog.validG (Bridge.toProg p b.argsOf).nodes (Bridge.toEGraph p b)
      (Bridge.toProg p b.argsOf).main [] = true :=
  ⟨fun n hn => emitted_once p hwf b tr h n hn,
   fun v hv => emitted_in_least_enclosing p hwf b tr h v hv,
   fun s pg l a v g hs hpg hl ha hp hdep =>
     args_stay_local_of_lexical p hwf X b tr h s pg l hs hpg hl a ha v g hp hdep,
   build_valid_of_lexical p hwf X b tr h⟩

/-! ### the Builder does not look at what kind of operator a node is

`BuildAlg.Prog` has no field for the operator type, domain, version, attributes or number of outputs
of a node: a node is `isArg`, its input ids and the graphs it holds. Every theorem of this file is
therefore *parametric in the operator kinds* — placement, multiplicity and order are functions of
the use structure alone; an input-less generator (Constant, RandomNormal, …), a multi-output
operator, an `ai.onnx.ml` operator or a user-defined one is scoped exactly like `Neg`.
`build_kind_parametric` states it for programs decorated with an arbitrary labelling (C18's
`relabel_build` is the same fact on its kinded programs). That the *real* Builder does not look at
the node's class either is tie H: every run realises the same abstract program with different
operator kinds per application (`lib_buildalg.make_value`, palettes) and demands identical decisions,
and the model-free oracle judges each realisation. Likewise a node of the model is one *constructor
call* of the program (the harness counts applications at the call site): two calls returning one
node object are reported by the oracle (`call-sites-merged`). -/

/-- a program whose nodes carry an arbitrary description of the operator applied -/
structure Labelled (κ : Type) where
  prog : BuildAlg.Prog
  kind : Nat → κ

/-- **build_kind_parametric**: whatever the operator kinds are, the Builder's decisions are the same. -/
theorem build_kind_parametric {κ κ' : Type} (p : BuildAlg.Prog) (k : Nat → κ) (k' : Nat → κ') :
    build (Labelled.mk p k).prog = build (Labelled.mk p k').prog := rfl

/-! ### the remaining rejections are single tests of the model (exercised by the correspondence) -/

/-- **claimed_twice_rejected**: a graph whose argument list meets the arguments already claimed by the
    graphs discovered below it is rejected (`BuildError`). -/
theorem claimed_twice_rejected (pg : PGraph) (g : Nat) (st : DState) (acc : Acc)
    (h : inter (argsFor pg acc) acc.claimed ≠ []) :
    finishDiscover pg g st acc = .error (.build "already-claimed") := by
  simp [finishDiscover, h]

/-- **multiple_owner_rejected**: a Graph object already owned by another node is rejected. -/
theorem multiple_owner_rejected (rec : Nat → DState → Except Err DState) (n o sub : Nat)
    (x : DState × Acc) (st : DState) (hr : rec sub x.1 = .ok st) (ho : lookupN st.owner sub = some o)
    (hne : o ≠ n) : subStep rec n x sub = .error (.build "multiple-owners") := by
  simp [subStep, hr, ho, hne]

/-- **double_introduction_rejected** (`Scope.update(force=True)`): compiling a vertex that is
    already in the flat scope raises `ScopeError`. -/
theorem double_introduction_rejected (p : Prog) (rec : Nat → CState → Except Err CState)
    (cs : CState) (v : V) (h : v ∈ cs.intro) : emitStep p rec cs v = .error .scope := by
  simp [emitStep, h]

/-! ### an Argument listed by two graphs is rejected (round 10: `claimed_twice_rejected` lifted to every
    build; invariant `ArgsSeg` of the compile walk, `Lemmas/BuildAlgArgs`) -/

/-- a reachable body other than main is held by a reachable node -/
theorem reach_src_holder (p : Prog) : ∀ x, Reach p.adjFull (.src 0) x → ∀ G, x = V.src G →
    G = 0 ∨ ∃ n, Reach p.adjFull (.src 0) (.node n) ∧ G ∈ p.subs n := by
  intro x hx
  cases hx with
  | refl => intro G hG; left; cases hG; rfl
  | @step v _ hr hw =>
    intro G hG
    subst hG
    right
    cases v with
    | src g => simp [Prog.adjFull] at hw
    | node n =>
      simp only [Prog.adjFull, List.mem_append, List.mem_map] at hw
      rcases hw with ⟨i, _, hi⟩ | ⟨s, hs, hs'⟩
      · cases hi
      · cases hs'; exact ⟨n, hr, hs⟩

/-- every reachable graph is entered by the compile walk of a successful build -/
theorem reachable_graph_entered (p : Prog) (hwf : WF p) (b : Built) (tr : List Ev)
    (h : build p = .ok (b, tr)) (G : Nat) (hG : G = 0 ∨ Below p G 0) :
    Ev.enter G ∈ tr ∧
    (∀ g1 g2, Ev.enter g1 ∈ tr → Ev.enter g2 ∈ tr → g1 ≠ g2 →
      ∀ a ∈ lookupL b.argsOf g1, a ∉ lookupL b.argsOf g2) := by
  obtain ⟨cs, hc, htr⟩ := build_compile p b tr h
  obtain ⟨new, ⟨t, _, _, d, e⟩, h0⟩ := args_compileG p b _ _ _ _ hc
  simp only [List.append_nil] at t
  have hmem : ∀ ev, ev ∈ tr ↔ ev ∈ new := by
    intro ev; rw [htr, t]; exact List.mem_reverse
  refine ⟨?_, ?_⟩
  · rw [hmem]
    have hr : Reach p.adjFull (.src 0) (.src G) := by
      rcases hG with hG | hG
      · subst hG; exact Reach.refl _
      · exact below_reach_full p hG
    rcases reach_src_holder p _ hr G rfl with h1 | ⟨n, hn, hs⟩
    · subst h1; exact h0
    · have hna : p.isArg n = false := by
        cases hq : p.isArg n with
        | false => rfl
        | true =>
          have := (hwf.arg_leaf n hq).2
          rw [this] at hs; cases hs
      have hem : V.node n ∈ emitted tr :=
        (emitted_iff_reachable p hwf b tr h _).mpr ⟨hn, by simpa [V.isArgOf] using hna⟩
      have := emit_mem_of_emitted tr _ hem
      exact e n ((hmem _).mp this) G hs
  · intro g1 g2 h1 h2
    exact d g1 g2 ((hmem _).mp h1) ((hmem _).mp h2)

/-- **shared_argument_rejected**: if two DIFFERENT graphs some requested output depends on (the main
    graph or bodies at any depth, nested in each other or not) both list the same Argument in their
    requested argument lists, `build` never returns a model — whether `discover`'s "already claimed"
    test (nested case) or the flat `Scope`'s `ScopeError` (sibling case) fires. -/
theorem shared_argument_rejected (p : Prog) (hwf : WF p) (G1 G2 : Nat) (hne : G1 ≠ G2)
    (h1 : G1 = 0 ∨ Below p G1 0) (h2 : G2 = 0 ∨ Below p G2 0)
    (pg1 pg2 : PGraph) (l1 l2 : List Nat) (hp1 : p.graphs[G1]? = some pg1) (hl1 : pg1.args = some l1)
    (hp2 : p.graphs[G2]? = some pg2) (hl2 : pg2.args = some l2) (a : Nat) (ha1 : a ∈ l1) (ha2 : a ∈ l2) :
    ∀ b tr, build p ≠ .ok (b, tr) := by
  intro b tr h
  obtain ⟨st, hdi, h0, htopo, _⟩ := discover_final p hwf b tr h
  have hin : ∀ G, (G = 0 ∨ Below p G 0) → G ∈ b.graphTopo := by
    intro G hG
    rw [htopo]
    rcases hG with hG | hG
    · subst hG; simpa using h0
    · simpa using (below_claimed p hwf st hdi hG h0).1
  have hreq := (arguments_of_requested p b tr h).1
  have e1 := hreq G1 pg1 l1 (hin G1 h1) hp1 hl1
  have e2 := hreq G2 pg2 l2 (hin G2 h2) hp2 hl2
  obtain ⟨en1, hd⟩ := reachable_graph_entered p hwf b tr h G1 h1
  obtain ⟨en2, _⟩ := reachable_graph_entered p hwf b tr h G2 h2
  exact hd G1 G2 en1 en2 hne a (by rw [e1]; exact ha1) (by rw [e2]; exact ha2)

/-- the positive form: in a successful build the argument lists of the entered graphs are pairwise
    disjoint (each graph input of the nested ModelProto is declared by exactly one graph) -/
theorem arguments_disjoint (p : Prog) (hwf : WF p) (b : Built) (tr : List Ev)
    (h : build p = .ok (b, tr)) (g1 g2 : Nat) (h1 : Ev.enter g1 ∈ tr) (h2 : Ev.enter g2 ∈ tr)
    (hne : g1 ≠ g2) : ∀ a ∈ lookupL b.argsOf g1, a ∉ lookupL b.argsOf g2 :=
  (reachable_graph_entered p hwf b tr h 0 (.inl rfl)).2 g1 g2 h1 h2 hne

/-- **reachable_arguments_disjoint** (mini-round after round 10): the disjointness of argument lists
    stated on the PROGRAM's graphs and for ANY origin of `arguments_of` — the requested list, or, for
    a graph without one, `list(all − claimed)` computed by `discover`. In a successful build, for any
    two different graphs some requested output depends on (main or bodies, any depth, nested or not)
    the lists `arguments_of[G1]`, `arguments_of[G2]` share no element, and every element of such a
    list is an Argument node. (No "requested list" proviso: the compile walk introduces whatever
    `arguments_of` holds into the one flat `Scope` — invariant `ArgsSeg`.) -/
theorem reachable_arguments_disjoint (p : Prog) (hwf : WF p) (b : Built) (tr : List Ev)
    (h : build p = .ok (b, tr)) (G1 G2 : Nat) (h1 : G1 = 0 ∨ Below p G1 0)
    (h2 : G2 = 0 ∨ Below p G2 0) (hne : G1 ≠ G2) :
    (∀ a ∈ lookupL b.argsOf G1, a ∉ lookupL b.argsOf G2) ∧
    (∀ a ∈ lookupL b.argsOf G1, p.isArg a = true) := by
  refine ⟨arguments_disjoint p hwf b tr h G1 G2 (reachable_graph_entered p hwf b tr h G1 h1).1
    (reachable_graph_entered p hwf b tr h G2 h2).1 hne, ?_⟩
  obtain ⟨_, _, _, _, _, hargs⟩ := build_inv p hwf b tr h
  exact hargs G1

/-! ### non-vacuity: the nested-If program of the design probe, an outer leak, a sibling leak -/

/-- ids: 0 x, 1 c (arguments); 2 e = Neg(x); 3 Neg(e) [outer else]; 4 Add(e, x) [inner then];
    5 inner If(c){else: [x], then: [4]}; 6 outer If(c){else: [3], then: [5]}; 7 Add(6, x) -/
def exNested : Prog :=
  { nodes := [⟨true, [], []⟩, ⟨true, [], []⟩, ⟨false, [0], []⟩, ⟨false, [2], []⟩, ⟨false, [2, 0], []⟩,
              ⟨false, [1], [1, 2]⟩, ⟨false, [1], [3, 4]⟩, ⟨false, [6, 0], []⟩],
    graphs := [⟨some [0, 1], [7]⟩, ⟨some [], [0]⟩, ⟨some [], [4]⟩, ⟨some [], [3]⟩, ⟨some [], [5]⟩] }

example : exNested.WFb = true := by decide

/-- the build succeeds; `e` (used in the innermost then-branch and in the sibling else-branch) is
    emitted exactly once, in the main graph; `Add(e, x)` stays in the innermost body -/
example : ∃ b tr, build exNested = .ok (b, tr) ∧ (emitted tr).count (.node 2) = 1 ∧
    (V.node 2, 0) ∈ placed tr [] ∧ (V.node 4, 2) ∈ placed tr [] ∧ (V.node 3, 3) ∈ placed tr [] ∧
    structOk exNested tr [] = true := by
  refine ⟨_, _, rfl, ?_, ?_, ?_, ?_, ?_⟩ <;> decide

/-- the hypothesis of `least_enclosing` is satisfiable: `e` is scoped in main, `Add(e, x)` in the
    innermost then-branch, whose parent in the final tree is the outer then-branch -/
example : ∃ b tr, build exNested = .ok (b, tr) ∧ b.scopeOf.get (.node 2) = some 0 ∧
    b.scopeOf.get (.node 4) = some 2 ∧ parent b.owner b.scopeOf 2 = 4 ∧
    parent b.owner b.scopeOf 4 = 0 := by
  refine ⟨_, _, rfl, ?_, ?_, ?_, ?_⟩ <;> decide

/-- `emitted_in_least_enclosing` on the probe: `e` (2) is placed in main and nowhere else -/
example : ∃ b tr, build exNested = .ok (b, tr) ∧ V.node 2 ∈ emitted tr ∧
    (placed tr []).filter (fun e => e.1 == V.node 2) = [(V.node 2, 0)] := by
  refine ⟨_, _, rfl, ?_, ?_⟩ <;> decide

/-- a Loop body argument (4) leaked to the main graph: 7 = Add(Loop, arg 4) -/
def exOuterLeak : Prog :=
  { nodes := [⟨true, [], []⟩, ⟨true, [], []⟩, ⟨true, [], []⟩, ⟨true, [], []⟩, ⟨true, [], []⟩,
              ⟨false, [4, 0], []⟩, ⟨false, [0], [1]⟩, ⟨false, [6, 4], []⟩],
    graphs := [⟨some [0, 1], [7]⟩, ⟨some [2, 3, 4], [3, 5]⟩] }

example : exOuterLeak.WFb = true := by decide
example : build exOuterLeak = .error (.build "leaked") := by rfl

/-- the hypotheses of `leak_rejected` are satisfiable (and its conclusion is what the model computes) -/
example : ∀ b tr, build exOuterLeak ≠ .ok (b, tr) := by
  have r7 : Reach exOuterLeak.adjIn (.src 0) (.node 7) := Reach.step (Reach.refl _) (by decide)
  exact leak_rejected exOuterLeak (wf_of_wfb _ (by decide)) 0 1 (Or.inl rfl)
    (Below.direct (n := 6) (Reach.step r7 (by decide)) (by decide))
    ⟨some [2, 3, 4], [3, 5]⟩ [2, 3, 4] rfl rfl 4 (by decide) (Reach.step r7 (by decide))

/-- a Loop whose body computes `Neg(carried)`: ids 0 x, 1 c, 2 3 4 the body's arguments, 5 Neg(4), 6 Loop -/
def exLoop : Prog :=
  { nodes := [⟨true, [], []⟩, ⟨true, [], []⟩, ⟨true, [], []⟩, ⟨true, [], []⟩, ⟨true, [], []⟩,
              ⟨false, [4], []⟩, ⟨false, [0], [1]⟩],
    graphs := [⟨some [0, 1], [6]⟩, ⟨some [2, 3, 4], [3, 5]⟩] }

example : exLoop.WFb = true := by decide

/-- the hypotheses of `arg_dependent_not_read_above` are satisfiable: the build succeeds, `Neg(carried)`
    is placed in the body and the main graph does not read it -/
example : ∃ b tr, build exLoop = .ok (b, tr) ∧ (V.node 5, 1) ∈ placed tr [] ∧
    ¬ Reach exLoop.adjIn (.src 0) (.node 5) := by
  refine ⟨_, _, rfl, by decide, ?_⟩
  exact arg_dependent_not_read_above exLoop (wf_of_wfb _ (by decide)) _ _ rfl 0 1 (by decide)
    (Below.direct (n := 6) (Reach.step (Reach.refl _) (by decide)) (by decide))
    ⟨some [2, 3, 4], [3, 5]⟩ [2, 3, 4] rfl rfl 4 (by decide) (.node 5)
    (Reach.step (Reach.refl _) (by decide))

/-- `spox.build(..., drop_unused_inputs=True)` with the inputs given as (c, x): in `exLoop` nobody reads
    `c`, it is dropped; in `exNested` both are read (inside bodies too) and keep the given order; a
    needed input that was not given is a `KeyError`; without `drop_unused_inputs` both stay -/
example : (publicBuild exLoop [1, 0] true).toOption.map (·.2.2) = some [0] := by decide
example : (publicBuild exNested [1, 0] true).toOption.map (·.2.2) = some [1, 0] := by decide
example : (publicBuild exLoop [1] true).toOption.map (·.2.2) = none := by decide
example : (publicBuild exLoop [1, 0] false).toOption.map (·.2.2) = some [1, 0] := by decide

/-- `MainClean` is satisfiable and discriminates: the Loop program is main-clean (its build is then
    accepted by `validG`: `build_valid_mainClean_checked`), the sibling leak is not -/
example : ∃ b tr, build exLoop = .ok (b, tr) ∧ Bridge.mainCleanB exLoop b = true := by
  refine ⟨_, _, rfl, ?_⟩; decide
example : ∃ b tr, build exNested = .ok (b, tr) ∧ Bridge.mainCleanB exNested b = true := by
  refine ⟨_, _, rfl, ?_⟩; decide

/-- one Graph object handed to two If nodes (round 10): 0 x, 1 c (arguments); 2 Neg(x);
    3 If(c){[x], [2]}; 4 If(c){the SAME two graphs}; 5 Add(3, 4) -/
def exTwoOwners : Prog :=
  { nodes := [⟨true, [], []⟩, ⟨true, [], []⟩, ⟨false, [0], []⟩, ⟨false, [1], [1, 2]⟩,
              ⟨false, [1], [1, 2]⟩, ⟨false, [3, 4], []⟩],
    graphs := [⟨some [0, 1], [5]⟩, ⟨some [], [0]⟩, ⟨some [], [2]⟩] }

example : exTwoOwners.WFb = true := by decide
example : build exTwoOwners = .error (.build "multiple-owners") := by rfl

/-- the hypotheses of `shared_body_rejected` are satisfiable (conclusion = what the model computes) -/
example : ∀ b tr, build exTwoOwners ≠ .ok (b, tr) := by
  have r5 : Reach exTwoOwners.adjFull (.src 0) (.node 5) := Reach.step (Reach.refl _) (by decide)
  exact shared_body_rejected exTwoOwners (wf_of_wfb _ (by decide)) 3 4 1 (by decide)
    (Reach.step r5 (by decide)) (Reach.step r5 (by decide)) (by decide) (by decide)

/-- `owner_unique` on the probe: the inner If (5) is the recorded owner of both of its bodies, the
    outer If (6) of the other two -/
example : ∃ b tr, build exNested = .ok (b, tr) ∧ lookupN b.owner 1 = some 5 ∧
    lookupN b.owner 2 = some 5 ∧ lookupN b.owner 3 = some 6 ∧ lookupN b.owner 4 = some 6 := by
  refine ⟨_, _, rfl, ?_, ?_, ?_, ?_⟩ <;> decide

/-- two sibling Loop bodies built over the SAME argument list (round 10): 0, 1 main arguments; 2, 3, 4
    the shared formals; 5 = f(4, 0) in the first body; 6 = Loop(0){g1}; 7 = f(4, 3) in the second body;
    8 = Loop(6){g2} -/
def exSharedArgs : Prog :=
  { nodes := [⟨true, [], []⟩, ⟨true, [], []⟩, ⟨true, [], []⟩, ⟨true, [], []⟩, ⟨true, [], []⟩,
              ⟨false, [4, 0], []⟩, ⟨false, [0], [1]⟩, ⟨false, [4, 3], []⟩, ⟨false, [6], [2]⟩],
    graphs := [⟨some [0, 1], [8]⟩, ⟨some [2, 3, 4], [3, 5]⟩, ⟨some [2, 3, 4], [3, 7]⟩] }

example : exSharedArgs.WFb = true := by decide
example : build exSharedArgs = .error .scope := by rfl

/-- the hypotheses of `shared_argument_rejected` are satisfiable (conclusion = what the model computes) -/
example : ∀ b tr, build exSharedArgs ≠ .ok (b, tr) := by
  have r8 : Reach exSharedArgs.adjIn (.src 0) (.node 8) := Reach.step (Reach.refl _) (by decide)
  have r6 : Reach exSharedArgs.adjIn (.src 0) (.node 6) := Reach.step r8 (by decide)
  exact shared_argument_rejected exSharedArgs (wf_of_wfb _ (by decide)) 1 2 (by decide)
    (.inr (Below.direct r6 (by decide))) (.inr (Below.direct r8 (by decide)))
    ⟨some [2, 3, 4], [3, 5]⟩ ⟨some [2, 3, 4], [3, 7]⟩ [2, 3, 4] [2, 3, 4] rfl rfl rfl rfl 4
    (by decide) (by decide)

/-- `arguments_disjoint` / `reachable_graph_entered` on the probe: all five graphs are entered -/
example : ∃ b tr, build exNested = .ok (b, tr) ∧ Ev.enter 0 ∈ tr ∧ Ev.enter 2 ∈ tr ∧ Ev.enter 4 ∈ tr := by
  refine ⟨_, _, rfl, ?_, ?_, ?_⟩ <;> decide

/-- `exLoop` with NO requested argument list on either graph: `arguments_of` is `list(all − claimed)` —
    the body takes the formals it reaches (3, 4), main takes what is left (0); the lists are disjoint
    (`reachable_arguments_disjoint` on graphs without a requested list) -/
def exLoopNoLists : Prog :=
  { nodes := exLoop.nodes, graphs := [⟨none, [6]⟩, ⟨none, [3, 5]⟩] }

example : exLoopNoLists.WFb = true := by decide
example : ∃ b tr, build exLoopNoLists = .ok (b, tr) ∧ lookupL b.argsOf 0 = [0] ∧
    lookupL b.argsOf 1 = [3, 4] := by
  refine ⟨_, _, rfl, ?_, ?_⟩ <;> decide
example : ∃ b tr, build exLoopNoLists = .ok (b, tr) ∧
    ∀ a ∈ lookupL b.argsOf 1, a ∉ lookupL b.argsOf 0 := by
  have r6 : Reach exLoopNoLists.adjIn (.src 0) (.node 6) := Reach.step (Reach.refl _) (by decide)
  refine ⟨_, _, rfl, ?_⟩
  exact (reachable_arguments_disjoint exLoopNoLists (wf_of_wfb _ (by decide)) _ _ rfl 1 0
    (.inr (Below.direct r6 (by decide))) (.inl rfl) (by decide)).1

/-- sibling leak (design probe p4): the second Loop body uses the first body's argument 4. The
    Builder itself does not object (`build` succeeds, both bodies hang off the main graph); it is the
    structural rule of the final checker that rejects the emission. -/
def exSiblingLeak : Prog :=
  { nodes := [⟨true, [], []⟩, ⟨true, [], []⟩, ⟨true, [], []⟩, ⟨true, [], []⟩, ⟨true, [], []⟩,
              ⟨false, [4, 0], []⟩, ⟨false, [0], [1]⟩,
              ⟨true, [], []⟩, ⟨true, [], []⟩, ⟨true, [], []⟩,
              ⟨false, [9, 4], []⟩, ⟨false, [6], [2]⟩],
    graphs := [⟨some [0, 1], [11]⟩, ⟨some [2, 3, 4], [3, 5]⟩, ⟨some [7, 8, 9], [8, 10]⟩] }

example : ∃ b tr, build exSiblingLeak = .ok (b, tr) ∧ structOk exSiblingLeak tr [] = false := by
  refine ⟨_, _, rfl, ?_⟩; decide

/-- the hypotheses of `args_stay_local` are jointly satisfiable: `Neg(carried)` of `exLoop` depends freely
    on the body's argument 4 and is placed in the body -/
example : ∃ b tr, build exLoop = .ok (b, tr) ∧ Anc (parent b.owner b.scopeOf) 1 1 := by
  refine ⟨_, _, rfl, ?_⟩
  exact args_stay_local exLoop (wf_of_wfb _ (by decide)) _ _ rfl
    (mainClean_of_check _ (wf_of_wfb _ (by decide)) _ (by decide)) 1 4 (by decide) (.node 5) 1
    (by decide) (Reach.step (Reach.refl _) (by decide))

/-- `Lexical` is satisfiable and discriminates (a check on the program alone) -/
example : Bridge.lexicalB exLoop = true ∧ Bridge.lexicalB exNested = true ∧
    Bridge.lexicalB exSiblingLeak = false ∧ Bridge.lexicalB exOuterLeak = false := by decide

example : ∃ b tr, build exSiblingLeak = .ok (b, tr) ∧ Bridge.mainCleanB exSiblingLeak b = false := by
  refine ⟨_, _, rfl, ?_⟩; decide

/- Non-vacuity of `build_valid`: kernel evaluation of `Prog.validG` (a mutual definition over a nested
   inductive) is too expensive for a `decide`/`rfl` example; instead the native driver evaluates
   `validG (toProg p) (toEGraph (build p))` on every generated case of every run (about 6 000 built
   programs per quick run, all accepted; facet `bridge_valid` of the C04 correspondence). -/


/-! ### tie G: the inventory of `_build.py`, regenerated from the source on every run, is what the model covers -/

/-- every function of `_build.py` has a model counterpart (`BuildAlgCover.methods` names it) -/
theorem generated_methods_covered :
    Generated.BuildAlgFacts.methods = BuildAlgCover.methods.map (·.1) := by decide

/-- no module-level state in `_build.py` (a module-level cache would be a new name) -/
theorem generated_module_names_covered :
    Generated.BuildAlgFacts.moduleNames = BuildAlgCover.moduleNames := by decide

/-- no module-level state in `_graph.py` (where `subgraph()` traces the body callbacks), `_internal_op.py`,
    `_traverse.py` either: a memo table keyed by callback / node would be a new name -/
theorem generated_other_module_names_covered :
    Generated.BuildAlgFacts.otherModuleNames = BuildAlgCover.otherModuleNames := by decide

/-- class-level attributes: the annotated Builder / ScopeTree / BuildResult fields, nothing assigned -/
theorem generated_class_attrs_covered :
    Generated.BuildAlgFacts.classAttrs = BuildAlgCover.classAttrs := by decide

/-- every write site of Builder state is one the model has (per method: attribute and how) -/
theorem generated_writes_covered :
    Generated.BuildAlgFacts.writes = BuildAlgCover.writes.map (fun e => (e.1, e.2.1, e.2.2.1)) := by
  decide

/-- the call targets of every function are the ones the model follows -/
theorem generated_calls_covered :
    Generated.BuildAlgFacts.calls = BuildAlgCover.calls := by decide

end C04
