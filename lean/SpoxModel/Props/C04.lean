import SpoxModel.Model.BuildAlg
/-! Property theorems for C04 (only property-level statements and non-vacuity examples live here). -/
