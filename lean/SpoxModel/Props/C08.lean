import SpoxModel.Model.Inline
import SpoxModel.Generated.InlineFacts
/-! Property theorems for C08 (only property-level statements and non-vacuity examples live here). -/
namespace C08
open Inline

/-! ### `normalise_pure`: the caller's model is never modified by `inline()` -/

theorem run_loc_some {α : Type} (f : Nat → α → α) (sts : List Stmt) (k : Nat) (c x : α) :
    (Own.run f sts k ⟨c, some x⟩).caller = c := by
  induction sts generalizing k x with
  | nil => rfl
  | cons st sts ih => cases st <;> simp [Own.run, Own.step, ih]

/-- for every statement list in which no mutation precedes the copy, and whatever the mutations do,
    the caller's object has the same content afterwards -/
theorem copyFirst_pure {α : Type} (f : Nat → α → α) (sts : List Stmt) (k : Nat) (c : α)
    (h : copyFirst sts = true) : (Own.run f sts k ⟨c, none⟩).caller = c := by
  induction sts generalizing k with
  | nil => rfl
  | cons st sts ih =>
    cases st with
    | copy => simp [Own.run, Own.step, run_loc_some]
    | mutate => simp [copyFirst] at h
    | read => simpa [Own.run, Own.step] using ih (k + 1) (by simpa [copyFirst] using h)
    | other => simpa [Own.run, Own.step] using ih (k + 1) (by simpa [copyFirst] using h)

/-- the statement list extracted from `/repo` on this run copies before it mutates, through a
    `_copy_model` that returns a fresh object -/
theorem generated_copy_first :
    copyFirst Generated.InlineFacts.stmts = true ∧ Generated.InlineFacts.copyFresh = true := by decide

/-- `inline(m)` leaves `m` unchanged (for the code as extracted on this run) -/
theorem normalise_pure {α : Type} (f : Nat → α → α) (c : α) :
    (Own.run f Generated.InlineFacts.stmts 0 ⟨c, none⟩).caller = c :=
  copyFirst_pure f _ 0 c generated_copy_first.1

/-- non-vacuity: without the copy the caller's object does change -/
theorem no_copy_counterexample :
    (Own.run (fun _ (n : Nat) => n + 1) [.read, .mutate] 0 ⟨0, none⟩).caller ≠ 0 := by decide

end C08
