/-! Property theorems for C08 (only property-level statements and non-vacuity examples live here). -/
