import SpoxModel.Lemmas.InlineHyg
import SpoxModel.Lemmas.InlineTotal
import SpoxModel.Lemmas.InlineSeq
import SpoxModel.Generated.InlineFacts
/-! Property theorems for C08 (only property-level statements and non-vacuity examples live here).

`inline(m)` denotes exactly the function of `m`:
* binding: `bind_spec`, `bind_missing_typeerror`, `bind_duplicate_typeerror`, `bind_unknown_typeerror`
  (+ `bind_surplus_counterexample` for the pinned tree), `call_type_check`;
* renaming: `rename_injective`, `rename_injective_repeated` (+ `rename_clash_counterexample` for the
  pinned tree, `rename_fixed_example`);
* meaning: `inline_sem_scope` / `inline_sem` (any operator semantics, nested subgraphs capturing outer values, empty
  optional inputs, initializers, pass-through outputs) (+ `inline_passthrough_counterexample`);
* purity: `normalise_pure` over the statement list generated from the source; `functions_refused`;
  `output_types_declared`.
-/
namespace C08
open Inline

/-! ### binding -/

/-- `bind` succeeds iff every input is supplied exactly once or has a default and nothing unknown
    or surplus is supplied; then the slot of each input carries its positional argument, else its
    keyword argument, else its default.  All input lists without repeated names, all call forms. -/
theorem bind_spec (ins dflts : List String) (c : Call) (hnd : ins.Nodup) :
    (Good ins dflts c → bind ins dflts c = .ok (ins.map (slotFor ins c))) ∧
    (¬ Good ins dflts c → bind ins dflts c = .error .typeError) := by
  refine ⟨bind_of_good ins dflts c hnd, fun hng => ?_⟩
  cases h : bind ins dflts c with
  | ok slots => exact absurd (bind_ok_good _ _ _ _ h) hng
  | error e => rw [bind_error_typeError _ _ _ _ h]

/-- slot `i` of a successful call: the `i`-th positional, else the keyword, else the default -/
theorem bind_slot (ins dflts : List String) (c : Call) (hnd : ins.Nodup) (hg : Good ins dflts c)
    (slots : List Slot) (h : bind ins dflts c = .ok slots) (i : Nat) (hi : i < ins.length) :
    slots[i]? = some (if i < c.npos then .pos i else if ins[i] ∈ c.kws then .kw ins[i] else .dflt ins[i]) := by
  rw [(bind_spec ins dflts c hnd).1 hg] at h
  cases h
  simp only [List.getElem?_map, List.getElem?_eq_getElem hi, Option.map_some, slotFor]
  congr 1
  by_cases hlt : i < c.npos
  · have hi' : i < (ins.take c.npos).length := by simp [List.length_take]; omega
    have hmem : ins[i] ∈ ins.take c.npos := by
      have : (ins.take c.npos)[i] = ins[i] := by simp
      rw [← this]; exact List.getElem_mem hi'
    have hnd' : (ins.take c.npos).Nodup := hnd.sublist (List.take_sublist _ _)
    have : (ins.take c.npos).idxOf ins[i] = i := by
      have h1 := hnd'.idxOf_getElem i hi'
      simpa using h1
    simp [hmem, hlt, this]
  · have hnm : ins[i] ∉ ins.take c.npos := by
      intro hm
      obtain ⟨j, hj, he⟩ := List.getElem_of_mem hm
      have hj' : j < c.npos := by simp [List.length_take] at hj; omega
      have hjl : j < ins.length := by simp [List.length_take] at hj; omega
      have : ins[j] = ins[i] := by simpa using he
      have hji : j = i := by
        have h1 := hnd.idxOf_getElem j hjl
        have h2 := hnd.idxOf_getElem i hi
        rw [this] at h1; omega
      omega
    simp [hnm, hlt]

/-- a required input that is not supplied raises `TypeError` -/
theorem bind_missing_typeerror (ins dflts : List String) (c : Call) (n : String)
    (hn : n ∈ ins) (hpos : n ∉ ins.take c.npos) (hkw : n ∉ c.kws) (hd : n ∉ dflts) :
    bind ins dflts c = .error .typeError := by
  cases h : bind ins dflts c with
  | ok slots => exact absurd ((bind_ok_good _ _ _ _ h).2.2 n hn hpos hkw) hd
  | error e => rw [bind_error_typeError _ _ _ _ h]

/-- an input supplied both positionally and by keyword raises `TypeError` -/
theorem bind_duplicate_typeerror (ins dflts : List String) (c : Call) (k : String)
    (hk : k ∈ c.kws) (hpos : k ∈ ins.take c.npos) : bind ins dflts c = .error .typeError := by
  cases h : bind ins dflts c with
  | ok slots => exact absurd hpos ((bind_ok_good _ _ _ _ h).2.1 k hk).2
  | error e => rw [bind_error_typeError _ _ _ _ h]

/-- an unknown keyword, or more positional arguments than inputs, raises `TypeError` -/
theorem bind_unknown_typeerror (ins dflts : List String) (c : Call)
    (h : (∃ k ∈ c.kws, k ∉ ins) ∨ ins.length < c.npos) : bind ins dflts c = .error .typeError := by
  cases hb : bind ins dflts c with
  | ok slots =>
    have hg := bind_ok_good _ _ _ _ hb
    rcases h with ⟨k, hk, hni⟩ | hlt
    · exact absurd (hg.2.1 k hk).1 hni
    · have := hg.1; omega
  | error e => rw [bind_error_typeError _ _ _ _ hb]

/-- pinned tree: surplus positional arguments were silently dropped (`bind_unknown_typeerror` was
    false for positionals before the fix) -/
theorem bind_surplus_counterexample :
    bindPinned ["a"] [] ⟨2, []⟩ = .ok [.pos 0] ∧ bind ["a"] [] ⟨2, []⟩ = .error .typeError := by
  constructor <;> rfl

/-- an argument whose type cannot match the declared input type raises `TypeError` at the call -/
theorem call_type_check (p : Prepared) (c : Call) (posT : List Ty) (kwT : List (String × Ty))
    (slots : List Slot) (hb : bind p.inNames p.defaults c = .ok slots)
    (i : Nat) (d t : Ty) (s : Slot) (hd : p.inTypes[i]? = some d) (hs : slots[i]? = some s)
    (ht : slotType posT kwT s = some t) (hbad : t.sub d = false) :
    call p c posT kwT = .error .typeError := by
  have hmem : (d, some t) ∈ p.inTypes.zip (slots.map (slotType posT kwT)) := by
    rw [List.mem_iff_getElem?]
    refine ⟨i, ?_⟩
    simp [List.getElem?_zip_eq_some, hd, hs, ht]
  have htc : typeCheck p.inTypes (slots.map (slotType posT kwT)) = .error .typeError := by
    unfold typeCheck
    rw [if_neg]
    intro hall
    rw [List.all_eq_true] at hall
    have := hall _ hmem
    simp [hbad] at this
  unfold call
  rw [hb]
  dsimp only
  rw [htc]

example : call ⟨["x"], [], ["y"], .mk ["x"] [] [] ["y"] [], [.tensor 1 (some [.known 2])], [], []⟩
    ⟨1, []⟩ [.tensor 7 (some [.known 2])] [] = .error .typeError := by rfl

/-! #### declared constants, 0 included -/

/-- **`strip_keeps_constants`**: forgetting symbolic dimensions (`inline()` on the private copy) keeps the rank and
    every declared constant literally - a declared 0 stays 0, it is not read as "unknown". -/
theorem strip_keeps_constants (e : Nat) (ds : List Dim) :
    ∃ ds', (Ty.tensor e (some ds)).strip = .tensor e (some ds') ∧ ds'.length = ds.length ∧
      ∀ (i n : Nat), ds[i]? = some (Dim.known n) → ds'[i]? = some (Dim.known n) := by
  refine ⟨ds.map Dim.strip, by simp [Ty.strip], by simp, fun i n h => ?_⟩
  rw [List.getElem?_map, h]
  rfl

/-- **`sub_const_mismatch`**: an argument type of the same rank whose i-th dimension is the constant `a` is not
    a subtype of a declared type whose i-th dimension is another constant `b` - for all constants, 0 included
    (shape (2,3) against a declared [0,3]; shape (0,3) against a declared [2,3]). -/
theorem sub_const_mismatch (e e' : Nat) (as bs : List Dim) (i a b : Nat)
    (ha : as[i]? = some (.known a)) (hb : bs[i]? = some (.known b)) (hne : a ≠ b) :
    (Ty.tensor e (some as)).sub (.tensor e' (some bs)) = false := by
  have hne' : as ≠ bs := by
    intro h; subst h; rw [ha] at hb; cases hb; exact hne rfl
  have hz : (as.zip bs)[i]? = some (Dim.known a, Dim.known b) := by
    simp [List.getElem?_zip_eq_some, ha, hb]
  have hall : ((as.zip bs).all fun p => p.1.le p.2) = false := by
    rw [List.all_eq_false]
    exact ⟨(Dim.known a, Dim.known b), List.mem_of_getElem? hz, by simp [Dim.le, hne]⟩
  simp [Ty.sub, shapeLe, hne', hall]

/-- **`wrong_constant_dim_typeerror`**: a call whose i-th argument has, at some position, another constant
    dimension than the (stripped) declared input type raises TypeError - the error clause of the statement for
    "same rank, different constant", 0 included. -/
theorem wrong_constant_dim_typeerror (p : Prepared) (c : Call) (posT : List Ty) (kwT : List (String × Ty))
    (slots : List Slot) (hbind : bind p.inNames p.defaults c = .ok slots)
    (i : Nat) (s : Slot) (e e' : Nat) (as bs : List Dim) (j a b : Nat)
    (hd : p.inTypes[i]? = some (.tensor e' (some bs))) (hs : slots[i]? = some s)
    (ht : slotType posT kwT s = some (.tensor e (some as)))
    (ha : as[j]? = some (.known a)) (hb : bs[j]? = some (.known b)) (hne : a ≠ b) :
    call p c posT kwT = .error .typeError :=
  call_type_check p c posT kwT slots hbind i _ _ s hd hs ht (sub_const_mismatch e e' as bs j a b ha hb hne)

example : (Ty.tensor 1 (some [.known 2, .known 3])).sub (.tensor 1 (some [.known 0, .known 3])) = false ∧
    (Ty.tensor 1 (some [.known 0, .known 3])).sub (.tensor 1 (some [.known 0, .unk])) = true ∧
    (Ty.tensor 1 (some [.known 0, .sym "N"])).strip = .tensor 1 (some [.known 0, .unk]) := by decide

/-! ### renaming -/

/-- On any name space, whatever the internal names look like and whatever is already reserved or
    counted: if the memoised renaming does not raise, distinct internal names get distinct new
    names, none of which was visible before, and all of which are visible (reserved) afterwards. -/
theorem rename_injective (pfx : String) (reqs : List String) (s s' : Space)
    (tbl : List (String × String)) (h : assign pfx reqs s [] = .ok (tbl, s')) :
    (∀ a ∈ reqs, ∀ b ∈ reqs, a ≠ "" → tblGet tbl a = tblGet tbl b → a = b) ∧
    (∀ a ∈ reqs, a ≠ "" → tblGet tbl a ≠ "" ∧ tblGet tbl a ∉ s.used ∧ tblGet tbl a ∈ s'.used) ∧
    (∀ x ∈ s.used, x ∈ s'.used) ∧ tblGet tbl "" = "" := by
  obtain ⟨hi, _, hk, hm, _⟩ := assign_inv pfx reqs s s s' [] tbl (AInv.init s) h
  have himg : ∀ a ∈ reqs, a ≠ "" → tblGet tbl a ∈ imgs tbl := by
    intro a ha hne
    have hb : (a != "") = true := by simpa using hne
    exact List.mem_map.mpr ⟨(a, tblGet tbl a), List.mem_filter.mpr ⟨tblGet_mem _ _ (hk a ha), hb⟩, rfl⟩
  refine ⟨?_, ?_, hm, ?_⟩
  · intro a ha b hb hne he
    have hpa := tblGet_mem _ _ (hk a ha)
    have hpb := tblGet_mem _ _ (hk b hb)
    by_cases hb0 : b = ""
    · exfalso
      subst hb0
      have := hi.empty _ hpb rfl
      exact hi.nonempty _ hpa hne (he.trans this)
    · have hfa : (a, tblGet tbl a) ∈ tbl.filter fun p => p.1 != "" :=
        List.mem_filter.mpr ⟨hpa, by simpa using hne⟩
      have hfb : (b, tblGet tbl b) ∈ tbl.filter fun p => p.1 != "" :=
        List.mem_filter.mpr ⟨hpb, by simpa using hb0⟩
      have := inj_of_nodup_map (·.2) _
        (show ((tbl.filter fun p => p.1 != "").map (·.2)).Nodup from hi.nodup) _ hfa _ hfb he
      exact congrArg Prod.fst this
  · intro a ha hne
    exact ⟨hi.nonempty _ (tblGet_mem _ _ (hk a ha)) hne, (hi.fresh _ (himg a ha hne)).1,
      (hi.fresh _ (himg a ha hne)).2⟩
  · unfold tblGet
    cases hl : tbl.lookup "" with
    | none => rfl
    | some v => exact hi.empty _ (lookup_mem _ _ _ hl) rfl

/-- repeated / nested inlining: a second renaming run in the name space left by a first one
    (same prefix or not, same model or not) produces names disjoint from the first run's names -/
theorem rename_injective_repeated (p1 p2 : String) (r1 r2 : List String) (s0 s1 s2 : Space)
    (t1 t2 : List (String × String))
    (h1 : assign p1 r1 s0 [] = .ok (t1, s1)) (h2 : assign p2 r2 s1 [] = .ok (t2, s2)) :
    ∀ a ∈ r1, ∀ b ∈ r2, a ≠ "" → b ≠ "" → tblGet t1 a ≠ tblGet t2 b := by
  intro a ha b hb hae hbe he
  have f1 := (rename_injective p1 r1 s0 s1 t1 h1).2.1 a ha hae
  have f2 := (rename_injective p2 r2 s1 s2 t2 h2).2.1 b hb hbe
  exact f2.2.1 (he ▸ f1.2.2)

/-- pinned tree: node names and value names shared one name space; a node named `x` producing the
    value `x` next to a value `x_0` made `reserve` raise although the model is valid -/
theorem rename_clash_counterexample :
    (toOnnxPinned ⟨"Inline_0", ["z"], ["Inline_0_outputs_0"], ⟨["z", "Inline_0_outputs_0"], []⟩, ⟨["Inline_0"], []⟩⟩
      (.mk ["a"] [] [.mk "x" ⟨"", "Abs", "", none⟩ ["a"] ["x"] [],
                      .mk "" ⟨"", "Neg", "", none⟩ ["x"] ["x_0"] [],
                      .mk "" ⟨"", "Add", "", none⟩ ["x", "x_0"] ["y"] []] ["y"] [])).toOption.isNone = true := by
  decide

/-- the same model on the fixed tree: node names live in the node name space -/
theorem rename_fixed_example :
    ((toOnnx ⟨"Inline_0", ["z"], ["Inline_0_outputs_0"], ⟨["z", "Inline_0_outputs_0"], []⟩, ⟨["Inline_0"], []⟩⟩
      (.mk ["a"] [] [.mk "x" ⟨"", "Abs", "", none⟩ ["a"] ["x"] [],
                      .mk "" ⟨"", "Neg", "", none⟩ ["x"] ["x_0"] [],
                      .mk "" ⟨"", "Add", "", none⟩ ["x", "x_0"] ["y"] []] ["y"] [])).toOption.map
        fun em => em.nodes.map fun n => (n.name, n.ins, n.outs)) =
      some [("Inline_0__x", ["z"], ["Inline_0__x"]), ("", ["Inline_0__x"], ["Inline_0__x_0"]),
            ("", ["Inline_0__x", "Inline_0__x_0"], ["Inline_0_outputs_0"])] := by
  decide

/-! ### meaning -/

/-- **`inline_sem`** (semantic core). For every operator semantics `sem` (assumed only to give
    `Constant` its payload and `Identity` its input), every model graph `g` — nested subgraphs
    capturing outer values, initializers (dense or sparse), default-valued / unused inputs, empty
    optional inputs, outputs that are inputs or initializers — every renaming `ρ` that sends the
    inputs to the outer argument names, the other outputs to the outer result names and is hygienic
    on the names of `g` (what `rename_injective` provides in a scope whose visible names include the
    argument and result names), and every outer environment `E` that reads as the argument values
    through `ρ`: evaluating the emitted node list in `E` defines the result names as exactly what
    `m` computes on `vals`, and leaves every other outer name untouched. -/
theorem inline_sem {V : Type} (sem : OpSem V) (lit : Lit → V)
    (hc : ∀ l, sem (constOp l) [] [] = some [some (lit l)])
    (hid : ∀ v : V, sem identityOp [some v] [] = some [some v])
    (g : Graph) (ρ ν : String → String) (argNames resNames : List String) (vals : List V)
    (E : Env V) (outs : List (Option V))
    (hρin : ∀ n ∈ g.inputs, ρ n = argNames.getD (g.inputs.idxOf n) "")
    (hρout : ∀ n ∈ g.outputs, n ∉ g.inputs → ρ n = resNames.getD (g.outputs.idxOf n) "")
    (hy : Hyg ρ (normalise g).valueReqs g.inputs)
    (hrel : Rel ρ (normalise g).valueReqs (Env.setMany (fun _ => none) g.inputs (vals.map some)) E)
    (hA : ∀ x ∈ Node.assignedL g.nodes, x ∉ g.inputs)
    (hin : g.inputs.Nodup) (hin0 : "" ∉ g.inputs) (hlen : g.inputs.length = vals.length)
    (hout : g.outputs.Nodup) (hrl : resNames.length = g.outputs.length) (hrn : resNames.Nodup)
    (hr : ∀ r ∈ resNames, r ≠ "" ∧ r ∉ argNames)
    (hev : evalModel sem lit g vals = some outs) :
    ∃ E', evalNodes sem lit (Node.renameL ρ ν (normalise g).nodes ++
              passThrough g.inputs argNames g.outputs resNames) E = some E' ∧
      resNames.map E'.get = outs ∧
      ∀ n, n ∉ (Node.outsL (normalise g).nodes).map ρ → n ∉ resNames → E' n = E n :=
  inline_core sem lit hc hid g ρ ν argNames resNames vals E outs hρin hρout hy hrel hA hin hin0 hlen
    hout hrl hrn hr hev

/-- the node list of `inline_sem` is what `_Inline.to_onnx` emits -/
theorem toOnnx_nodes (c : Ctx) (g : Graph) (em : Emitted) (h : toOnnx c (normalise g) = .ok em) :
    ∃ tbl ntbl s1 s2,
      assign c.nodeName ((normalise g).valueReqs.filter fun n =>
        !(g.inputs.contains n) && !(g.outputs.contains n)) c.var [] = .ok (tbl, s1) ∧
      assign c.nodeName (normalise g).nodeReqs c.node [] = .ok (ntbl, s2) ∧
      em.nodes = Node.renameL (rho g.inputs g.outputs c.argNames c.resNames tbl) (tblGet ntbl)
          (normalise g).nodes ++ passThrough g.inputs c.argNames g.outputs c.resNames := by
  obtain ⟨inputs, inits, nodes, outputs, vi⟩ := g
  unfold toOnnx at h
  simp only [normalise, Graph.inputs, Graph.outputs, Graph.nodes, Graph.inits] at h ⊢
  split at h
  · cases h
  · rename_i tbl s1 h1
    split at h
    · cases h
    · rename_i ntbl s2 h2
      simp only [ne_eq, not_true_eq_false, if_false, Except.ok.injEq] at h
      exact ⟨tbl, ntbl, s1, s2, h1, h2, by rw [← h]⟩

/-- **`inline_sem_scope`**: `inline_sem` for the renaming `_Inline.to_onnx` actually builds. In a
    build scope whose visible value names contain the argument names and the (pairwise distinct)
    result names, for an outer environment that binds the argument names to `vals` and defines
    neither the result names nor any name that is not visible: if `to_onnx` does not raise, the
    emitted nodes define the result names as exactly what `m` computes on `vals` — for every
    operator semantics, every valid `m` (nested subgraphs, initializers, pass-through outputs, …),
    whatever the internal names look like — and leave every visible outer name untouched. -/
theorem inline_sem_scope {V : Type} (sem : OpSem V) (lit : Lit → V)
    (hc : ∀ l, sem (constOp l) [] [] = some [some (lit l)])
    (hid : ∀ v : V, sem identityOp [some v] [] = some [some v])
    (g : Graph) (c : Ctx) (em : Emitted) (vals : List V) (E : Env V) (outs : List (Option V))
    (hem : toOnnx c (normalise g) = .ok em)
    -- validity of m
    (hin : g.inputs.Nodup) (hin0 : "" ∉ g.inputs) (hout : g.outputs.Nodup) (hout0 : "" ∉ g.outputs)
    (hA : ∀ x ∈ Node.assignedL g.nodes, x ∉ g.inputs)
    -- the scope at the call
    (hal : c.argNames.length = g.inputs.length) (hrl : c.resNames.length = g.outputs.length)
    (hrn : c.resNames.Nodup) (hu0 : "" ∉ c.var.used)
    (hau : ∀ a ∈ c.argNames, a ∈ c.var.used)
    (hru : ∀ r ∈ c.resNames, r ∈ c.var.used ∧ r ∉ c.argNames)
    -- the outer environment
    (hlen : g.inputs.length = vals.length)
    (hE : ∀ i (h : i < c.argNames.length) (h' : i < vals.length), E.get c.argNames[i] = some vals[i])
    (hEf : ∀ n, n ∉ c.var.used → E n = none) (hEr : ∀ r ∈ c.resNames, E r = none)
    (hev : evalModel sem lit g vals = some outs) :
    ∃ E', evalNodes sem lit em.nodes E = some E' ∧ c.resNames.map E'.get = outs ∧
      ∀ n ∈ c.var.used, n ∉ c.resNames → E' n = E n := by
  obtain ⟨tbl, ntbl, s1, s2, h1, _, hnodes⟩ := toOnnx_nodes c g em hem
  obtain ⟨r1, r2, _, r4⟩ := rename_injective _ _ _ _ _ h1
  have hne : ∀ x ∈ c.var.used, x ≠ "" := fun x hx e => hu0 (e ▸ hx)
  have ht : TblOk c.var.used ((normalise g).valueReqs.filter fun n =>
      !(g.inputs.contains n) && !(g.outputs.contains n)) tbl :=
    ⟨r1, fun a ha hane => ⟨(r2 a ha hane).1, (r2 a ha hane).2.1⟩, r4⟩
  have hau' : ∀ a ∈ c.argNames, a ∈ c.var.used ∧ a ≠ "" := fun a ha => ⟨hau a ha, hne a (hau a ha)⟩
  have hru' : ∀ r ∈ c.resNames, r ∈ c.var.used ∧ r ≠ "" ∧ r ∉ c.argNames :=
    fun r hr => ⟨(hru r hr).1, hne r (hru r hr).1, (hru r hr).2⟩
  have hy := rho_hyg g.inputs g.outputs c.argNames c.resNames c.var.used _ tbl ht hal hrl hin0 hout0
    hrn hau' hru'
  have hrel := rho_rel g.inputs g.outputs c.argNames c.resNames c.var.used _ tbl ht hal hrl hin hin0
    hout0 vals hlen E hE hEf hEr
  obtain ⟨E', e1, e2, e3⟩ := inline_sem sem lit hc hid g
    (rho g.inputs g.outputs c.argNames c.resNames tbl) (tblGet ntbl) c.argNames c.resNames vals E outs
    (fun n hn => by unfold rho; rw [if_pos hn])
    (fun n hn hni => by unfold rho; rw [if_neg hni, if_pos hn])
    hy hrel hA hin hin0 hlen hout hrl hrn (fun r hr => ⟨(hru' r hr).2.1, (hru' r hr).2.2⟩) hev
  refine ⟨E', by rw [hnodes]; exact e1, e2, ?_⟩
  intro n hn hnr
  apply e3 n _ hnr
  -- a visible name is not the image of an assigned name
  intro hm
  obtain ⟨x, hx, hxe⟩ := List.mem_map.mp hm
  have hxS : x ∈ (normalise g).valueReqs := by
    obtain ⟨inputs, inits, nodes, outputs, vi⟩ := g
    simp only [normalise, Graph.valueReqs, List.mem_append]
    refine Or.inl (Or.inl (Or.inr ?_))
    -- outputs of nodes are among their requests
    have : ∀ (ns : List Node) (y : String), y ∈ Node.outsL ns → y ∈ Node.valueReqsL ns := by
      intro ns
      induction ns with
      | nil => intro y hy; cases hy
      | cons nd ns ih =>
        obtain ⟨nm, op, ins, os, subs⟩ := nd
        intro y hy
        simp only [Node.outsL, Node.outs, List.mem_append] at hy
        simp only [Node.valueReqsL, Node.valueReqs, List.mem_append]
        rcases hy with h | h
        · exact Or.inl (Or.inl (Or.inr h))
        · exact Or.inr (ih y h)
    exact this _ x hx
  have hxI : x ∉ g.inputs := by
    intro hxi
    obtain ⟨inputs, inits, nodes, outputs, vi⟩ := g
    simp only [normalise, Graph.nodes, preamble, Graph.inits, Graph.inputs] at hx hxi hA
    have := outsL_sub_assignedL _ x hx
    rw [assignedL_append, assignedL_consts, List.mem_append] at this
    rcases this with h | h
    · obtain ⟨p, hp, rfl⟩ := List.mem_map.mp h
      have := (List.mem_filter.mp hp).2
      simp at this
      exact this hxi
    · exact hA x h hxi
  cases kind_of g.inputs g.outputs c.argNames c.resNames c.var.used _ tbl ht hal hrl hin0 hout0 x hxS with
  | arg h => exact hxI h
  | res _ _ hi e => rw [e] at hxe; exact hnr (hxe ▸ List.getElem_mem hi)
  | fresh _ _ _ hf _ => rw [hxe] at hf; exact hf hn
  | empty _ e => rw [e] at hxe; exact hu0 (hxe ▸ hn)

/-- **`rename_total`**: in a name space in which nothing visible and no counter key starts with
    `<node>__` (decidable: `Space.prefixFree`), the memoised renaming of *any* request list cannot
    raise, and every non-empty inner name `n` becomes exactly `<node>__n` -/
theorem rename_total (pfx : String) (reqs : List String) (s : Space)
    (hf : s.prefixFree pfx = true) :
    ∃ tbl s', assign pfx reqs s [] = .ok (tbl, s') ∧
      ∀ n ∈ reqs, tblGet tbl n = if n = "" then "" else pfx ++ "__" ++ n := by
  obtain ⟨tbl, s', h1, h2, _, h4⟩ := assign_total pfx s hf reqs s [] (TInv.init pfx s)
  refine ⟨tbl, s', h1, fun n hn => ?_⟩
  have := h2.img _ (tblGet_mem tbl n (h4 n hn))
  simpa using this

/-- `_Inline.to_onnx` cannot raise in a scope whose two name spaces are free of the node's prefix
    family -/
theorem toOnnx_total (c : Ctx) (g : Graph)
    (hv : c.var.prefixFree c.nodeName = true) (hn : c.node.prefixFree c.nodeName = true) :
    ∃ em, toOnnx c (normalise g) = .ok em := by
  have hinit : (normalise g).inits = [] := by cases g; rfl
  obtain ⟨tbl, s1, h1, _⟩ := rename_total c.nodeName
    ((normalise g).valueReqs.filter fun n =>
      !((normalise g).inputs.contains n) && !((normalise g).outputs.contains n)) c.var hv
  obtain ⟨ntbl, s2, h2, _⟩ := rename_total c.nodeName (normalise g).nodeReqs c.node hn
  refine ⟨⟨Node.renameL (rho (normalise g).inputs (normalise g).outputs c.argNames c.resNames tbl)
      (tblGet ntbl) (normalise g).nodes ++
      passThrough (normalise g).inputs c.argNames (normalise g).outputs c.resNames, s1, s2⟩, ?_⟩
  unfold toOnnx
  simp only [h1, h2, hinit, ne_eq, not_true_eq_false, if_false]

/-- **`inline_sem_total`**: `inline_sem_scope` with its "does not raise" hypothesis discharged by
    the decidable scope condition: for every scope free of the `<node>__` family, `to_onnx`
    succeeds and the emitted nodes compute exactly `evalModel m vals` on the result names -/
theorem inline_sem_total {V : Type} (sem : OpSem V) (lit : Lit → V)
    (hc : ∀ l, sem (constOp l) [] [] = some [some (lit l)])
    (hid : ∀ v : V, sem identityOp [some v] [] = some [some v])
    (g : Graph) (c : Ctx) (vals : List V) (E : Env V) (outs : List (Option V))
    (hv : c.var.prefixFree c.nodeName = true) (hn : c.node.prefixFree c.nodeName = true)
    (hin : g.inputs.Nodup) (hin0 : "" ∉ g.inputs) (hout : g.outputs.Nodup) (hout0 : "" ∉ g.outputs)
    (hA : ∀ x ∈ Node.assignedL g.nodes, x ∉ g.inputs)
    (hal : c.argNames.length = g.inputs.length) (hrl : c.resNames.length = g.outputs.length)
    (hrn : c.resNames.Nodup) (hu0 : "" ∉ c.var.used)
    (hau : ∀ a ∈ c.argNames, a ∈ c.var.used)
    (hru : ∀ r ∈ c.resNames, r ∈ c.var.used ∧ r ∉ c.argNames)
    (hlen : g.inputs.length = vals.length)
    (hE : ∀ i (h : i < c.argNames.length) (h' : i < vals.length), E.get c.argNames[i] = some vals[i])
    (hEf : ∀ n, n ∉ c.var.used → E n = none) (hEr : ∀ r ∈ c.resNames, E r = none)
    (hev : evalModel sem lit g vals = some outs) :
    ∃ em E', toOnnx c (normalise g) = .ok em ∧ evalNodes sem lit em.nodes E = some E' ∧
      c.resNames.map E'.get = outs ∧ ∀ n ∈ c.var.used, n ∉ c.resNames → E' n = E n := by
  obtain ⟨em, hem⟩ := toOnnx_total c g hv hn
  obtain ⟨E', h1, h2, h3⟩ := inline_sem_scope sem lit hc hid g c em vals E outs hem hin hin0 hout
    hout0 hA hal hrl hrn hu0 hau hru hlen hE hEf hEr hev
  exact ⟨em, E', hem, h1, h2, h3⟩

/-- non-vacuity / sharpness: a counter in the family makes the name differ, a visible name in the
    family makes `reserve` raise -/
example : (Space.mk ["z"] []).prefixFree "Inline_0" = true ∧
    (Space.mk ["z", "Inline_0__x"] []).prefixFree "Inline_0" = false ∧
    (assign "Inline_0" ["x"] ⟨["z", "Inline_0__x"], []⟩ []).toOption.isNone = true := by decide

/-- **`build_scope_prefixFree`**: the precise decidable condition on the names of a build under
    which the scope handed to `_Inline.to_onnx` of node `k` is prefix-free. Given the naming facts
    (every visible value name / counter key is a user name, a generated `b` / `b_<c>` for a base
    `b = <node>_<field>`, or `k'__…` reserved by another Inline node `k'`; node names likewise), it
    suffices that no user name and no node name starts with `k__`, that `k__` is incomparable with
    every `b_`, and with every `k'__` (`NameData.safe`). The naming facts are observed on every
    `to_onnx` call of the oracle phase; the condition is evaluated by the driver. -/
theorem build_scope_prefixFree (d : NameData) (k : String) (var node : Space)
    (hf : NameFacts d var node) (hs : d.safe k = true) :
    var.prefixFree k = true ∧ node.prefixFree k = true :=
  safe_prefixFree d k var node hf hs

/-- the Inline node's own result names `k_outputs_i` (and their enumerations) satisfy the condition -/
theorem own_outputs_safe (k r : String) : incomp (k ++ "__") (k ++ "_o" ++ r) = true :=
  own_outputs_incomp k r

/-- under the naming facts and the condition, `_Inline.to_onnx` cannot raise -/
theorem toOnnx_total_build (d : NameData) (c : Ctx) (g : Graph)
    (hf : NameFacts d c.var c.node) (hs : d.safe c.nodeName = true) :
    ∃ em, toOnnx c (normalise g) = .ok em :=
  toOnnx_total c g (build_scope_prefixFree d c.nodeName c.var c.node hf hs).1
    (build_scope_prefixFree d c.nodeName c.var c.node hf hs).2

/-- sharpness: a user name in the family breaks the condition and makes the renaming raise -/
example : (NameData.mk ["z", "Inline_0__x"] ["Inline_0_outputs_0"] [] ["Inline_0"]).safe "Inline_0" = false ∧
    (NameData.mk ["z"] ["Inline_0_outputs_0", "If_0_outputs_0"] ["If_0_then_branch__Inline_0"]
      ["Inline_0", "If_0", "If_0_then_branch__Inline_0"]).safe "Inline_0" = true := by decide

/-! ### interaction with C02 (`inline:sibling-bodies-share-names`) -/

/-- The renaming is one function of the name for the whole inlined model (memoised): a value that
    two sibling bodies both define under the same inner name gets the SAME outer name in both. So the
    emitted graph is not model-wide unique in its value names (C02's uniqueness clause fails on such
    models), while `inline_sem` holds for them (sibling bodies never see each other's values). -/
theorem sibling_bodies_share_names (ρ ν : String → String) (a b : Node) (x : String)
    (ha : x ∈ a.outs) (hb : x ∈ b.outs) :
    ρ x ∈ (Node.rename ρ ν a).outs ∧ ρ x ∈ (Node.rename ρ ν b).outs := by
  obtain ⟨_, _, _, oa, _⟩ := a
  obtain ⟨_, _, _, ob, _⟩ := b
  simp only [Node.outs] at ha hb
  simp only [Node.rename, Node.outs]
  exact ⟨List.mem_map.mpr ⟨x, ha, rfl⟩, List.mem_map.mpr ⟨x, hb, rfl⟩⟩

/-- concrete instance: `If` whose branches both define `tmp`: both emitted branches define
    `Inline_0__tmp` -/
example :
    ((toOnnx ⟨"Inline_0", ["z", "c"], ["r"], ⟨["z", "c", "r"], []⟩, ⟨["Inline_0"], []⟩⟩
      (.mk ["x", "k"] [] [.mk "" ⟨"", "If", "", none⟩ ["k"] ["y"]
          [.mk [] [] [.mk "" ⟨"", "Identity", "", none⟩ ["x"] ["tmp"] []] ["tmp"] [],
           .mk [] [] [.mk "" ⟨"", "Neg", "", none⟩ ["x"] ["tmp"] []] ["tmp"] []]] ["y"] [])).toOption.map
      fun em => em.nodes.map fun n => n.subs.map fun g => g.nodes.map (·.outs))
      = some [[[["Inline_0__tmp"]], [["Inline_0__tmp"]]]] := by decide

/-! ### `adapt_inline` -/

theorem normalise_idem (h : Graph) (hi : h.inits = []) : normalise h = h := by
  obtain ⟨i, ini, n, o, v⟩ := h
  simp only [Graph.inits] at hi
  subst hi
  simp [normalise, preamble, Graph.inputs, Graph.inits, Graph.nodes, Graph.outputs, Graph.valueInfo]

theorem evalModel_normalise_eq {V : Type} (sem : OpSem V) (lit : Lit → V)
    (hc : ∀ l, sem (constOp l) [] [] = some [some (lit l)]) (g : Graph) (vals : List V) :
    evalModel sem lit (normalise g) vals = evalModel sem lit g vals := by
  rw [evalModel_normalise sem lit hc (normalise g), evalModel_normalise sem lit hc g]
  have : normalise (normalise g) = normalise g := normalise_idem _ (by cases g; rfl)
  rw [this]
  cases g; rfl

/-- `_initializers_to_constants` is `inline()`'s own normalisation whenever no initializer of the converted model
    is named like an input (then either a Constant is made and all initializers go, or there is none at all) -/
theorem initsToConstants_eq_normalise (h : Graph) (hno : ∀ p ∈ h.inits, h.inputs.contains p.1 = false) :
    initsToConstants h = normalise h := by
  unfold initsToConstants
  by_cases hp : preamble h = []
  · rw [if_pos hp]
    have hf : (h.inits.filter fun p => !h.inputs.contains p.1) = h.inits :=
      List.filter_eq_self.mpr (fun p hp' => by have := hno p hp'; simpa using this)
    have hi : h.inits = [] := by
      unfold preamble at hp
      rw [hf] at hp
      exact List.map_eq_nil_iff.mp hp
    exact (normalise_idem h hi).symm
  · rw [if_neg hp]; rfl

/-- **`adapt_sem`**: when `adapt_inline` decides to convert, the nodes it returns are the renaming
    (`to_onnx` in the fresh scope `Scope.of(node, *var_names)`) of the converted model; the converter
    is a parameter assumed to keep the signature, to return a graph without initializers in SSA form
    and to preserve `evalModel`. In a build whose value names are free of the node's prefix family
    the adaptation cannot raise, and the returned nodes still compute exactly what `m` computes. -/
theorem adapt_sem {V : Type} (sem : OpSem V) (lit : Lit → V)
    (hc : ∀ l, sem (constOp l) [] [] = some [some (lit l)])
    (hid : ∀ v : V, sem identityOp [some v] [] = some [some v])
    (conv : Graph → Graph) (g : Graph) (c : Ctx) (varNames : List String) (first : List Node)
    (imports : List Nat) (target : Nat) (vals : List V) (E : Env V) (outs : List (Option V))
    (hneed : needsConversion (first.map fun n => n.op.domain) imports target = true)
    -- the converter (third party), on the private normalised copy
    (hci : ∀ p ∈ (conv (normalise g)).inits, g.inputs.contains p.1 = false)
    (hcin : (conv (normalise g)).inputs = g.inputs) (hcout : (conv (normalise g)).outputs = g.outputs)
    (hcA : ∀ x ∈ Node.assignedL (conv (normalise g)).nodes, x ∉ g.inputs)
    (hcsem : evalModel sem lit (conv (normalise g)) vals = evalModel sem lit (normalise g) vals)
    -- the fresh scope
    (hv : (Space.mk varNames []).prefixFree c.nodeName = true)
    (hnn : (Space.mk [c.nodeName] []).prefixFree c.nodeName = true)
    (hin : g.inputs.Nodup) (hin0 : "" ∉ g.inputs) (hout : g.outputs.Nodup) (hout0 : "" ∉ g.outputs)
    (hal : c.argNames.length = g.inputs.length) (hrl : c.resNames.length = g.outputs.length)
    (hrn : c.resNames.Nodup) (hu0 : "" ∉ varNames)
    (hau : ∀ a ∈ c.argNames, a ∈ varNames)
    (hru : ∀ r ∈ c.resNames, r ∈ varNames ∧ r ∉ c.argNames)
    (hlen : g.inputs.length = vals.length)
    (hE : ∀ i (h : i < c.argNames.length) (h' : i < vals.length), E.get c.argNames[i] = some vals[i])
    (hEf : ∀ n, n ∉ varNames → E n = none) (hEr : ∀ r ∈ c.resNames, E r = none)
    (hev : evalModel sem lit g vals = some outs) :
    ∃ em nodes E', toOnnx (freshCtx c varNames) (initsToConstants (conv (normalise g))) = .ok em ∧ nodes = em.nodes ∧
      adaptInline conv c varNames (normalise g) first imports target = .ok nodes ∧
      evalNodes sem lit nodes E = some E' ∧ c.resNames.map E'.get = outs ∧
      ∀ n ∈ varNames, n ∉ c.resNames → E' n = E n := by
  have hnorm := initsToConstants_eq_normalise (conv (normalise g)) (by rw [hcin]; exact hci)
  have hev' : evalModel sem lit (conv (normalise g)) vals = some outs := by
    rw [hcsem, evalModel_normalise_eq sem lit hc, hev]
  obtain ⟨em, E', h1, h2, h3, h4⟩ := inline_sem_total sem lit hc hid (conv (normalise g))
    (freshCtx c varNames) vals E outs hv hnn (hcin ▸ hin) (hcin ▸ hin0) (hcout ▸ hout) (hcout ▸ hout0)
    (hcin ▸ hcA) (by rw [hcin]; exact hal) (by rw [hcout]; exact hrl) hrn hu0 hau hru
    (by rw [hcin]; exact hlen) hE hEf hEr hev'
  rw [← hnorm] at h1
  refine ⟨em, em.nodes, E', h1, rfl, ?_, h2, h3, h4⟩
  unfold adaptInline
  rw [if_pos hneed, h1]

/-- when the versions agree (or the emitted nodes do not touch the default domain) the nodes of the
    build are returned unchanged -/
theorem adapt_noop (conv : Graph → Graph) (c : Ctx) (varNames : List String) (g : Graph)
    (first : List Node) (imports : List Nat) (target : Nat)
    (h : needsConversion (first.map fun n => n.op.domain) imports target = false) :
    adaptInline conv c varNames g first imports target = .ok first := by
  unfold adaptInline; simp [h]

/-- **`inline_correct`** (the property statement for one Inline node of a build, conversion included): let `m` be
    any model graph `g` (nested bodies capturing outer values, initializers, default-valued / unused inputs, pass-through
    outputs, any internal names), built in a scope `c` whose names are free of the node's prefix family, with `varNames`
    the value names of the build handed to `adapt_inline`, against any target opset, and let the third-party converter
    satisfy its contract (`ConverterContract`: signature kept, no input assigned, no initializer named like an input,
    meaning preserved). Then what the build emits for the node - `to_onnx` followed by `adapt_inline`, whichever way
    its decision goes - does not raise, defines the result names as exactly `evalModel m vals` in every outer
    environment binding the argument names to `vals`, and leaves every other value name of the build untouched. -/
theorem inline_correct {V : Type} (sem : OpSem V) (lit : Lit → V)
    (hc : ∀ l, sem (constOp l) [] [] = some [some (lit l)])
    (hid : ∀ v : V, sem identityOp [some v] [] = some [some v])
    (conv : Graph → Graph) (g : Graph) (c : Ctx) (varNames : List String)
    (imports : List (String × Nat)) (target : Nat) (vals : List V) (E : Env V) (outs : List (Option V))
    (K : ConverterContract sem lit conv (normalise g))
    -- the build scope and the names adapt_inline is given
    (hv : c.var.prefixFree c.nodeName = true) (hn : c.node.prefixFree c.nodeName = true)
    (hvf : (Space.mk varNames []).prefixFree c.nodeName = true)
    (hnn : (Space.mk [c.nodeName] []).prefixFree c.nodeName = true)
    (hsub : ∀ n ∈ varNames, n ∈ c.var.used) (hu0 : "" ∉ c.var.used)
    -- the model's signature and the call
    (hin : g.inputs.Nodup) (hin0 : "" ∉ g.inputs) (hout : g.outputs.Nodup) (hout0 : "" ∉ g.outputs)
    (hA : ∀ x ∈ Node.assignedL g.nodes, x ∉ g.inputs)
    (hal : c.argNames.length = g.inputs.length) (hrl : c.resNames.length = g.outputs.length)
    (hrn : c.resNames.Nodup)
    (hau : ∀ a ∈ c.argNames, a ∈ varNames)
    (hru : ∀ r ∈ c.resNames, r ∈ varNames ∧ r ∉ c.argNames)
    (hlen : g.inputs.length = vals.length)
    (hE : ∀ i (h : i < c.argNames.length) (h' : i < vals.length), E.get c.argNames[i] = some vals[i])
    (hEf : ∀ n, n ∉ varNames → E n = none) (hEr : ∀ r ∈ c.resNames, E r = none)
    (hev : evalModel sem lit g vals = some outs) :
    ∃ em nodes E', toOnnx c (normalise g) = .ok em ∧
      adaptInline conv c varNames (normalise g) em.nodes (defaultImports imports) target = .ok nodes ∧
      evalNodes sem lit nodes E = some E' ∧ c.resNames.map E'.get = outs ∧
      ∀ n ∈ varNames, n ∉ c.resNames → E' n = E n := by
  have hu0' : "" ∉ varNames := fun h => hu0 (hsub _ h)
  obtain ⟨em, E₁, hem, k1, k2, k3⟩ := inline_sem_total sem lit hc hid g c vals E outs hv hn hin hin0 hout hout0 hA
    hal hrl hrn hu0 (fun a ha => hsub a (hau a ha)) (fun r hr => ⟨hsub r (hru r hr).1, (hru r hr).2⟩) hlen hE
    (fun n hn' => hEf n (fun h => hn' (hsub n h))) hEr hev
  cases hd : needsConversion (em.nodes.map fun n => n.op.domain) (defaultImports imports) target with
  | false =>
    exact ⟨em, em.nodes, E₁, hem, adapt_noop conv c varNames (normalise g) em.nodes (defaultImports imports) target hd,
      k1, k2, fun n hn' hr => k3 n (hsub n hn') hr⟩
  | true =>
    have hgi : (normalise g).inputs = g.inputs := by cases g; rfl
    have hgo : (normalise g).outputs = g.outputs := by cases g; rfl
    obtain ⟨em2, nodes, E', _, _, a3, a4, a5, a6⟩ := adapt_sem sem lit hc hid conv g c varNames em.nodes
      (defaultImports imports) target vals E outs hd
      (by have := K.inits; rw [hgi] at this; exact this) (by rw [K.inputs, hgi]) (by rw [K.outputs, hgo])
      (by have := K.ssa; rw [hgi] at this; exact this) (K.meaning vals)
      hvf hnn hin hin0 hout hout0 hal hrl hrn hu0' hau hru hlen hE hEf hEr hev
    exact ⟨em, nodes, E', hem, a3, a4, a5, a6⟩

/-- **`contract_of_check`**: the four syntactic fields of the contract are exactly the executable check the driver
    evaluates on the converter's actual result of every correspondence case; what remains assumed is `meaning`
    (observed by the onnxruntime oracle: the built model computes what m computes). -/
theorem contract_of_check {V : Type} (sem : OpSem V) (lit : Lit → V) (conv : Graph → Graph) (g : Graph)
    (hchk : contractCheck (conv g) g = true)
    (hmean : ∀ vals, evalModel sem lit (conv g) vals = evalModel sem lit g vals) :
    ConverterContract sem lit conv g := by
  unfold contractCheck at hchk
  simp only [Bool.and_eq_true, beq_iff_eq, List.all_eq_true, Bool.not_eq_true'] at hchk
  obtain ⟨⟨⟨h1, h2⟩, h3⟩, h4⟩ := hchk
  refine ⟨h1, h2, fun x hx hin => ?_, fun p hp => h4 p hp, hmean⟩
  have := h3 x hx
  simp [List.contains_iff_mem] at this
  exact this hin

example : contractCheck (.mk ["x"] [("w", .dense 0)] [.mk "" ⟨"", "Add", "", none⟩ ["x", "w"] ["y"] []] ["y"] [])
      (.mk ["x"] [] [] ["y"] []) = true ∧
    contractCheck (.mk ["x"] [("x", .dense 0)] [] ["y"] []) (.mk ["x"] [] [] ["y"] []) = false := by decide

/-- non-vacuity of the contract: the identity converter satisfies it for every graph whose nodes assign no input
    and whose initializers are not named like inputs -/
theorem converter_contract_id {V : Type} (sem : OpSem V) (lit : Lit → V) (g : Graph)
    (h1 : ∀ x ∈ Node.assignedL g.nodes, x ∉ g.inputs) (h2 : ∀ p ∈ g.inits, g.inputs.contains p.1 = false) :
    ConverterContract sem lit id g :=
  ⟨rfl, rfl, h1, h2, fun _ => rfl⟩

/-! #### the decision of `adapt_inline`: which data it depends on -/

/-! ### composition: any number of Inline nodes in one build scope (round 10) -/

/-- **`inline_sem_scope_frame`**: `inline_sem_scope` with the full frame. Besides defining the result names as
    `evalModel m vals` and leaving every visible name untouched, a successful `_Inline.to_onnx` only ever makes
    names visible (the scope grows), and every value name that is NOT visible afterwards is still undefined:
    whatever the emitted nodes write besides the result names is one of the names they reserved. This is what
    lets the next node of the build start from the invariant the first one started from. -/
theorem inline_sem_scope_frame {V : Type} (sem : OpSem V) (lit : Lit → V)
    (hc : ∀ l, sem (constOp l) [] [] = some [some (lit l)])
    (hid : ∀ v : V, sem identityOp [some v] [] = some [some v])
    (g : Graph) (c : Ctx) (em : Emitted) (vals : List V) (E : Env V) (outs : List (Option V))
    (hem : toOnnx c (normalise g) = .ok em)
    (hin : g.inputs.Nodup) (hin0 : "" ∉ g.inputs) (hout : g.outputs.Nodup) (hout0 : "" ∉ g.outputs)
    (hA : ∀ x ∈ Node.assignedL g.nodes, x ∉ g.inputs)
    (hal : c.argNames.length = g.inputs.length) (hrl : c.resNames.length = g.outputs.length)
    (hrn : c.resNames.Nodup) (hu0 : "" ∉ c.var.used)
    (hau : ∀ a ∈ c.argNames, a ∈ c.var.used)
    (hru : ∀ r ∈ c.resNames, r ∈ c.var.used ∧ r ∉ c.argNames)
    (hlen : g.inputs.length = vals.length)
    (hE : ∀ i (h : i < c.argNames.length) (h' : i < vals.length), E.get c.argNames[i] = some vals[i])
    (hEf : ∀ n, n ∉ c.var.used → E n = none) (hEr : ∀ r ∈ c.resNames, E r = none)
    (hev : evalModel sem lit g vals = some outs) :
    ∃ E', evalNodes sem lit em.nodes E = some E' ∧ c.resNames.map E'.get = outs ∧
      (∀ n ∈ c.var.used, n ∉ c.resNames → E' n = E n) ∧
      (∀ n ∈ c.var.used, n ∈ em.var.used) ∧ "" ∉ em.var.used ∧
      (∀ n, n ∉ em.var.used → E' n = none) := by
  obtain ⟨E', e1, e2, e3⟩ := inline_sem_scope sem lit hc hid g c em vals E outs hem hin hin0 hout hout0 hA hal hrl
    hrn hu0 hau hru hlen hE hEf hEr hev
  obtain ⟨tbl, ntbl, h1, _, hnodes⟩ := toOnnx_parts c g em hem
  obtain ⟨r1, r2, r3, r4⟩ := rename_injective _ _ _ _ _ h1
  refine ⟨E', e1, e2, e3, r3, assign_no_empty _ _ _ _ _ h1 hu0, ?_⟩
  intro n hn
  by_cases h0 : n = ""
  · subst h0
    rw [evalNodes_empty sem lit _ _ _ e1]
    exact hEf "" hu0
  · have hnc : n ∉ c.var.used := fun h => hn (r3 n h)
    have ht : TblOk c.var.used ((normalise g).valueReqs.filter fun n =>
        !(g.inputs.contains n) && !(g.outputs.contains n)) tbl :=
      ⟨r1, fun a ha hane => ⟨(r2 a ha hane).1, (r2 a ha hane).2.1⟩, r4⟩
    have hfr : n ∉ Node.outsL em.nodes := by
      rw [hnodes, outsL_append, outsL_renameL]
      intro hm
      rcases List.mem_append.mp hm with hm | hm
      · obtain ⟨x, hx, hxe⟩ := List.mem_map.mp hm
        have hxS : x ∈ (normalise g).valueReqs := by
          obtain ⟨inputs, inits, nodes, outputs, vi⟩ := g
          simp only [normalise, Graph.valueReqs, List.mem_append]
          exact Or.inl (Or.inl (Or.inr (outsL_sub_valueReqsL _ x hx)))
        cases kind_of g.inputs g.outputs c.argNames c.resNames c.var.used _ tbl ht hal hrl hin0 hout0 x hxS with
        | arg _ hi e => rw [e] at hxe; exact hnc (hxe ▸ hau _ (List.getElem_mem hi))
        | res _ _ hi e => rw [e] at hxe; exact hnc (hxe ▸ (hru _ (List.getElem_mem hi)).1)
        | fresh hi ho hne _ _ =>
          have hρ : rho g.inputs g.outputs c.argNames c.resNames tbl x = tblGet tbl x := by
            simp [rho, hi, ho]
          have hm' : x ∈ (normalise g).valueReqs.filter fun n =>
              !(g.inputs.contains n) && !(g.outputs.contains n) := by
            simp [List.mem_filter, hxS, hi, ho]
          rw [hρ] at hxe
          exact hn (hxe ▸ (r2 x hm' hne).2.2)
        | empty _ e => rw [e] at hxe; exact h0 hxe.symm
      · exact hnc ((hru _ (outsL_passThrough _ _ _ _ n hm)).1)
    rw [evalNodes_frame sem lit _ _ _ e1 n hfr]
    exact hEf n hnc

/-- **`inline_compose`** (the clause "however many times and in whatever composition", by induction over the
    Inline nodes of a build): let `sites` be ANY list of Inline nodes - the same model repeated, different models,
    a node fed with the results of earlier ones (chained) or with the same arguments (shared) - emitted one after
    the other in ONE scope (`toOnnxSeq`: every `to_onnx` starts in the name spaces the previous one left). Let `U`
    be value names of the build, all visible from the start, among them every argument and result name; result
    names of different nodes are disjoint (SSA). If no `to_onnx` raises, then in every outer environment `E` that
    defines no hidden name and none of the result names, the concatenated node list evaluates, and on `U` its
    final environment is exactly that of the ABSTRACT program `specSeq` - each site applies the function of its
    model (`evalModel`) to the current values of its argument names and binds its result names. No internal name
    of one inlined model can influence another, whatever the internal names are; the hidden names stay hidden. -/
theorem inline_compose {V : Type} (sem : OpSem V) (lit : Lit → V)
    (hc : ∀ l, sem (constOp l) [] [] = some [some (lit l)])
    (hid : ∀ v : V, sem identityOp [some v] [] = some [some v])
    (U : List String) (sites : List Site) :
    ∀ (v n : Space) (nodes : List Node) (v' n' : Space) (E S Es : Env V),
      toOnnxSeq sites v n = .ok (nodes, v', n') →
      (∀ x ∈ U, x ∈ v.used) → "" ∉ v.used →
      (∀ s ∈ sites, s.Valid U) →
      sites.Pairwise (fun s t => ∀ r ∈ s.resNames, r ∉ t.resNames) →
      (∀ x ∈ U, E x = S x) → (∀ x, x ∉ v.used → E x = none) →
      (∀ s ∈ sites, ∀ r ∈ s.resNames, E r = none) →
      specSeq sem lit sites S = some Es →
      ∃ E', evalNodes sem lit nodes E = some E' ∧ (∀ x ∈ U, E' x = Es x) ∧
        (∀ x ∈ v.used, x ∈ v'.used) ∧ (∀ x, x ∉ v'.used → E' x = none) := by
  induction sites with
  | nil =>
    intro v n nodes v' n' E S Es h _ _ _ _ hES hEf _ hsp
    simp only [toOnnxSeq, Except.ok.injEq, Prod.mk.injEq] at h
    obtain ⟨rfl, rfl, rfl⟩ := h
    simp only [specSeq, Option.some.injEq] at hsp
    subst hsp
    exact ⟨E, rfl, hES, fun _ h => h, hEf⟩
  | cons s ss ih =>
    intro v n nodes v' n' E S Es h hU hu0 hval hpw hES hEf hEr hsp
    have hs := hval s List.mem_cons_self
    obtain ⟨hpw1, hpw2⟩ := List.pairwise_cons.mp hpw
    -- the emission of the first site and of the rest
    simp only [toOnnxSeq] at h
    cases hem : toOnnx (s.ctx v n) (normalise s.g) with
    | error e => simp [hem] at h
    | ok em =>
      simp only [hem] at h
      cases hrest : toOnnxSeq ss em.var em.node with
      | error e => simp [hrest] at h
      | ok r =>
        obtain ⟨ns, v2, n2⟩ := r
        simp only [hrest, Except.ok.injEq, Prod.mk.injEq] at h
        obtain ⟨rfl, rfl, rfl⟩ := h
        -- the abstract step
        simp only [specSeq] at hsp
        cases hvals : allSome (s.argNames.map S.get) with
        | none => simp [hvals] at hsp
        | some vals =>
          simp only [hvals] at hsp
          cases hev : evalModel sem lit s.g vals with
          | none => simp [hev] at hsp
          | some outs =>
            simp only [hev] at hsp
            have hget : ∀ x ∈ U, E.get x = S.get x := by
              intro x hx; unfold Env.get; rw [hES x hx]
            have hmap : s.argNames.map E.get = vals.map some := by
              rw [← allSome_eq _ _ hvals]
              exact List.map_congr_left (fun a ha => hget a (hs.hau a ha))
            have hlenA : s.argNames.length = vals.length := by
              have := congrArg List.length hmap
              simpa using this
            have hE : ∀ i (h : i < s.argNames.length) (h' : i < vals.length),
                E.get s.argNames[i] = some vals[i] := by
              intro i h1 h2
              have : (s.argNames.map E.get)[i]'(by simpa using h1) = (vals.map some)[i]'(by simpa using h2) := by
                simp only [hmap]
              simpa using this
            obtain ⟨E1, e1, e2, e3, e4, e5, e6⟩ := inline_sem_scope_frame sem lit hc hid s.g (s.ctx v n) em vals E
              outs hem hs.hin hs.hin0 hs.hout hs.hout0 hs.hA hs.hal hs.hrl hs.hrn hu0
              (fun a ha => hU a (hs.hau a ha)) (fun r hr => ⟨hU r (hs.hru r hr).1, (hs.hru r hr).2⟩)
              (by rw [← hs.hal]; exact hlenA) hE hEf (hEr s List.mem_cons_self) hev
            have hres0 : "" ∉ s.resNames := fun h => hu0 (hU _ (hs.hru _ h).1)
            have e2 : s.resNames.map E1.get = outs := e2
            have e3 : ∀ x ∈ v.used, x ∉ s.resNames → E1 x = E x := e3
            have e4 : ∀ x ∈ v.used, x ∈ em.var.used := e4
            have hol : s.resNames.length = outs.length := by
              have := congrArg List.length e2
              simpa using this
            have hSmap : s.resNames.map (S.setMany s.resNames outs).get = outs := by
              apply List.ext_getElem
              · simpa using hol
              · intro i h1 h2
                simp only [List.getElem_map]
                exact setMany_get_idx S s.resNames outs hs.hrn hol hres0 i (by simpa using h1) h2
            have hES1 : ∀ x ∈ U, E1 x = (S.setMany s.resNames outs) x := by
              intro x hx
              have hx0 : x ≠ "" := fun e => hu0 (e ▸ hU x hx)
              by_cases hxr : x ∈ s.resNames
              · have := List.map_inj_left.mp (e2.trans hSmap.symm) x hxr
                unfold Env.get at this
                simpa [hx0] using this
              · rw [e3 x (hU x hx) hxr, setMany_frame _ _ _ _ hxr]
                exact hES x hx
            obtain ⟨E2, f1, f2, f3, f4⟩ := ih em.var em.node ns v2 n2 E1 (S.setMany s.resNames outs) Es hrest
              (fun x hx => e4 x (hU x hx)) e5 (fun t ht => hval t (List.mem_cons_of_mem _ ht)) hpw2
              hES1 e6
              (fun t ht r hr => by
                have hrU := ((hval t (List.mem_cons_of_mem _ ht)).hru r hr).1
                rw [e3 r (hU r hrU) (fun hrs => hpw1 t ht r hrs hr)]
                exact hEr t (List.mem_cons_of_mem _ ht) r hr)
              hsp
            refine ⟨E2, ?_, f2, fun x hx => f3 x (e4 x hx), f4⟩
            rw [evalNodes_append, e1]
            exact f1

/-- non-vacuity of `inline_compose`: the same one-node model (`y = Neg x`, internal name `t`) inlined twice,
    the second call chained on the first; both emissions succeed in one scope, under different prefixes -/
example :
    let m : Graph := .mk ["x"] [] [.mk "" ⟨"", "Neg", "", none⟩ ["x"] ["t"] [],
                                   .mk "" ⟨"", "Neg", "", none⟩ ["t"] ["y"] []] ["y"] []
    ((toOnnxSeq [⟨m, "Inline_0", ["a"], ["b"]⟩, ⟨m, "Inline_1", ["b"], ["c"]⟩]
        ⟨["a", "b", "c"], []⟩ ⟨["Inline_0", "Inline_1"], []⟩).toOption.map
      fun r => (r.1.map fun nd => (nd.ins, nd.outs), r.2.1.used)) =
      some ([(["a"], ["Inline_0__t"]), (["Inline_0__t"], ["b"]), (["b"], ["Inline_1__t"]), (["Inline_1__t"], ["c"])],
            ["Inline_1__t", "Inline_0__t", "a", "b", "c"]) := by decide


/-- a successful `_Inline.to_onnx` of node `k` keeps both name spaces free of every other family `k'__`
    incomparable with `k__` -/
theorem toOnnx_keeps_prefixFree (c : Ctx) (g : Graph) (em : Emitted) (k' : String)
    (hem : toOnnx c (normalise g) = .ok em)
    (hinc : incomp (k' ++ "__") (c.nodeName ++ "__") = true)
    (hv : c.var.prefixFree c.nodeName = true) (hn : c.node.prefixFree c.nodeName = true)
    (hv' : c.var.prefixFree k' = true) (hn' : c.node.prefixFree k' = true) :
    em.var.prefixFree k' = true ∧ em.node.prefixFree k' = true := by
  obtain ⟨tbl, ntbl, h1, h2, _⟩ := toOnnx_parts c g em hem
  exact ⟨assign_keeps_prefixFree _ _ hinc _ _ hv hv' _ _ h1, assign_keeps_prefixFree _ _ hinc _ _ hn hn' _ _ h2⟩

/-- **`toOnnxSeq_total`**: any number of Inline nodes whose prefix families `k__` are pairwise incomparable (true
    of the build's `Inline_i` / `<body prefix>__Inline_i` names), emitted in a scope free of all these families:
    no `to_onnx` of the sequence can raise - the names one node reserves never get in the way of a later one. -/
theorem toOnnxSeq_total (sites : List Site) :
    ∀ (v n : Space),
      sites.Pairwise (fun s t => incomp (s.nodeName ++ "__") (t.nodeName ++ "__") = true) →
      (∀ s ∈ sites, v.prefixFree s.nodeName = true ∧ n.prefixFree s.nodeName = true) →
      ∃ r, toOnnxSeq sites v n = .ok r := by
  induction sites with
  | nil => intro v n _ _; exact ⟨_, rfl⟩
  | cons s ss ih =>
    intro v n hpw hfree
    obtain ⟨hpw1, hpw2⟩ := List.pairwise_cons.mp hpw
    obtain ⟨hv, hn⟩ := hfree s List.mem_cons_self
    obtain ⟨em, hem⟩ := toOnnx_total (s.ctx v n) s.g hv hn
    obtain ⟨r, hr⟩ := ih em.var em.node hpw2 (fun t ht =>
      toOnnx_keeps_prefixFree (s.ctx v n) s.g em t.nodeName hem
        (by rw [incomp_symm]; exact hpw1 t ht) hv hn
        (hfree t (List.mem_cons_of_mem _ ht)).1 (hfree t (List.mem_cons_of_mem _ ht)).2)
    refine ⟨(em.nodes ++ r.1, r.2.1, r.2.2), ?_⟩
    simp only [toOnnxSeq, hem, hr]

/-- **`inline_compose_total`**: `inline_compose` with "no `to_onnx` raises" discharged: for every list of Inline
    nodes with pairwise incomparable prefix families in a scope free of them, the whole emission succeeds AND
    refines the abstract program `specSeq` on the value names of the build. -/
theorem inline_compose_total {V : Type} (sem : OpSem V) (lit : Lit → V)
    (hc : ∀ l, sem (constOp l) [] [] = some [some (lit l)])
    (hid : ∀ v : V, sem identityOp [some v] [] = some [some v])
    (U : List String) (sites : List Site) (v n : Space) (E S Es : Env V)
    (hpwn : sites.Pairwise (fun s t => incomp (s.nodeName ++ "__") (t.nodeName ++ "__") = true))
    (hfree : ∀ s ∈ sites, v.prefixFree s.nodeName = true ∧ n.prefixFree s.nodeName = true)
    (hU : ∀ x ∈ U, x ∈ v.used) (hu0 : "" ∉ v.used)
    (hval : ∀ s ∈ sites, s.Valid U)
    (hpw : sites.Pairwise (fun s t => ∀ r ∈ s.resNames, r ∉ t.resNames))
    (hES : ∀ x ∈ U, E x = S x) (hEf : ∀ x, x ∉ v.used → E x = none)
    (hEr : ∀ s ∈ sites, ∀ r ∈ s.resNames, E r = none)
    (hsp : specSeq sem lit sites S = some Es) :
    ∃ nodes v' n' E', toOnnxSeq sites v n = .ok (nodes, v', n') ∧
      evalNodes sem lit nodes E = some E' ∧ (∀ x ∈ U, E' x = Es x) ∧
      (∀ x, x ∉ v'.used → E' x = none) := by
  obtain ⟨⟨nodes, v', n'⟩, hr⟩ := toOnnxSeq_total sites v n hpwn hfree
  obtain ⟨E', h1, h2, _, h4⟩ := inline_compose sem lit hc hid U sites v n nodes v' n' E S Es hr hU hu0 hval hpw
    hES hEf hEr hsp
  exact ⟨nodes, v', n', E', hr, h1, h2, h4⟩

/-- **`inline_compose_adapt_keep`** (mini-round): the sequence theorem stated directly about what the build emits,
    `to_onnx` followed by `adapt_inline` per node (`toOnnxAdaptSeq`), for builds in which no inlined model needs
    conversion - every site's highest default-domain import IS the target opset, or it imports no default domain
    (then `adapt_inline` returns the build's nodes, whatever the converter is): with pairwise incomparable prefix
    families in a scope free of them the whole emission succeeds and refines the abstract program `specSeq` on the
    value names of the build. -/
theorem inline_compose_adapt_keep {V : Type} (sem : OpSem V) (lit : Lit → V)
    (hc : ∀ l, sem (constOp l) [] [] = some [some (lit l)])
    (hid : ∀ v : V, sem identityOp [some v] [] = some [some v])
    (conv : Graph → Graph) (varNames : List String) (imports : Site → List (String × Nat)) (target : Nat)
    (U : List String) (sites : List Site) (v n : Space) (E S Es : Env V)
    (hkeep : ∀ s ∈ sites, sourceVersion (imports s) = none ∨ sourceVersion (imports s) = some target)
    (hpwn : sites.Pairwise (fun s t => incomp (s.nodeName ++ "__") (t.nodeName ++ "__") = true))
    (hfree : ∀ s ∈ sites, v.prefixFree s.nodeName = true ∧ n.prefixFree s.nodeName = true)
    (hU : ∀ x ∈ U, x ∈ v.used) (hu0 : "" ∉ v.used)
    (hval : ∀ s ∈ sites, s.Valid U)
    (hpw : sites.Pairwise (fun s t => ∀ r ∈ s.resNames, r ∉ t.resNames))
    (hES : ∀ x ∈ U, E x = S x) (hEf : ∀ x, x ∉ v.used → E x = none)
    (hEr : ∀ s ∈ sites, ∀ r ∈ s.resNames, E r = none)
    (hsp : specSeq sem lit sites S = some Es) :
    ∃ nodes v' n' E', toOnnxAdaptSeq conv varNames imports target sites v n = .ok (nodes, v', n') ∧
      evalNodes sem lit nodes E = some E' ∧ (∀ x ∈ U, E' x = Es x) ∧
      (∀ x, x ∉ v'.used → E' x = none) := by
  rw [toOnnxAdaptSeq_eq conv varNames imports target sites hkeep]
  exact inline_compose_total sem lit hc hid U sites v n E S Es hpwn hfree hU hu0 hval hpw hES hEf hEr hsp

/-- non-vacuity: an opset-17 model (ml import listed first) inlined twice, chained, target 17 - nothing is converted
    even by a converter that would wreck the model; at target 18 the first site IS handed to the converter -/
example :
    let m : Graph := .mk ["x"] [] [.mk "" ⟨"", "Neg", "", none⟩ ["x"] ["t"] [],
                                   .mk "" ⟨"", "Neg", "", none⟩ ["t"] ["y"] []] ["y"] []
    let sites : List Site := [⟨m, "Inline_0", ["a"], ["b"]⟩, ⟨m, "Inline_1", ["b"], ["c"]⟩]
    let wreck : Graph → Graph := fun g => .mk g.inputs [] [] g.outputs []
    ((toOnnxAdaptSeq wreck ["a", "b", "c"] (fun _ => [("ai.onnx.ml", 3), ("", 17)]) 17 sites
        ⟨["a", "b", "c"], []⟩ ⟨["Inline_0", "Inline_1"], []⟩).toOption.map fun r => r.1.map (·.outs)) =
      some [["Inline_0__t"], ["b"], ["Inline_1__t"], ["c"]] ∧
    ((toOnnxAdaptSeq wreck ["a", "b", "c"] (fun _ => [("ai.onnx.ml", 3), ("", 17)]) 18 sites
        ⟨["a", "b", "c"], []⟩ ⟨["Inline_0", "Inline_1"], []⟩).toOption.map fun r => r.1.map (·.outs)) =
      some [] := by decide

/-- the build's Inline node names are pairwise incomparable as families; a nested name is not -/
example : incomp ("Inline_0" ++ "__") ("Inline_1" ++ "__") = true ∧
    incomp ("Inline_1" ++ "__") ("Inline_10" ++ "__") = true ∧
    incomp ("Inline_0" ++ "__") ("If_0_then_branch__Inline_0" ++ "__") = true ∧
    incomp ("Inline_0" ++ "__") ("Inline_0__Inline_0" ++ "__") = false := by decide


theorem foldl_max_ge_init (vs : List Nat) (v : Nat) : v ≤ vs.foldl max v := by
  induction vs generalizing v with
  | nil => exact Nat.le_refl _
  | cons w ws ih => exact Nat.le_trans (Nat.le_max_left v w) (ih (max v w))

theorem foldl_max_ge_mem (vs : List Nat) (v w : Nat) (hw : w ∈ vs) : w ≤ vs.foldl max v := by
  induction vs generalizing v with
  | nil => cases hw
  | cons u us ih =>
    rcases List.mem_cons.mp hw with rfl | h
    · exact Nat.le_trans (Nat.le_max_right v w) (foldl_max_ge_init us (max v w))
    · exact ih (max v u) h

theorem foldl_max_mem (vs : List Nat) (v : Nat) : vs.foldl max v = v ∨ vs.foldl max v ∈ vs := by
  induction vs generalizing v with
  | nil => exact Or.inl rfl
  | cons u us ih =>
    rcases ih (max v u) with h | h
    · rcases Nat.le_total v u with hvu | huv
      · right; rw [List.foldl_cons, h, Nat.max_eq_right hvu]; exact List.mem_cons_self ..
      · left; rw [List.foldl_cons, h, Nat.max_eq_left huv]
    · right; exact List.mem_cons_of_mem _ h

/-- **`source_version_spec`**: the source version `adapt_inline` works with is THE maximum of the
    default-domain imports of the inlined model - a member that bounds every member; in particular it
    does not depend on the order of the imports or on where the other domains are listed. -/
theorem source_version_spec (imports : List (String × Nat)) (v : Nat) :
    sourceVersion imports = some v ↔
      v ∈ defaultImports imports ∧ ∀ w ∈ defaultImports imports, w ≤ v := by
  unfold sourceVersion
  cases hd : defaultImports imports with
  | nil => simp
  | cons u us =>
    constructor
    · intro h
      have hv : us.foldl max u = v := by simpa using h
      subst hv
      refine ⟨?_, fun w hw => ?_⟩
      · rcases foldl_max_mem us u with h | h
        · rw [h]; exact List.mem_cons_self ..
        · exact List.mem_cons_of_mem _ h
      · rcases List.mem_cons.mp hw with rfl | hw
        · exact foldl_max_ge_init us w
        · exact foldl_max_ge_mem us u w hw
    · rintro ⟨hm, hb⟩
      have h1 : us.foldl max u ≤ v := by
        rcases foldl_max_mem us u with h | h
        · rw [h]; exact hb u (List.mem_cons_self ..)
        · exact hb _ (List.mem_cons_of_mem _ h)
      have h2 : v ≤ us.foldl max u := by
        rcases List.mem_cons.mp hm with rfl | hm
        · exact foldl_max_ge_init us v
        · exact foldl_max_ge_mem us u v hm
      simp [Nat.le_antisymm h1 h2]

/-- **`adapt_decision_spec`**: `adapt_inline` converts iff some emitted top-level node lies in the default
    domain and the inlined model's source version exists and differs from the target - nothing else. -/
theorem adapt_decision_spec (protoDomains : List String) (imports : List (String × Nat)) (target : Nat) :
    needsConversionFull protoDomains imports target = true ↔
      (∃ d ∈ protoDomains, d = "" ∨ d = "ai.onnx") ∧ ∃ v, sourceVersion imports = some v ∧ v ≠ target := by
  unfold needsConversionFull needsConversion sourceVersion
  cases defaultImports imports with
  | nil => simp
  | cons u us => simp

/-- **`adapt_decision_operator_blind`**: the decision looks at the DOMAINS of the emitted top-level nodes
    only. Two inlined models whose top-level nodes lie in the same domains - whatever their operators
    are, changed between the two opsets or not, and whatever their bodies hold - are both converted
    or both kept (the held-out change "skip the converter when no top-level operator changed" breaks
    exactly this; the driver's `converts` is compared with the real call of the converter on every
    correspondence case). -/
theorem adapt_decision_operator_blind (conv : Graph → Graph) (c : Ctx) (varNames : List String) (g : Graph)
    (first first' : List Node) (imports : List (String × Nat)) (target : Nat)
    (hdom : first.map (fun n => n.op.domain) = first'.map (fun n => n.op.domain)) :
    needsConversionFull (first.map fun n => n.op.domain) imports target
      = needsConversionFull (first'.map fun n => n.op.domain) imports target ∧
    (needsConversionFull (first.map fun n => n.op.domain) imports target = true →
      adaptInline conv c varNames g first (defaultImports imports) target
        = adaptInline conv c varNames g first' (defaultImports imports) target) := by
  refine ⟨by rw [hdom], fun h => ?_⟩
  have h' : needsConversion (first'.map fun n => n.op.domain) (defaultImports imports) target = true := by
    rw [← hdom]; exact h
  have h0 : needsConversion (first.map fun n => n.op.domain) (defaultImports imports) target = true := h
  unfold adaptInline
  rw [if_pos h0, if_pos h']

/-- **`adapt_converts`**: on the raw data - some emitted top-level node in the default domain, the inlined
    model's highest default-domain import `v` differs from the target - `adapt_inline` returns the
    renaming, in the fresh scope, of the WHOLE converted model (bodies included: `conv` maps the nested
    graph), never the nodes of the build; whatever the top-level operators are. -/
theorem adapt_converts (conv : Graph → Graph) (c : Ctx) (varNames : List String) (g : Graph)
    (first : List Node) (imports : List (String × Nat)) (target v : Nat)
    (hdom : ∃ n ∈ first, n.op.domain = "" ∨ n.op.domain = "ai.onnx")
    (hsrc : sourceVersion imports = some v) (hne : v ≠ target) :
    adaptInline conv c varNames g first (defaultImports imports) target =
      (match toOnnx (freshCtx c varNames) (initsToConstants (conv g)) with
       | .ok em => .ok em.nodes
       | .error e => .error e) := by
  have h : needsConversionFull (first.map fun n => n.op.domain) imports target = true := by
    rw [adapt_decision_spec]
    obtain ⟨n, hn, hd⟩ := hdom
    exact ⟨⟨n.op.domain, List.mem_map.mpr ⟨n, hn, rfl⟩, hd⟩, v, hsrc, hne⟩
  have h0 : needsConversion (first.map fun n => n.op.domain) (defaultImports imports) target = true := h
  unfold adaptInline
  rw [if_pos h0]
  cases toOnnx (freshCtx c varNames) (initsToConstants (conv g)) <;> rfl

/-- **`adapt_keeps`**: the nodes of the build are returned unchanged exactly in the remaining cases - the
    source version is the target, the model imports no default domain, or no emitted top-level node lies
    in the default domain. -/
theorem adapt_keeps (conv : Graph → Graph) (c : Ctx) (varNames : List String) (g : Graph)
    (first : List Node) (imports : List (String × Nat)) (target : Nat)
    (h : sourceVersion imports = some target ∨ sourceVersion imports = none ∨
         ∀ n ∈ first, n.op.domain ≠ "" ∧ n.op.domain ≠ "ai.onnx") :
    adaptInline conv c varNames g first (defaultImports imports) target = .ok first := by
  have hf : needsConversionFull (first.map fun n => n.op.domain) imports target = false := by
    cases hb : needsConversionFull (first.map fun n => n.op.domain) imports target with
    | false => rfl
    | true =>
      exfalso
      obtain ⟨⟨d, hd, hdd⟩, v, hv, hne⟩ := (adapt_decision_spec _ _ _).mp hb
      rcases h with h | h | h
      · rw [h] at hv; exact hne (Option.some.inj hv).symm
      · rw [h] at hv; cases hv
      · obtain ⟨n, hn, rfl⟩ := List.mem_map.mp hd
        rcases hdd with e | e
        · exact (h n hn).1 e
        · exact (h n hn).2 e
  exact adapt_noop conv c varNames g first (defaultImports imports) target hf

/-- **`adapt_decision_ignores_other_domains`**: an import of another domain (ai.onnx.ml, a custom domain,
    an import no node uses), listed anywhere among the imports and at any version, changes neither the
    source version nor the decision. -/
theorem adapt_decision_ignores_other_domains (pre post : List (String × Nat)) (d : String) (ver : Nat)
    (hd : d ≠ "" ∧ d ≠ "ai.onnx") (protoDomains : List String) (target : Nat) :
    sourceVersion (pre ++ (d, ver) :: post) = sourceVersion (pre ++ post) ∧
    needsConversionFull protoDomains (pre ++ (d, ver) :: post) target
      = needsConversionFull protoDomains (pre ++ post) target := by
  have h : defaultImports (pre ++ (d, ver) :: post) = defaultImports (pre ++ post) := by
    simp [defaultImports, hd.1, hd.2]
  unfold sourceVersion needsConversionFull
  rw [h]
  exact ⟨rfl, rfl⟩

/-- non-vacuity: opset 17 model whose only top-level node is an `If` (the same at 16..18), next to an
    opset-18 operator: converted; an ai.onnx.ml import at version 18 listed first does not switch it off;
    at target 17 it is kept -/
example : needsConversionFull [""] [("", 17)] 18 = true ∧
    needsConversionFull [""] [("ai.onnx.ml", 18), ("", 17)] 18 = true ∧
    needsConversionFull ["", "com.microsoft"] [("com.microsoft", 1), ("", 17)] 17 = false ∧
    needsConversionFull ["custom.dom"] [("custom.dom", 1), ("", 13)] 18 = false := by decide

/-- **`generated_adapt_decision`** (tie G): the decision code of `adapt_inline`, re-extracted from
    `_adapt.py` on this run, is expression by expression the text `needsConversionFull` transcribes -
    whatever inputs the oracle generates, an additional guard / early return / version source breaks this. -/
theorem generated_adapt_decision : Generated.InlineFacts.adaptShape = adaptShapeModelled := by
  rfl

/-- **`generated_inline_members`** (tie G): the methods, properties, class-level attributes of `_Inline` and
    every attribute write on the node object (in its methods and in `adapt_inline`), re-extracted on this
    run, are exactly the ones the model accounts for: a new override, a cache on the node (the history
    class: remembered conversions) or a class-level mutable attribute breaks this whatever is generated. -/
theorem generated_inline_members : Generated.InlineFacts.inlineMembers = inlineMembersModelled := by
  decide

/-- `node.model` after `adapt_inline` is the object it was before, whether `to_onnx` raises or not
    (for the statement list extracted from `_adapt.adapt_inline` on this run; C12 relies on it) -/
theorem adapt_restores_model {α : Type} (base target junk : α) (emitRaises : Bool) :
    (SStmt.runL emitRaises target junk Generated.InlineFacts.swapIR ⟨base, none, false⟩).field = base := by
  cases emitRaises <;> rfl

/-- without the `finally` a raising `to_onnx` leaves the converted model in place -/
theorem adapt_no_finally_counterexample :
    (SStmt.runL true 1 2 [.saveBase, .setTarget, .emit, .restoreBase] ⟨(0 : Nat), none, false⟩).field = 1 := by
  rfl

/-- a small integer semantics for the examples -/
def exSem : OpSem Int := fun op ins _ =>
  match op.opType, ins with
  | "Identity", [some a] => some [some a]
  | "Add", [some a, some b] => some [some (a + b)]
  | "Constant", [] => op.lit.map fun l => [some (match l with | .dense i => (i : Int) | .sparse i => (i : Int))]
  | _, _ => none

def exLit : Lit → Int
  | .dense i => i
  | .sparse i => i

/-- the pass-through model `y = x + x; outputs = [y, x]` -/
def exPass : Graph :=
  .mk ["x"] [] [.mk "" ⟨"", "Add", "", none⟩ ["x", "x"] ["y"] []] ["y", "x"] []

def exCtx : Ctx :=
  ⟨"Inline_0", ["z"], ["r0", "r1"], ⟨["z", "r0", "r1"], []⟩, ⟨["Inline_0"], []⟩⟩

def exEnv : Env Int := fun n => if n = "z" then some 5 else none

/-- pinned tree: for the pass-through model nothing defines the second result name, although `m`
    computes `[10, 5]` -/
theorem inline_passthrough_counterexample :
    evalModel exSem exLit exPass [5] = some [some 10, some 5] ∧
    ((toOnnxPinned exCtx (normalise exPass)).toOption.bind fun em =>
      (evalNodes exSem exLit em.nodes exEnv).map fun e => ["r0", "r1"].map e.get)
      = some [some 10, none] := by
  decide

/-- the fixed tree on the same model (non-vacuity of `inline_sem`) -/
theorem inline_passthrough_fixed :
    ((toOnnx exCtx (normalise exPass)).toOption.bind fun em =>
      (evalNodes exSem exLit em.nodes exEnv).map fun e => ["r0", "r1"].map e.get)
      = some [some 10, some 5] := by
  decide

/-! ### refusals, types, purity -/

/-- models defining local functions are refused with `ValueError`, and only those -/
theorem functions_refused (m : Model) :
    (m.hasFunctions = true → (prepare m).toOption.isNone ∧ prepare m = .error .valueError) ∧
    (m.hasFunctions = false → ∃ p, prepare m = .ok p) := by
  constructor
  · intro h; simp [prepare, h, Except.toOption]
  · intro h; simp [prepare, h]

/-- the types handed to the returned Vars are the declared output types with symbolic dimensions
    forgotten, and the signature is read from the caller's model -/
theorem output_types_declared (m : Model) (p : Prepared) (h : prepare m = .ok p) :
    p.outTypes = m.outTypes.map Ty.strip ∧ p.outNames = m.graph.outputs ∧
    p.inNames = m.graph.inputs ∧ p.graph = normalise m.graph := by
  unfold prepare at h
  split at h
  · cases h
  · cases h; exact ⟨rfl, rfl, rfl, rfl⟩

theorem run_loc_some {α : Type} (f : Nat → α → α) (sts : List Stmt) (k : Nat) (c x : α) :
    (Own.run f sts k ⟨c, some x⟩).caller = c := by
  induction sts generalizing k x with
  | nil => rfl
  | cons st sts ih => cases st <;> simp [Own.run, Own.step, ih]

/-- for every statement list in which no mutation precedes the copy, and whatever the mutations do,
    the caller's object has the same content afterwards -/
theorem copyFirst_pure {α : Type} (f : Nat → α → α) (sts : List Stmt) (k : Nat) (c : α)
    (h : copyFirst sts = true) : (Own.run f sts k ⟨c, none⟩).caller = c := by
  induction sts generalizing k with
  | nil => rfl
  | cons st sts ih =>
    cases st with
    | copy => simp [Own.run, Own.step, run_loc_some]
    | mutate => simp [copyFirst] at h
    | read => simpa [Own.run, Own.step] using ih (k + 1) (by simpa [copyFirst] using h)
    | other => simpa [Own.run, Own.step] using ih (k + 1) (by simpa [copyFirst] using h)

/-- the statement list extracted from `/repo` on this run copies before it mutates, through a
    `_copy_model` that returns a fresh object -/
theorem generated_copy_first :
    copyFirst Generated.InlineFacts.stmts = true ∧ Generated.InlineFacts.copyFresh = true := by decide

/-- `inline(m)` leaves `m` unchanged (for the code as extracted on this run) -/
theorem normalise_pure {α : Type} (f : Nat → α → α) (c : α) :
    (Own.run f Generated.InlineFacts.stmts 0 ⟨c, none⟩).caller = c :=
  copyFirst_pure f _ 0 c generated_copy_first.1

/-- non-vacuity: without the copy the caller's object does change -/
theorem no_copy_counterexample :
    (Own.run (fun _ (n : Nat) => n + 1) [.read, .mutate] 0 ⟨0, none⟩).caller ≠ 0 := by decide

end C08
