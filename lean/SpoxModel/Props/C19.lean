/-! Property theorems for C19 (only property-level statements and non-vacuity examples live here). -/
