import SpoxModel.Lemmas.Subgraph
import SpoxModel.Lemmas.SubgraphNested
import SpoxModel.Lemmas.SubgraphNames
import SpoxModel.Model.CallForm
import SpoxModel.Generated.SubgraphSpecs
import SpoxModel.Generated.CallbackSites
import SpoxModel.Generated.CallGraphData
import SpoxModel.Generated.SubgraphInventory
/-!
# C19 — subgraph callbacks run exactly once, with the prescribed arguments

Property theorems only. The specs of the control-flow constructors (`Generated.SubgraphSpecs`) and
the callback call sites (`Generated.CallbackSites`) are the ones *extracted from /repo on this run*;
`generated_good`, `generator_consistent`, `modules_covered` and `sites_good` are the obligations that
tie the general theorems to the source.

The ONNX prescription (`Model/SubgraphSpec.lean`) is written from the ONNX specification.
Two statements are false of the code as it is and are kept visible:
* Loop declares iteration number and condition with shape `[1]`, ONNX says scalars (pinned by the
  repo's tests) — `args_prescribed_loop_partial` + `loop_scalar_counterexample`;
* Scan ignores `scan_input_axes` when typing the body's scan inputs —
  `args_prescribed_scan_partial` (default / all-zero axes) + `scan_axes_counterexample`.
-/
namespace C19
open Subgraph SubgraphSpec SubgraphLemmas SubgraphNested SubgraphNestedLemmas
open Generated.SubgraphSpecs

/-! ## Obligations on the generated data -/

/-- The accepted specs of each constructor name. -/
def accepted (ctor : String) : List CtorSpec :=
  if ctor = "if_" then [ifSpec, ifSpecSwapped]
  else if ctor = "loop" then [loopSpecWith (some [.n 1])]
  else if ctor = "scan" then [scanSpec]
  else if ctor = "sequence_map" then [seqMapSpec]
  else []

/-- Every function of the shipped `ai.onnx` modules that calls `subgraph` is one of the four
    control-flow constructors and has the accepted spec. -/
theorem generated_good : table.all (fun e => (accepted e.2.1).contains e.2.2) = true := by decide

/-- The source strings in `tools/generate_opset.py` say the same as the generated modules. -/
theorem generator_consistent :
    genTable.all (fun e => (accepted e.1).contains e.2) = true
      ∧ ctorNames.all (fun c => genTable.any (fun e => e.1 == c)) = true := by decide

/-- Every control-flow constructor of every shipped module resolves to a function in `table`. -/
theorem modules_covered :
    resolves.all (fun r => table.any (fun e => e.1 == r.2.2 && e.2.1 == r.2.1)) = true
      ∧ (resolves.map (·.1)).eraseDups.all
          (fun m => ctorNames.all (fun c => resolves.any (fun r => r.1 == m && r.2.1 == c))) = true := by
  decide

/-- names of the callbacks a spec traces -/
def tracedCallbacks (s : CtorSpec) : List String := s.subgraphs.map (·.1)

/-- **Inventory of constructors, by signature.** Every top-level function of *every* opset module
    (`ai.onnx` v17…v21 and `ai.onnx.ml`) that has a parameter annotated `Callable` or calls `subgraph` is
    a row of `table` (so the theorems below speak about it), its `Callable` parameters are exactly the
    callbacks its `subgraph(…)` calls trace (no callback parameter is ignored, nothing else is traced),
    and `table` has no row that the inventory does not know. -/
theorem callable_params_good :
    Generated.SubgraphInventory.callableParams.all (fun e =>
        table.any (fun t => t.1 == e.1 && t.2.1 == e.2.1
          && e.2.2.all (fun p => (tracedCallbacks t.2.2).contains p)
          && (tracedCallbacks t.2.2).all (fun p => e.2.2.contains p))) = true
      ∧ table.all (fun t =>
          Generated.SubgraphInventory.callableParams.any (fun e => e.1 == t.1 && e.2.1 == t.2.1)) = true := by
  decide

/-- **Attribute wiring.** In every constructor each subgraph traced from callback `X` is stored in the
    node attribute `X` (`X=AttrGraph(<graph of X>, name="X")`), one attribute per traced callback. -/
theorem attr_wiring_good :
    Generated.SubgraphInventory.attrWiring.all (fun e =>
        e.2.2.all (fun w => w.1 == w.2.1 && w.2.1 == w.2.2)
          && table.any (fun t => t.1 == e.1 && t.2.1 == e.2.1
              && (tracedCallbacks t.2.2).all (fun p => e.2.2.any (fun w => w.2.2 == p))
              && e.2.2.length == (tracedCallbacks t.2.2).length)) = true := by
  decide

/-- **How `subgraph` uses its callback.** Inside `spox._graph.subgraph` the callback parameter occurs only as
    `callable(fun)`, as the one call `fun(*<arguments>)` (a single starred argument, no keywords — Python's own
    binding decides what is accepted, `CallForm.accepts`), and as the argument of `_with_constructor`; no
    attribute of the callable is read, it is handed to no other function (no signature pre-check), it is
    not rebound, and `_graph.py` imports no introspection module. -/
theorem callback_use_good :
    Generated.SubgraphInventory.callbackUses.all
        (fun u => ["call:starred", "arg-of:callable", "arg-of:_with_constructor"].contains u) = true
      ∧ Generated.SubgraphInventory.callbackUses.count "call:starred" = 1
      ∧ Generated.SubgraphInventory.introspectionImports = [] := by
  decide

/-- Call sites, other than `subgraph`, that could reach a stored callback — from the source. -/
def extra : List String :=
  extraSites Generated.CallbackSites.invokers Generated.CallbackSites.reconstructCallers
    Generated.CallbackSites.constructorReaders Generated.CallbackSites.subgraphCallers
    Generated.CallbackSites.opsetModules

/-- Nothing but `subgraph` (called by the control-flow constructors) invokes a callback; nothing
    calls `_reconstruct` or reads `_constructor`. -/
theorem sites_good : extra = [] ∧ "spox._graph.subgraph" ∈ Generated.CallbackSites.invokers := by
  decide

/-- The call graph of `src/spox` extracted on this run. -/
abbrev cg : CallGraph.Graph := Generated.CallGraphData.graph

/-- Certificate check for the generated call graph: the translator's set of functions contains every
    entry point (build, inference, value propagation, inspection, copy / pickle hooks, Graph methods,
    inlining, Var methods), is closed under every call edge, and contains no function that invokes
    (or lets escape) a stored callback. -/
theorem callgraph_safe : cg.safe Generated.CallGraphData.reachMask = true := by decide +kernel

/-- **No path to a stored callback.** In the call graph of /repo as it is now, no function that
    invokes a stored callback (`subgraph`, `Graph._reconstruct`, anything reading `_constructor`) is
    reachable from any entry point of a later step. (`Reach` is the inductive reachability relation
    over the generated edge list.) -/
theorem no_callback_reachable (es : List Nat) (hes : ∀ e ∈ es, e ∈ cg.allEntries) (x : Nat)
    (hx : CallGraph.Reach cg.edges es x) : x ∉ cg.sinks := by
  intro hmem
  have h1 := reach_in_mask cg _ callgraph_safe es hes x hx
  have h2 : CallGraph.inMask Generated.CallGraphData.reachMask x = false := by
    have := callgraph_safe
    simp only [CallGraph.Graph.safe, Bool.and_eq_true, List.all_eq_true] at this
    simpa using this.2 x hmem
  rw [h1] at h2; cases h2

theorem spec_of_table {m c : String} {s : CtorSpec} (h : (m, c, s) ∈ table) : s ∈ accepted c := by
  have := List.all_eq_true.1 generated_good (m, c, s) h
  simpa using this

/-! ## `args_prescribed` -/

/-- **If** (every shipped module): each branch is called exactly once, with no arguments (the log
    grows by exactly these two events, in the order of the two `subgraph(…)` calls in the source). -/
theorem args_prescribed_if {m : String} {s : CtorSpec} (h : (m, "if_", s) ∈ table)
    (env : Env) (cbs : Callbacks) (w : World) (n1 n2 : Nat)
    (h1 : (cbs "else_branch").2 = .returnsVars n1) (h2 : (cbs "then_branch").2 = .returnsVars n2) :
    let eT : Event := ⟨(cbs "then_branch").1, [], ifPresc⟩
    let eE : Event := ⟨(cbs "else_branch").1, [], ifPresc⟩
    (construct s env cbs w).2 = ⟨eT :: eE :: w.events, w.fresh⟩
      ∨ (construct s env cbs w).2 = ⟨eE :: eT :: w.events, w.fresh⟩ := by
  have hs := spec_of_table h
  simp only [accepted, if_true, List.mem_cons, List.not_mem_nil, or_false] at hs
  rcases hs with rfl | rfl
  · exact Or.inl (construct_if_world env cbs w n1 n2 h1 h2)
  · exact Or.inr (construct_if_world_swapped env cbs w n1 n2 h1 h2)

/-- **SequenceMap** (every shipped module), any element type, any number of additional inputs, each a
    sequence or a tensor of any dtype / shape / rank: the body is called exactly once with fresh
    arguments typed `(element of input_sequence, then per additional input its element type /
    the tensor type itself)`. -/
theorem args_prescribed_sequence_map {m : String} {s : CtorSpec} (h : (m, "sequence_map", s) ∈ table)
    (env : Env) (elem : Ty) (extra : List SMOperand)
    (hs : env.singles "input_sequence" = some (.seq elem))
    (hl : env.lists "additional_inputs" = extra.map (fun o => some o.ty))
    (cbs : Callbacks) (hc : (cbs "body").2.callable = true) (w : World) :
    (construct s env cbs w).2
      = ⟨⟨(cbs "body").1, freshIds w.fresh (seqMapPresc elem extra).length, seqMapPresc elem extra⟩
            :: w.events,
          w.fresh + (seqMapPresc elem extra).length⟩ := by
  have hs' : s = seqMapSpec := by
    have := spec_of_table h; simpa [accepted] using this
  subst hs'
  exact construct_single_world "body" seqMapTypes "body" 0 env cbs w _
    (eval_seqMap env elem extra hs hl) hc

/-- **Scan** (every shipped module), any number of operands of any dtype / shape / rank, any
    `num_scan_inputs ≤` their number: the `N = len − num_scan_inputs` states come first with their
    type unchanged, then the scan inputs without their scan axis — for the default scan axes
    (attribute omitted or all 0). *Partial*: for other `scan_input_axes` see `scan_axes_counterexample`. -/
theorem args_prescribed_scan_partial {m : String} {s : CtorSpec} (h : (m, "scan", s) ∈ table)
    (env : Env) (ops : List TensorT) (k : Nat) (hk : k ≤ ops.length)
    (hl : env.lists "initial_state_and_scan_inputs" = ops.map (fun t => some t.ty))
    (hi : env.ints "num_scan_inputs" = (k : Int))
    (axes : Option (List Int)) (hax : ∀ l, axes = some l → ∀ a ∈ l, a = 0)
    (cbs : Callbacks) (hc : (cbs "body").2.callable = true) (w : World) :
    (construct s env cbs w).2
      = ⟨⟨(cbs "body").1, freshIds w.fresh (scanPresc ops k axes).length, scanPresc ops k axes⟩
            :: w.events,
          w.fresh + (scanPresc ops k axes).length⟩ := by
  have hs' : s = scanSpec := by
    have := spec_of_table h; simpa [accepted] using this
  subst hs'
  have hax' : scanPresc ops k axes = scanPresc ops k none := by
    cases axes with
    | none => rfl
    | some l => simp [scanPresc, stripAxes_zeros _ l (hax l rfl)]
  rw [hax']
  exact construct_single_world "body" scanTypes "body" 0 env cbs w _
    (eval_scan env ops k hk hl hi) hc

/-- What the code does with Scan's other attributes: the body's argument types depend only on the
    operands and `num_scan_inputs` — `scan_input_axes`, `scan_input_directions`, `scan_output_axes`
    and `scan_output_directions` are not looked at (for ONNX only `scan_input_axes` matters here:
    directions do not change types, `scan_output_axes` only the operator's outputs). -/
theorem scan_args_ignore_attributes {m : String} {s : CtorSpec} (h : (m, "scan", s) ∈ table)
    (env env' : Env) (hl : env.lists = env'.lists)
    (hi : env.ints "num_scan_inputs" = env'.ints "num_scan_inputs") :
    s.subgraphs.map (fun p => evalList env p.2) = s.subgraphs.map (fun p => evalList env' p.2) := by
  have hs' : s = scanSpec := by
    have := spec_of_table h; simpa [accepted] using this
  subst hs'
  simp [scanSpec, scanTypes, evalList, evalSrc, scanSplit, evalIdx, hl, hi, evalTy, lookupVar, stripFirst]

/-- Exactly when the code agrees with ONNX for arbitrary `scan_input_axes`: iff removing the
    prescribed axis from every scan input gives the same shape as removing axis 0 (default axes,
    unknown shapes, or dimensions that happen to coincide). -/
theorem args_prescribed_scan_iff (env : Env) (ops : List TensorT) (k : Nat) (hk : k ≤ ops.length)
    (hl : env.lists "initial_state_and_scan_inputs" = ops.map (fun t => some t.ty))
    (hi : env.ints "num_scan_inputs" = (k : Int)) (axes : Option (List Int)) :
    evalList env scanTypes = .ok (scanPresc ops k axes)
      ↔ stripAxes (ops.drop (ops.length - k)) (axes.getD []) = stripAxes (ops.drop (ops.length - k)) [] := by
  rw [eval_scan env ops k hk hl hi]
  simp only [scanPresc, Except.ok.injEq, Option.getD_none]
  constructor
  · intro h; exact (List.append_cancel_left h).symm
  · intro h; rw [h]

/-- **Loop** (every shipped module), any number of carried values of any type (tensor, sequence,
    optional): the body receives `(iteration: int64, condition: bool, carried types unchanged)`, in
    this order. *Partial*: iteration number and condition are declared with shape `[1]`, where ONNX
    prescribes scalars (`loop_scalar_counterexample`). -/
theorem args_prescribed_loop_partial {m : String} {s : CtorSpec} (h : (m, "loop", s) ∈ table)
    (env : Env) (carried : List Ty) (hl : env.lists "v_initial" = carried.map some)
    (cbs : Callbacks) (hc : (cbs "body").2.callable = true) (w : World) :
    (construct s env cbs w).2
      = ⟨⟨(cbs "body").1, freshIds w.fresh (carried.length + 2),
            loopPrescWith (some [.n 1]) carried⟩ :: w.events,
          w.fresh + (carried.length + 2)⟩ := by
  have hs' : s = loopSpecWith (some [.n 1]) := by
    have := spec_of_table h; simpa [accepted] using this
  subst hs'
  have := construct_single_world "body" (loopTypes (some [.n 1])) "body" 1 env cbs w _
    (eval_loop env (some [.n 1]) carried hl) hc
  have hlen : (loopPrescWith (some [Dim.n 1]) carried).length = carried.length + 2 := by
    simp [loopPrescWith]
  rw [hlen] at this
  exact this

/-- What `args_prescribed_loop_partial` establishes agrees with ONNX's prescription in everything but
    the declared shape of the first two arguments. -/
theorem loop_partial_vs_onnx (carried : List Ty) :
    (loopPrescWith (some [.n 1]) carried).length = (loopPresc carried).length
      ∧ (loopPrescWith (some [.n 1]) carried).drop 2 = (loopPresc carried).drop 2
      ∧ (loopPrescWith (some [.n 1]) carried).take 2 = [.tensor dtInt64 (some [.n 1]), .tensor dtBool (some [.n 1])]
      ∧ (loopPresc carried).take 2 = [.tensor dtInt64 (some []), .tensor dtBool (some [])] := by
  simp [loopPrescWith, loopPresc]

/-- **Counterexample family for the full Loop statement** (pair of `args_prescribed_loop_partial`): in *every*
    shipped module, for *every* list of carried values and every callable body, the argument types the
    body receives differ from ONNX's prescription (iteration number / condition are `[1]`-shaped). -/
theorem args_prescribed_loop_counterexample {m : String} {s : CtorSpec} (h : (m, "loop", s) ∈ table)
    (env : Env) (carried : List Ty) (hl : env.lists "v_initial" = carried.map some)
    (cbs : Callbacks) (hc : (cbs "body").2.callable = true) (w : World) :
    (construct s env cbs w).2.events.head?.map (·.types) ≠ some (loopPresc carried) := by
  rw [args_prescribed_loop_partial h env carried hl cbs hc w]
  simp [loopPrescWith, loopPresc]

/-- **Counterexample family for the full Scan statement** (pair of `args_prescribed_scan_partial`): in every
    shipped module, one scan input of rank ≥ 2 whose first two dimensions differ, scanned along axis 1:
    the body's argument type differs from ONNX's prescription (the code strips axis 0). -/
theorem args_prescribed_scan_counterexample {m : String} {s : CtorSpec} (h : (m, "scan", s) ∈ table)
    (env : Env) (dt : Nat) (d0 d1 : Dim) (rest : List Dim) (hd : d0 ≠ d1)
    (hl : env.lists "initial_state_and_scan_inputs" = [some (.tensor dt (some (d0 :: d1 :: rest)))])
    (hi : env.ints "num_scan_inputs" = 1)
    (cbs : Callbacks) (hc : (cbs "body").2.callable = true) (w : World) :
    (construct s env cbs w).2.events.head?.map (·.types)
      ≠ some (scanPresc [⟨dt, some (d0 :: d1 :: rest)⟩] 1 (some [1])) := by
  have hp := args_prescribed_scan_partial h env [⟨dt, some (d0 :: d1 :: rest)⟩] 1 (by simp)
    (by simpa [TensorT.ty] using hl) (by simpa using hi) none (by intro l hl'; cases hl') cbs hc w
  rw [hp]
  simp [scanPresc, stripAxes, dropAxis, List.eraseIdx]
  intro h'
  exact hd h'.symm

/-- **If does not look at its condition.** In every shipped module the two branch subgraphs are traced
    from the callbacks alone: whatever the operands are — a condition known at construction time (constant,
    computed from constants, initializer) included — the constructor call is the same; no branch is "dead"
    for tracing. -/
theorem if_cond_irrelevant {m : String} {s : CtorSpec} (h : (m, "if_", s) ∈ table)
    (env env' : Env) (cbs : Callbacks) (w : World) :
    construct s env cbs w = construct s env' cbs w := by
  have hs := spec_of_table h
  simp only [accepted, if_true, List.mem_cons, List.not_mem_nil, or_false] at hs
  rcases hs with rfl | rfl <;> simp [construct, runSubgraphs, ifSpec, ifSpecSwapped, evalList]

private def envOf (lists : List (String × List Operand)) (singles : List (String × Operand))
    (ints : List (String × Int)) : Env :=
  ⟨fun nm => ((lists.find? (·.1 == nm)).map (·.2)).getD [],
   fun nm => ((singles.find? (·.1 == nm)).map (·.2)).getD none,
   fun nm => ((ints.find? (·.1 == nm)).map (·.2)).getD 0⟩

private def f32 (sh : List Nat) : TensorT := ⟨1, some (sh.map .n)⟩

/-- The full statement for Loop is false of the code: with no carried values the body is declared
    `(int64[1], bool[1])`, ONNX says `(int64 scalar, bool scalar)`. -/
theorem loop_scalar_counterexample :
    evalList (envOf [("v_initial", [])] [] []) (loopTypes (some [.n 1])) ≠ .ok (loopPresc []) := by
  decide

/-- The full statement for Scan is false of the code: one scan input `float32[5,3]` scanned along
    axis 1 must give the body a `float32[5]`; the code strips axis 0. -/
theorem scan_axes_counterexample :
    evalList (envOf [("initial_state_and_scan_inputs", [some (f32 [5, 3]).ty])] []
        [("num_scan_inputs", 1)]) scanTypes
      ≠ .ok (scanPresc [f32 [5, 3]] 1 (some [1])) := by
  decide

/-- The pinned tree's Scan (split applied to the wrong operands): a rank-1 state `float32[3]` and a
    scan input `float32[5,3]` — the body was given `(float32[], float32)`. -/
theorem scan_pinned_counterexample :
    evalList (envOf [("initial_state_and_scan_inputs", [some (f32 [3]).ty, some (f32 [5, 3]).ty])] []
        [("num_scan_inputs", 1)]) scanTypesPinned
      ≠ .ok (scanPresc [f32 [3], f32 [5, 3]] 1 none) := by
  decide

/-- The pinned tree's SequenceMap: a tensor-typed additional input raised AttributeError. -/
theorem sequence_map_pinned_counterexample :
    evalList (envOf [("additional_inputs", [some (f32 [2]).ty])]
        [("input_sequence", some (.seq (f32 [2]).ty))] []) seqMapTypesPinned
      = .error .attributeError := by
  decide

/-! ## `args_fresh` -/

/-- **Fresh arguments.** Over any history of constructor calls (any constructor spec, any operands,
    any callbacks, failing or not) starting from the empty log: the arguments of one invocation are
    pairwise distinct, and distinct from (larger than) every argument handed to any earlier
    invocation. -/
theorem args_fresh (calls : List (CtorSpec × Env × Callbacks)) :
    Fresh (calls.foldl (fun w c => (construct c.1 c.2.1 c.2.2 w).2) ⟨[], 0⟩) := by
  suffices h : ∀ w, Fresh w → Fresh (calls.foldl (fun w c => (construct c.1 c.2.1 c.2.2 w).2) w) from
    h _ fresh_init
  induction calls with
  | nil => intro w hw; exact hw
  | cons c rest ih => intro w hw; exact ih _ (construct_fresh c.1 c.2.1 c.2.2 w hw)

/-! ## `called_once` -/

/-- **Called once.** After a successful constructor call and *any* sequence of builds, inference
    re-runs, value propagation, inspection, copies, Graph-method calls, inlining and Var-method calls
    — each step running whatever is reachable from its entry functions in the call graph extracted
    from /repo — every callback has been invoked exactly as often as it was passed to the
    constructor (once per role). -/
theorem called_once (spec : CtorSpec) (env : Env) (cbs : Callbacks) (w w1 : World) (node : Node)
    (h : construct spec env cbs w = (.ok node, w1)) (steps : List Step) (c : Nat) :
    (runSteps cg node steps w1).count c = w.count c + (cbIds cbs spec.subgraphs).count c := by
  rw [runSteps_safe cg _ callgraph_safe]
  unfold construct at h
  generalize hrs : runSubgraphs env cbs spec.subgraphs w = r at h
  obtain ⟨res, w'⟩ := r
  cases res with
  | error err => simp at h
  | ok gs =>
    simp only at h
    cases hl : lookupGraph gs spec.outGraph with
    | none => simp [hl] at h
    | some g =>
      simp only [hl, Prod.mk.injEq] at h
      rw [← h.2]
      exact runSubgraphs_count_ok env cbs _ _ _ _ hrs c

/-- A fresh callback object passed in exactly one role has been called exactly once. -/
theorem called_exactly_once (spec : CtorSpec) (env : Env) (cbs : Callbacks) (w w1 : World) (node : Node)
    (h : construct spec env cbs w = (.ok node, w1)) (steps : List Step) (c : Nat)
    (hnew : w.count c = 0) (hrole : (cbIds cbs spec.subgraphs).count c = 1) :
    (runSteps cg node steps w1).count c = 1 := by
  rw [called_once spec env cbs w w1 node h steps c, hnew, hrole]

/-- Also when the constructor raises (a later callback is malformed, a type expression fails), no
    callback has been invoked more often than it was passed. -/
theorem called_at_most_once (spec : CtorSpec) (env : Env) (cbs : Callbacks) (w : World) (c : Nat) :
    (construct spec env cbs w).2.count c ≤ w.count c + (cbIds cbs spec.subgraphs).count c := by
  have := runSubgraphs_count_le env cbs spec.subgraphs w c
  unfold construct
  generalize runSubgraphs env cbs spec.subgraphs w = r at this
  obtain ⟨res, w'⟩ := r
  cases res with
  | error err => exact this
  | ok gs =>
    simp only at this ⊢
    cases lookupGraph gs spec.outGraph <;> exact this

/-- Had a build path re-run the stored constructor (an edge from a build entry point to
    `_reconstruct`), one build after an If would bring each branch to two invocations. -/
theorem reconstruct_counterexample :
    let cbs : Callbacks := fun nm => if nm = "else_branch" then (0, .returnsVars 1) else (1, .returnsVars 1)
    let r := construct ifSpec (envOf [] [] []) cbs ⟨[], 0⟩
    let g : CallGraph.Graph := ⟨3, [(0, 1), (1, 2)], [2], [("build", [0])]⟩
    r.1.toOption.map (fun node => (runSteps g node [.build] r.2).count 0) = some 2 := by
  decide

/-! ## `out_count` -/

/-- **Output count.** A successfully constructed node has as many outputs as the callback returned
    Vars — minus one for Loop, whose first result is the condition. If uses `else_branch`'s count. -/
theorem out_count {m c : String} {s : CtorSpec} (h : (m, c, s) ∈ table)
    (env : Env) (cbs : Callbacks) (w w1 : World) (node : Node)
    (hc : construct s env cbs w = (.ok node, w1)) :
    ∃ n, (cbs (if c = "if_" then "else_branch" else "body")).2 = .returnsVars n
      ∧ node.outVariadic = outCount (c == "loop") n := by
  obtain ⟨n, hn, ho⟩ := construct_out s env cbs w w1 node hc
  have hacc := spec_of_table h
  unfold accepted at hacc
  refine ⟨n, ?_, ?_⟩ <;> (split at hacc)
  all_goals first
    | (simp only [List.mem_cons, List.not_mem_nil, or_false] at hacc
       rcases hacc with rfl | rfl <;> subst_vars <;>
         simpa [outCount, ifSpec, ifSpecSwapped] using (by assumption))
    | skip
  all_goals (split at hacc)
  all_goals first
    | (simp only [List.mem_cons, List.not_mem_nil, or_false] at hacc; subst hacc; subst_vars
       simpa [outCount, loopSpecWith] using (by assumption))
    | skip
  all_goals (split at hacc)
  all_goals first
    | (simp only [List.mem_cons, List.not_mem_nil, or_false] at hacc; subst hacc; subst_vars
       simpa [outCount, scanSpec] using (by assumption))
    | skip
  all_goals (split at hacc)
  all_goals first
    | (simp only [List.mem_cons, List.not_mem_nil, or_false] at hacc; subst hacc; subst_vars
       simpa [outCount, seqMapSpec] using (by assumption))
    | (simp at hacc)

/-! ## `bad_callbacks_typeerror`

Remark (ambient settings). `subgraphCall` and `construct` take no settings parameter: the verdict on
a callback and its result is a function of the operands, the spec and the callback alone. In the code
this means that neither `operator_overloading` (constant / type promotion), nor `value_prop_backend`,
nor `type_warning_level` in force at the call may change what `subgraph` accepts — a scalar in a
result is a TypeError inside an `operator_overloading` block too. Tie: every run repeats the cases,
the malformed ones systematically, inside each scoped setting and compares with this same model.
Likewise `args_prescribed_*` are unbounded in the number of operands; the tie exercises lists of
9–14 pairwise differently typed operands so that argument *i* is seen to be typed for position *i*. -/

/-- **Malformed callbacks.** For any constructor whose type expressions evaluate: if every callback
    either returns an iterable of Vars or is malformed (not callable / non-iterable result / result
    containing a non-Var) and at least one is malformed, the call raises TypeError. -/
theorem bad_callbacks_typeerror (spec : CtorSpec) (env : Env) (cbs : Callbacks) (w : World)
    (hev : ∀ p ∈ spec.subgraphs, ∃ ts, evalList env p.2 = .ok ts)
    (hgb : ∀ p ∈ spec.subgraphs, (cbs p.1).2.good = true ∨ (cbs p.1).2.bad = true)
    (hex : ∃ p ∈ spec.subgraphs, (cbs p.1).2.bad = true) :
    (construct spec env cbs w).1 = .error .typeError := by
  have := runSubgraphs_bad env cbs spec.subgraphs w hev hgb hex
  unfold construct
  generalize runSubgraphs env cbs spec.subgraphs w = r at this
  obtain ⟨res, w'⟩ := r
  simp only at this
  rw [this]

/-- A non-callable callback is rejected without being called; a callable one with a malformed result
    has been called (once) when the TypeError is raised. -/
theorem bad_callback_invocations (types : List Ty) (cb : Nat) (beh : CbBehaviour) (w : World)
    (hb : beh.bad = true) :
    (subgraphCall types cb beh w).1 = .error .typeError
      ∧ (subgraphCall types cb beh w).2.count cb = w.count cb + (if beh.callable then 1 else 0) := by
  refine ⟨subgraphCall_bad types cb beh w hb, ?_⟩
  rw [subgraphCall_count]
  cases beh.callable <;> simp

/-- **Nested results are not spliced in.** A result with any element that is not a Var — in
    particular a list or tuple *of Vars* (`[cond, [u, v]]`) — is a TypeError at the call (after exactly
    one invocation); a flat result of `n` Vars counts `n`. -/
theorem nested_results_typeerror (types : List Ty) (cb : Nat) (es : List ElemKind) (w : World) :
    (es.all (fun e => e == .var) = true →
        ∃ g w1, subgraphCall types cb (behaviourOfElems es) w = (.ok g, w1) ∧ g.nResults = es.length)
      ∧ (es.all (fun e => e == .var) = false →
        (subgraphCall types cb (behaviourOfElems es) w).1 = .error .typeError
          ∧ (subgraphCall types cb (behaviourOfElems es) w).2.count cb = w.count cb + 1) := by
  constructor
  · intro h
    simp [behaviourOfElems, h, subgraphCall, CbBehaviour.callable, CbBehaviour.result]
  · intro h
    have hb : (behaviourOfElems es).bad = true := by simp [behaviourOfElems, h, CbBehaviour.bad]
    have := bad_callback_invocations types cb (behaviourOfElems es) w hb
    simpa [behaviourOfElems, h, CbBehaviour.callable] using this

example : behaviourOfElems [.var, .seqOfVars] = .hasNonVar 2 ∧ behaviourOfElems [.var, .var, .var] = .returnsVars 3
    ∧ behaviourOfElems [] = .returnsVars 0 := by decide

/-- **The `types` argument.** A well-formed `types` — whatever iterable — is `subgraph` on its elements;
    a malformed one is a TypeError that leaves the world untouched (no argument Var created, the
    callback not invoked). -/
theorem types_arg_validated (ta : TypesArg) (cb : Nat) (beh : CbBehaviour) (w : World) :
    (∀ ts, ta = .ok ts → subgraphEntry ta cb beh w = subgraphCall ts cb beh w)
      ∧ ((∀ ts, ta ≠ .ok ts) → subgraphEntry ta cb beh w = (.error .typeError, w)
          ∧ (subgraphEntry ta cb beh w).2.count cb = w.count cb) := by
  cases ta <;> simp [subgraphEntry]

/-- The TypeError clause holds for the branch that can never execute as for any other: in every shipped
    module, with every operand valuation, if each branch callback either returns Vars or is malformed and
    one of them is malformed, `if_` raises TypeError. -/
theorem if_dead_branch_typeerror {m : String} {s : CtorSpec} (h : (m, "if_", s) ∈ table)
    (env : Env) (cbs : Callbacks) (w : World)
    (hgb : ∀ nm, nm = "else_branch" ∨ nm = "then_branch" → (cbs nm).2.good = true ∨ (cbs nm).2.bad = true)
    (hex : (cbs "else_branch").2.bad = true ∨ (cbs "then_branch").2.bad = true) :
    (construct s env cbs w).1 = .error .typeError := by
  have hs := spec_of_table h
  simp only [accepted, if_true, List.mem_cons, List.not_mem_nil, or_false] at hs
  rcases hs with rfl | rfl
  all_goals
    apply bad_callbacks_typeerror
    · intro p hp; simp [ifSpec, ifSpecSwapped] at hp; rcases hp with rfl | rfl <;> exact ⟨[], rfl⟩
    · intro p hp; simp [ifSpec, ifSpecSwapped] at hp; rcases hp with rfl | rfl <;> exact hgb _ (by simp)
    · rcases hex with hb | hb
      · exact ⟨("else_branch", .empty), by simp [ifSpec, ifSpecSwapped], hb⟩
      · exact ⟨("then_branch", .empty), by simp [ifSpec, ifSpecSwapped], hb⟩

/-! ## Name glue inside `subgraph`: `enum_arguments` / `enum_results` (round 10)

`subgraph(types, fun)` creates its arguments with `enum_arguments(*types)` and wraps the callback's result with
`enum_results(*outs)`: both build a Python dict keyed by the generated names `f"{prefix}{i}"`
(`Model/SubgraphNames.lean`). That `subgraphCall` may log `types` position by position, and count the results
by the number of returned Vars, is *proved* here from the dict semantics — for every number of arguments /
results (the names `in10`, `in11`, … included) and every prefix. Tie H: the driver evaluates `enumDict` /
`sortedByName` and the harness compares names, order and length with the real `enum_arguments` /
`enum_results` / `subgraph` on generated lists (lengths up to several hundred, several prefixes). -/

open SubgraphNames SubgraphNamesLemmas in
/-- **`enum_arguments` is positional.** For every prefix and every list of infos (any length): the tuple it
    returns has one argument per info, in the order given — entry `i` is named `f"{prefix}{i}"`, the names are
    pairwise different (no dict entry is overwritten). -/
theorem enum_arguments_positional (pre : String) (infos : List α) :
    enumArguments pre infos = infos
      ∧ (enumDict pre infos).map (·.1) = (List.range infos.length).map (pyKey pre)
      ∧ ((enumDict pre infos).map (·.1)).Nodup := by
  have hk : (enumDict pre infos).map (·.1) = (List.range infos.length).map (pyKey pre) := by
    rw [enumDict_eq, named_keys]; simp
  refine ⟨by rw [enumArguments, enumDict_eq, named_values], hk, ?_⟩
  rw [hk]
  exact range_map_nodup (pyKey pre) (pyKey_inj pre) infos.length

open SubgraphNames SubgraphNamesLemmas in
/-- **`enum_results` is positional and loses nothing.** For every prefix and every list of returned Vars (any
    length, repeated Vars included): the results dict has exactly as many entries as Vars were returned — what
    `out_variadic = len(<graph>.requested_results)` counts — and entry `i` is `(f"{prefix}{i}", vars[i])`. -/
theorem enum_results_positional (pre : String) (vars : List α) :
    (enumResults pre vars).length = vars.length
      ∧ (enumResults pre vars).map (·.2) = vars
      ∧ ∀ i (h : i < vars.length), (enumResults pre vars)[i]? = some (pyKey pre i, vars[i]) := by
  refine ⟨by rw [enumResults, enumDict_eq, named_length], by rw [enumResults, enumDict_eq, named_values], ?_⟩
  intro i h
  rw [enumResults, enumDict_eq, named_getElem? (pyKey pre) vars 0 i h]; simp

open SubgraphNames SubgraphNamesLemmas in
/-- **`subgraphCall` is what the name-level code computes** (refinement). For every list of types, every
    world, every callback returning any list `outs` of Vars: the argument ids and types produced by going
    through the `in{i}` dict are exactly the ones `subgraphCall` logs (fresh ids in order, `types` position by
    position), the stored graph's `_arguments` are the very ids the callback received, `_constructor` is the
    callback, and `len(requested_results)` is the `nResults` of `subgraphCall` = the number of returned Vars. -/
theorem subgraph_names_refine (types : List Ty) (cb : Nat) (outs : List Nat) (w : World) :
    let t := subgraphTail types w.fresh cb outs
    subgraphCall types cb (.returnsVars outs.length) w
        = (.ok ⟨cb, t.1, t.2.2.results.length⟩, ⟨⟨cb, t.1, t.2.1⟩ :: w.events, w.fresh + types.length⟩)
      ∧ t.2.2.arguments = t.1 ∧ t.2.2.constructor = cb
      ∧ t.2.2.results.map (·.2) = outs := by
  have hl : (enumDict "in" types).length = types.length := by rw [enumDict_eq, named_length]
  have hv : (enumDict "in" types).map (·.2) = types := by rw [enumDict_eq, named_values]
  have hr := enum_results_positional "out" outs
  simp only [subgraphTail, hl, hv, hr.1, hr.2.1, subgraphCall, CbBehaviour.callable, CbBehaviour.result, freshIds]
  simp

open SubgraphNames SubgraphNamesLemmas in
/-- **Exactly what the name scheme has to satisfy** (the converse of the two statements above). For *any* name
    function in place of `f"{prefix}{i}"`: the dict comprehension keeps one entry per element for every list —
    no argument, no result is lost — **iff** the name function is injective; and then it is positional
    (`enumInto … = named …`). `pyKey pre` is injective for every prefix (`pyKey_inj`: decimal rendering is
    injective, the common prefix cancels), which is how the two theorems above follow. -/
theorem names_positional_iff_injective (key : Nat → String) :
    (∀ xs : List Nat, (enumInto key xs 0 []).length = xs.length) ↔ (∀ a b, key a = key b → a = b) := by
  constructor
  · intro h a b hab
    rcases Nat.lt_trichotomy a b with hlt | heq | hgt
    · have := enumInto_collision_lt key (List.range (b + 1)) 0 a b [] hlt (by simp) (by simpa using hab)
      rw [h] at this; simp at this
    · exact heq
    · have := enumInto_collision_lt key (List.range (a + 1)) 0 b a [] hgt (by simp) (by simpa using hab.symm)
      rw [h] at this; simp at this
  · intro hinj xs
    rw [enumInto_eq key hinj xs 0 [] (by intro p hp; cases hp)]
    simp [named_length]

open SubgraphNames SubgraphNamesLemmas in
/-- **The typed dummy that inference uses has the subgraph's signature** — for every key, every list of argument
    types and every list of result types (any lengths): as many inputs as `subgraph` created arguments, typed
    position by position; as many outputs as the callback returned Vars, typed position by position; one
    `Identity` per output; the names within each family pairwise different. `makeDummy` is a function of these
    types alone: the stored callback is no input of it (re-tracing is excluded by `no_callback_reachable`; this
    says what inference gets *instead*). -/
theorem dummy_subgraph_signature (key : String) (types resTys : List Ty) :
    let d := dummyOfSubgraph key types resTys
    d.inputs.map (·.2) = types ∧ d.outputs.map (·.2) = resTys ∧ d.valueInfos.map (·.2) = resTys
      ∧ d.nodes.length = resTys.length
      ∧ (∀ i, i < resTys.length → d.nodes[i]? = (d.valueInfos[i]?.bind fun vi => d.outputs[i]?.map fun o => (vi.1, o.1)))
      ∧ (d.inputs.map (·.1)).Nodup ∧ (d.outputs.map (·.1)).Nodup ∧ (d.valueInfos.map (·.1)).Nodup := by
  have ha : (enumDict "in" types).map (·.2) = types := by rw [enumDict_eq, named_values]
  have hr : (enumResults "out" resTys).map (·.2) = resTys := (enum_results_positional "out" resTys).2.1
  simp only [dummyOfSubgraph, makeDummy, ha, hr, named_values, named_keys, List.length_map, List.length_range,
    Nat.zero_add, true_and]
  refine ⟨?_, range_map_nodup _ (pyKey_inj _) _, range_map_nodup _ (pyKey_inj _) _, range_map_nodup _ (pyKey_inj _) _⟩
  intro i hi
  rw [named_getElem? _ _ 0 i hi, named_getElem? _ _ 0 i hi]
  simp [hi]

open SubgraphNames SubgraphNamesLemmas in
/-- **All value names of the dummy are pairwise different** — inputs, outer value-infos and outputs, within and
    *across* the three families (`__dummy_input{i}` / `__dummy_outer_output{j}` / `__dummy_output{k}`), for every
    number of arguments and results: the dummy is a well-formed (single-assignment) graph whatever the sizes. -/
theorem dummy_names_distinct (key : String) (argTys resTys : List α) :
    let d := makeDummy key argTys resTys
    (d.inputs.map (·.1) ++ d.valueInfos.map (·.1) ++ d.outputs.map (·.1)).Nodup := by
  simp only [makeDummy, named_keys, Nat.zero_add]
  rw [List.nodup_append, List.nodup_append]
  refine ⟨⟨range_map_nodup _ (pyKey_inj _) _, range_map_nodup _ (pyKey_inj _) _, ?_⟩,
    range_map_nodup _ (pyKey_inj _) _, ?_⟩
  · intro a ha b hb
    obtain ⟨i, _, rfl⟩ := List.mem_map.1 ha
    obtain ⟨j, _, rfl⟩ := List.mem_map.1 hb
    exact in_ne_outer i j
  · intro a ha b hb
    obtain ⟨j, _, rfl⟩ := List.mem_map.1 hb
    rcases List.mem_append.1 ha with ha | ha
    · obtain ⟨i, _, rfl⟩ := List.mem_map.1 ha
      exact in_ne_output i j
    · obtain ⟨i, _, rfl⟩ := List.mem_map.1 ha
      exact (out_ne_outer j i).symm

/-- Non-vacuity: the dummy of a Loop body with 3 arguments and 2 results. -/
example :
    SubgraphNames.dummyOfSubgraph "body" [Ty.tensor 7 (some [.n 1]), .tensor 9 (some [.n 1]), (f32 [2]).ty]
        [Ty.tensor 9 (some [.n 1]), (f32 [2]).ty]
      = ⟨"__dummy_body",
         [("__dummy_input0", .tensor 7 (some [.n 1])), ("__dummy_input1", .tensor 9 (some [.n 1])), ("__dummy_input2", (f32 [2]).ty)],
         [("__dummy_output0", .tensor 9 (some [.n 1])), ("__dummy_output1", (f32 [2]).ty)],
         [("__dummy_outer_output0", .tensor 9 (some [.n 1])), ("__dummy_outer_output1", (f32 [2]).ty)],
         [("__dummy_outer_output0", "__dummy_output0"), ("__dummy_outer_output1", "__dummy_output1")]⟩ := by
  decide

open SubgraphNames in
/-- Why the dict order matters (the `enum_arguments`-sorted-by-name change of a held-out round): listing the
    entries in *name* order is positional up to 10 entries and wrong from the 11th on (`in10 < in2`). -/
theorem names_sorted_counterexample :
    (sortedByName (enumDict "in" (List.range 10))).map (·.2) = List.range 10
      ∧ (sortedByName (enumDict "in" (List.range 12))).map (·.2) = [0, 1, 10, 11, 2, 3, 4, 5, 6, 7, 8, 9] := by
  decide

open SubgraphNames in
/-- Why the names must be pairwise different: with a colliding name scheme (`f"{prefix}{i % 10}"`) 12 returned
    Vars leave a dict of 10 entries — the operator would get 10 outputs, and entries 0 and 1 hold Vars 10, 11. -/
theorem names_collision_counterexample :
    (enumInto (fun i => pyKey "out" (i % 10)) (List.range 12) 0 []).map (·.2) = [10, 11, 2, 3, 4, 5, 6, 7, 8, 9] := by
  decide

/-- Non-vacuity: 12 types through the `in{i}` dict — names, order, stored state. -/
example :
    let t := SubgraphNames.subgraphTail (List.range 12) 100 7 [105, 100, 105]
    t.1 = [100, 101, 102, 103, 104, 105, 106, 107, 108, 109, 110, 111] ∧ t.2.1 = List.range 12
      ∧ t.2.2 = ⟨[("out0", 105), ("out1", 100), ("out2", 105)], t.1, 7⟩
      ∧ (SubgraphNames.enumDict "in" (List.range 12)).map (·.1)
          = ["in0", "in1", "in2", "in3", "in4", "in5", "in6", "in7", "in8", "in9", "in10", "in11"] := by
  decide

/-! ## Callable forms

`subgraph` calls `fun(*ins)` with exactly the prescribed arguments; what Python's call accepts must be
accepted (and invoked once with those arguments), what it rejects is a TypeError with the body never
entered. `CallForm.accepts` is Python's binding rule for `n` positional arguments; the driver applies
`CallForm.effective` to the signature of every callback form the harness constructs (tie H: ≈ 30 forms ×
constructors × modules, and Python itself is asked with a dummy of the same form). -/

open CallForm in
/-- An exact-arity callable is accepted; so is every callable obtained from an accepted one by adding
    parameters with defaults (`lambda i, c, acc, k=k: …`), keyword-only parameters that are defaulted or
    bound, or a `*args`. -/
theorem form_defaults_irrelevant (s : Sig) (n k : Nat) (h : accepts s n = true) :
    accepts (exact n) n = true
      ∧ accepts { s with npos := s.npos + k, ndef := s.ndef + k } n = true
      ∧ accepts { s with varargs := true } n = true := by
  have h' : s.npos - s.ndef ≤ n + s.bound ∧ (s.varargs = true ∨ n + s.bound ≤ s.npos) ∧ s.kwreq ≤ s.kwbound := by
    simpa [accepts, and_assoc] using h
  obtain ⟨h1, h2, h3⟩ := h'
  refine ⟨by simp [accepts, exact], ?_, ?_⟩
  · have a1 : s.npos + k - (s.ndef + k) ≤ n + s.bound := by omega
    have a2 : s.varargs = true ∨ n + s.bound ≤ s.npos + k := by
      rcases h2 with hv | hle
      · exact Or.inl hv
      · exact Or.inr (by omega)
    simp [accepts, a1, a2, h3]
  · simp [accepts, h1, h3]

open CallForm in
/-- Exactly when Python accepts: at least the required, at most all positional parameters (unless
    `*args`), every required keyword-only parameter bound. -/
theorem form_accepts_iff (s : Sig) (n : Nat) :
    accepts s n = true ↔
      s.npos - s.ndef ≤ n + s.bound ∧ (s.varargs = true ∨ n + s.bound ≤ s.npos) ∧ s.kwreq ≤ s.kwbound := by
  simp [accepts, and_assoc]

open CallForm in
/-- The tempting pre-check `len(positional) == n` is wrong in both directions: it rejects a callback
    with a defaulted extra parameter that Python accepts, and accepts one with a required keyword-only
    parameter that Python rejects. -/
theorem form_naive_check_counterexample :
    (accepts ⟨4, 1, false, 0, 0, 0⟩ 3 = true ∧ naiveCheck ⟨4, 1, false, 0, 0, 0⟩ 3 = false)
      ∧ (accepts ⟨3, 0, false, 1, 0, 0⟩ 3 = false ∧ naiveCheck ⟨3, 0, false, 1, 0, 0⟩ 3 = true)
      ∧ (accepts ⟨0, 0, true, 0, 0, 0⟩ 3 = true ∧ naiveCheck ⟨0, 0, true, 0, 0, 0⟩ 3 = false) := by
  decide

open CallForm in
/-- **Accepted forms are invoked once with the prescribed arguments; rejected forms are a TypeError
    with the body never entered.** -/
theorem form_call (s : Sig) (types : List Ty) (cb : Nat) (beh : CbBehaviour) (w : World) :
    (accepts s types.length = true →
        subgraphCallSig s types cb beh w = subgraphCall types cb beh w)
      ∧ (accepts s types.length = false →
        (subgraphCallSig s types cb beh w).1 = .error .typeError
          ∧ (subgraphCallSig s types cb beh w).2.events = w.events
          ∧ (subgraphCallSig s types cb beh w).2.count cb = w.count cb) := by
  constructor
  · intro h; simp [subgraphCallSig, effective, h]
  · intro h
    simp [subgraphCallSig, effective, h, subgraphCall, CbBehaviour.callable, World.count]

open CallForm in
/-- The callbacks of a constructor call as `subgraph` sees them, given the signature of each (`none`: the
    harness' `*args` default) and the number of arguments each will be called with. -/
def withSigs (sigs : String → Option Sig) (ns : String → Nat) (cbs : Callbacks) : Callbacks :=
  fun nm => ((cbs nm).1, match sigs nm with
    | some s => effective s (ns nm) (cbs nm).2
    | none => (cbs nm).2)

open CallForm in
/-- **Forms at the constructor.** If Python's call accepts every callback's signature, the constructor
    behaves exactly as for plain callbacks — every `args_prescribed_*`, `called_once`, `out_count`
    statement carries over verbatim, whatever the callable's form. -/
theorem form_construct_accepted (spec : CtorSpec) (env : Env) (cbs : Callbacks) (w : World)
    (sigs : String → Option Sig) (ns : String → Nat)
    (hacc : ∀ nm s, sigs nm = some s → accepts s (ns nm) = true) :
    construct spec env (withSigs sigs ns cbs) w = construct spec env cbs w := by
  have : withSigs sigs ns cbs = cbs := by
    funext nm
    unfold withSigs
    cases h : sigs nm with
    | none => rfl
    | some s => simp [effective, hacc nm s h]
  rw [this]

open CallForm in
/-- If the type expressions evaluate, every callback returns Vars, and Python's call rejects the
    signature of at least one of them, the constructor raises TypeError. -/
theorem form_construct_rejected (spec : CtorSpec) (env : Env) (cbs : Callbacks) (w : World)
    (sigs : String → Option Sig) (ns : String → Nat)
    (hev : ∀ p ∈ spec.subgraphs, ∃ ts, evalList env p.2 = .ok ts)
    (hgood : ∀ p ∈ spec.subgraphs, (cbs p.1).2.good = true)
    (hex : ∃ p ∈ spec.subgraphs, ∃ s, sigs p.1 = some s ∧ accepts s (ns p.1) = false) :
    (construct spec env (withSigs sigs ns cbs) w).1 = .error .typeError := by
  apply bad_callbacks_typeerror spec env _ w hev
  · intro p hp
    unfold withSigs
    cases h : sigs p.1 with
    | none => exact Or.inl (hgood p hp)
    | some s =>
      cases ha : accepts s (ns p.1) with
      | true => left; simpa [effective, ha] using hgood p hp
      | false => right; simp [effective, ha, CbBehaviour.bad]
  · obtain ⟨p, hp, s, hs, ha⟩ := hex
    exact ⟨p, hp, by simp [withSigs, hs, effective, ha, CbBehaviour.bad]⟩

/-! ## Nested control flow

A callback may itself call control-flow constructors (with callbacks that do so again, …). `Tree` /
`runForest` (`Model/SubgraphNested.lean`) is `subgraph` for such callbacks; the driver expands every
constructor call of a nested program into its `subgraph` invocations with the specs generated from
/repo and runs `runForest` side by side with the real constructors (tie H). Unbounded in depth and
branching (mutual structural induction over the tree). -/

/-- **Nested callbacks: the exact log.** Whatever the nesting depth, the log after the outermost call
    is the old log plus one event per callback of the tree, depth first in program order (a body is
    entered before the bodies of the constructors it calls), each with consecutive fresh argument ids
    and exactly the types it was created with; nothing else is logged. -/
theorem nested_args_prescribed (ts : List Tree) (w : World) :
    (runForest ts w).events = (evsF ts w.fresh).reverse ++ w.events
      ∧ (runForest ts w).fresh = w.fresh + nArgsF ts
      ∧ (evsF ts w.fresh).map (fun e => (e.cb, e.types)) = sigsF ts :=
  ⟨runForest_events ts w, runForest_fresh_counter ts w, evsF_sigs ts w.fresh⟩

/-- **Nested callbacks are called once**: after the outermost constructor call and any sequence of
    later steps (on a node that stores *every* callback of the tree), each callback — at any depth —
    has been invoked exactly as often as it occurs in the tree. -/
theorem nested_called_once (ts : List Tree) (w : World) (node : Node) (steps : List Step) (c : Nat) :
    (runSteps cg node steps (runForest ts w)).count c = w.count c + (idsF ts).count c := by
  rw [runSteps_safe cg _ callgraph_safe, runForest_count]

/-- Distinct callback objects, none invoked before: each has been invoked exactly once. -/
theorem nested_called_exactly_once (ts : List Tree) (w : World) (node : Node) (steps : List Step)
    (hnd : (idsF ts).Nodup) (c : Nat) (hc : c ∈ idsF ts) (hnew : w.count c = 0) :
    (runSteps cg node steps (runForest ts w)).count c = 1 := by
  rw [nested_called_once, hnew, hnd.count]; simp [hc]

/-- Argument Vars stay fresh (pairwise distinct, distinct from all earlier ones) under nesting. -/
theorem nested_args_fresh (calls : List (List Tree)) :
    Fresh (calls.foldl (fun w ts => runForest ts w) ⟨[], 0⟩) := by
  suffices h : ∀ w, Fresh w → Fresh (calls.foldl (fun w ts => runForest ts w) w) from h _ fresh_init
  induction calls with
  | nil => intro w hw; exact hw
  | cons c rest ih => intro w hw; exact ih _ (runForest_fresh c w hw)

/-- The flat model is the special case of leaves: a successful constructor call (`construct`) leaves
    exactly the world of the forest of its callbacks-as-leaves. -/
theorem nested_extends_flat (spec : CtorSpec) (env : Env) (cbs : Callbacks) (w w1 : World) (node : Node)
    (h : construct spec env cbs w = (.ok node, w1)) :
    w1 = runForest (leavesOf env cbs spec.subgraphs) w := by
  unfold construct at h
  generalize hrs : runSubgraphs env cbs spec.subgraphs w = r at h
  obtain ⟨res, w'⟩ := r
  cases res with
  | error err => simp at h
  | ok gs =>
    simp only at h
    cases hl : lookupGraph gs spec.outGraph with
    | none => simp [hl] at h
    | some g =>
      simp only [hl, Prod.mk.injEq] at h
      rw [← h.2]
      exact runSubgraphs_forest env cbs _ _ _ _ hrs

/-- **Failing nested calls.** Callbacks of any behaviour at any depth (`runForestE`: a failure anywhere
    propagates out of every enclosing body and stops what would have followed): no callback is invoked more
    often than it occurs in the tree — whether or not the outermost call fails. -/
theorem nested_failing_at_most_once (ts : List TreeE) (w : World) (c : Nat) :
    (runForestE ts w).2.count c ≤ w.count c + (idsFE ts).count c :=
  runForestE_count_le ts w c

/-- **Refinement.** If the nested call does not fail, it is exactly the successful model (`runForest`) on the
    tree with the behaviours erased — so `nested_args_prescribed`, `nested_called_once`, … apply to it. -/
theorem nested_ok_refines (ts : List TreeE) (w : World) (h : (runForestE ts w).1 = none) :
    (runForestE ts w).2 = runForest (eraseF ts) w :=
  runForestE_ok ts w h

/-- Non-vacuity: a Loop body (callback 0) calling an If whose `else_branch` (1) returns a non-iterable: the
    outermost call is a TypeError, body and else-branch were entered once, `then_branch` (2) never; with a
    well-formed else-branch the call succeeds and all three were entered once. -/
example :
    let t (b : CbBehaviour) : TreeE := .node 0 [(f32 []).ty] (.returnsVars 2) [.node 1 [] b [], .node 2 [] (.returnsVars 1) []]
    (runForestE [t .nonIterable] ⟨[], 0⟩).1 = some .typeError
      ∧ ((runForestE [t .nonIterable] ⟨[], 0⟩).2.count 0, (runForestE [t .nonIterable] ⟨[], 0⟩).2.count 1,
          (runForestE [t .nonIterable] ⟨[], 0⟩).2.count 2) = (1, 1, 0)
      ∧ (runForestE [t (.returnsVars 1)] ⟨[], 0⟩).1 = none
      ∧ (runForestE [t (.returnsVars 1)] ⟨[], 0⟩).2.count 2 = 1 := by
  decide

/-- Non-vacuity: a Loop body (callback 0, 3 arguments) containing an If (callbacks 1, 2) whose
    else-branch contains a Scan (callback 3, 2 arguments): four events, depth first, consecutive ids. -/
example :
    let t : Tree := .node 0 [(f32 []).ty, (f32 []).ty, (f32 [2]).ty] 3
      [.node 1 [] 1 [.node 3 [(f32 []).ty, (f32 [2]).ty] 2 []], .node 2 [] 1 []]
    (runForest [t] ⟨[], 0⟩).events.reverse.map (fun e => (e.cb, e.args)) = [(0, [0, 1, 2]), (1, []), (3, [3, 4]), (2, [])]
      ∧ (idsF [t]).Nodup ∧ (runForest [t] ⟨[], 0⟩).count 3 = 1 := by
  decide

/-! ## Histories: any number of constructor calls, each followed by any later steps (mini-round) -/

/-- One entry of a history: a constructor call (spec, operands, callbacks) and the later steps (builds,
    inference, value propagation, inspection, copies, …) run on the node it produced. -/
abbrev HistCall := CtorSpec × Env × Callbacks × List Step

/-- Run a whole history: every constructor call (failing or not), each successful one followed by its steps. -/
def runHistory (calls : List HistCall) (w : World) : World :=
  calls.foldl (fun w k => match construct k.1 k.2.1 k.2.2.1 w with
    | (.ok node, w1) => runSteps cg node k.2.2.2 w1
    | (.error _, w1) => w1) w

/-- how often callback `c` was passed to a constructor in the history -/
def timesPassed (calls : List HistCall) (c : Nat) : Nat :=
  (calls.map (fun k => (cbIds k.2.2.1 k.1.subgraphs).count c)).sum

/-- every constructor call of the history succeeds (in the world it is made in) -/
def histOk : List HistCall → World → Prop
  | [], _ => True
  | k :: rest, w => ∃ node w1, construct k.1 k.2.1 k.2.2.1 w = (.ok node, w1)
      ∧ histOk rest (runSteps cg node k.2.2.2 w1)

theorem runHistory_cons (k : HistCall) (rest : List HistCall) (w : World) :
    runHistory (k :: rest) w = runHistory rest (match construct k.1 k.2.1 k.2.2.1 w with
      | (.ok node, w1) => runSteps cg node k.2.2.2 w1
      | (.error _, w1) => w1) := rfl

/-- **Called exactly once, over every history.** Any number of constructor calls — any specs, operands,
    callbacks, the same callback objects reused or not — each followed by *any* sequence of builds / inference /
    value propagation / inspection / copy / Graph-method / inline / Var-method steps: if the calls succeed, every
    callback has been invoked exactly as often as it was passed to a constructor, whatever was built in between
    and afterwards (lifts `called_once` from one call to every history). -/
theorem history_called_once (calls : List HistCall) (w : World) (h : histOk calls w) (c : Nat) :
    (runHistory calls w).count c = w.count c + timesPassed calls c := by
  induction calls generalizing w with
  | nil => simp [runHistory, timesPassed]
  | cons k rest ih =>
    obtain ⟨node, w1, hc, hrest⟩ := h
    rw [runHistory_cons, hc]
    simp only
    rw [ih _ hrest, called_once k.1 k.2.1 k.2.2.1 w w1 node hc k.2.2.2 c]
    simp [timesPassed, Nat.add_assoc]

/-- **Never more often than passed, over every history** — failing constructor calls (malformed callbacks,
    type expressions that raise) included, with any steps after the successful ones. -/
theorem history_called_at_most (calls : List HistCall) (w : World) (c : Nat) :
    (runHistory calls w).count c ≤ w.count c + timesPassed calls c := by
  induction calls generalizing w with
  | nil => simp [runHistory, timesPassed]
  | cons k rest ih =>
    rw [runHistory_cons]
    have h1 := called_at_most_once k.1 k.2.1 k.2.2.1 w c
    generalize hr : construct k.1 k.2.1 k.2.2.1 w = r at h1
    obtain ⟨res, w1⟩ := r
    have hstep : (match (res, w1) with
        | (.ok node, w1) => runSteps cg node k.2.2.2 w1
        | (.error _, w1) => w1) = w1 := by
      cases res with
      | error e => rfl
      | ok node => exact runSteps_safe cg _ callgraph_safe node _ _
    rw [hstep]
    have h2 := ih w1
    simp only [timesPassed, List.map_cons, List.sum_cons] at h1 h2 ⊢
    omega

/-- A callback object that is new to the history and passed in exactly one role of exactly one call has been
    invoked exactly once at the end of the history. -/
theorem history_called_exactly_once (calls : List HistCall) (w : World) (h : histOk calls w) (c : Nat)
    (hnew : w.count c = 0) (hone : timesPassed calls c = 1) : (runHistory calls w).count c = 1 := by
  rw [history_called_once calls w h c, hnew, hone]

/-- Non-vacuity: a Loop (callback 5) built three times, then an If whose branches are callbacks 0 and 1, inspected
    and built, then a second Loop reusing callback 5: `histOk` holds and the counts are 2 / 1 / 1. -/
example :
    let loopCbs : Callbacks := fun _ => (5, .returnsVars 2)
    let ifCbs : Callbacks := fun nm => if nm = "else_branch" then (0, .returnsVars 1) else (1, .returnsVars 1)
    let env := envOf [("v_initial", [some (f32 [2]).ty])] [] []
    let hist : List HistCall := [(v21_loop, env, loopCbs, [.build, .build, .build]),
      (v19_if_, env, ifCbs, [.inspect, .build]), (v17_loop, env, loopCbs, [.infer])]
    timesPassed hist 5 = 2 ∧ timesPassed hist 0 = 1
      ∧ (hist.foldl (fun (acc : Bool × World) k => match construct k.1 k.2.1 k.2.2.1 acc.2 with
          | (.ok _, w1) => (acc.1, w1) | (.error _, w1) => (false, w1)) (true, ⟨[], 0⟩)).1 = true := by
  decide

/-- Non-vacuity of `histOk` itself: two Loops with the *same* body callback, builds and inference in between —
    the history succeeds, and `history_called_once` gives count 2 for the reused callback. -/
example :
    let loopCbs : Callbacks := fun _ => (5, .returnsVars 2)
    let env : Env := ⟨fun _ => [some (.tensor 1 (some [.n 2]))], fun _ => none, fun _ => 0⟩
    let hist : List HistCall := [(v21_loop, env, loopCbs, [.build, .build]), (v17_loop, env, loopCbs, [.infer])]
    histOk hist ⟨[], 0⟩ ∧ ((runHistory hist ⟨[], 0⟩).count 5 = 2) := by
  intro loopCbs env hist
  have hok : histOk hist ⟨[], 0⟩ := by
    refine ⟨(construct v21_loop env loopCbs ⟨[], 0⟩).1.toOption.get!, (construct v21_loop env loopCbs ⟨[], 0⟩).2, rfl, ?_⟩
    rw [runSteps_safe cg _ callgraph_safe]
    exact ⟨(construct v17_loop env loopCbs (construct v21_loop env loopCbs ⟨[], 0⟩).2).1.toOption.get!, _, rfl, trivial⟩
  refine ⟨hok, ?_⟩
  rw [history_called_once hist _ hok 5]
  decide

/-! ## End to end: constructor spec → name-level `subgraph` → node (mini-round) -/

open SubgraphNames SubgraphNamesLemmas in
/-- **One-body constructors, end to end.** For any constructor with one callback `nm` whose type expression
    evaluates to `types`, and a callback returning any list `outs` of Vars: the *whole* result of the constructor
    call — node and world — is determined by the name-level tail of `subgraph` (`subgraphTail`: arguments through
    the `in{i}` dict, results through the `out{i}` dict): the event's arguments and types are the tail's, the
    stored graph's arguments are the ids the callback received, and `out_variadic` is the length of the results
    dict minus `k`. -/
theorem single_body_end_to_end (nm : String) (e : ListExpr) (k : Int) (env : Env) (cbs : Callbacks) (w : World)
    (types : List Ty) (he : evalList env e = .ok types) (outs : List Nat)
    (hb : (cbs nm).2 = .returnsVars outs.length) :
    let t := subgraphTail types w.fresh (cbs nm).1 outs
    construct ⟨[(nm, e)], nm, k⟩ env cbs w
        = (.ok ⟨[(nm, ⟨(cbs nm).1, t.1, t.2.2.results.length⟩)], (t.2.2.results.length : Int) - k⟩,
           ⟨⟨(cbs nm).1, t.1, t.2.1⟩ :: w.events, w.fresh + types.length⟩)
      ∧ t.2.1 = types ∧ t.2.2.arguments = t.1 ∧ t.2.2.constructor = (cbs nm).1
      ∧ t.2.2.results.map (·.2) = outs ∧ t.2.2.results.length = outs.length := by
  have hr := subgraph_names_refine types (cbs nm).1 outs w
  have hl : (enumDict "in" types).length = types.length := by rw [enumDict_eq, named_length]
  have hv : (enumDict "in" types).map (·.2) = types := by rw [enumDict_eq, named_values]
  have hres := enum_results_positional "out" outs
  refine ⟨?_, by simp [subgraphTail, hv], hr.2.1, hr.2.2.1, hr.2.2.2, by simp [subgraphTail, hres.1]⟩
  simp only [construct, runSubgraphs, he, hb, hr.1, lookupGraph, List.find?, beq_self_eq_true, Option.map_some]

/-- **SequenceMap, end to end** (every shipped module; any element type, any additional inputs — sequences or
    tensors — any returned list): composition of `args_prescribed_sequence_map`'s premises with the name-level
    refinement. The body's event carries exactly ONNX's prescription, the node has one output per returned Var. -/
theorem sequence_map_end_to_end {m : String} {s : CtorSpec} (h : (m, "sequence_map", s) ∈ table)
    (env : Env) (elem : Ty) (extra : List SMOperand)
    (hs : env.singles "input_sequence" = some (.seq elem))
    (hl : env.lists "additional_inputs" = extra.map (fun o => some o.ty))
    (cbs : Callbacks) (outs : List Nat) (hb : (cbs "body").2 = .returnsVars outs.length) (w : World) :
    ∃ node ins, construct s env cbs w
        = (.ok node, ⟨⟨(cbs "body").1, ins, seqMapPresc elem extra⟩ :: w.events,
                      w.fresh + (seqMapPresc elem extra).length⟩)
      ∧ ins = (SubgraphNames.subgraphTail (seqMapPresc elem extra) w.fresh (cbs "body").1 outs).1
      ∧ node.outVariadic = outs.length := by
  have hs' : s = seqMapSpec := by
    have := spec_of_table h; simpa [accepted] using this
  subst hs'
  have h1 := single_body_end_to_end "body" seqMapTypes 0 env cbs w _ (eval_seqMap env elem extra hs hl) outs hb
  obtain ⟨hc, ht, _, _, _, hn⟩ := h1
  rw [ht] at hc
  exact ⟨_, _, hc, rfl, by simp [hn]⟩

/-- **Loop, end to end** (every shipped module; any carried types, any returned list): the body's event carries
    `(int64[1], bool[1], carried…)` (the known `[1]`-vs-scalar finding, see `args_prescribed_loop_partial`), the
    node has one output per returned Var minus the condition. -/
theorem loop_end_to_end {m : String} {s : CtorSpec} (h : (m, "loop", s) ∈ table)
    (env : Env) (carried : List Ty) (hl : env.lists "v_initial" = carried.map some)
    (cbs : Callbacks) (outs : List Nat) (hb : (cbs "body").2 = .returnsVars outs.length) (w : World) :
    ∃ node ins, construct s env cbs w
        = (.ok node, ⟨⟨(cbs "body").1, ins, loopPrescWith (some [.n 1]) carried⟩ :: w.events,
                      w.fresh + (loopPrescWith (some [.n 1]) carried).length⟩)
      ∧ ins = (SubgraphNames.subgraphTail (loopPrescWith (some [.n 1]) carried) w.fresh (cbs "body").1 outs).1
      ∧ node.outVariadic = (outs.length : Int) - 1 := by
  have hs' : s = loopSpecWith (some [.n 1]) := by
    have := spec_of_table h; simpa [accepted] using this
  subst hs'
  have h1 := single_body_end_to_end "body" (loopTypes (some [.n 1])) 1 env cbs w _
    (eval_loop env (some [.n 1]) carried hl) outs hb
  obtain ⟨hc, ht, _, _, _, hn⟩ := h1
  rw [ht] at hc
  exact ⟨_, _, hc, rfl, by simp [hn]⟩

/-- Non-vacuity: `v17_sequence_map` with a sequence and a tensor extra, body returning 3 Vars (one repeated). -/
example :
    let env := envOf [("additional_inputs", [some (.seq (f32 [2]).ty), some (f32 [4]).ty])]
      [("input_sequence", some (.seq (f32 [7]).ty))] []
    let cbs : Callbacks := fun _ => (4, .returnsVars 3)
    let r := construct v17_sequence_map env cbs ⟨[], 10⟩
    r.1.toOption.map (·.outVariadic) = some 3
      ∧ r.2.events.map (fun e => (e.args, e.types)) = [([10, 11, 12], [(f32 [7]).ty, (f32 [2]).ty, (f32 [4]).ty])]
      ∧ (SubgraphNames.subgraphTail [(f32 [7]).ty, (f32 [2]).ty, (f32 [4]).ty] 10 4 [12, 10, 12]).1 = [10, 11, 12] := by
  decide

/-! ## Non-vacuity -/

/-- Scan, two states and one scan input, rank ≥ 1 state: the hypotheses of
    `args_prescribed_scan_partial` are satisfiable and the conclusion is the expected list. -/
example :
    let ops := [f32 [3], f32 [], f32 [5, 3]]
    let env := envOf [("initial_state_and_scan_inputs", ops.map (fun t => some t.ty))] []
      [("num_scan_inputs", 1)]
    (v17_scan.subgraphs.map (fun p => evalList env p.2))
      = [.ok [(f32 [3]).ty, (f32 []).ty, (f32 [3]).ty]]
      ∧ scanPresc ops 1 none = [(f32 [3]).ty, (f32 []).ty, (f32 [3]).ty] := by
  decide

/-- SequenceMap with a sequence and a tensor as additional inputs. -/
example :
    let env := envOf [("additional_inputs", [some (.seq (f32 [2]).ty), some (f32 [4]).ty])]
      [("input_sequence", some (.seq (f32 [7]).ty))] []
    (v17_sequence_map.subgraphs.map (fun p => evalList env p.2))
      = [.ok [(f32 [7]).ty, (f32 [2]).ty, (f32 [4]).ty]] := by
  decide

/-- A Loop over two carried values whose body returns 3 Vars has 2 outputs, and the callback was
    called once — also after three builds. -/
example :
    let cbs : Callbacks := fun _ => (5, .returnsVars 3)
    let env := envOf [("v_initial", [some (f32 [2]).ty, some (.seq (f32 []).ty)])] [] []
    let r := construct v21_loop env cbs ⟨[], 0⟩
    r.1.toOption.map (fun node => (node.outVariadic,
        (runSteps ⟨1, [], [], [("build", [0])]⟩ node [.build, .infer, .build, .valueProp, .copy, .inline, .build] r.2).count 5)) = some (2, 1)
      ∧ r.2.events.map (·.args) = [[0, 1, 2, 3]] := by
  decide

/-- A non-iterable result is a TypeError, after exactly one call. -/
example :
    let cbs : Callbacks := fun _ => (0, .nonIterable)
    let r := construct v17_loop (envOf [("v_initial", [])] [] []) cbs ⟨[], 0⟩
    r.1.toOption.isNone ∧ r.2.count 0 = 1 := by
  decide

/-- The hypotheses of `args_prescribed_loop_counterexample` / `args_prescribed_scan_counterexample` are
    satisfiable on the generated specs, and the observed types are the ones the known findings name. -/
example :
    let cbs : Callbacks := fun _ => (0, .returnsVars 2)
    (construct v21_loop (envOf [("v_initial", [some (f32 [2]).ty])] [] []) cbs ⟨[], 0⟩).2.events.head?.map (·.types)
        = some [.tensor 7 (some [.n 1]), .tensor 9 (some [.n 1]), (f32 [2]).ty]
      ∧ loopPresc [(f32 [2]).ty] = [.tensor 7 (some []), .tensor 9 (some []), (f32 [2]).ty]
      ∧ (construct v17_scan (envOf [("initial_state_and_scan_inputs", [some (f32 [5, 3]).ty])] []
            [("num_scan_inputs", 1)]) cbs ⟨[], 0⟩).2.events.head?.map (·.types) = some [(f32 [3]).ty]
      ∧ scanPresc [f32 [5, 3]] 1 (some [1]) = [(f32 [5]).ty] := by
  decide

/-- `if_dead_branch_typeerror` / `if_cond_irrelevant`: a non-callable `else_branch` is a TypeError whatever the
    operands; with two good branches both are traced (2 events) for two different operand valuations alike. -/
example :
    let bad : Callbacks := fun nm => if nm = "else_branch" then (0, .notCallable) else (1, .returnsVars 1)
    let good : Callbacks := fun nm => if nm = "else_branch" then (0, .returnsVars 1) else (1, .returnsVars 1)
    (construct v19_if_ (envOf [] [] []) bad ⟨[], 0⟩).1.toOption.isNone
      ∧ (construct v19_if_ (envOf [] [] []) good ⟨[], 0⟩).2.events.length = 2
      ∧ (construct v19_if_ (envOf [("x", [none])] [] [("k", 3)]) good ⟨[], 0⟩).2.events.length = 2 := by
  decide

end C19
