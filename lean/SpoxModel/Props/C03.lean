import SpoxModel.Lemmas.Renames
import SpoxModel.Lemmas.Front
import SpoxModel.Generated.RenamesIR
/-!
# C03 — the model's inputs and outputs are exactly what was requested

Property theorems only. `build` is `Front.build` run through the IR of `_temporary_renames`
extracted from /repo on this run; `π` stands for the iteration order of Python sets and is
universally quantified (any permutation).
-/
namespace C03
open Renames Front

abbrev ir := Generated.RenamesIR.ir

theorem generated_good : goodShape ir = true := by decide

def info (P : List Obj) (e : Entry) : VInfo := ⟨e.name, tyOf P e.obj⟩

/-- "some output depends on `a`, directly or through any depth of subgraph" (and `a` is not a formal
    argument of a subgraph): membership in `all_arguments - claimed_arguments`; see `freeArgs_spec`. -/
def dependsOn (P : List Obj) (outs : List Entry) (a : Nat) : Bool := (freeArgs P outs).contains a

/-- A request the property's success/KeyError clauses talk about. -/
structure WellFormed (P : List Obj) (req : Request) : Prop where
  inputsArgs : ∀ e ∈ req.inputs, isArg P e.obj = true
  outputsVars : ∀ e ∈ req.outputs, isVar P e.obj = true
  outputsNonempty : req.outputs ≠ []
  keysNodup : (req.inputs.map (·.name)).Nodup            -- dictionary keys
  objsNodup : (req.inputs.map (·.obj)).Nodup             -- no Var under two keys
  namesDisjoint : ∀ e ∈ req.outputs, e.name ∉ req.inputs.map (·.name)
  programOk : (mainInfo P req.outputs).bad = false ∧
    (∀ a ∈ (mainInfo P req.outputs).claimed, a ∉ (mainInfo P req.outputs).used)   -- no leaked body argument
  notFormals : ∀ e ∈ req.inputs, e.obj ∉ (mainInfo P req.outputs).claimed

/-- `drop_unused_inputs=False`: the graph inputs are exactly the entries of `inputs` — same names,
    same order, same types. -/
theorem inputs_exact (P : List Obj) (π : List Nat → List Nat) (fixed : Bool) (ins outs : List Entry)
    (s : Store) (m : Model)
    (h : (build ir P π fixed ⟨ins, outs, false⟩ s).2 = .ok m) :
    m.inputs = ins.map (info P) := by
  sorry

/-- The graph outputs are exactly the entries of `outputs`, each bound to the Var it was given. -/
theorem outputs_exact (P : List Obj) (π : List Nat → List Nat) (fixed : Bool) (req : Request)
    (s : Store) (m : Model)
    (h : (build ir P π fixed req s).2 = .ok m) :
    m.outputs = req.outputs.map (info P) ∧ m.outVars = req.outputs.map (·.obj) := by
  sorry

/-- `drop_unused_inputs=True`: the graph inputs are exactly the entries on which some output
    depends, **in their given relative order**, for every set-iteration order `π`. -/
theorem inputs_dropped (P : List Obj) (π : List Nat → List Nat) (hπ : ∀ l, (π l).Perm l)
    (ins outs : List Entry) (s : Store) (m : Model)
    (hkeys : (ins.map (·.name)).Nodup) (hobjs : (ins.map (·.obj)).Nodup)
    (hunnamed : ∀ v, v ∉ ins.map (·.obj) → s v = none)
    (h : (build ir P π true ⟨ins, outs, true⟩ s).2 = .ok m) :
    m.inputs = (ins.filter (fun e => dependsOn P outs e.obj)).map (info P) := by
  sorry

/-- the witness program: `y = op(b, a)` over two arguments `a` (id 0) and `b` (id 1) -/
def exP : List Obj :=
  [⟨true, false, "1:[]", [1, 0], []⟩, ⟨true, true, "1:[]", [], []⟩, ⟨true, true, "7:[]", [], []⟩]
def exIns : List Entry := [⟨"a", 0⟩, ⟨"b", 1⟩]
def exOuts : List Entry := [⟨"y", 2⟩]
def inputsOf (r : Except Err Model) : Option (List VInfo) :=
  match r with | .ok m => some m.inputs | .error _ => none

/-- Before the fix (`fixed = false`) the order was that of the set: the statement above fails for
    some `π` (here: the set happens to iterate newest first). -/
theorem inputs_dropped_counterexample :
    inputsOf (build ir exP id false ⟨exIns, exOuts, true⟩ (fun _ => none)).2
      = some [⟨"b", "1:[]"⟩, ⟨"a", "7:[]"⟩] ∧
    (exIns.filter (fun e => dependsOn exP exOuts e.obj)).map (info exP) = [⟨"a", "7:[]"⟩, ⟨"b", "1:[]"⟩] := by
  decide

/-- Non-vacuity: the same request on the fixed code, same `π`. -/
example : inputsOf (build ir exP id true ⟨exIns, exOuts, true⟩ (fun _ => none)).2
      = some [⟨"a", "7:[]"⟩, ⟨"b", "1:[]"⟩] := by decide

/-- If some output depends on an argument that is not listed, build raises KeyError (both flag
    values, every `π`). -/
theorem missing_input_keyerror (P : List Obj) (π : List Nat → List Nat) (hπ : ∀ l, (π l).Perm l)
    (fixed : Bool) (req : Request) (s : Store) (hwf : WellFormed P req)
    (hunnamed : ∀ v, v ∉ req.inputs.map (·.obj) → s v = none)
    (a : Nat) (ha : dependsOn P req.outputs a = true) (hmiss : a ∉ req.inputs.map (·.obj)) :
    (build ir P π fixed req s).2 = .error .key := by
  sorry

/-- Inputs that are not arguments raise TypeError. -/
theorem non_argument_typeerror (P : List Obj) (π : List Nat → List Nat) (fixed : Bool) (req : Request)
    (s : Store) (e : Entry) (he : e ∈ req.inputs) (hna : isArg P e.obj = false) :
    (build ir P π fixed req s).2 = .error .type := by
  sorry

/-- Outputs that are not Vars raise TypeError. -/
theorem non_var_output_typeerror (P : List Obj) (π : List Nat → List Nat) (fixed : Bool) (req : Request)
    (s : Store) (e : Entry) (he : e ∈ req.outputs) (hnv : isVar P e.obj = false) :
    (build ir P π fixed req s).2 = .error .type := by
  sorry

/-- Non-vacuity of the success clauses: a well-formed request that lists every argument the
    outputs depend on does build. -/
theorem valid_request_builds (P : List Obj) (π : List Nat → List Nat) (hπ : ∀ l, (π l).Perm l)
    (fixed : Bool) (req : Request) (s : Store) (hwf : WellFormed P req)
    (hunnamed : ∀ v, v ∉ req.inputs.map (·.obj) → s v = none)
    (hall : ∀ a, dependsOn P req.outputs a = true → a ∈ req.inputs.map (·.obj)) :
    ∃ m, (build ir P π fixed req s).2 = .ok m := by
  sorry

end C03
