import SpoxModel.Lemmas.Renames
import SpoxModel.Lemmas.Front
import SpoxModel.Lemmas.Reach
import SpoxModel.Generated.RenamesIR
import SpoxModel.Lemmas.FrontIR
import SpoxModel.Generated.BuildFrontIR
import SpoxModel.Model.FrontFacts
import SpoxModel.Generated.FrontFacts
import SpoxModel.Lemmas.FrontSpec
/-!
# C03 — the model's inputs and outputs are exactly what was requested

Property theorems only. `build` is `Front.build` run through the IR of `_temporary_renames`
extracted from /repo on this run; `π` stands for the iteration order of Python sets and is
universally quantified (any permutation).
-/
namespace C03
open Renames Front

abbrev ir := Generated.RenamesIR.ir

theorem generated_good : goodShape ir = true := by decide

def info (P : List Obj) (e : Entry) : VInfo := ⟨e.name, tyOf P e.obj⟩

/-- "some output depends on `a`, directly or through any depth of subgraph" (and `a` is not a formal
    argument of a subgraph): membership in `all_arguments - claimed_arguments`; see `freeArgs_spec`. -/
def dependsOn (P : List Obj) (outs : List Entry) (a : Nat) : Bool := (freeArgs P outs).contains a

/-- A request the property's success/KeyError clauses talk about. -/
structure WellFormed (P : List Obj) (req : Request) : Prop where
  inputsArgs : ∀ e ∈ req.inputs, isArg P e.obj = true
  outputsVars : ∀ e ∈ req.outputs, isVar P e.obj = true
  outputsNonempty : req.outputs ≠ []
  keysNodup : (req.inputs.map (·.name)).Nodup            -- dictionary keys
  objsNodup : (req.inputs.map (·.obj)).Nodup             -- no Var under two keys
  namesDisjoint : ∀ e ∈ req.outputs, e.name ∉ req.inputs.map (·.name)
  programOk : (mainInfo P req.outputs).bad = false ∧
    (∀ a ∈ (mainInfo P req.outputs).claimed, a ∉ (mainInfo P req.outputs).used)   -- no leaked body argument
  notFormals : ∀ e ∈ req.inputs, e.obj ∉ (mainInfo P req.outputs).claimed

/-- `drop_unused_inputs=False`: the graph inputs are exactly the entries of `inputs` — same names,
    same order, same types. -/
theorem inputs_exact (P : List Obj) (π : List Nat → List Nat) (fixed : Bool) (ins outs : List Entry)
    (s : Store) (m : Model)
    (h : (build ir P π fixed ⟨ins, outs, false⟩ s).2 = .ok m) :
    m.inputs = ins.map (info P) := by
  have hir : ir = fixedIR := goodShape_eq generated_good
  rw [hir] at h
  have hb := build_ok h
  rw [body_eq] at hb
  obtain ⟨hdup, _, hm⟩ := bodyA_ok hb
  have hargs : argsOf P π ⟨ins, outs, false⟩ = ins.map (·.obj) := by simp [argsOf]
  rw [hargs] at hdup hm
  have hobjs : (ins.map (·.obj)).Nodup := (hasDup_false_iff _).mp hdup
  rw [hm]
  simp only [Bool.false_and, Bool.false_eq_true, if_false, List.map_map]
  apply List.map_congr_left
  intro e he
  have := enter_entry ⟨ins, outs, false⟩ s hobjs e he
  simp only [Function.comp, vinfo, info, this, Option.getD_some]

/-- The graph outputs are exactly the entries of `outputs`, each bound to the Var it was given. -/
theorem outputs_exact (P : List Obj) (π : List Nat → List Nat) (fixed : Bool) (req : Request)
    (s : Store) (m : Model)
    (h : (build ir P π fixed req s).2 = .ok m) :
    m.outputs = req.outputs.map (info P) ∧ m.outVars = req.outputs.map (·.obj) := by
  have hir : ir = fixedIR := goodShape_eq generated_good
  rw [hir] at h
  have hb := build_ok h
  rw [body_eq] at hb
  obtain ⟨_, _, hm⟩ := bodyA_ok hb
  rw [hm]
  exact ⟨rfl, rfl⟩

/-- `outputs_exact` does not need the output dictionary to be injective: `req.outputs` is a *list* of
    (name, Var) entries and every entry gets its own graph output. Non-vacuity on a request where
    one intermediate Var is requested under two names and an argument is both an input and (under
    another name) an output: all three requested names appear, in order, each bound to its Var. -/
def outputsOf (r : Except Err Model) : Option (List VInfo × List Nat) :=
  match r with | .ok m => some (m.outputs, m.outVars) | .error _ => none

example :
    outputsOf (build ir
        [⟨true, false, "1:[]", [1, 0], []⟩, ⟨true, true, "1:[]", [], []⟩, ⟨true, true, "7:[]", [], []⟩]
        id true ⟨[⟨"a", 0⟩, ⟨"b", 1⟩], [⟨"score", 2⟩, ⟨"legacy_score", 2⟩, ⟨"a_copy", 0⟩], false⟩ (fun _ => none)).2
      = some ([⟨"score", "1:[]"⟩, ⟨"legacy_score", "1:[]"⟩, ⟨"a_copy", "7:[]"⟩], [2, 2, 0]) := by decide

/-- `drop_unused_inputs=True`: the graph inputs are exactly the entries on which some output
    depends, **in their given relative order**, for every set-iteration order `π`. -/
theorem inputs_dropped (P : List Obj) (π : List Nat → List Nat) (hπ : ∀ l, (π l).Perm l)
    (ins outs : List Entry) (s : Store) (m : Model)
    (hkeys : (ins.map (·.name)).Nodup) (hobjs : (ins.map (·.obj)).Nodup)
    (hunnamed : ∀ v, v ∉ ins.map (·.obj) → s v = none)
    (h : (build ir P π true ⟨ins, outs, true⟩ s).2 = .ok m) :
    m.inputs = (ins.filter (fun e => dependsOn P outs e.obj)).map (info P) := by
  have hir : ir = fixedIR := goodShape_eq generated_good
  rw [hir] at h
  have hb := build_ok h
  rw [body_eq] at hb
  obtain ⟨_, hfor, hm⟩ := bodyA_ok hb
  have hargs : argsOf P π ⟨ins, outs, true⟩ = π (freeArgs P outs) := by simp [argsOf]
  rw [hargs] at hfor hm
  rw [hm]
  simp only [Bool.and_self, if_true]
  rw [← filterMap_ite]
  apply filterMap_congr'
  intro e he
  have hname := enter_entry ⟨ins, outs, true⟩ s hobjs e he
  have hlisted : e.obj ∈ ins.map (·.obj) := List.mem_map.mpr ⟨e, he, rfl⟩
  -- an argument of the set whose value info carries `e`'s name is `e`'s Var
  have hsame : ∀ b ∈ π (freeArgs P outs),
      ((vinfo P (enter (kwargs ⟨ins, outs, true⟩) s) b).name == e.name) = true → b = e.obj := by
    intro b hb hn
    simp only [vinfo, beq_iff_eq] at hn
    apply named_inj ⟨ins, outs, true⟩ s hkeys b e.obj
      (listed_of_not_foreign ⟨ins, outs, true⟩ s hunnamed b (hfor b hb)) hlisted
    rw [hn, hname, Option.getD_some]
  by_cases hc : dependsOn P outs e.obj = true
  · rw [if_pos hc]
    have hmem : e.obj ∈ π (freeArgs P outs) :=
      (hπ _).mem_iff.mpr (List.contains_iff_mem.mp hc)
    have hinfo : vinfo P (enter (kwargs ⟨ins, outs, true⟩) s) e.obj = info P e := by
      simp only [vinfo, info, hname, Option.getD_some]
    rw [← hinfo]
    apply find?_unique
    · exact List.mem_map.mpr ⟨e.obj, hmem, rfl⟩
    · rw [hinfo]; simp [info]
    · intro y hy hpy
      obtain ⟨b, hb, rfl⟩ := List.mem_map.mp hy
      rw [hsame b hb hpy]
  · rw [if_neg hc, List.find?_eq_none]
    intro y hy hpy
    obtain ⟨b, hb, rfl⟩ := List.mem_map.mp hy
    have := hsame b hb hpy
    subst this
    exact hc (List.contains_iff_mem.mpr ((hπ _).mem_iff.mp hb))

def errOf' (r : Except Err Model) : Option Err :=
  match r with | .ok _ => none | .error e => some e

/-- the witness program: `y = op(b, a)` over two arguments `a` (id 0) and `b` (id 1) -/
def exP : List Obj :=
  [⟨true, false, "1:[]", [1, 0], []⟩, ⟨true, true, "1:[]", [], []⟩, ⟨true, true, "7:[]", [], []⟩]
def exIns : List Entry := [⟨"a", 0⟩, ⟨"b", 1⟩]
def exOuts : List Entry := [⟨"y", 2⟩]
def inputsOf (r : Except Err Model) : Option (List VInfo) :=
  match r with | .ok m => some m.inputs | .error _ => none

/-- Before the fix (`fixed = false`) the order was that of the set: the statement above fails for
    some `π` (here: the set happens to iterate newest first). -/
theorem inputs_dropped_counterexample :
    inputsOf (build ir exP id false ⟨exIns, exOuts, true⟩ (fun _ => none)).2
      = some [⟨"b", "1:[]"⟩, ⟨"a", "7:[]"⟩] ∧
    (exIns.filter (fun e => dependsOn exP exOuts e.obj)).map (info exP) = [⟨"a", "7:[]"⟩, ⟨"b", "1:[]"⟩] := by
  decide

/-- Non-vacuity: the same request on the fixed code, same `π`. -/
example : inputsOf (build ir exP id true ⟨exIns, exOuts, true⟩ (fun _ => none)).2
      = some [⟨"a", "7:[]"⟩, ⟨"b", "1:[]"⟩] := by decide

/-- If some output depends on an argument that is not listed, build raises KeyError (both flag
    values, every `π`). -/
theorem missing_input_keyerror (P : List Obj) (π : List Nat → List Nat) (hπ : ∀ l, (π l).Perm l)
    (fixed : Bool) (req : Request) (s : Store) (hwf : WellFormed P req)
    (hunnamed : ∀ v, v ∉ req.inputs.map (·.obj) → s v = none)
    (a : Nat) (ha : dependsOn P req.outputs a = true) (hmiss : a ∉ req.inputs.map (·.obj)) :
    (build ir P π fixed req s).2 = .error .key := by
  have hir : ir = fixedIR := goodShape_eq generated_good
  rw [hir, build_checked P π fixed req s hwf.inputsArgs hwf.outputsVars hwf.outputsNonempty,
    body_wf P π hπ fixed req s hwf.objsNodup hwf.namesDisjoint hwf.programOk.1 hwf.programOk.2
      hwf.notFormals hunnamed]
  have hfree : a ∈ freeArgs P req.outputs := List.contains_iff_mem.mp ha
  split
  · rfl
  · rename_i h3
    have h3f : (freeArgs P req.outputs).any (fun a => !(argsOf P π req).contains a) = false := by
      cases hc : (freeArgs P req.outputs).any (fun a => !(argsOf P π req).contains a) with
      | false => rfl
      | true => exact absurd hc h3
    have h3' := List.any_eq_false.mp h3f a hfree
    have hmem : a ∈ argsOf P π req := by
      cases hc : (argsOf P π req).contains a with
      | true => exact List.contains_iff_mem.mp hc
      | false => rw [hc] at h3'; exact absurd rfl h3'
    have : (argsOf P π req).any
        (fun a => foreign (req.inputs.map (·.name)) (enter (kwargs req) s a)) = true :=
      List.any_eq_true.mpr ⟨a, hmem, foreign_unlisted req s hunnamed a hmiss⟩
    rw [if_pos this]

/-- The hypothesis `hunnamed` of `missing_input_keyerror` / `inputs_dropped` cannot be dropped: the
    code compares *names*. Argument 1 (made by the internal `arguments_dict`, preset name `"k"`) is
    needed by the output but not listed; the unused argument 0 is listed under the key `"k"`. With
    `drop_unused_inputs=True` the model — like the code (known finding
    `…:preset-name-equals-key`) — returns a graph whose input `"k"` is argument 1 (type `1:[]`),
    not the listed argument 0 (type `7:[]`), instead of raising KeyError. -/
theorem missing_input_preset_name_counterexample :
    inputsOf (build ir
        [⟨true, false, "1:[]", [1], []⟩, ⟨true, true, "1:[]", [], []⟩, ⟨true, true, "7:[]", [], []⟩]
        id true ⟨[⟨"k", 0⟩], [⟨"y", 2⟩], true⟩ (fun v => if v = 1 then some "k" else none)).2
      = some [⟨"k", "1:[]"⟩] := by decide

/-- … while with `drop_unused_inputs=False` the same request does raise KeyError (`scope.var[…]`). -/
example :
    errOf' (build ir
        [⟨true, false, "1:[]", [1], []⟩, ⟨true, true, "1:[]", [], []⟩, ⟨true, true, "7:[]", [], []⟩]
        id true ⟨[⟨"k", 0⟩], [⟨"y", 2⟩], false⟩ (fun v => if v = 1 then some "k" else none)).2
      = some .key := by decide

/-- **Exact side condition.** Unlisted Vars may carry names of their own (arguments made by the internal
    `arguments_dict`) as long as none of those names is a key of `inputs` or a requested output name
    (`Front.NoClash`) — the boundary of the known finding `…:preset-name-equals-key`.
    `drop_unused_inputs=True`: the graph inputs are exactly the entries on which some output
    depends, **in their given relative order**, for every set-iteration order `π`. -/
theorem inputs_dropped_noclash (P : List Obj) (π : List Nat → List Nat) (hπ : ∀ l, (π l).Perm l)
    (ins outs : List Entry) (s : Store) (m : Model)
    (hkeys : (ins.map (·.name)).Nodup) (hobjs : (ins.map (·.obj)).Nodup)
    (hnc : NoClash ⟨ins, outs, true⟩ s)
    (h : (build ir P π true ⟨ins, outs, true⟩ s).2 = .ok m) :
    m.inputs = (ins.filter (fun e => dependsOn P outs e.obj)).map (info P) := by
  have hir : ir = fixedIR := goodShape_eq generated_good
  rw [hir] at h
  have hb := build_ok h
  rw [body_eq] at hb
  obtain ⟨_, hfor, hm⟩ := bodyA_ok hb
  have hargs : argsOf P π ⟨ins, outs, true⟩ = π (freeArgs P outs) := by simp [argsOf]
  rw [hargs] at hfor hm
  rw [hm]
  simp only [Bool.and_self, if_true]
  rw [← filterMap_ite]
  apply filterMap_congr'
  intro e he
  have hname := enter_entry ⟨ins, outs, true⟩ s hobjs e he
  have hlisted : e.obj ∈ ins.map (·.obj) := List.mem_map.mpr ⟨e, he, rfl⟩
  -- an argument of the set whose value info carries `e`'s name is `e`'s Var
  have hsame : ∀ b ∈ π (freeArgs P outs),
      ((vinfo P (enter (kwargs ⟨ins, outs, true⟩) s) b).name == e.name) = true → b = e.obj := by
    intro b hb hn
    simp only [vinfo, beq_iff_eq] at hn
    apply named_inj ⟨ins, outs, true⟩ s hkeys b e.obj
      (listed_of_not_foreign' ⟨ins, outs, true⟩ s hnc b (hfor b hb)) hlisted
    rw [hn, hname, Option.getD_some]
  by_cases hc : dependsOn P outs e.obj = true
  · rw [if_pos hc]
    have hmem : e.obj ∈ π (freeArgs P outs) :=
      (hπ _).mem_iff.mpr (List.contains_iff_mem.mp hc)
    have hinfo : vinfo P (enter (kwargs ⟨ins, outs, true⟩) s) e.obj = info P e := by
      simp only [vinfo, info, hname, Option.getD_some]
    rw [← hinfo]
    apply find?_unique
    · exact List.mem_map.mpr ⟨e.obj, hmem, rfl⟩
    · rw [hinfo]; simp [info]
    · intro y hy hpy
      obtain ⟨b, hb, rfl⟩ := List.mem_map.mp hy
      rw [hsame b hb hpy]
  · rw [if_neg hc, List.find?_eq_none]
    intro y hy hpy
    obtain ⟨b, hb, rfl⟩ := List.mem_map.mp hy
    have := hsame b hb hpy
    subst this
    exact hc (List.contains_iff_mem.mpr ((hπ _).mem_iff.mp hb))

/-- (Under `Front.NoClash` instead of "unlisted Vars are unnamed".) If some output depends on an argument that is not listed, build raises KeyError (both flag
    values, every `π`). -/
theorem missing_input_keyerror_noclash (P : List Obj) (π : List Nat → List Nat) (hπ : ∀ l, (π l).Perm l)
    (fixed : Bool) (req : Request) (s : Store) (hwf : WellFormed P req)
    (hnc : NoClash req s)
    (a : Nat) (ha : dependsOn P req.outputs a = true) (hmiss : a ∉ req.inputs.map (·.obj)) :
    (build ir P π fixed req s).2 = .error .key := by
  have hir : ir = fixedIR := goodShape_eq generated_good
  rw [hir, build_checked P π fixed req s hwf.inputsArgs hwf.outputsVars hwf.outputsNonempty,
    body_wf' P π hπ fixed req s hwf.objsNodup hwf.namesDisjoint hwf.programOk.1 hwf.programOk.2
      hwf.notFormals hnc]
  have hfree : a ∈ freeArgs P req.outputs := List.contains_iff_mem.mp ha
  split
  · rfl
  · rename_i h3
    have h3f : (freeArgs P req.outputs).any (fun a => !(argsOf P π req).contains a) = false := by
      cases hc : (freeArgs P req.outputs).any (fun a => !(argsOf P π req).contains a) with
      | false => rfl
      | true => exact absurd hc h3
    have h3' := List.any_eq_false.mp h3f a hfree
    have hmem : a ∈ argsOf P π req := by
      cases hc : (argsOf P π req).contains a with
      | true => exact List.contains_iff_mem.mp hc
      | false => rw [hc] at h3'; exact absurd rfl h3'
    have : (argsOf P π req).any
        (fun a => foreign (req.inputs.map (·.name)) (enter (kwargs req) s a)) = true :=
      List.any_eq_true.mpr ⟨a, hmem, foreign_unlisted' req s hnc a hmiss⟩
    rw [if_pos this]

/-- The counterexample above is exactly a violation of `NoClash`: argument 1 is unlisted and carries
    the name `"k"`, which is a key. (Non-vacuity of the side condition: with the preset name `"w"`
    instead, the same request raises KeyError.) -/
example :
    errOf' (build ir
        [⟨true, false, "1:[]", [1], []⟩, ⟨true, true, "1:[]", [], []⟩, ⟨true, true, "7:[]", [], []⟩]
        id true ⟨[⟨"k", 0⟩], [⟨"y", 2⟩], true⟩ (fun v => if v = 1 then some "w" else none)).2
      = some .key := by decide

/-- Inputs that are not arguments raise TypeError. -/
theorem non_argument_typeerror (P : List Obj) (π : List Nat → List Nat) (fixed : Bool) (req : Request)
    (s : Store) (e : Entry) (he : e ∈ req.inputs) (hna : isArg P e.obj = false) :
    (build ir P π fixed req s).2 = .error .type := by
  have hir : ir = fixedIR := goodShape_eq generated_good
  rw [hir, build_fixed]
  have h3 : req.inputs.all (fun e => isArg P e.obj) = false := by
    cases hc : req.inputs.all (fun e => isArg P e.obj) with
    | false => rfl
    | true =>
      have := List.all_eq_true.mp hc e he
      rw [hna] at this; cases this
  split
  · rfl
  split
  · rfl
  simp [h3]

/-- Outputs that are not Vars raise TypeError. -/
theorem non_var_output_typeerror (P : List Obj) (π : List Nat → List Nat) (fixed : Bool) (req : Request)
    (s : Store) (e : Entry) (he : e ∈ req.outputs) (hnv : isVar P e.obj = false) :
    (build ir P π fixed req s).2 = .error .type := by
  have hir : ir = fixedIR := goodShape_eq generated_good
  rw [hir, build_fixed]
  have h2 : req.outputs.all (fun e => isVar P e.obj) = false := by
    cases hc : req.outputs.all (fun e => isVar P e.obj) with
    | false => rfl
    | true =>
      have := List.all_eq_true.mp hc e he
      rw [hnv] at this; cases this
  split
  · rfl
  simp [h2]

/-- Non-vacuity of the success clauses: a well-formed request that lists every argument the
    outputs depend on does build. -/
theorem valid_request_builds (P : List Obj) (π : List Nat → List Nat) (hπ : ∀ l, (π l).Perm l)
    (fixed : Bool) (req : Request) (s : Store) (hwf : WellFormed P req)
    (hunnamed : ∀ v, v ∉ req.inputs.map (·.obj) → s v = none)
    (hall : ∀ a, dependsOn P req.outputs a = true → a ∈ req.inputs.map (·.obj)) :
    ∃ m, (build ir P π fixed req s).2 = .ok m := by
  have hir : ir = fixedIR := goodShape_eq generated_good
  rw [hir, build_checked P π fixed req s hwf.inputsArgs hwf.outputsVars hwf.outputsNonempty,
    body_wf P π hπ fixed req s hwf.objsNodup hwf.namesDisjoint hwf.programOk.1 hwf.programOk.2
      hwf.notFormals hunnamed]
  have hsub : ∀ a, a ∈ freeArgs P req.outputs → a ∈ req.inputs.map (·.obj) :=
    fun a ha => hall a (List.contains_iff_mem.mpr ha)
  have h3 : (freeArgs P req.outputs).any (fun a => !(argsOf P π req).contains a) = false := by
    rw [List.any_eq_false]
    intro a ha
    have : a ∈ argsOf P π req := by
      unfold argsOf
      cases hd : req.drop with
      | true => rw [if_pos rfl]; exact (hπ _).mem_iff.mpr ha
      | false => simp only [Bool.false_eq_true, if_false]; exact hsub a ha
    simp only [Bool.not_eq_true', Bool.not_eq_false]
    exact List.contains_iff_mem.mpr this
  have h5 : (argsOf P π req).any
      (fun a => foreign (req.inputs.map (·.name)) (enter (kwargs req) s a)) = false := by
    rw [List.any_eq_false]
    intro a ha
    have : a ∈ req.inputs.map (·.obj) := by
      unfold argsOf at ha
      cases hd : req.drop with
      | true => rw [hd, if_pos rfl] at ha; exact hsub a ((hπ _).mem_iff.mp ha)
      | false => rw [hd] at ha; simpa using ha
    rw [foreign_listed req s a this]
    simp
  rw [h3, h5]
  exact ⟨_, rfl⟩

/-- `discover_all_arguments_spec`: what `dependsOn` means. For any program (every reference points
    to an older object — true of every Python program) the arguments that `discover` finds free
    (`all_arguments - claimed_arguments`) are exactly the Argument Vars some output reaches through
    input edges and through results of subgraph bodies, **to any depth**, that are not formal
    arguments of a subgraph reached on the way. -/
theorem discover_all_arguments_spec (P : List Obj) (hwf : WF P) (outs : List Entry)
    (houts : ∀ e ∈ outs, e.obj < P.length) (a : Nat) :
    dependsOn P outs a = true ↔
      (∃ e ∈ outs, Reach P e.obj a) ∧ ArgObj P a ∧ ¬ ∃ e ∈ outs, Bound P e.obj a := by
  unfold dependsOn
  rw [List.contains_iff_mem]
  exact freeArgs_spec P hwf outs houts a

/-- The same with the *executable* hypothesis: `wfb` is evaluated by the driver on every program the
    correspondence runs (and must be `true`), so the hypothesis is checked, not assumed, there. -/
theorem discover_all_arguments_spec_checked (P : List Obj) (hwf : wfb P = true) (outs : List Entry)
    (houts : ∀ e ∈ outs, e.obj < P.length) (a : Nat) :
    dependsOn P outs a = true ↔
      (∃ e ∈ outs, Reach P e.obj a) ∧ ArgObj P a ∧ ¬ ∃ e ∈ outs, Bound P e.obj a :=
  discover_all_arguments_spec P ((wfb_iff P).mp hwf) outs houts a

/-! ## `build`, statement by statement

`Front.build` above is a closed expression written by hand. `FrontIR.run` executes the *list of
statements* of `src/spox/_public.py::build` extracted on this run (`Generated/BuildFrontIR.lean`: the
guards in their order with the exception class each raises, the `with _temporary_renames(**inputs)`
block, `results(**outputs)`, the `drop_unused_inputs` option deciding whether
`with_arguments(*inputs.values())` is called, `to_onnx_model()`, the "additional inputs" test, the
re-listing, `return`). The driver runs that list next to the real `spox.build` on every request. -/

abbrev buildIR := Generated.BuildFrontIR.ir

/-- Obligation tying the statement-level model to the source: the list extracted from `_public.py` on
    this run is the accepted one (no statement the extractor does not understand, guards in this
    order, this exception class each, the option handled this way). -/
theorem generated_build_good : FrontIR.goodShape buildIR = true := by decide

/-- The statements of `build` in /repo now compute exactly `Front.build` (fixed code): names
    afterwards and result — model or error class — for every program, request, set order and store. -/
theorem build_statements_refine (P : List Obj) (π : List Nat → List Nat) (req : Request) (s : Store) :
    FrontIR.run buildIR ir P π req s = build ir P π true req s := by
  rw [FrontIR.goodShape_eq generated_build_good, goodShape_eq generated_good]
  exact FrontIR.run_fixedIR P π req s

/-- What the `drop_unused_inputs` option does to the main Graph: without it the compiled graph's
    arguments are exactly the listed Vars, in the listed order (`with_arguments(*inputs.values())`,
    no set involved); with it they are the discovered ones, `all − claimed`, in set order `π`; in
    both cases no argument occurs twice and every argument some output depends on is among them. -/
theorem arguments_of_main_graph (P : List Obj) (π : List Nat → List Nat) (outs : List Entry) (s : Store)
    (b : FrontIR.Built) :
    (∀ l, FrontIR.compile P π outs (some l) s = .ok b → b.args = l) ∧
    (FrontIR.compile P π outs none s = .ok b → b.args = π (freeArgs P outs)) ∧
    (∀ ra, FrontIR.compile P π outs ra s = .ok b →
        hasDup b.args = false ∧ ∀ a, dependsOn P outs a = true → a ∈ b.args) :=
  ⟨fun l h => (FrontIR.compile_requested P π outs l s b h).1,
   fun h => (FrontIR.compile_discovered P π outs s b h).1,
   fun ra h => ⟨(FrontIR.compile_args_sound P π outs ra s b h).1,
     fun a ha => (FrontIR.compile_args_sound P π outs ra s b h).2 a (List.contains_iff_mem.mp ha)⟩⟩

/-- Hence every clause of the property holds of the extracted statement list. -/
theorem inputs_exact_stmts (P : List Obj) (π : List Nat → List Nat) (ins outs : List Entry)
    (s : Store) (m : Model)
    (h : (FrontIR.run buildIR ir P π ⟨ins, outs, false⟩ s).2 = .ok m) :
    m.inputs = ins.map (info P) := by
  rw [build_statements_refine] at h
  exact inputs_exact P π true ins outs s m h

theorem outputs_exact_stmts (P : List Obj) (π : List Nat → List Nat) (req : Request)
    (s : Store) (m : Model)
    (h : (FrontIR.run buildIR ir P π req s).2 = .ok m) :
    m.outputs = req.outputs.map (info P) ∧ m.outVars = req.outputs.map (·.obj) := by
  rw [build_statements_refine] at h
  exact outputs_exact P π true req s m h

theorem inputs_dropped_stmts (P : List Obj) (π : List Nat → List Nat) (hπ : ∀ l, (π l).Perm l)
    (ins outs : List Entry) (s : Store) (m : Model)
    (hkeys : (ins.map (·.name)).Nodup) (hobjs : (ins.map (·.obj)).Nodup)
    (hunnamed : ∀ v, v ∉ ins.map (·.obj) → s v = none)
    (h : (FrontIR.run buildIR ir P π ⟨ins, outs, true⟩ s).2 = .ok m) :
    m.inputs = (ins.filter (fun e => dependsOn P outs e.obj)).map (info P) := by
  rw [build_statements_refine] at h
  exact inputs_dropped P π hπ ins outs s m hkeys hobjs hunnamed h

theorem missing_input_keyerror_stmts (P : List Obj) (π : List Nat → List Nat) (hπ : ∀ l, (π l).Perm l)
    (req : Request) (s : Store) (hwf : WellFormed P req)
    (hunnamed : ∀ v, v ∉ req.inputs.map (·.obj) → s v = none)
    (a : Nat) (ha : dependsOn P req.outputs a = true) (hmiss : a ∉ req.inputs.map (·.obj)) :
    (FrontIR.run buildIR ir P π req s).2 = .error .key := by
  rw [build_statements_refine]
  exact missing_input_keyerror P π hπ true req s hwf hunnamed a ha hmiss

theorem type_errors_stmts (P : List Obj) (π : List Nat → List Nat) (req : Request) (s : Store) :
    (∀ e ∈ req.inputs, isArg P e.obj = false → (FrontIR.run buildIR ir P π req s).2 = .error .type) ∧
    (∀ e ∈ req.outputs, isVar P e.obj = false → (FrontIR.run buildIR ir P π req s).2 = .error .type) := by
  rw [build_statements_refine]
  exact ⟨fun e he h => non_argument_typeerror P π true req s e he h,
         fun e he h => non_var_output_typeerror P π true req s e he h⟩

/-- A build through the extracted statements leaves every Var's name as it found it, whatever the
    outcome (C12's clause, here for the statement list). -/
theorem names_restored_stmts (P : List Obj) (π : List Nat → List Nat) (req : Request) (s : Store) :
    (FrontIR.run buildIR ir P π req s).1 = s := by
  rw [build_statements_refine, goodShape_eq generated_good]
  exact build_fst P π true req s

/-- The statement list of the pinned tree (no re-listing after `to_onnx_model`) is `Front.build` with
    `fixed = false`, so `inputs_dropped_counterexample` is a statement about it: set order shows. -/
theorem pinned_statements_counterexample :
    inputsOf (FrontIR.run FrontIR.pinnedIR ir exP id ⟨exIns, exOuts, true⟩ (fun _ => none)).2
      ≠ some (exIns.map (info exP)) := by
  decide

/-- Non-vacuity: the extracted statement list on the same request lists the inputs as given, and a
    request whose output needs an unlisted argument ends in the KeyError guard. -/
example : inputsOf (FrontIR.run buildIR ir exP id ⟨exIns, exOuts, true⟩ (fun _ => none)).2
    = some (exIns.map (info exP)) := by decide
def errOf (r : Except Err Model) : Option Err :=
  match r with | .ok _ => none | .error e => some e
example : errOf (FrontIR.run buildIR ir exP id ⟨[⟨"a", 0⟩], exOuts, true⟩ (fun _ => none)).2 = some .key := by
  decide
example : errOf (FrontIR.run buildIR ir exP id ⟨[⟨"a", 0⟩], exOuts, false⟩ (fun _ => none)).2 = some .key := by
  decide
example : errOf (FrontIR.run buildIR ir exP id ⟨exIns, [], false⟩ (fun _ => none)).2 = some .value := by
  decide
example : errOf (FrontIR.run buildIR ir exP id ⟨exIns ++ [⟨"y0", 2⟩], exOuts, false⟩ (fun _ => none)).2 = some .type := by
  decide

/-! ## Refinement to an abstract specification (round 10)

`Front.specBuild` says what `build` returns on a well-formed request without mentioning the name
store, `_temporary_renames`, set iteration, `discover`'s checks or the order of `build`'s statements.
The clause theorems above each describe one outcome under the hypothesis that this outcome occurred;
`build_refines_spec` determines the outcome itself. -/

/-- `valid_request_builds` under `NoClash` instead of "unlisted Vars are unnamed". -/
theorem valid_request_builds_noclash (P : List Obj) (π : List Nat → List Nat) (hπ : ∀ l, (π l).Perm l)
    (fixed : Bool) (req : Request) (s : Store) (hwf : WellFormed P req)
    (hnc : NoClash req s)
    (hall : ∀ a, dependsOn P req.outputs a = true → a ∈ req.inputs.map (·.obj)) :
    ∃ m, (build ir P π fixed req s).2 = .ok m := by
  have hir : ir = fixedIR := goodShape_eq generated_good
  rw [hir, build_checked P π fixed req s hwf.inputsArgs hwf.outputsVars hwf.outputsNonempty,
    body_wf' P π hπ fixed req s hwf.objsNodup hwf.namesDisjoint hwf.programOk.1 hwf.programOk.2
      hwf.notFormals hnc]
  have hsub : ∀ a, a ∈ freeArgs P req.outputs → a ∈ req.inputs.map (·.obj) :=
    fun a ha => hall a (List.contains_iff_mem.mpr ha)
  have h3 : (freeArgs P req.outputs).any (fun a => !(argsOf P π req).contains a) = false := by
    rw [List.any_eq_false]
    intro a ha
    have : a ∈ argsOf P π req := by
      unfold argsOf
      cases hd : req.drop with
      | true => rw [if_pos rfl]; exact (hπ _).mem_iff.mpr ha
      | false => simp only [Bool.false_eq_true, if_false]; exact hsub a ha
    simp only [Bool.not_eq_true', Bool.not_eq_false]
    exact List.contains_iff_mem.mpr this
  have h5 : (argsOf P π req).any
      (fun a => foreign (req.inputs.map (·.name)) (enter (kwargs req) s a)) = false := by
    rw [List.any_eq_false]
    intro a ha
    have : a ∈ req.inputs.map (·.obj) := by
      unfold argsOf at ha
      cases hd : req.drop with
      | true => rw [hd, if_pos rfl] at ha; exact hsub a ((hπ _).mem_iff.mp ha)
      | false => rw [hd] at ha; simpa using ha
    rw [foreign_listed req s a this]
    simp
  rw [h3, h5]
  exact ⟨_, rfl⟩

/-- The executable `Front.wfReq` (evaluated by the driver on every request of the correspondence)
    implies the hypothesis `WellFormed` of the clause theorems. -/
theorem wfReq_sound (P : List Obj) (req : Request) (h : wfReq P req = true) : WellFormed P req := by
  unfold wfReq at h
  simp only [Bool.and_eq_true, Bool.not_eq_true', List.all_eq_true] at h
  obtain ⟨⟨⟨⟨⟨⟨⟨⟨h1, h2⟩, h3⟩, h4⟩, h5⟩, h6⟩, h7⟩, h8⟩, h9⟩ := h
  refine ⟨h1, h2, ?_, (hasDupS_false_iff _).mp h4, (hasDup_false_iff _).mp h5, ?_, ⟨h7, ?_⟩, ?_⟩
  · intro hn; rw [hn] at h3; cases h3
  · intro e he hm
    have := h6 e he
    rw [List.contains_iff_mem.mpr hm] at this
    cases this
  · intro a ha hu
    have := h8 a ha
    rw [List.contains_iff_mem.mpr hu] at this
    cases this
  · intro e he hc
    have := h9 e he
    rw [List.contains_iff_mem.mpr hc] at this
    cases this

/-- **Refinement.** On every well-formed request, for every set order `π` and every name store that
    satisfies `NoClash`, `build` (code after the fixes) returns exactly `specBuild`: KeyError iff some
    output depends on an unlisted argument; otherwise the model whose inputs are the listed entries
    (with `drop_unused_inputs`: those some output depends on) in the given order with the given names
    and the Vars' types, and whose outputs are the entries of `outputs`, each bound to its Var.
    No hypothesis about the outcome. -/
theorem build_refines_spec (P : List Obj) (π : List Nat → List Nat) (hπ : ∀ l, (π l).Perm l)
    (req : Request) (s : Store) (hwf : WellFormed P req) (hnc : NoClash req s) :
    (build ir P π true req s).2 = specBuild P req := by
  unfold specBuild
  by_cases hall : (freeArgs P req.outputs).all (fun a => (req.inputs.map (·.obj)).contains a) = true
  · rw [if_pos hall]
    have hall' : ∀ a, dependsOn P req.outputs a = true → a ∈ req.inputs.map (·.obj) := by
      intro a ha
      exact List.contains_iff_mem.mp (List.all_eq_true.mp hall a (List.contains_iff_mem.mp ha))
    obtain ⟨m, hm⟩ := valid_request_builds_noclash P π hπ true req s hwf hnc hall'
    rw [hm]
    obtain ⟨ho, hv⟩ := outputs_exact P π true req s m hm
    obtain ⟨ins, outs, drop⟩ := req
    have hi : m.inputs = ((if drop then ins.filter (fun e => (freeArgs P outs).contains e.obj)
        else ins).map (infoOf P)) := by
      cases drop with
      | true => exact inputs_dropped_noclash P π hπ ins outs s m hwf.keysNodup hwf.objsNodup hnc hm
      | false => exact inputs_exact P π true ins outs s m hm
    have hmeq : m = ⟨m.inputs, m.outputs, m.outVars⟩ := rfl
    rw [hmeq, hi, ho, hv]
    rfl
  · rw [if_neg hall]
    have h1 : ¬ ∀ a ∈ freeArgs P req.outputs, (req.inputs.map (·.obj)).contains a = true :=
      fun h => hall (List.all_eq_true.mpr h)
    obtain ⟨a, ha⟩ := Classical.not_forall.mp h1
    obtain ⟨hmem, hnl⟩ := Classical.not_imp.mp ha
    exact missing_input_keyerror_noclash P π hπ true req s hwf hnc a
      (List.contains_iff_mem.mpr hmem) (fun h => hnl (List.contains_iff_mem.mpr h))

/-- The same for the statement list extracted from `_public.py` on this run, with the executable
    hypothesis the driver evaluates. -/
theorem build_statements_refine_spec (P : List Obj) (π : List Nat → List Nat) (hπ : ∀ l, (π l).Perm l)
    (req : Request) (s : Store) (hwf : wfReq P req = true) (hnc : NoClash req s) :
    (FrontIR.run buildIR ir P π req s).2 = specBuild P req := by
  rw [build_statements_refine]
  exact build_refines_spec P π hπ req s (wfReq_sound P req hwf) hnc

/-- Converse of `missing_input_keyerror`: on a well-formed request KeyError is raised **only** when
    some output really depends on an unlisted argument, and a model is returned **iff** every argument
    an output depends on is listed (no other outcome exists). -/
theorem keyerror_iff_missing (P : List Obj) (π : List Nat → List Nat) (hπ : ∀ l, (π l).Perm l)
    (req : Request) (s : Store) (hwf : WellFormed P req) (hnc : NoClash req s) :
    ((build ir P π true req s).2 = .error .key ↔
      ∃ a, dependsOn P req.outputs a = true ∧ a ∉ req.inputs.map (·.obj)) ∧
    ((∃ m, (build ir P π true req s).2 = .ok m) ↔
      ∀ a, dependsOn P req.outputs a = true → a ∈ req.inputs.map (·.obj)) := by
  constructor
  · constructor
    · intro h
      apply Classical.byContradiction
      intro hne
      have hall : ∀ a, dependsOn P req.outputs a = true → a ∈ req.inputs.map (·.obj) := by
        intro a ha
        apply Classical.byContradiction
        intro hn
        exact hne ⟨a, ha, hn⟩
      obtain ⟨m, hm⟩ := valid_request_builds_noclash P π hπ true req s hwf hnc hall
      rw [hm] at h
      cases h
    · intro ⟨a, ha, hn⟩
      exact missing_input_keyerror_noclash P π hπ true req s hwf hnc a ha hn
  · constructor
    · intro ⟨m, hm⟩ a ha
      apply Classical.byContradiction
      intro hn
      rw [missing_input_keyerror_noclash P π hπ true req s hwf hnc a ha hn] at hm
      cases hm
    · exact valid_request_builds_noclash P π hπ true req s hwf hnc

/-- Non-vacuity: the witness request is well-formed (executably), the spec lists the inputs in the
    given order although `π` reverses the set, and the statements return it; with `b` unlisted the
    spec — and the statements — say KeyError. -/
def okOf (r : Except Err Model) : Option Model :=
  match r with | .ok m => some m | .error _ => none
example : wfReq exP ⟨exIns, exOuts, true⟩ = true ∧
    okOf (specBuild exP ⟨exIns, exOuts, true⟩) = some ⟨[⟨"a", "7:[]"⟩, ⟨"b", "1:[]"⟩], [⟨"y", "1:[]"⟩], [2]⟩ ∧
    okOf (FrontIR.run buildIR ir exP List.reverse ⟨exIns, exOuts, true⟩ (fun _ => none)).2
      = okOf (specBuild exP ⟨exIns, exOuts, true⟩) := by decide
example : wfReq exP ⟨[⟨"a", 0⟩], exOuts, true⟩ = true ∧
    errOf (specBuild exP ⟨[⟨"a", 0⟩], exOuts, true⟩) = some .key ∧
    errOf (FrontIR.run buildIR ir exP id ⟨[⟨"a", 0⟩], exOuts, true⟩ (fun _ => none)).2 = some .key := by decide
/-- … and an unused listed argument is dropped by the spec only when the flag says so. -/
example : okOf (specBuild exP ⟨exIns, [⟨"y", 1⟩], true⟩) = some ⟨[⟨"b", "1:[]"⟩], [⟨"y", "1:[]"⟩], [1]⟩ ∧
    okOf (specBuild exP ⟨exIns, [⟨"y", 1⟩], false⟩) = some ⟨[⟨"a", "7:[]"⟩, ⟨"b", "1:[]"⟩], [⟨"y", "1:[]"⟩], [1]⟩ := by decide

/-! ## Mini-round: `NoClash` discharged from the executable test; the flag as a request transformation -/

/-- The Boolean test the driver evaluates as `noclash` is **exact**: on any finite support of the store
    (the driver: `range n`, the store being `none` outside the preset entries) it holds iff `NoClash` does. -/
theorem noclash_check_exact (vs : List Nat) (req : Request) (s : Store)
    (hsupp : ∀ v, v ∉ vs → s v = none) : noClashOn vs req s = true ↔ NoClash req s :=
  ⟨noClash_of_noClashOn vs req s hsupp, noClashOn_of_noClash vs req s⟩

/-- `build_statements_refine_spec` with **both** hypotheses executable: whenever the two Booleans the driver
    reports for a request (`wfreq`, `noclash`) are true, the statements of `build` extracted on this run return
    exactly `specBuild` — for every set order. Nothing about the request or the store is assumed beyond what is
    evaluated (and that the store names no Var outside `vs`). -/
theorem build_statements_refine_spec_checked (P : List Obj) (π : List Nat → List Nat)
    (hπ : ∀ l, (π l).Perm l) (req : Request) (s : Store) (vs : List Nat)
    (hsupp : ∀ v, v ∉ vs → s v = none)
    (hwf : wfReq P req = true) (hnc : noClashOn vs req s = true) :
    (FrontIR.run buildIR ir P π req s).2 = specBuild P req :=
  build_statements_refine_spec P π hπ req s hwf (noClash_of_noClashOn vs req s hsupp hnc)

/-- Non-vacuity: the witness request with a preset-named bystander (`"w"` on Var 2, unlisted) passes the test;
    the known-finding witness (preset name = key) does not. -/
example : noClashOn [0, 1, 2] ⟨exIns, [⟨"y", 1⟩], true⟩ (fun v => if v = 2 then some "w" else none) = true ∧
    noClashOn [0, 1, 2] ⟨[⟨"k", 0⟩], [⟨"y", 2⟩], true⟩ (fun v => if v = 1 then some "k" else none) = false := by
  decide

/-- Dropping commutes with listing: at the level of the specification, `drop_unused_inputs=True` is the plain
    build of the request whose `inputs` are filtered to the entries some output depends on. -/
theorem spec_drop_eq_filtered (P : List Obj) (ins outs : List Entry) :
    specBuild P ⟨ins, outs, true⟩ =
      specBuild P ⟨ins.filter (fun e => dependsOn P outs e.obj), outs, false⟩ := by
  have hc : ∀ a ∈ freeArgs P outs, (ins.map (·.obj)).contains a =
      ((ins.filter (fun e => (freeArgs P outs).contains e.obj)).map (·.obj)).contains a := by
    intro a ha
    rw [Bool.eq_iff_iff, List.contains_iff_mem, List.contains_iff_mem, List.mem_map, List.mem_map]
    constructor
    · intro ⟨e, he, h⟩
      subst h
      exact ⟨e, List.mem_filter.mpr ⟨he, List.contains_iff_mem.mpr ha⟩, rfl⟩
    · intro ⟨e, he, h⟩
      exact ⟨e, (List.mem_filter.mp he).1, h⟩
  have hall : (freeArgs P outs).all (fun a => (ins.map (·.obj)).contains a) =
      (freeArgs P outs).all (fun a =>
        ((ins.filter (fun e => (freeArgs P outs).contains e.obj)).map (·.obj)).contains a) := by
    rw [Bool.eq_iff_iff, List.all_eq_true, List.all_eq_true]
    exact ⟨fun h a ha => (hc a ha) ▸ h a ha, fun h a ha => (hc a ha).symm ▸ h a ha⟩
  unfold specBuild dependsOn
  simp only [hall, ↓reduceIte, Bool.false_eq_true]

/-- A well-formed request stays well-formed when entries are removed from `inputs`. -/
theorem wellFormed_filter (P : List Obj) (ins outs : List Entry) (d d' : Bool) (p : Entry → Bool)
    (h : WellFormed P ⟨ins, outs, d⟩) : WellFormed P ⟨ins.filter p, outs, d'⟩ :=
  { inputsArgs := fun e he => h.inputsArgs e (List.mem_filter.mp he).1
    outputsVars := h.outputsVars
    outputsNonempty := h.outputsNonempty
    keysNodup := h.keysNodup.sublist ((List.filter_sublist).map _)
    objsNodup := h.objsNodup.sublist ((List.filter_sublist).map _)
    namesDisjoint := fun e he hm => h.namesDisjoint e he (by
      obtain ⟨e', he', hn⟩ := List.mem_map.mp hm
      exact List.mem_map.mpr ⟨e', (List.mem_filter.mp he').1, hn⟩)
    programOk := h.programOk
    notFormals := fun e he => h.notFormals e (List.mem_filter.mp he).1 }

/-- **The flag is a request transformation** (real `build`, every set order on either side): building with
    `drop_unused_inputs=True` returns exactly what the plain build of the same outputs returns when `inputs` is
    first filtered to the entries some output depends on — same model or same KeyError. In particular re-building
    a dropped model's own input list without the flag reproduces it (idempotence of dropping). -/
theorem drop_is_filter_then_plain (P : List Obj) (π π' : List Nat → List Nat)
    (hπ : ∀ l, (π l).Perm l) (hπ' : ∀ l, (π' l).Perm l) (ins outs : List Entry) (s : Store)
    (hwf : WellFormed P ⟨ins, outs, true⟩) (hnc : NoClash ⟨ins, outs, true⟩ s)
    (hnc' : NoClash ⟨ins.filter (fun e => dependsOn P outs e.obj), outs, false⟩ s) :
    (build ir P π true ⟨ins, outs, true⟩ s).2 =
      (build ir P π' true ⟨ins.filter (fun e => dependsOn P outs e.obj), outs, false⟩ s).2 := by
  rw [build_refines_spec P π hπ _ s hwf hnc,
    build_refines_spec P π' hπ' _ s (wellFormed_filter P ins outs true false _ hwf) hnc',
    spec_drop_eq_filtered]

/-- Non-vacuity: on the witness program with output `y := b` the flag drops `a`; both sides are the model with
    the single input `b`, under opposite set orders. -/
example :
    okOf (build ir exP id true ⟨exIns, [⟨"y", 1⟩], true⟩ (fun _ => none)).2 = some ⟨[⟨"b", "1:[]"⟩], [⟨"y", "1:[]"⟩], [1]⟩ ∧
    okOf (build ir exP List.reverse true ⟨exIns.filter (fun e => dependsOn exP [⟨"y", 1⟩] e.obj), [⟨"y", 1⟩], false⟩
      (fun _ => none)).2 = some ⟨[⟨"b", "1:[]"⟩], [⟨"y", "1:[]"⟩], [1]⟩ := by decide

/-- Size boundary (tie G): the only functions on the build path that call themselves are the three
    whose recursion follows *nesting* (`Builder.discover` over subgraphs, `_strip_dim_symbol` over
    Sequence/Optional types, `rename_in_graph` over the subgraphs of an inlined model). Nothing
    recurses along dependency edges, so the length of an operator chain is not bounded by Python's
    recursion limit — the clauses above hold for programs of any size, as the theorems (which have
    no size hypothesis) say. The run also builds chains of 1200 / 3000 operators. -/
theorem recursion_only_along_nesting :
    FrontFacts.recursionOk Generated.FrontFacts.recursive = true := by decide

end C03
