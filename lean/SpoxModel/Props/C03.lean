/-! Property theorems for C03 (only property-level statements and non-vacuity examples live here). -/
