import SpoxModel.Lemmas.Renames
import SpoxModel.Lemmas.Front
import SpoxModel.Generated.RenamesIR
import SpoxModel.Generated.Writes
import SpoxModel.Lemmas.Memo
import SpoxModel.Generated.GraphSetters
import SpoxModel.Lemmas.FrontIR
import SpoxModel.Generated.BuildFrontIR
import SpoxModel.Model.FrontFacts
import SpoxModel.Generated.FrontFacts
import SpoxModel.Lemmas.FrontSpec
import SpoxModel.Lemmas.FrontGrow
/-!
# C12 — build and inline are pure, repeatable and independent of process history

Property theorems only.
-/
namespace C12
open Renames Front

/-- Obligation tying the theorems to the source: the IR extracted from `_public.py` on this run has
    the accepted shape. -/
theorem generated_good : goodShape Generated.RenamesIR.ir = true := by decide

/-- **Full strength**: for any accepted IR, any keyword dictionary (also with one Var under several
    keys, also with Vars that already had names), and any block body that itself leaves names
    alone — whether it returns or raises — every Var's `_name` afterwards equals its value before. -/
theorem renames_restored_shape {β} (ir : List Stmt) (h : goodShape ir = true)
    (kw : List (String × Nat)) (body : Store → Store × Outcome × β)
    (hbody : ∀ s, (body s).1 = s) (s : Store) :
    (run ir kw body s).1 = s := by
  rw [goodShape_eq h, run_fixed]
  simp only
  rw [hbody, restore_enter]

/-- … for `_temporary_renames` as it is in /repo now. -/
theorem renames_restored {β} (kw : List (String × Nat)) (body : Store → Store × Outcome × β)
    (hbody : ∀ s, (body s).1 = s) (s : Store) :
    (run Generated.RenamesIR.ir kw body s).1 = s :=
  renames_restored_shape _ generated_good kw body hbody s

/-- Inside the block every listed Var carries its key (no Var listed twice). -/
theorem names_in_force {β} (kw : List (String × Nat)) (body : Store → Store × Outcome × β) (s : Store)
    (h : (kw.map (·.2)).Nodup) :
    run Generated.RenamesIR.ir kw body s =
      run Generated.RenamesIR.ir kw (fun _ => body (enter kw s)) s ∧
    ∀ k v, (k, v) ∈ kw → enter kw s v = some k := by
  constructor
  · rw [goodShape_eq generated_good, run_fixed, run_fixed]
  · intro k v hm
    exact enter_listed kw s h k v hm

/-- The pinned shape (`pre[arg] = arg._name`) leaks when one Var occurs under two keys. -/
theorem renames_pinned_counterexample :
    (run (β := Unit) pinnedIR [("a", 0), ("b", 0)] (fun s => (s, .exn, ())) (fun _ => none)).1 0 = some "a" := by
  decide

/-- Without `finally` a raising body leaves the temporary name behind. -/
theorem renames_nofinally_counterexample :
    (run (β := Unit) noFinallyIR [("a", 0)] (fun s => (s, .exn, ())) (fun _ => none)).1 0 = some "a" := by
  decide

/-- `build` leaves every Var's name as it found it, whatever the outcome (model, KeyError,
    TypeError, BuildError, ScopeError …): a failed build leaves no trace in `_name`. -/
theorem build_restores_names (P : List Obj) (π : List Nat → List Nat) (fixed : Bool) (req : Request)
    (s : Store) : (build Generated.RenamesIR.ir P π fixed req s).1 = s := by
  rw [goodShape_eq generated_good]
  exact build_fst P π fixed req s

/-- `build` does not depend on the iteration order of Python sets (object addresses, hash seed):
    any two permutation functions give the same result — model, or error class. -/
theorem build_deterministic (P : List Obj) (π π' : List Nat → List Nat)
    (hπ : ∀ l, (π l).Perm l) (hπ' : ∀ l, (π' l).Perm l) (req : Request) (s : Store)
    (hkeys : (req.inputs.map (·.name)).Nodup)
    (hunnamed : ∀ v, v ∉ req.inputs.map (·.obj) → s v = none) :
    build Generated.RenamesIR.ir P π true req s = build Generated.RenamesIR.ir P π' true req s := by
  rw [goodShape_eq generated_good, build_fixed, build_fixed,
    body_perm_invariant P π π' hπ hπ' req s hkeys hunnamed]

def exP : List Obj :=
  [⟨true, false, "1:[]", [1, 0], []⟩, ⟨true, true, "1:[]", [], []⟩, ⟨true, true, "7:[]", [], []⟩]
def exReq : Request := ⟨[⟨"a", 0⟩, ⟨"b", 1⟩], [⟨"y", 2⟩], true⟩
def inputsOf (r : Except Err Model) : Option (List VInfo) :=
  match r with | .ok m => some m.inputs | .error _ => none

/-- Before the fix (`fixed = false`) the result did depend on the set order. -/
theorem build_deterministic_counterexample :
    inputsOf (build Generated.RenamesIR.ir exP id false exReq (fun _ => none)).2 ≠
      inputsOf (build Generated.RenamesIR.ir exP List.reverse false exReq (fun _ => none)).2 := by
  decide

/-! ## `build` as the list of its statements (extracted from `_public.py` on this run) -/

/-- Obligation: the statement list of `build` extracted on this run is the accepted one. -/
theorem generated_build_good : FrontIR.goodShape Generated.BuildFrontIR.ir = true := by decide

theorem build_statements_eq (P : List Obj) (π : List Nat → List Nat) (req : Request) (s : Store) :
    FrontIR.run Generated.BuildFrontIR.ir Generated.RenamesIR.ir P π req s =
      build Generated.RenamesIR.ir P π true req s := by
  rw [FrontIR.goodShape_eq generated_build_good, goodShape_eq generated_good]
  exact FrontIR.run_fixedIR P π req s

/-- Executing the statements of `build` — whichever guard raises, whatever `to_onnx_model` does inside
    the block — leaves every Var's name as it was: a failed build leaves no trace in `_name`. -/
theorem build_statements_restore_names (P : List Obj) (π : List Nat → List Nat) (req : Request)
    (s : Store) : (FrontIR.run Generated.BuildFrontIR.ir Generated.RenamesIR.ir P π req s).1 = s := by
  rw [build_statements_eq]
  exact build_restores_names P π true req s

/-- … and gives one result under every iteration order of Python sets. -/
theorem build_statements_deterministic (P : List Obj) (π π' : List Nat → List Nat)
    (hπ : ∀ l, (π l).Perm l) (hπ' : ∀ l, (π' l).Perm l) (req : Request) (s : Store)
    (hkeys : (req.inputs.map (·.name)).Nodup)
    (hunnamed : ∀ v, v ∉ req.inputs.map (·.obj) → s v = none) :
    FrontIR.run Generated.BuildFrontIR.ir Generated.RenamesIR.ir P π req s =
      FrontIR.run Generated.BuildFrontIR.ir Generated.RenamesIR.ir P π' req s := by
  rw [build_statements_eq, build_statements_eq]
  exact build_deterministic P π π' hπ hπ' req s hkeys hunnamed

/-- The pinned statement list (no re-listing) does depend on the set order. -/
theorem pinned_statements_order_dependent :
    inputsOf (FrontIR.run FrontIR.pinnedIR Generated.RenamesIR.ir exP id exReq (fun _ => none)).2 ≠
      inputsOf (FrontIR.run FrontIR.pinnedIR Generated.RenamesIR.ir exP List.reverse exReq (fun _ => none)).2 := by
  decide

/-! ## Round 10: the exact side condition for determinism, and every history of builds -/

/-- `build_deterministic` under `Front.NoClash` (no unlisted Var carries a name that is a key of
    `inputs` or a requested output name) instead of "every unlisted Var is unnamed": Vars made by the
    internal `arguments_dict` keep preset names through every build, so the old hypothesis was not an
    invariant of programs that use them; `NoClash` is evaluated by the driver on every request. -/
theorem build_deterministic_noclash (P : List Obj) (π π' : List Nat → List Nat)
    (hπ : ∀ l, (π l).Perm l) (hπ' : ∀ l, (π' l).Perm l) (req : Request) (s : Store)
    (hkeys : (req.inputs.map (·.name)).Nodup) (hnc : NoClash req s) :
    build Generated.RenamesIR.ir P π true req s = build Generated.RenamesIR.ir P π' true req s := by
  rw [goodShape_eq generated_good, build_fixed, build_fixed,
    body_perm_invariant' P π π' hπ hπ' req s hkeys hnc]

/-- `NoClash` cannot be dropped: argument 1 is unlisted and carries the preset name `"k"`, which is
    also the key under which argument 0 is listed; both are needed by the output. The graph input
    `"k"` is then whichever of the two the set yields first — the bytes depend on the set order. -/
theorem build_deterministic_noclash_counterexample :
    inputsOf (build Generated.RenamesIR.ir
        [⟨true, false, "1:[]", [1, 0], []⟩, ⟨true, true, "1:[]", [], []⟩, ⟨true, true, "7:[]", [], []⟩]
        id true ⟨[⟨"k", 0⟩], [⟨"y", 2⟩], true⟩ (fun v => if v = 1 then some "k" else none)).2 ≠
    inputsOf (build Generated.RenamesIR.ir
        [⟨true, false, "1:[]", [1, 0], []⟩, ⟨true, true, "1:[]", [], []⟩, ⟨true, true, "7:[]", [], []⟩]
        List.reverse true ⟨[⟨"k", 0⟩], [⟨"y", 2⟩], true⟩ (fun v => if v = 1 then some "k" else none)).2 := by
  decide

/-- One step of a history: `spox.build` (the statement list extracted on this run) on the program as
    it is at that moment, with the set order of that moment. -/
structure Step where
  prog : List Obj
  π : List Nat → List Nat
  π' : List Nat → List Nat      -- a second set order (another process / hash seed), for `history_deterministic`
  req : Request

def stepRun (a : Step) (s : Store) : Store × Except Err Model :=
  FrontIR.run Generated.BuildFrontIR.ir Generated.RenamesIR.ir a.prog a.π a.req s
def stepRun' (a : Step) (s : Store) : Store × Except Err Model :=
  FrontIR.run Generated.BuildFrontIR.ir Generated.RenamesIR.ir a.prog a.π' a.req s

/-- **Every history.** Any number of builds — each on its own program (the process's objects as they
    are at that moment; ids are creation indices, so older Vars keep theirs), with its own request,
    flag, set order, succeeding or failing in any way — run one after the other over the same Vars:
    the `k`-th result is exactly what that build returns when nothing was built before, and at the end
    every Var's `_name` is what it was at the start. (`build_restores_names` lifted from one build to
    all reachable states; no bound on the length.) -/
theorem history_independent (h : List Step) (s : Store) :
    runHist stepRun h s = (s, h.map (fun a => (stepRun a s).2)) :=
  runHist_pure stepRun (fun a s => build_statements_restore_names a.prog a.π a.req s) h s

/-- … and the whole history is independent of the set orders met on the way: two runs of the same
    requests under any two families of set orders (two processes, two hash seeds) return the same list
    of results. The side conditions are about the *initial* store only — `history_independent` is what
    carries them to every later step. -/
theorem history_deterministic (h : List Step) (s : Store)
    (hok : ∀ a ∈ h, (∀ l, (a.π l).Perm l) ∧ (∀ l, (a.π' l).Perm l) ∧
      (a.req.inputs.map (·.name)).Nodup ∧ NoClash a.req s) :
    runHist stepRun h s = runHist stepRun' h s := by
  rw [history_independent, runHist_pure stepRun'
    (fun a s => build_statements_restore_names a.prog a.π' a.req s) h s]
  congr 1
  apply List.map_congr_left
  intro a ha
  obtain ⟨h1, h2, h3, h4⟩ := hok a ha
  unfold stepRun stepRun'
  rw [build_statements_eq, build_statements_eq, build_deterministic_noclash a.prog a.π a.π' h1 h2 a.req s h3 h4]

/-- Non-vacuity: a failing build (one Var under two keys → ScopeError inside the block), then a build
    on a grown program under a reversing set order, then the first request again. -/
example :
    (runHist stepRun
      [⟨exP, id, id, ⟨[⟨"a", 0⟩, ⟨"b", 0⟩], [⟨"y", 2⟩], false⟩⟩,
       ⟨⟨true, false, "1:[]", [2], []⟩ :: exP, List.reverse, id, ⟨[⟨"p", 1⟩, ⟨"q", 0⟩], [⟨"z", 3⟩], true⟩⟩,
       ⟨exP, id, id, exReq⟩] (fun _ => none)).2.map inputsOf
      = [none, some [⟨"p", "1:[]"⟩, ⟨"q", "7:[]"⟩], some [⟨"a", "7:[]"⟩, ⟨"b", "1:[]"⟩]] := by decide

/-- **Regardless of what was constructed afterwards.** Objects newer than everything the request
    mentions (`Q`, any number, of any kind: values, arguments, nodes with subgraphs that use the old
    Vars) do not influence the build: same names afterwards, same result — model or error class — for
    every set order, flag and store. (`WF`: every reference points to an older object — true of every
    Python program; the driver evaluates it as `wfb` on every program, `Front.wfb_iff`.) Together with
    `history_independent`, whose steps each carry their own program: a build depends on the Vars it is
    given and what they were made from — not on what else the process constructed or built, before or after. -/
theorem build_ignores_newer_objects (Q P : List Obj) (hwf : WF (Q ++ P)) (π : List Nat → List Nat)
    (hπ : ∀ l, (π l).Perm l) (fixed : Bool) (req : Request) (s : Store)
    (hin : ∀ e ∈ req.inputs, e.obj < P.length) (hout : ∀ e ∈ req.outputs, e.obj < P.length) :
    build Generated.RenamesIR.ir (Q ++ P) π fixed req s = build Generated.RenamesIR.ir P π fixed req s := by
  induction Q with
  | nil => rfl
  | cons o Q ih =>
    have hwf' : WF (Q ++ P) := hwf.2.2
    rw [List.cons_append, build_cons _ o (Q ++ P) hwf' π hπ fixed req s
      (fun e he => by have := hin e he; simp only [List.length_append]; omega)
      (fun e he => by have := hout e he; simp only [List.length_append]; omega)]
    exact ih hwf'

/-- Non-vacuity: two newer objects (a value using `y`, and an argument) in front of the witness program. -/
example :
    inputsOf (build Generated.RenamesIR.ir
      ([⟨true, true, "9:[]", [], []⟩, ⟨true, false, "1:[]", [2, 0], []⟩] ++ exP) List.reverse true exReq (fun _ => none)).2
      = some [⟨"a", "7:[]"⟩, ⟨"b", "1:[]"⟩] ∧
    wfb ([⟨true, true, "9:[]", [], []⟩, ⟨true, false, "1:[]", [2, 0], []⟩] ++ exP) = true := by decide

/-! ## Purity: the statements of spox that write to lasting state (table extracted from /repo) -/

/-- Every statement of `src/spox/_*.py` that writes to an attribute, an item of an attribute or of
    a module-level container, rebinds a global, or calls `_rename`, is of an allowed kind
    (`Purity.classify`): constructor initialisation, state of a per-build object, memoisation of a
    pure result, a field of a Var/protobuf created by the same call, a scoped setting, or one of the
    swap-and-restore pairs. In particular no statement assigns a Var's type/_value/_name/_op
    outside those. -/
theorem writes_allowed : Generated.Writes.sites.all Purity.allowed = true := by decide

/-- The only non-constructor writes to `Var.type/_value/_name/_op` are the swap in
    `_temporary_renames`, the setter `Var._rename`, and initialisations of Vars made by the same call. -/
theorem var_writes_ok : Purity.varWritesOk Generated.Writes.sites = true := by decide

/-- The three swap-and-restore sites (`_temporary_renames`, `_Inline.model` in `adapt_inline`,
    `StandardNode.attrs` in `to_singleton_onnx_model`) restore inside a `finally`, and write
    nowhere outside the `try`. -/
theorem swaps_restored : Purity.swapsRestored Generated.Writes.sites = true := by decide

/-- `inline` copies the model it is given before the first statement that mutates it, and only the
    copy is reachable from the returned callback. -/
theorem inline_copies_first : Purity.copyBeforeMutate Generated.Writes.inlineEvents = true := by decide

/-- No class of the hand-written modules has a mutable container (`set()`, `{}`, `[]`, `dict()`,
    `list()` …) assigned in its class body: such an object would be shared by every instance —
    every Builder, Scope, Graph, Node of the process — and carry state from one build to the next. -/
theorem no_class_level_mutable_state : Generated.Writes.classMutables = [] := by decide

/-- No function or class of the hand-written modules carries a memoising decorator (`lru_cache`,
    `cache`, `cached_property` … keep results between builds without any write site): every decorator
    in the tree is one of the stateless ones (`property`, `classmethod`, `contextmanager`, `dataclass` …). -/
theorem no_memoising_decorators : Purity.decoratorsOk Generated.Writes.decorators = true := by decide

/-- Every module-level container is a `TypeVar`, an `__all__` list, or one of the tables `_schemas.py`
    computes at import time — and no statement writes into those: there is no module-level cache
    (dict / `WeakKeyDictionary` keyed by node, name, opsets …) that a later build could read. -/
theorem no_module_level_caches :
    Purity.moduleMutablesOk Generated.Writes.moduleMutables = true ∧
    Purity.importTablesReadOnly Generated.Writes.sites = true := by decide

/-- `__dict__` / `vars()` — the way to attach state to a node without an attribute assignment — is
    used only by the field enumeration in `_fields.py`; a mutator call through it
    (`node.__dict__.setdefault(…)`) would in addition be a `mutate-attr` site rejected by `writes_allowed`. -/
theorem dict_backdoor_unused : Purity.dictAccessOk Generated.Writes.dictAccess = true := by decide

/-- The `rename` site in `Builder.get_intro_results` is classified `freshVar` by `Purity.classify`;
    that is right only if the Vars it renames were made by this very call. Extracted on this run:
    `intros` is a single `return _Introduce(…).outputs.outputs` (always a new node — no fast path
    that hands the caller's Vars back), `get_intro_results` renames only elements of
    `intros(*request_results.values())`, `intro` returns an element of `intros(*args)`, and
    `unsafe_cast` assigns `.type` only on `y = intro(x)`. Hence a Var a user obtained from `intro` /
    `unsafe_cast` / `unsafe_reshape` and requests as an output is never itself renamed by a build. -/
theorem intro_results_are_fresh :
    FrontFacts.introFactsOk Generated.FrontFacts.introFacts = true := by decide

/-- What makes the `freshProto` classification of the three writes in
    `_adapt._initializers_to_constants` true (extracted on this run): the helper is called, only with
    `<v>.graph` where `<v>` is assigned once, from `onnx.version_converter.convert_version(…)` — the
    converter's own output, not the model `inline` was given and not `_Inline.model` — and it writes
    nothing but its parameter. -/
theorem converter_output_is_fresh :
    FrontFacts.converterFactsOk Generated.FrontFacts.converterFacts = true := by decide

/-- Nothing in the hand-written modules calls `hash()` (salted per interpreter for strings), `id()`,
    `random`, `uuid`, `time`, `datetime`, `secrets`, `os.urandom/getpid`, `tempfile` or
    `object.__hash__/__repr__`: no name, digest or suffix in a built model can be derived from the
    hash seed or an address through an *explicit* call (set iteration is the other way in; that is `π`). -/
theorem no_process_dependent_calls : Generated.FrontFacts.processDependent = [] := by decide

/-- Tie G for the set-order face of determinism on the `inline` route: the only place in `_public.py`
    (`build`, `inline`, the initializer / sparse-initializer preamble) and `_inline.py` where an *order* is
    taken from a set — a loop / comprehension over, or `list`/`tuple`/`join`/`extend`/splat of, a set literal,
    `set(…)`, `a - b` / `a | b` / `a & b` with a set or dict view on one side, or a local assigned from one —
    is `for name in missing` in `inline`, which only fills a dictionary read back in list order. A new
    iteration such as `for n in sparse_defaults.keys() - input_names` adds a row and this fails.
    (`build`'s own set order enters through `Builder` and is the parameter `π` of the theorems above.) -/
theorem inline_set_iterations_known :
    FrontFacts.setIterOk Generated.FrontFacts.setIterations = true := by decide

/-! ## Memoised build results (`Graph._build_result`) -/

/-- **cache_transparent.** For any sequence of reads (`_get_build_result`) and setter calls on a
    Graph in which every setter that changes what the build depends on (requested results /
    arguments) starts the new Graph with its own cache, every read through the cache returns what
    recomputation would return at that moment — whatever `compute` is. -/
theorem cache_transparent {K R : Type} (compute : K → R) (ops : List (Memo.Op K)) (g : Memo.G K R)
    (hr : Memo.resetting ops = true) (hg : Memo.Inv compute g) :
    Memo.reads compute g ops = Memo.spec compute g.key ops :=
  Memo.reads_eq_spec compute ops g hr hg

/-- … and that is how the setters of `Graph` in /repo are written now (table extracted on this run). -/
theorem setters_reset :
    Memo.settersOk Generated.GraphSetters.builderReads Generated.GraphSetters.setters = true := by decide

/-- `_get_build_result` is `if cache is None: cache = compute; return cache`. -/
theorem memo_guarded : Generated.GraphSetters.memoGuarded = true := by decide

/-- Every attribute of a Graph that `_build.py` reads is one this model knows: a field (then part of
    the key, and `setters_reset` demands that its setters reset the cache) or a method that puts no
    field into the build result. -/
theorem builder_reads_known : Memo.readsKnown Generated.GraphSetters.builderReads = true := by decide

/-- The key is not empty and contains what the statement is about: requested results and arguments. -/
theorem key_has_results_and_arguments :
    (Memo.keyFieldsOf Generated.GraphSetters.builderReads).contains "_results" = true ∧
    (Memo.keyFieldsOf Generated.GraphSetters.builderReads).contains "_arguments" = true := by decide

/-- A key-changing setter that shares the cache (the pinned `with_arguments`) returns stale results. -/
theorem cache_stale_counterexample :
    Memo.reads (fun k : Nat => k) ⟨0, none⟩ [.get, .setKey 1 false, .get] ≠
      Memo.spec (fun k : Nat => k) 0 [.get, .setKey 1 false, .get] := by decide

end C12
