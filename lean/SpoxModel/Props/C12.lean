import SpoxModel.Lemmas.Renames
import SpoxModel.Lemmas.Front
import SpoxModel.Generated.RenamesIR
/-!
# C12 — build and inline are pure, repeatable and independent of process history

Property theorems only.
-/
namespace C12
open Renames Front

/-- Obligation tying the theorems to the source: the IR extracted from `_public.py` on this run has
    the accepted shape. -/
theorem generated_good : goodShape Generated.RenamesIR.ir = true := by decide

/-- **Full strength**: for any accepted IR, any keyword dictionary (also with one Var under several
    keys, also with Vars that already had names), and any block body that itself leaves names
    alone — whether it returns or raises — every Var's `_name` afterwards equals its value before. -/
theorem renames_restored_shape {β} (ir : List Stmt) (h : goodShape ir = true)
    (kw : List (String × Nat)) (body : Store → Store × Outcome × β)
    (hbody : ∀ s, (body s).1 = s) (s : Store) :
    (run ir kw body s).1 = s := by
  sorry

/-- … for `_temporary_renames` as it is in /repo now. -/
theorem renames_restored {β} (kw : List (String × Nat)) (body : Store → Store × Outcome × β)
    (hbody : ∀ s, (body s).1 = s) (s : Store) :
    (run Generated.RenamesIR.ir kw body s).1 = s :=
  renames_restored_shape _ generated_good kw body hbody s

/-- Inside the block every listed Var carries its key (no Var listed twice). -/
theorem names_in_force {β} (kw : List (String × Nat)) (body : Store → Store × Outcome × β) (s : Store)
    (h : (kw.map (·.2)).Nodup) :
    run Generated.RenamesIR.ir kw body s =
      run Generated.RenamesIR.ir kw (fun _ => body (enter kw s)) s ∧
    ∀ k v, (k, v) ∈ kw → enter kw s v = some k := by
  sorry

/-- The pinned shape (`pre[arg] = arg._name`) leaks when one Var occurs under two keys. -/
theorem renames_pinned_counterexample :
    (run (β := Unit) pinnedIR [("a", 0), ("b", 0)] (fun s => (s, .exn, ())) (fun _ => none)).1 0 = some "a" := by
  decide

/-- Without `finally` a raising body leaves the temporary name behind. -/
theorem renames_nofinally_counterexample :
    (run (β := Unit) noFinallyIR [("a", 0)] (fun s => (s, .exn, ())) (fun _ => none)).1 0 = some "a" := by
  decide

/-- `build` leaves every Var's name as it found it, whatever the outcome (model, KeyError,
    TypeError, BuildError, ScopeError …): a failed build leaves no trace in `_name`. -/
theorem build_restores_names (P : List Obj) (π : List Nat → List Nat) (fixed : Bool) (req : Request)
    (s : Store) : (build Generated.RenamesIR.ir P π fixed req s).1 = s := by
  sorry

/-- `build` does not depend on the iteration order of Python sets (object addresses, hash seed):
    any two permutation functions give the same result — model, or error class. -/
theorem build_deterministic (P : List Obj) (π π' : List Nat → List Nat)
    (hπ : ∀ l, (π l).Perm l) (hπ' : ∀ l, (π' l).Perm l) (req : Request) (s : Store)
    (hkeys : (req.inputs.map (·.name)).Nodup)
    (hunnamed : ∀ v, v ∉ req.inputs.map (·.obj) → s v = none) :
    build Generated.RenamesIR.ir P π true req s = build Generated.RenamesIR.ir P π' true req s := by
  sorry

def exP : List Obj :=
  [⟨true, false, "1:[]", [1, 0], []⟩, ⟨true, true, "1:[]", [], []⟩, ⟨true, true, "7:[]", [], []⟩]
def exReq : Request := ⟨[⟨"a", 0⟩, ⟨"b", 1⟩], [⟨"y", 2⟩], true⟩
def inputsOf (r : Except Err Model) : Option (List VInfo) :=
  match r with | .ok m => some m.inputs | .error _ => none

/-- Before the fix (`fixed = false`) the result did depend on the set order. -/
theorem build_deterministic_counterexample :
    inputsOf (build Generated.RenamesIR.ir exP id false exReq (fun _ => none)).2 ≠
      inputsOf (build Generated.RenamesIR.ir exP List.reverse false exReq (fun _ => none)).2 := by
  decide

end C12
