/-! Property theorems for C12 (only property-level statements and non-vacuity examples live here). -/
