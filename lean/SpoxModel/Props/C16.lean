import SpoxModel.Lemmas.Ctx
import SpoxModel.Lemmas.CtxProg
import SpoxModel.Generated.CtxIR
import SpoxModel.Generated.CtxWrites
import SpoxModel.Generated.ModuleState
/-!
# C16 — scoped settings are restored on every exit from their block

Property theorems only. The IR of the three managers is the one *extracted from /repo* on this run
(`Generated.CtxIR.managers`); `generated_good` is the obligation that ties the general theorem to
the source.
-/
namespace C16
open Ctx

@[simp] theorem snap_glob (w : World) : w.snap.glob = w.glob := rfl

mutual
/-- Any block — any manager, any nesting below it, any body outcome at any depth — leaves the
    three settings exactly as they were before the block was entered. -/
theorem runBlock_restores (M : Managers) (hM : M.Good) :
    (b : Block) → (w : World) → (runBlock M b w).1.glob = w.glob
  | .withB which arg inner raises, w => by
    simp only [runBlock, snap_glob]
    apply exec_good _ (hM which)
    intro l
    have := runBlocks_restores M hM inner (World.snap ⟨setG w.glob which arg, l⟩)
    generalize runBlocks M inner (World.snap ⟨setG w.glob which arg, l⟩) = r at this
    obtain ⟨w2, o⟩ := r
    cases o <;> simpa using this
theorem runBlocks_restores (M : Managers) (hM : M.Good) :
    (bs : List Block) → (w : World) → (runBlocks M bs w).1.glob = w.glob
  | [], _ => rfl
  | b :: bs, w => by
    have h1 := runBlock_restores M hM b w
    simp only [runBlocks]
    generalize runBlock M b w = r at h1
    obtain ⟨w1, o⟩ := r
    simp only at h1
    cases o
    · simpa [h1] using runBlocks_restores M hM bs w1
    · simpa using h1
end

/-- Histories: any sequence of top-level blocks (each caught by the caller). -/
theorem runTop_restores (M : Managers) (hM : M.Good) :
    (bs : List Block) → (w : World) → (runTop M bs w).glob = w.glob
  | [], _ => rfl
  | b :: bs, w => by
    simp only [runTop]
    rw [runTop_restores M hM bs, runBlock_restores M hM b w]

/-- Obligation tying the theorem to the source: the IR extracted from `_future.py` on this run has
    an accepted shape for all three managers. -/
theorem generated_good : Generated.CtxIR.managers.Good := by decide

/-- **C16.** For the managers as they are in /repo now: after any block program (entering and
    leaving `type_warning_level`, `value_prop_backend`, `operator_overloading` nested arbitrarily,
    any body completing normally or raising) each setting has its value from before the block. -/
theorem settings_restored (b : Block) (w : World) :
    (runBlock Generated.CtxIR.managers b w).1.glob = w.glob :=
  runBlock_restores _ generated_good b w

theorem settings_restored_history (bs : List Block) (w : World) :
    (runTop Generated.CtxIR.managers bs w).glob = w.glob :=
  runTop_restores _ generated_good bs w

/-- **Code run later sees the settings in force when it runs**: anything whose behaviour is a function of the
    settings in force at the time of the call (the body of a `to_function` function, of a Function class, a
    subgraph or `inline` callback, an operator on Vars created earlier) behaves after any block program exactly as
    before it - whatever happened inside, including the object's creation or first use. (That the real bodies ARE
    functions of the settings at call time - nothing captured at creation or first use - is what the carrier
    scenarios check on every run.) -/
theorem behaviour_after_blocks {α : Type} (f : Globals → α) (bs : List Block) (w : World) :
    f (runTop Generated.CtxIR.managers bs w).glob = f w.glob := by
  rw [settings_restored_history bs w]

/-- Inside the block the setting *is* in force: the body of a block over manager `which` with
    argument `arg` is run exactly in the world where that setting is `arg` and the others are
    untouched (the manager run with `body` equals the run with `body` evaluated at that world). -/
theorem inside_in_force (M : Managers) (hM : M.Good) (which : Fin 3) (arg : Nat)
    (body : World → World × Outcome) (w : World) :
    exec which arg body (M.ir which) ⟨w, 0⟩ =
      exec which arg (fun _ => body ⟨setG w.glob which arg, w.log⟩) (M.ir which) ⟨w, 0⟩ := by
  rcases goodShape_cases (hM which) with h | h <;> rw [h] <;> simp [shapeA, shapeB, exec, execStmt]

/-- **Whatever the body does** — including switching the block's own setting with the public non-scoped
    setter, any number of times — on exit (normal or by an exception) the block's own setting has its value
    from before the block, and the other two settings are exactly as the body left them (the manager
    touches nothing else). The body is an arbitrary function of the world. -/
theorem own_setting_restored_any_body (M : Managers) (hM : M.Good) (which : Fin 3) (arg : Nat)
    (body : World → World × Outcome) (w : World) :
    (exec which arg body (M.ir which) ⟨w, 0⟩).1.world.glob which = w.glob which ∧
    (∀ j, j ≠ which → (exec which arg body (M.ir which) ⟨w, 0⟩).1.world.glob j
        = (body ⟨setG w.glob which arg, w.log⟩).1.glob j) ∧
    (exec which arg body (M.ir which) ⟨w, 0⟩).2 = (body ⟨setG w.glob which arg, w.log⟩).2 := by
  rcases goodShape_cases (hM which) with h | h <;> rw [h] <;>
    simp only [shapeA, shapeB, exec, execStmt] <;>
    generalize body _ = r <;> obtain ⟨w', o⟩ := r <;> cases o <;> simp [setG]
  all_goals (intro j hj; simp [hj])

/-- For the managers as they are in /repo now. -/
theorem settings_restored_any_body (which : Fin 3) (arg : Nat) (body : World → World × Outcome) (w : World) :
    (exec which arg body (Generated.CtxIR.managers.ir which) ⟨w, 0⟩).1.world.glob which = w.glob which :=
  (own_setting_restored_any_body _ generated_good which arg body w).1

/-- The shape on the pinned tree (no `try/finally`) does leak: the full statement is false of it. -/
theorem pinned_counterexample :
    (runBlock ⟨fun _ => pinnedIR⟩ (.withB 0 7 [] true) ⟨fun _ => 1, []⟩).1.glob 0 = 7 := by decide

/-! ## Round 10 — block *programs*: refinement of the IR semantics to an IR-free specification

Bodies are arbitrary command lists (`Model/CtxProg.lean`): `with` blocks, calls of the public non-scoped setters
at any position, snapshots, `raise` at any position, `try … except: pass` inside bodies. -/

mutual
/-- **Refinement.** For managers of an accepted shape, running any program *through the managers' IR* (CPython's
    generator protocol on the extracted statements) is the same — final settings, every snapshot, outcome — as
    the IR-free specification "override the setting, run the body, put the setting back whatever happened". -/
theorem runCmd_refines_spec (M : Managers) (hM : M.Good) :
    (c : Cmd) → (w : World) → runCmd M c w = specCmd c w
  | .withC which arg body, w => by
    have ih : runCmds M body = specCmds body := funext (runCmds_refines_spec M hM body)
    simp only [runCmd, specCmd, exec_good_eq _ (hM which), ih]
  | .set _ _, _ => rfl
  | .snap, _ => rfl
  | .raise, _ => rfl
  | .tryC body, w => by simp only [runCmd, specCmd, runCmds_refines_spec M hM body w]
theorem runCmds_refines_spec (M : Managers) (hM : M.Good) :
    (cs : List Cmd) → (w : World) → runCmds M cs w = specCmds cs w
  | [], _ => rfl
  | c :: cs, w => by
    simp only [runCmds, specCmds, runCmd_refines_spec M hM c w]
    generalize specCmd c w = r
    obtain ⟨w1, o⟩ := r
    cases o
    · exact runCmds_refines_spec M hM cs w1
    · rfl
end

/-- The refinement for the managers as they are in /repo now. -/
theorem programs_refine_spec (cs : List Cmd) (w : World) :
    runCmds Generated.CtxIR.managers cs w = specCmds cs w :=
  runCmds_refines_spec _ generated_good cs w

/-- What a `with` block does, in one line (on the specification): its own setting is back, every other setting
    is as the body left it, the outcome is the body's. The body is any program. -/
theorem spec_with (which : Fin 3) (arg : Nat) (body : List Cmd) (w : World) (j : Fin 3) :
    (specCmd (.withC which arg body) w).1.glob j =
      if j = which then w.glob which
      else (specCmds body (w.put (setG w.glob which arg))).1.glob j := by
  simp only [specCmd, World.put, setG]

mutual
/-- **Frame / confinement.** A setting whose non-scoped setter the program never calls has, after the program,
    its value from before — whatever else happens: blocks over it or over the others nested in any order, setters
    of the *other* settings, exceptions raised anywhere, exceptions caught inside bodies. -/
theorem specCmd_frame (j : Fin 3) :
    (c : Cmd) → (w : World) → cmdSets j c = false → (specCmd c w).1.glob j = w.glob j
  | .withC which arg body, w, h => by
    rw [spec_with]
    by_cases hj : j = which
    · simp [hj]
    · simp only [hj, if_false]
      rw [specCmds_frame j body _ (by simpa [cmdSets] using h)]
      simp [World.put, setG, hj]
  | .set which v, w, h => by
    have : ¬ j = which := fun e => by simp [cmdSets, e] at h
    simp [specCmd, World.put, setG, this]
  | .snap, _, _ => rfl
  | .raise, _, _ => rfl
  | .tryC body, w, h => by
    simp only [specCmd]
    exact specCmds_frame j body w (by simpa [cmdSets] using h)
theorem specCmds_frame (j : Fin 3) :
    (cs : List Cmd) → (w : World) → cmdsSets j cs = false → (specCmds cs w).1.glob j = w.glob j
  | [], _, _ => rfl
  | c :: cs, w, h => by
    simp only [cmdsSets, Bool.or_eq_false_iff] at h
    have h1 := specCmd_frame j c w h.1
    simp only [specCmds]
    generalize specCmd c w = r at h1
    obtain ⟨w1, o⟩ := r
    cases o
    · simp only at h1 ⊢
      rw [specCmds_frame j cs w1 h.2, h1]
    · exact h1
end

/-- **C16 for programs, on the code's IR.** After any program run through the managers extracted from /repo, every
    setting whose non-scoped setter was not called is exactly what it was before. -/
theorem program_setting_restored (j : Fin 3) (cs : List Cmd) (w : World) (h : cmdsSets j cs = false) :
    (runCmds Generated.CtxIR.managers cs w).1.glob j = w.glob j := by
  rw [programs_refine_spec]; exact specCmds_frame j cs w h

/-- A `with` block confines even the non-scoped setter of its own setting: whatever the body is (setter calls of
    the block's own setting at any depth, raising or not), the setting is back on exit. On the code's IR. -/
theorem program_with_confines (which : Fin 3) (arg : Nat) (body : List Cmd) (w : World) :
    (runCmd Generated.CtxIR.managers (.withC which arg body) w).1.glob which = w.glob which := by
  rw [runCmd_refines_spec _ generated_good, spec_with]; simp

/-- **The managers are transparent to control flow.** On the code's IR: a `with` block raises exactly when its body
    (run with the setting overridden) raises — it neither swallows nor invents an exception — and it adds nothing
    to and removes nothing from what the body observes. -/
theorem program_with_transparent (which : Fin 3) (arg : Nat) (body : List Cmd) (w : World) :
    (runCmd Generated.CtxIR.managers (.withC which arg body) w).2 =
      (runCmds Generated.CtxIR.managers body (w.put (setG w.glob which arg))).2 ∧
    (runCmd Generated.CtxIR.managers (.withC which arg body) w).1.log =
      (runCmds Generated.CtxIR.managers body (w.put (setG w.glob which arg))).1.log := by
  rw [runCmd_refines_spec _ generated_good, runCmds_refines_spec _ generated_good]
  exact ⟨rfl, rfl⟩

/-- **In force at every depth.** Code under a stack `p` of enclosing blocks (outermost first) runs exactly in the
    world where the settings are `enter w.glob p`; its snapshots and its outcome are what comes out. -/
theorem spec_nest (inner : List Cmd) :
    (p : List (Fin 3 × Nat)) → (w : World) →
      (specCmds (nest p inner) w).1.log = (specCmds inner (w.put (enter w.glob p))).1.log ∧
      (specCmds (nest p inner) w).2 = (specCmds inner (w.put (enter w.glob p))).2
  | [], _ => ⟨rfl, rfl⟩
  | (i, a) :: p, w => by
    have ih := spec_nest inner p (w.put (setG w.glob i a))
    simp only [nest, specCmds_single, specCmd, enter]
    exact ih

/-- … and `enter` is "the innermost enclosing block of a setting wins, the others are untouched". -/
theorem enter_innermost (g : Globals) (p : List (Fin 3 × Nat)) (i : Fin 3) (a : Nat) (j : Fin 3) :
    enter g (p ++ [(i, a)]) j = if j = i then a else enter g p j := by
  rw [enter_append]; rfl

/-- On the code's IR: a snapshot taken under any stack of enclosing blocks shows exactly `enter w.glob p`. -/
theorem program_inside_in_force (p : List (Fin 3 × Nat)) (w : World) :
    (runCmds Generated.CtxIR.managers (nest p [.snap]) w).1.log =
      w.log ++ [[enter w.glob p 0, enter w.glob p 1, enter w.glob p 2]] := by
  rw [programs_refine_spec, (spec_nest [.snap] p w).1]; rfl

/-- **C16 at the level of histories, on the code's IR.** Run any LIST of top-level programs one after another from
    any world (each caught by the caller; every program arbitrary: blocks nested in any order, setters of the other
    settings, exceptions raised or caught anywhere). A setting whose non-scoped setter none of them calls is at its
    initial value after EACH of them. -/
theorem history_setting_restored (j : Fin 3) :
    (ps : List (List Cmd)) → (w : World) → (∀ p ∈ ps, cmdsSets j p = false) →
      ∀ w' ∈ historyStates Generated.CtxIR.managers ps w, w'.glob j = w.glob j
  | [], _, _, w', hw' => by simp [historyStates] at hw'
  | p :: ps, w, h, w', hw' => by
    have hp := program_setting_restored j p w (h p (List.mem_cons_self ..))
    simp only [historyStates, List.mem_cons] at hw'
    rcases hw' with rfl | hw'
    · exact hp
    · rw [← hp]
      exact history_setting_restored j ps _ (fun q hq => h q (List.mem_cons_of_mem _ hq)) w' hw'

/-- … in particular at the end of the history, which is the final world of the program `try: p₁ …; try: p₂ …; …`
    that the driver runs against the real code (`runHistory_eq_tryC`). -/
theorem history_end_restored (j : Fin 3) (ps : List (List Cmd)) (w : World)
    (h : ∀ p ∈ ps, cmdsSets j p = false) :
    (runCmds Generated.CtxIR.managers (ps.map .tryC) w).1.glob j = w.glob j := by
  rw [runHistory_eq_tryC]
  cases hps : ps with
  | nil => rfl
  | cons p qs =>
    have hl := historyStates_getLast Generated.CtxIR.managers ps w
    rw [hps] at hl
    simp only [reduceCtorEq, if_false] at hl
    rw [← hps] at hl
    exact history_setting_restored j ps w h _ (List.mem_of_getLast? hl) |> (hps ▸ ·)

/-- **The older block histories ARE programs** (fragment without raising bodies — `runBlock` snapshots after an exit
    also on the way out of an exception, which no `Cmd` program does): for managers of an accepted shape, running a
    forest of `Block`s is running the program `blocksCmds bs` (each block followed by a snapshot), hence — by the
    refinement — the IR-free specification of it: final settings, every snapshot, outcome. -/
theorem blocks_are_programs (bs : List Block) (w : World) (h : blocksNoRaise bs = true) :
    runBlocks Generated.CtxIR.managers bs w = specCmds (blocksCmds bs) w := by
  rw [(runBlocks_as_cmds _ generated_good bs w h).1, programs_refine_spec]

/-- `runBlocks_restores` on that fragment, now as a COROLLARY of the refinement (`program_setting_restored`): the
    translated program calls no setter, so every setting is restored. -/
theorem blocks_restored_via_refinement (bs : List Block) (w : World) (h : blocksNoRaise bs = true) :
    (runBlocks Generated.CtxIR.managers bs w).1.glob = w.glob := by
  funext j
  rw [(runBlocks_as_cmds _ generated_good bs w h).1]
  exact program_setting_restored j _ w (blocksCmds_noSet j bs)

example : blocksNoRaise [.withB 0 3 [.withB 1 2 [.withB 2 9 [] false] false, .withB 2 5 [] false] false] = true ∧
    (runBlocks Generated.CtxIR.managers
      [.withB 0 3 [.withB 1 2 [] false] false] ⟨fun _ => 1, []⟩).1.log = [[3, 1, 1], [3, 2, 1], [3, 1, 1], [1, 1, 1]] := by
  decide

/-- Non-vacuity: a three-program history (raising, setters of settings 0 and 1, a caught exception); setting 2 is
    never set by a setter and is 1 after each program; the hypothesis holds. -/
example :
    let ps : List (List Cmd) := [[.withC 2 4 [.set 0 2, .raise]], [.set 1 0, .withC 2 3 [.tryC [.withC 2 2 [.raise]], .snap]],
      [.withC 0 3 [.withC 2 2 [.set 1 2]], .raise]]
    (∀ p ∈ ps, cmdsSets 2 p = false) ∧
    (historyStates Generated.CtxIR.managers ps ⟨fun _ => 1, []⟩).map (fun w => [w.glob 0, w.glob 1, w.glob 2]) =
      [[2, 1, 1], [2, 0, 1], [2, 2, 1]] := by decide

/-- Non-vacuity: a program with a setter of the block's own setting inside a nested, raising, partly caught body. -/
example :
    let r := runCmds Generated.CtxIR.managers
      [.withC 0 3 [.snap, .set 0 2, .tryC [.withC 1 2 [.set 0 1, .snap, .raise]], .snap, .set 1 0, .raise]]
      ⟨fun _ => 1, []⟩
    r.1.log = [[3, 1, 1], [1, 2, 1], [1, 1, 1]] ∧ r.2 = .exn ∧ [r.1.glob 0, r.1.glob 1, r.1.glob 2] = [1, 0, 1] := by
  decide

example : cmdsSets 2 [.withC 0 3 [.set 0 2, .tryC [.withC 2 2 [.set 1 1, .raise]]]] = false := by decide

/-- The pinned (pre-fix) shape does not refine the specification. -/
theorem pinned_program_counterexample :
    (runCmds ⟨fun _ => pinnedIR⟩ [.tryC [.withC 0 7 [.raise]]] ⟨fun _ => 1, []⟩).1.glob 0 = 7 ∧
    (specCmds [.tryC [.withC 0 7 [.raise]]] ⟨fun _ => 1, []⟩).1.glob 0 = 1 := by decide

/-! ## Nothing else writes the settings (tie G: inventory of write sites over all of `src/spox`) -/

open Generated.CtxWrites in
/-- The manager whose IR (`Generated.CtxIR`) accounts for writes of a setting. -/
def managerOf : Nat → String
  | 0 => "type_warning_level"
  | 1 => "value_prop_backend"
  | _ => "operator_overloading"

/-- Where a setting is defined (file, scope). -/
def homeOf : Nat → String × String
  | 0 => ("src/spox/_node.py", "<module>")
  | 1 => ("src/spox/_value_prop.py", "<module>")
  | _ => ("src/spox/_var.py", "Var")

/-- A write site the model accounts for: the defining assignment in the home module; an assignment or a
    setter call inside the setting's own manager in `_future.py` (their order and `try/finally` shape is
    what `generated_good` checks); the body of a public one-line setter function (`set_…`, not scoped by
    design). Deletions, `setattr`, `global` re-bindings, by-value copies (`from … import NAME`), writes in
    any other function or module, unparsable files: not accounted for. -/
def siteCovered (s : Generated.CtxWrites.Site) : Bool :=
  (s.kind == "default" && (s.file, s.scope) == homeOf s.setting)
  || (s.file == "src/spox/_future.py" && (s.kind == "assign" || s.kind == "setter-call")
        && s.scope == managerOf s.setting)
  || (s.file == "src/spox/_future.py" && s.kind == "assign"
        && Generated.CtxWrites.setters.contains s.scope)

/-- Obligation: every site of `src/spox` that writes one of the three settings on this run is one the
    managers' IR or the public setters account for. -/
theorem write_sites_covered : ∀ s ∈ Generated.CtxWrites.sites, siteCovered s = true := by decide +kernel

/-- Every setting has its defining assignment (so that the inventory did look at the right names). -/
theorem write_sites_defaults :
    ∀ i ∈ [0, 1, 2], (Generated.CtxWrites.sites.filter (fun s => s.setting == i && s.kind == "default")).length = 1 := by
  decide +kernel

/-- Obligation (tie G): the process-wide mutable state of spox's core modules - names bound to mutable containers at
    module or class level, caching decorators, `global` re-bindings, state kept on function objects - is exactly this
    list (two registries of operator schemas, filled at import). A new cache or memo (through which something
    computed under one value of a setting could outlive the block, keyed without the setting) fails this. -/
theorem module_state_inventory :
    Generated.ModuleState.items =
      [("src/spox/_schemas.py", "<module>", "DOMAINS", "set"),
       ("src/spox/_schemas.py", "<module>", "DOMAIN_VERSIONS", "dict")] := by decide +kernel

/-- Non-vacuity: a nested, raising program over all three managers on the generated IR. -/
example : (runTop Generated.CtxIR.managers
    [.withB 0 3 [.withB 1 2 [.withB 2 9 [] true] false, .withB 2 5 [] false] true]
    ⟨fun _ => 1, []⟩).glob 0 = 1 := by decide

end C16
