import SpoxModel.Lemmas.Ctx
import SpoxModel.Generated.CtxIR
import SpoxModel.Generated.CtxWrites
import SpoxModel.Generated.ModuleState
/-!
# C16 — scoped settings are restored on every exit from their block

Property theorems only. The IR of the three managers is the one *extracted from /repo* on this run
(`Generated.CtxIR.managers`); `generated_good` is the obligation that ties the general theorem to
the source.
-/
namespace C16
open Ctx

@[simp] theorem snap_glob (w : World) : w.snap.glob = w.glob := rfl

mutual
/-- Any block — any manager, any nesting below it, any body outcome at any depth — leaves the
    three settings exactly as they were before the block was entered. -/
theorem runBlock_restores (M : Managers) (hM : M.Good) :
    (b : Block) → (w : World) → (runBlock M b w).1.glob = w.glob
  | .withB which arg inner raises, w => by
    simp only [runBlock, snap_glob]
    apply exec_good _ (hM which)
    intro l
    have := runBlocks_restores M hM inner (World.snap ⟨setG w.glob which arg, l⟩)
    generalize runBlocks M inner (World.snap ⟨setG w.glob which arg, l⟩) = r at this
    obtain ⟨w2, o⟩ := r
    cases o <;> simpa using this
theorem runBlocks_restores (M : Managers) (hM : M.Good) :
    (bs : List Block) → (w : World) → (runBlocks M bs w).1.glob = w.glob
  | [], _ => rfl
  | b :: bs, w => by
    have h1 := runBlock_restores M hM b w
    simp only [runBlocks]
    generalize runBlock M b w = r at h1
    obtain ⟨w1, o⟩ := r
    simp only at h1
    cases o
    · simpa [h1] using runBlocks_restores M hM bs w1
    · simpa using h1
end

/-- Histories: any sequence of top-level blocks (each caught by the caller). -/
theorem runTop_restores (M : Managers) (hM : M.Good) :
    (bs : List Block) → (w : World) → (runTop M bs w).glob = w.glob
  | [], _ => rfl
  | b :: bs, w => by
    simp only [runTop]
    rw [runTop_restores M hM bs, runBlock_restores M hM b w]

/-- Obligation tying the theorem to the source: the IR extracted from `_future.py` on this run has
    an accepted shape for all three managers. -/
theorem generated_good : Generated.CtxIR.managers.Good := by decide

/-- **C16.** For the managers as they are in /repo now: after any block program (entering and
    leaving `type_warning_level`, `value_prop_backend`, `operator_overloading` nested arbitrarily,
    any body completing normally or raising) each setting has its value from before the block. -/
theorem settings_restored (b : Block) (w : World) :
    (runBlock Generated.CtxIR.managers b w).1.glob = w.glob :=
  runBlock_restores _ generated_good b w

theorem settings_restored_history (bs : List Block) (w : World) :
    (runTop Generated.CtxIR.managers bs w).glob = w.glob :=
  runTop_restores _ generated_good bs w

/-- **Code run later sees the settings in force when it runs**: anything whose behaviour is a function of the
    settings in force at the time of the call (the body of a `to_function` function, of a Function class, a
    subgraph or `inline` callback, an operator on Vars created earlier) behaves after any block program exactly as
    before it - whatever happened inside, including the object's creation or first use. (That the real bodies ARE
    functions of the settings at call time - nothing captured at creation or first use - is what the carrier
    scenarios check on every run.) -/
theorem behaviour_after_blocks {α : Type} (f : Globals → α) (bs : List Block) (w : World) :
    f (runTop Generated.CtxIR.managers bs w).glob = f w.glob := by
  rw [settings_restored_history bs w]

/-- Inside the block the setting *is* in force: the body of a block over manager `which` with
    argument `arg` is run exactly in the world where that setting is `arg` and the others are
    untouched (the manager run with `body` equals the run with `body` evaluated at that world). -/
theorem inside_in_force (M : Managers) (hM : M.Good) (which : Fin 3) (arg : Nat)
    (body : World → World × Outcome) (w : World) :
    exec which arg body (M.ir which) ⟨w, 0⟩ =
      exec which arg (fun _ => body ⟨setG w.glob which arg, w.log⟩) (M.ir which) ⟨w, 0⟩ := by
  rcases goodShape_cases (hM which) with h | h <;> rw [h] <;> simp [shapeA, shapeB, exec, execStmt]

/-- **Whatever the body does** — including switching the block's own setting with the public non-scoped
    setter, any number of times — on exit (normal or by an exception) the block's own setting has its value
    from before the block, and the other two settings are exactly as the body left them (the manager
    touches nothing else). The body is an arbitrary function of the world. -/
theorem own_setting_restored_any_body (M : Managers) (hM : M.Good) (which : Fin 3) (arg : Nat)
    (body : World → World × Outcome) (w : World) :
    (exec which arg body (M.ir which) ⟨w, 0⟩).1.world.glob which = w.glob which ∧
    (∀ j, j ≠ which → (exec which arg body (M.ir which) ⟨w, 0⟩).1.world.glob j
        = (body ⟨setG w.glob which arg, w.log⟩).1.glob j) ∧
    (exec which arg body (M.ir which) ⟨w, 0⟩).2 = (body ⟨setG w.glob which arg, w.log⟩).2 := by
  rcases goodShape_cases (hM which) with h | h <;> rw [h] <;>
    simp only [shapeA, shapeB, exec, execStmt] <;>
    generalize body _ = r <;> obtain ⟨w', o⟩ := r <;> cases o <;> simp [setG]
  all_goals (intro j hj; simp [hj])

/-- For the managers as they are in /repo now. -/
theorem settings_restored_any_body (which : Fin 3) (arg : Nat) (body : World → World × Outcome) (w : World) :
    (exec which arg body (Generated.CtxIR.managers.ir which) ⟨w, 0⟩).1.world.glob which = w.glob which :=
  (own_setting_restored_any_body _ generated_good which arg body w).1

/-- The shape on the pinned tree (no `try/finally`) does leak: the full statement is false of it. -/
theorem pinned_counterexample :
    (runBlock ⟨fun _ => pinnedIR⟩ (.withB 0 7 [] true) ⟨fun _ => 1, []⟩).1.glob 0 = 7 := by decide

/-! ## Nothing else writes the settings (tie G: inventory of write sites over all of `src/spox`) -/

open Generated.CtxWrites in
/-- The manager whose IR (`Generated.CtxIR`) accounts for writes of a setting. -/
def managerOf : Nat → String
  | 0 => "type_warning_level"
  | 1 => "value_prop_backend"
  | _ => "operator_overloading"

/-- Where a setting is defined (file, scope). -/
def homeOf : Nat → String × String
  | 0 => ("src/spox/_node.py", "<module>")
  | 1 => ("src/spox/_value_prop.py", "<module>")
  | _ => ("src/spox/_var.py", "Var")

/-- A write site the model accounts for: the defining assignment in the home module; an assignment or a
    setter call inside the setting's own manager in `_future.py` (their order and `try/finally` shape is
    what `generated_good` checks); the body of a public one-line setter function (`set_…`, not scoped by
    design). Deletions, `setattr`, `global` re-bindings, by-value copies (`from … import NAME`), writes in
    any other function or module, unparsable files: not accounted for. -/
def siteCovered (s : Generated.CtxWrites.Site) : Bool :=
  (s.kind == "default" && (s.file, s.scope) == homeOf s.setting)
  || (s.file == "src/spox/_future.py" && (s.kind == "assign" || s.kind == "setter-call")
        && s.scope == managerOf s.setting)
  || (s.file == "src/spox/_future.py" && s.kind == "assign"
        && Generated.CtxWrites.setters.contains s.scope)

/-- Obligation: every site of `src/spox` that writes one of the three settings on this run is one the
    managers' IR or the public setters account for. -/
theorem write_sites_covered : ∀ s ∈ Generated.CtxWrites.sites, siteCovered s = true := by decide +kernel

/-- Every setting has its defining assignment (so that the inventory did look at the right names). -/
theorem write_sites_defaults :
    ∀ i ∈ [0, 1, 2], (Generated.CtxWrites.sites.filter (fun s => s.setting == i && s.kind == "default")).length = 1 := by
  decide +kernel

/-- Obligation (tie G): the process-wide mutable state of spox's core modules - names bound to mutable containers at
    module or class level, caching decorators, `global` re-bindings, state kept on function objects - is exactly this
    list (two registries of operator schemas, filled at import). A new cache or memo (through which something
    computed under one value of a setting could outlive the block, keyed without the setting) fails this. -/
theorem module_state_inventory :
    Generated.ModuleState.items =
      [("src/spox/_schemas.py", "<module>", "DOMAINS", "set"),
       ("src/spox/_schemas.py", "<module>", "DOMAIN_VERSIONS", "dict")] := by decide +kernel

/-- Non-vacuity: a nested, raising program over all three managers on the generated IR. -/
example : (runTop Generated.CtxIR.managers
    [.withB 0 3 [.withB 1 2 [.withB 2 9 [] true] false, .withB 2 5 [] false] true]
    ⟨fun _ => 1, []⟩).glob 0 = 1 := by decide

end C16
