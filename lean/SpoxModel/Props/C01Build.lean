import SpoxModel.Props.C04
/-!
# C01 end to end on the Builder model (round 8; file owned by C01, imports C04's proofs)

`Props/C01.lean` is translation validation: *any* accepted emission computes the dataflow.  C04 proves that the
Builder algorithm model (`BuildAlg.build`: discover, LCA scope relaxation, DFS order, partition) produces an
accepted emission for every front-end program (`C04.build_valid_of_mainClean`) and composes it with
`C01.valid_sound` (`C04.build_correct_of_mainClean`).  This file states the C01 property on that basis with
**every hypothesis executable** — the driver evaluates `WFb`, `build`, `mainCleanB` on each generated case — and
lifts the "how the program was written does not matter" corollaries from "some accepted emission" to
"the emission the Builder produces":

* `built_model_computes_dataflow` — `WFb`, `build = ok`, `mainCleanB` ⇒ `evalG` of the Builder's emission =
  `denoteG` of the program, any semantics, any outer binding, any inputs;
* `built_models_written_differently_same_values` — two front-end programs containing the same dataflow under
  an injective renaming of node ids (other creation order, other constructions in between or besides), each
  built by the Builder model, compute the same outputs on the same inputs;
* `built_model_independent_of_unused_inputs` — what is fed to inputs the requested results do not read (at
  any depth) does not change what the built model returns.
-/
namespace C01Build
open Prog

variable {Val : Type} [Inhabited Val]

/-- **The built model computes the dataflow** (all hypotheses executable). -/
theorem built_model_computes_dataflow (S : Sem Val) (p : BuildAlg.Prog) (hwf : p.WFb = true)
    (b : BuildAlg.Built) (tr : List BuildAlg.Ev) (h : BuildAlg.build p = .ok (b, tr))
    (hm : Bridge.mainCleanB p b = true) (bind : Nat → Val) (vals : List Val) :
    evalG S (Bridge.toProg p b.argsOf).nodes (Bridge.toEGraph p b) (fun _ => none) vals =
      some (denoteG S (Bridge.toProg p b.argsOf).nodes bind (Bridge.toProg p b.argsOf).main vals) :=
  C04.build_correct_of_mainClean S p (BuildAlg.wf_of_wfb p hwf) b tr h
    (C04.mainClean_of_check p (BuildAlg.wf_of_wfb p hwf) b hm) bind vals

/-- **Written differently, built by the Builder, same values.**  `p` and `p'` are two front-end programs
    (creation orders); the dataflow-closed part `D` of the first occurs in the second under the injective
    renaming `σ`; the second is asked for the renamed main graph.  Then the two models the Builder emits
    return the same outputs on the same inputs. -/
theorem built_models_written_differently_same_values (S : Sem Val) (p p' : BuildAlg.Prog)
    (hwf : p.WFb = true) (hwf' : p'.WFb = true)
    (b b' : BuildAlg.Built) (tr tr' : List BuildAlg.Ev)
    (h : BuildAlg.build p = .ok (b, tr)) (h' : BuildAlg.build p' = .ok (b', tr'))
    (hm : Bridge.mainCleanB p b = true) (hm' : Bridge.mainCleanB p' b' = true)
    (σ : Nat → Nat) (hσ : ∀ x y, σ x = σ y → x = y) (D : Nat → Prop)
    (hD : ∀ k, D k → ∃ n, nodeAt (Bridge.toProg p b.argsOf).nodes k = some n ∧
      nodeAt (Bridge.toProg p' b'.argsOf).nodes (σ k) = some (mapNode σ n) ∧
      (∀ r, some r ∈ n.inputs → D r.node) ∧ (∀ g ∈ n.subs, ∀ r ∈ g.results, D r.node))
    (hmainD : ∀ r ∈ (Bridge.toProg p b.argsOf).main.results, D r.node)
    (hmain : (Bridge.toProg p' b'.argsOf).main = mapGraph σ (Bridge.toProg p b.argsOf).main)
    (vals : List Val) :
    evalG S (Bridge.toProg p b.argsOf).nodes (Bridge.toEGraph p b) (fun _ => none) vals =
      evalG S (Bridge.toProg p' b'.argsOf).nodes (Bridge.toEGraph p' b') (fun _ => none) vals := by
  have w := BuildAlg.wf_of_wfb p hwf
  have w' := BuildAlg.wf_of_wfb p' hwf'
  have hv := C04.build_valid_of_mainClean p w b tr h (C04.mainClean_of_check p w b hm)
  have hv' := C04.build_valid_of_mainClean p' w' b' tr' h' (C04.mainClean_of_check p' w' b' hm')
  rw [hmain] at hv'
  exact C01.written_differently_same_values S _ _ (Bridge.wf_toProg p w b.argsOf)
    (Bridge.wf_toProg p' w' b'.argsOf) σ hσ D hD _ hmainD _ _ hv hv' vals

/-- **Inputs that are not read do not matter for the built model**: two lists of actual inputs that bind
    the used arguments (`usedArgs`, through bodies at any depth) alike give the same outputs. -/
theorem built_model_independent_of_unused_inputs (S : Sem Val) (p : BuildAlg.Prog)
    (hwf : p.WFb = true) (b : BuildAlg.Built) (tr : List BuildAlg.Ev)
    (h : BuildAlg.build p = .ok (b, tr)) (hm : Bridge.mainCleanB p b = true)
    (bind : Nat → Val) (vals vals' : List Val)
    (hu : ∀ a ∈ usedArgs (Bridge.toProg p b.argsOf).nodes (Bridge.toProg p b.argsOf).main,
      updArgs bind (Bridge.toProg p b.argsOf).main.args vals a
        = updArgs bind (Bridge.toProg p b.argsOf).main.args vals' a) :
    evalG S (Bridge.toProg p b.argsOf).nodes (Bridge.toEGraph p b) (fun _ => none) vals =
      evalG S (Bridge.toProg p b.argsOf).nodes (Bridge.toEGraph p b) (fun _ => none) vals' := by
  rw [built_model_computes_dataflow S p hwf b tr h hm bind vals,
      built_model_computes_dataflow S p hwf b tr h hm bind vals']
  congr 1
  exact C01.unused_inputs_irrelevant S _ (Bridge.wf_toProg p (BuildAlg.wf_of_wfb p hwf) b.argsOf) _
    bind vals vals' hu

/-! ## Non-vacuity: C04's Loop and nested-If programs, C01's integer semantics -/

/-- the theorem instantiated on the Loop program (hypotheses by evaluation) -/
example (vals : List Int) : ∃ b tr, BuildAlg.build C04.exLoop = .ok (b, tr) ∧
    evalG C01.exSem (Bridge.toProg C04.exLoop b.argsOf).nodes (Bridge.toEGraph C04.exLoop b)
        (fun _ => none) vals
      = some (denoteG C01.exSem (Bridge.toProg C04.exLoop b.argsOf).nodes (fun _ => 0)
          (Bridge.toProg C04.exLoop b.argsOf).main vals) :=
  ⟨_, _, rfl, built_model_computes_dataflow C01.exSem C04.exLoop (by decide) _ _ rfl (by decide) _ vals⟩

example (vals : List Int) : ∃ b tr, BuildAlg.build C04.exNested = .ok (b, tr) ∧
    evalG C01.exSem (Bridge.toProg C04.exNested b.argsOf).nodes (Bridge.toEGraph C04.exNested b)
        (fun _ => none) vals
      = some (denoteG C01.exSem (Bridge.toProg C04.exNested b.argsOf).nodes (fun _ => 0)
          (Bridge.toProg C04.exNested b.argsOf).main vals) :=
  ⟨_, _, rfl, built_model_computes_dataflow C01.exSem C04.exNested (by decide) _ _ rfl (by decide) _ vals⟩

/-- the sibling leak is outside the premise: not main-clean -/
example : ∃ b tr, BuildAlg.build C04.exSiblingLeak = .ok (b, tr) ∧
    Bridge.mainCleanB C04.exSiblingLeak b = false := by
  refine ⟨_, _, rfl, ?_⟩; decide

end C01Build
