import SpoxModel.Lemmas.Tensor
import SpoxModel.Lemmas.Attr
import SpoxModel.Lemmas.Float
import SpoxModel.Model.Embed
import SpoxModel.Model.AttrSite
import SpoxModel.Model.AttrRef
import SpoxModel.Model.VarFields
import SpoxModel.Lemmas.InitTable
import SpoxModel.Generated.AttrSites
/-!
# C10 — constants and attributes are embedded exactly and captured at the call

Property theorems only.  Part 1: the encoding (`from_array` → typed-field TensorProto → `to_array`).
-/
set_option linter.unusedSimpArgs false  -- one simp set serves all 16 dtype / 11 class cases

namespace C10
open Tensor Generated.TensorEnum

/-! ## Obligations on the tables generated from the code on this run -/

/-- spox's element-type → ONNX enum table is exact: the enum it writes denotes the same element
    type in the ONNX specification (in particular it is injective: no two element types share an
    enum, e.g. `bool` is not written as `uint8`). -/
theorem enum_exact (d : DType) : onnxDType (enumOf d) = some d := by
  cases d <;> rfl

/-- Typed-field layout (ONNX IR: "for int32, uint8, int8, uint16, int16, bool, float16, bfloat16:
    int32_data; uint32, uint64: uint64_data; …"). -/
theorem field_layout (d : DType) :
    fieldOf d = match d with
      | .bool | .int8 | .int16 | .int32 | .uint8 | .uint16 | .float16 | .bfloat16 => Field.int32Data
      | .int64 => .int64Data
      | .uint32 | .uint64 => .uint64Data
      | .float32 | .complex64 => .floatData
      | .float64 | .complex128 => .doubleData
      | .str => .stringData := by
  cases d <;> rfl

private theorem map_eq_self {f : Nat → Nat} {l : List Nat} (h : ∀ w ∈ l, f w = w) : l.map f = l := by
  induction l with
  | nil => rfl
  | cons x xs ih =>
    simp only [List.map_cons, List.cons.injEq]
    exact ⟨h x (by simp), ih (fun w hw => h w (by simp [hw]))⟩

/-- **Round trip.** For every array of every representable element type, every shape (the shape
    is carried verbatim, so `()`, `(0,)`, `(0,2)` need no special case) and every payload, decoding
    what `from_array` wrote gives the array back — bit for bit, except that a *signalling* float32
    NaN (also as a component of a complex64) has its quiet bit set when the platform's
    float→double conversion does that (`canon`, see `canon_spec`). -/
theorem roundtrip (q : Bool) (a : Arr) (name : String) (h : a.WF) :
    ∃ t, fromArray q a name = some t ∧ toArray q t = some (canon q a) := by
  obtain ⟨d, shape, words, strs⟩ := a
  have hr := h.range
  have hs := h.no_strs
  have hw := h.no_words
  simp only at hr hs hw
  cases d <;>
    simp only [fromArray, enumOf, onnxDType, fieldOf, toArray, canon, ne_eq, not_true_eq_false,
      if_false, reduceCtorEq, not_false_eq_true, forall_const, List.map_map, exists_eq_left',
      Option.some.injEq, Arr.mk.injEq, true_and, DType.bits] at hr hs hw ⊢
  all_goals first
    | (refine ⟨?_, hs.symm⟩; apply map_eq_self; intro w hw'; have := hr w hw';
       try simp only [Function.comp, decInt32, encInt, DType.signed, DType.bits, if_true, Bool.false_eq_true, if_false]
       first
         | exact ofInt_toSigned_8 w this | exact ofInt_toSigned_16 w this
         | exact ofInt_toSigned_32 w this | exact ofInt_toSigned_64 w this
         | exact ofInt_nat_16 w this | exact ofInt_nat_8 w this | exact ofInt_nat_bool w this
         | exact Nat.mod_eq_of_lt this)
    | (refine ⟨?_, hs.symm⟩; apply List.map_congr_left; intro w _; exact quiet32_idem q w)
    | exact hs.symm
    | (subst hw; rw [mapM_decode_encode]; rfl)


/-- **Raw storage is exact too.** A tensor that keeps the payload in `raw_data` the way the ONNX
    specification says (fixed width, little-endian, C order) decodes to the array bit for bit — for
    every numeric element type, shape and payload. (spox writes typed fields; this is what the oracle
    holds an implementation to that switches to raw storage, e.g. above a size threshold: writing the
    array's own byte order instead is *not* this tensor.) -/
theorem raw_roundtrip (q : Bool) (a : Arr) (name : String) (h : a.WF) (hd : a.dtype ≠ .str) :
    toArray q (rawProto a name) = some a := by
  obtain ⟨d, shape, words, strs⟩ := a
  have hr := h.range
  have hs := h.no_strs hd
  simp only at hr hs hd
  subst hs
  have key : ∀ nb, 0 < nb → (∀ w ∈ words, w < 256 ^ nb) →
      decodeRaw nb ((encodeRaw nb words).length / nb) (encodeRaw nb words) = words := by
    intro nb hnb hw
    rw [length_encodeRaw, Nat.mul_div_cancel_left _ hnb]
    exact decodeRaw_encodeRaw nb words hw
  cases d <;> first
    | exact absurd rfl hd
    | (simp only [rawProto, toArray, enumOf, onnxDType, DType.bytes, DType.bits, reduceCtorEq, false_or,
        Nat.reduceDiv, Nat.reduceEqDiff, if_false, Option.some.injEq, Arr.mk.injEq, true_and, and_true]
       exact key _ (by decide) (fun w hw => Nat.lt_of_lt_of_le (hr w hw) (by decide)))

/-- `canon` only ever sets the quiet bit of float32 components that are signalling NaNs; dtype,
    shape, strings, the number of words and every other word are untouched. -/
theorem canon_spec (q : Bool) (a : Arr) :
    (canon q a).dtype = a.dtype ∧ (canon q a).shape = a.shape ∧ (canon q a).strs = a.strs ∧
    (canon q a).words.length = a.words.length ∧
    ∀ i (hi : i < a.words.length), ∃ hi' : i < (canon q a).words.length,
      (canon q a).words[i] = a.words[i] ∨
        (isNaN32 a.words[i] = true ∧ quietBit32 a.words[i] = false ∧
          (canon q a).words[i] = a.words[i] + 2 ^ 22) := by
  obtain ⟨d, shape, words, strs⟩ := a
  cases d
  case float32 | complex64 =>
    refine ⟨rfl, rfl, rfl, by simp [canon], ?_⟩
    intro i hi
    refine ⟨by simpa [canon] using hi, ?_⟩
    simp only [canon, List.getElem_map]
    exact quiet32_spec q _
  all_goals exact ⟨rfl, rfl, rfl, rfl, fun i hi => ⟨hi, Or.inl rfl⟩⟩

/-- Bit-exact round trip: nothing at all changes unless a float32 component is a signalling NaN
    on a quietening platform. Covers NaN payloads with the quiet bit, −0.0, denormals, infinities,
    every integer pattern of every width (uint64 above 2^63 included), empty and 0-d shapes. -/
theorem roundtrip_exact (q : Bool) (a : Arr) (name : String) (h : a.WF)
    (hq : q = false ∨ (a.dtype ≠ .float32 ∧ a.dtype ≠ .complex64) ∨ ∀ w ∈ a.words, isNaN32 w = false) :
    ∃ t, fromArray q a name = some t ∧ toArray q t = some a := by
  obtain ⟨t, h1, h2⟩ := roundtrip q a name h
  refine ⟨t, h1, ?_⟩
  rw [h2]
  congr 1
  obtain ⟨d, shape, words, strs⟩ := a
  cases d
  case float32 | complex64 =>
    have key : words.map (quiet32 q) = words := by
      rcases hq with hq | hq | hq
      · subst hq; exact map_eq_self (fun w _ => quiet32_off w)
      · simp at hq
      · exact map_eq_self (fun w hw => quiet32_not_nan q w (hq w hw))
    simp only [canon, key]
  all_goals rfl

/-- **The Var has exactly the array's type.** The element type and shape that ONNX type inference
    (Constant) / `Tensor(arr.dtype, arr.shape)` (initializer, argument default) read off the embedded
    tensor are the array's own. -/
theorem const_type_exact (q : Bool) (a : Arr) (name : String) (t : TProto)
    (h : fromArray q a name = some t) : typeOfProto t = some (a.dtype, a.shape) := by
  obtain ⟨d, shape, words, strs⟩ := a
  cases d <;>
    simp only [fromArray, enumOf, onnxDType, fieldOf, ne_eq, not_true_eq_false, if_false,
      Option.some.injEq] at h <;> subst h <;> rfl

/-- `const(value, dtype)` = `constant(value=np.array(value, dtype))`: numpy's conversion is a
    parameter; all that is assumed of it is that it delivers the requested element type and keeps
    the shape. Then the Var has the *requested* type. -/
theorem const_requested_dtype (q : Bool) (npArray : Arr → DType → Arr)
    (hnp : ∀ a d, (npArray a d).dtype = d ∧ (npArray a d).shape = a.shape)
    (a : Arr) (d : DType) (t : TProto) (h : fromArray q (npArray a d) "" = some t) :
    typeOfProto t = some (d, a.shape) := by
  rw [const_type_exact q _ _ t h, (hnp a d).1, (hnp a d).2]

/-- `from_array` succeeds on every array (no element type is left without enum or field). -/
theorem fromArray_total (q : Bool) (a : Arr) (name : String) : (fromArray q a name).isSome = true := by
  obtain ⟨d, shape, words, strs⟩ := a
  cases d <;> rfl

/-! Non-vacuity and the special values of the statement. -/
section examples
def ex (d : DType) (shape : List Nat) (ws : List Nat) : Arr := ⟨d, shape, ws, []⟩
-- uint64 beyond the signed range stays in `uint64_data`, unchanged
example : (fromArray true (ex .uint64 [2] [2 ^ 64 - 1, 2 ^ 63])).map (·.uint64Data) = some [18446744073709551615, 9223372036854775808] := by decide
-- int8 −1 and int16 −32768 are sign-extended into int32_data and come back
example : (fromArray true (ex .int8 [1] [255])).map (·.int32Data) = some [-1] := by decide
example : (fromArray true (ex .int16 [] [32768])).bind (toArray true) = some (ex .int16 [] [32768]) := by decide
-- float16 NaN / −0.0 patterns travel as their uint16 view
example : (fromArray true (ex .float16 [2] [0x7c01, 0x8000])).map (·.int32Data) = some [31745, 32768] := by decide
-- a signalling float32 NaN is quietened (only) when the platform does so
example : (fromArray true (ex .float32 [1] [0x7f800001])).map (·.floatData) = some [0x7fc00001] := by decide
example : (fromArray false (ex .float32 [1] [0x7f800001])).map (·.floatData) = some [0x7f800001] := by decide
-- −0.0, quiet NaN with payload, denormal: exact
example : (fromArray true (ex .float32 [3] [0x80000000, 0x7fc00123, 1])).bind (toArray true) = some (ex .float32 [3] [0x80000000, 0x7fc00123, 1]) := by decide
-- empty and zero-dimensional arrays
example : (fromArray true (ex .float64 [0, 2] [])).bind (toArray true) = some (ex .float64 [0, 2] []) := by decide
example : (fromArray true (ex .bool [] [1])).bind (toArray true) = some (ex .bool [] [1]) := by decide
-- non-ASCII strings: "ü" is the two bytes C3 BC
example : (fromArray true ⟨.str, [1], [], [['ü']]⟩).map (fun t => t.stringData.map (·.toList)) = some [[0xC3, 0xBC]] := by decide +kernel
end examples

/-! ## Part 2 — attribute kinds and validation -/
open Attr Generated.AttrKinds FloatBits

/-- The declared `AttributeProto` type of every class is the one ONNX means (generated table). -/
theorem generated_kinds_exact (c : Cls) : kindOf c = specKind c := by cases c <;> rfl

/-- The model knows every public `Attr` class of the module, and none has disappeared. -/
theorem generated_classes_complete : unknownClasses = [] ∧ missingClasses = [] := by decide

/-- The guards the TypeError guarantee rests on are in the source. -/
theorem generated_guards : tensorGuard = true ∧ validateCatchAll = true ∧
    dtypeCatches.contains "ValueError" = true ∧ dtypeCatches.contains "KeyError" = true ∧
    dtypeSpecCatches.contains "ValueError" = true := by decide

/-- **Kind exactness.** Whenever a constructor returns, the attribute is emitted under the name it
    was given and with the ONNX attribute type of its class. -/
theorem attr_kind_exact (q : Bool) (c : Cls) (name : String) (v sv : PyVal) (p : AProto)
    (h : construct q c name v = .ok (sv, p)) : p.name = name ∧ p.type = specKind c := by
  have hv : ∀ (st : PyVal) (po : Option AProto), (∀ p', po = some p' → p'.name = name) →
      validated c st po = .ok (sv, p) → p.name = name ∧ p.type = specKind c := by
    intro st po hn hval
    unfold validated at hval
    cases po with
    | none => simp at hval
    | some p' =>
      simp only at hval
      split at hval
      · simp at hval
      · rename_i hty
        simp only [Except.ok.injEq, Prod.mk.injEq] at hval
        obtain ⟨_, rfl⟩ := hval
        exact ⟨hn _ rfl, by rw [← generated_kinds_exact]; simpa using hty⟩
  have hsc : ∀ a p', scalarProto q name a = some p' → p'.name = name := by
    intro a p' h'
    cases a <;> simp only [scalarProto] at h' <;> (try split at h') <;> simp at h' <;> (try subst h') <;> rfl
  cases c
  case float32 =>
    cases v with
    | seq items => simp [construct, validated, validateCatchAll] at h
    | atom a =>
      refine hv _ _ ?_ h
      intro p' hp'
      cases a <;> simp only at hp' <;>
        first
          | exact hsc _ _ hp'
          | (simp only [Option.map_eq_some_iff] at hp'; obtain ⟨_, _, rfl⟩ := hp'; rfl)
          | (simp only [Option.some.injEq] at hp'; subst hp'; rfl)
  case int64 | string | type_ =>
    cases v with
    | seq items => simp [construct, validated, validateCatchAll] at h
    | atom a => exact hv _ _ (hsc a) h
  case tensor =>
    cases v with
    | seq items => simp [construct, tensorGuard] at h
    | atom a =>
      cases a <;> simp only [construct, tensorGuard, if_true, reduceCtorEq] at h
      · exact hv _ _ (hsc _) h
      · simp [validated, validateCatchAll] at h
  case dtype =>
    cases v with
    | seq items => simp only [construct] at h; split at h <;> simp at h
    | atom a =>
      cases a <;> simp only [construct, reduceCtorEq] at h
      rename_i d
      cases d <;> (try simp only [reduceCtorEq] at h)
      · split at h <;> simp at h
      · simp only [Except.ok.injEq, Prod.mk.injEq] at h; obtain ⟨_, rfl⟩ := h; exact ⟨rfl, rfl⟩
  case graph =>
    cases v with
    | seq items => simp [construct] at h
    | atom a =>
      cases a <;> simp only [construct, reduceCtorEq] at h
      simp only [Except.ok.injEq, Prod.mk.injEq] at h; obtain ⟨_, rfl⟩ := h; exact ⟨rfl, rfl⟩
  all_goals
    simp only [construct] at h
    split at h
    · simp at h
    · refine hv _ _ ?_ h
      intro p' hp'
      simp only [Option.map_eq_some_iff] at hp'
      obtain ⟨_, _, rfl⟩ := hp'
      rfl

/-- `from_array` never fails on a representable array, so an item is a tensor iff it is an array. -/
private theorem itemTensor_isSome (q : Bool) (a : Atom) :
    (itemTensor q a).isSome = (match a with | .ndarray _ => true | _ => false) := by
  cases a <;> simp [itemTensor, fromArray_total]

private theorem validated_list_isOk {α : Type} (c : Cls) (st : PyVal) (mk : List α → AProto)
    (r : Option (List α)) (hty : ∀ xs, (mk xs).type = kindOf c) :
    (validated c st (r.map mk)).isOk = r.isSome := by
  cases r <;> simp [validated, validateCatchAll, hty, Except.isOk, Except.toBool]

/-- **Validation specification.** On the model's value universe a constructor returns iff the value
    is of the class's kind … -/
theorem validate_spec (q : Bool) (c : Cls) (name : String) (v : PyVal) (hd : inDomain c v = true) :
    (construct q c name v).isOk = rightKind c v := by
  cases c
  case float32 =>
    cases v with
    | seq items => rfl
    | atom a =>
      cases a <;> simp [construct, validated, scalarProto, rightKind, validateCatchAll, kindOf, FLOAT, INT,
        STRING, TENSOR, TYPE_PROTO, Except.isOk, Except.toBool]
      case int n => cases intF32 n <;> simp
      case ndarray a => cases fromArray q a <;> simp
  case int64 =>
    cases v with
    | seq items => rfl
    | atom a =>
      cases a <;> simp [construct, validated, scalarProto, rightKind, validateCatchAll, kindOf, FLOAT, INT,
        STRING, TENSOR, TYPE_PROTO, Except.isOk, Except.toBool]
      case int n => cases inInt64 n <;> simp
      case ndarray a => cases fromArray q a <;> simp
  case string =>
    cases v with
    | seq items => rfl
    | atom a =>
      cases a <;> simp [construct, validated, scalarProto, rightKind, validateCatchAll, kindOf, FLOAT, INT,
        STRING, TENSOR, TYPE_PROTO, Except.isOk, Except.toBool]
      case int n => cases inInt64 n <;> simp
      case ndarray a => cases fromArray q a <;> simp
  case type_ =>
    cases v with
    | seq items => rfl
    | atom a =>
      cases a <;> simp [construct, validated, scalarProto, rightKind, validateCatchAll, kindOf, FLOAT, INT,
        STRING, TENSOR, TYPE_PROTO, Except.isOk, Except.toBool]
      case int n => cases inInt64 n <;> simp
      case ndarray a => cases fromArray q a <;> simp
  case tensor =>
    cases v with
    | seq items => rfl
    | atom a =>
      cases a <;> simp [construct, validated, scalarProto, rightKind, validateCatchAll, tensorGuard, kindOf,
        TENSOR, Except.isOk, Except.toBool]
      case ndarray a =>
        have := fromArray_total q a ""
        cases h : fromArray q a <;> simp [h] at this ⊢
  case dtype =>
    cases v with
    | seq items => rfl
    | atom a =>
      cases a <;> simp [construct, rightKind, Except.isOk, Except.toBool]
      case npdtype d => cases d <;> simp [construct, rightKind, dtypeCatches, Except.isOk, Except.toBool]
  case graph =>
    cases v with
    | seq items => rfl
    | atom a => cases a <;> simp [construct, rightKind, Except.isOk, Except.toBool]
  all_goals
    simp only [construct, rightKind]
    cases ht : tupleOf v with
    | none => rfl
    | some items =>
      simp only []
      rw [validated_list_isOk _ _ _ _ (fun _ => rfl), mapM_isSome]
      try (congr 1; funext a; exact itemTensor_isSome q a)

/-- … and **a value of the wrong kind leaves the call with TypeError** — not with AttributeError or
    ValueError, and it is never accepted. (Rests on `generated_guards`: with the guard in
    `AttrTensor.__init__` or the `ValueError` handler in `dtype_to_tensor_type` missing, this theorem
    does not check.) -/
theorem wrong_kind_typeerror (q : Bool) (c : Cls) (name : String) (v : PyVal)
    (hd : inDomain c v = true) (hk : rightKind c v = false) :
    construct q c name v = .error .typeError := by
  have hs := validate_spec q c name v hd
  rw [hk] at hs
  -- the constructor fails; every failure path of the model yields TypeError under the generated guards
  have hv : ∀ (st : PyVal) (po : Option AProto), (validated c st po).isOk = false →
      validated c st po = .error .typeError := by
    intro st po h'
    unfold validated at h' ⊢
    cases po with
    | none => simp [validateCatchAll]
    | some p' =>
      simp only at h' ⊢
      split
      · rfl
      · rename_i hty; simp [hty, Except.isOk, Except.toBool] at h'
  cases c
  case float32 | int64 | string | type_ =>
    cases v with
    | seq items => exact hv (.seq items) none rfl
    | atom a => exact hv _ _ hs
  case tensor =>
    cases v with
    | seq items => simp [construct, tensorGuard]
    | atom a =>
      cases a <;> simp only [construct, tensorGuard, if_true] at hs ⊢
      · exact hv _ _ hs
      · exact hv _ _ rfl
  case dtype =>
    cases v with
    | seq items => rfl
    | atom a =>
      cases a <;> (try rfl)
      case npdtype d =>
        cases d
        · simp [construct, dtypeCatches]
        · simp [rightKind] at hk
  case graph =>
    cases v with
    | seq items => rfl
    | atom a => cases a <;> first | rfl | simp [rightKind] at hk
  all_goals
    simp only [construct] at hs ⊢
    cases ht : tupleOf v with
    | none => rfl
    | some items =>
      simp only [ht] at hs
      exact hv _ _ hs

/-- Exact values: what each accepted value puts into the `AttributeProto`. -/
theorem attr_int_exact (q : Bool) (name : String) (n : Int) (sv : PyVal) (p : AProto)
    (h : construct q .int64 name (.atom (.int n)) = .ok (sv, p)) :
    p.i = n ∧ sv = .atom (.int n) := by
  simp only [construct, scalarProto, validated] at h
  split at h
  · simp at h
  · rename_i p' hp'
    split at hp'
    · simp only [Option.some.injEq] at hp'; subst hp'
      split at h
      · simp at h
      · simp only [Except.ok.injEq, Prod.mk.injEq] at h; obtain ⟨rfl, rfl⟩ := h; exact ⟨rfl, rfl⟩
    · simp at hp'


/-! ### The float32 attribute path: the value is rounded once, to nearest, ties to even -/

/-- **A float attribute holds `(float)value`.** `r32` is built on `rne` (see `r32_finite`), for which
    `rne_nearest` (no representable neighbour is closer) and `rne_tie_even` are proved over all naturals. -/
theorem attr_float_exact (q : Bool) (name : String) (b : Nat) (sv : PyVal) (p : AProto)
    (h : construct q .float32 name (.atom (.float b)) = .ok (sv, p)) :
    p.f = r32 b ∧ p.type = FLOAT ∧ p.name = name := by
  simp only [construct, scalarProto, validated] at h
  split at h
  · simp at h
  · simp only [Except.ok.injEq, Prod.mk.injEq] at h
    obtain ⟨_, rfl⟩ := h
    exact ⟨rfl, rfl, rfl⟩

/-- A Python int given to a float attribute goes through `float(n)` (correctly rounded) and then `r32`. -/
theorem attr_float_of_int_exact (q : Bool) (name : String) (n : Int) (sv : PyVal) (p : AProto)
    (h : construct q .float32 name (.atom (.int n)) = .ok (sv, p)) :
    ∃ d, i2d n = some d ∧ p.f = r32 d := by
  simp only [construct, validated, intF32] at h
  cases hd : i2d n with
  | none => simp [hd, validateCatchAll] at h
  | some d =>
    simp only [hd, Option.map_some] at h
    split at h
    · simp at h
    · simp only [Except.ok.injEq, Prod.mk.injEq] at h
      obtain ⟨_, rfl⟩ := h
      exact ⟨d, rfl, rfl⟩

/-- What `r32` does to a finite double with sign `s`, biased exponent `e`, fraction `m`: in the normal
    range of binary32 the 53-bit significand `2^52 + m` is rounded (`rne`) to 24 bits — a carry moves
    into the exponent by plain addition and everything from 2^128 on becomes infinity; below 2^-126 the
    value is rounded to a multiple of 2^-149 (gradual underflow). -/
theorem r32_finite (b : Nat) (he : b / 2 ^ 52 % 2048 ≠ 2047) :
    r32 b = (b / 2 ^ 63 % 2) * 2 ^ 31 +
      (if 897 ≤ b / 2 ^ 52 % 2048 then
         min ((b / 2 ^ 52 % 2048 - 897) * 2 ^ 23 + rne (2 ^ 52 + b % 2 ^ 52) 29) f32Inf
       else
         rne (if b / 2 ^ 52 % 2048 = 0 then b % 2 ^ 52 else 2 ^ 52 + b % 2 ^ 52)
             (if b / 2 ^ 52 % 2048 = 0 then 925 else 926 - b / 2 ^ 52 % 2048)) := by
  unfold r32
  simp only [he, if_false]
  split <;> rfl

/-- The rounding primitive is *nearest* and *ties-to-even* (re-exported from `Lemmas/Float.lean`). -/
theorem float_rounding_nearest (M k z : Nat) :
    absDiff M (rne M k * 2 ^ k) ≤ absDiff M (z * 2 ^ k) := rne_nearest M k z
theorem float_rounding_ties_even (M k : Nat) (h : 2 * (M % 2 ^ k) = 2 ^ k) : rne M k % 2 = 0 :=
  rne_tie_even M k h

section float_examples
-- 0.1 → 0x3dcccccd;  2^24+1 is half way: goes to the even 2^24;  2^24+3 goes up to 2^24+4
example : r32 0x3FB999999999999A = 0x3DCCCCCD := by decide
example : r32 0x4170000010000000 = 0x4B800000 := by decide
example : r32 0x4170000030000000 = 0x4B800002 := by decide
-- 1e40 overflows to +inf, the largest double that still rounds to FLT_MAX does not
example : r32 0x483D6329F1C35CA5 = 0x7F800000 := by decide
example : r32 0x47EFFFFFEFFFFFFF = 0x7F7FFFFF := by decide
example : r32 0x47EFFFFFF0000000 = 0x7F800000 := by decide
-- 2^-150 is half way between 0 and the smallest subnormal: even (0) wins; the next double goes up
example : r32 0x3690000000000000 = 0 := by decide
example : r32 0x3690000000000001 = 1 := by decide
-- −0.0, a NaN with payload (quietened, top payload bits kept), Python int 2^53+1 → float → float32
example : r32 0x8000000000000000 = 0x80000000 := by decide +kernel
example : r32 0x7FF4000012345678 = 0x7FE00000 := by decide
example : (i2d (2 ^ 53 + 1)).map r32 = some 0x5A000000 := by decide +kernel
set_option exponentiation.threshold 2000 in
example : i2d (2 ^ 1024) = none := by decide +kernel
end float_examples

/-- A list attribute keeps its items *in order*, all of them, frozen: the stored value is the tuple
    of the items, and the proto holds exactly their conversions. -/
theorem attr_ints_exact (q : Bool) (name : String) (items : List Atom) (sv : PyVal) (p : AProto)
    (h : construct q .int64s name (.seq items) = .ok (sv, p)) :
    sv = .seq items ∧ items.mapM itemInt = some p.ints ∧ p.ints.length = items.length := by
  simp only [construct, tupleOf, validated] at h
  cases hm : items.mapM itemInt with
  | none => simp [hm, validateCatchAll] at h
  | some xs =>
    simp only [hm, Option.map_some] at h
    split at h
    · simp at h
    · simp only [Except.ok.injEq, Prod.mk.injEq] at h
      obtain ⟨rfl, rfl⟩ := h
      exact ⟨rfl, rfl, mapM_length _ _ _ hm⟩

theorem attr_floats_exact (q : Bool) (name : String) (items : List Atom) (sv : PyVal) (p : AProto)
    (h : construct q .float32s name (.seq items) = .ok (sv, p)) :
    sv = .seq items ∧ items.mapM itemFloat = some p.floats ∧ p.floats.length = items.length := by
  simp only [construct, tupleOf, validated] at h
  cases hm : items.mapM itemFloat with
  | none => simp [hm, validateCatchAll] at h
  | some xs =>
    simp only [hm, Option.map_some] at h
    split at h
    · simp at h
    · simp only [Except.ok.injEq, Prod.mk.injEq] at h
      obtain ⟨rfl, rfl⟩ := h
      exact ⟨rfl, rfl, mapM_length _ _ _ hm⟩

theorem attr_strings_exact (q : Bool) (name : String) (items : List Atom) (sv : PyVal) (p : AProto)
    (h : construct q .strings name (.seq items) = .ok (sv, p)) :
    sv = .seq items ∧ items.mapM itemStr = some p.strings ∧ p.strings.length = items.length := by
  simp only [construct, tupleOf, validated] at h
  cases hm : items.mapM itemStr with
  | none => simp [hm, validateCatchAll] at h
  | some xs =>
    simp only [hm, Option.map_some] at h
    split at h
    · simp at h
    · simp only [Except.ok.injEq, Prod.mk.injEq] at h
      obtain ⟨rfl, rfl⟩ := h
      exact ⟨rfl, rfl, mapM_length _ _ _ hm⟩

/-- A tensor attribute holds `from_array` of the array — hence, by `roundtrip`, the array. -/
theorem attr_tensor_exact (q : Bool) (name : String) (a : Arr) (ha : a.WF) (sv : PyVal) (p : AProto)
    (h : construct q .tensor name (.atom (.ndarray a)) = .ok (sv, p)) :
    ∃ t, p.t = some t ∧ toArray q t = some (canon q a) ∧ typeOfProto t = some (a.dtype, a.shape) := by
  obtain ⟨t, ht, hback⟩ := roundtrip q a "" ha
  simp only [construct, scalarProto, ht, validated] at h
  split at h
  · simp at h
  · simp only [Except.ok.injEq, Prod.mk.injEq] at h
    obtain ⟨_, rfl⟩ := h
    exact ⟨t, rfl, hback, const_type_exact q a "" t ht⟩


/-! ## Part 4 — the embedding path: `const`, `constant`, `initializer`, argument defaults -/
open Embed

/-- `AttrTensor(arr)` on any array succeeds and embeds exactly `from_array arr`: the tensor decodes
    back to the array, and carries the array's element type and shape. -/
theorem embedArr_spec (q : Bool) (r : Route) (prop : Bool) (a : Arr) (ha : a.WF) :
    ∃ t, embedArr q r prop a = .ok ⟨r, t, (a.dtype, a.shape), if prop then some a else none⟩ ∧
      fromArray q a "" = some t ∧ toArray q t = some (canon q a) ∧
      typeOfProto t = some (a.dtype, a.shape) := by
  obtain ⟨t, ht, hback⟩ := roundtrip q a "" ha
  refine ⟨t, ?_, ht, hback, const_type_exact q a "" t ht⟩
  simp [embedArr, construct, scalarProto, ht, validated, kindOf, TENSOR]

/-- **const_spec.** Whatever the user hands to `const` — a bare Python scalar, a numpy scalar, an
    array, a flat or nested list — if numpy makes the array `a` of it, the call yields a `Constant`
    node whose `value` tensor decodes to `a` (bit-exact up to `canon`), the Var has type
    `Tensor(a.dtype, a.shape)` and the propagated value is `a`. -/
theorem const_spec (q : Bool) (v : Value) (a : Arr) (h : numpyArray v = some (.ok a)) (ha : a.WF) :
    ∃ e, Embed.const q v = some (.ok e) ∧ e.route = .constantNode ∧ e.varType = (a.dtype, a.shape) ∧
      e.propagated = some a ∧ toArray q e.tensor = some (canon q a) ∧
      typeOfProto e.tensor = some e.varType := by
  obtain ⟨t, he, _, hback, hty⟩ := embedArr_spec q .constantNode true a ha
  refine ⟨⟨.constantNode, t, (a.dtype, a.shape), some a⟩, ?_, rfl, rfl, rfl, hback, hty⟩
  simp only [Embed.const, h, Option.map_some]
  exact congrArg some he

/-- The same for `spox._future.initializer(value)`, which *is* `spox._graph.initializer(np.array(value))`:
    the tensor becomes a graph initializer instead of a node attribute, nothing else differs. -/
theorem future_is_graph_initializer (q : Bool) (v : Value) :
    futureInitializer q v = (numpyArray v).map (· >>= graphInitializer q) := rfl

theorem initializer_spec (q : Bool) (v : Value) (a : Arr) (h : numpyArray v = some (.ok a)) (ha : a.WF) :
    ∃ e, futureInitializer q v = some (.ok e) ∧ graphInitializer q a = .ok e ∧
      e.route = .initializer ∧ e.varType = (a.dtype, a.shape) ∧ e.propagated = some a ∧
      toArray q e.tensor = some (canon q a) ∧ typeOfProto e.tensor = some e.varType := by
  obtain ⟨t, he, _, hback, hty⟩ := embedArr_spec q .initializer true a ha
  refine ⟨⟨.initializer, t, (a.dtype, a.shape), some a⟩, ?_, he, rfl, rfl, rfl, hback, hty⟩
  simp only [futureInitializer, h, Option.map_some]
  exact congrArg some he

/-- An argument default embeds the same tensor as an initializer (and, being overridable, propagates
    no value). -/
theorem argDefault_spec (q : Bool) (a : Arr) (ha : a.WF) :
    ∃ e, argDefault q a = .ok e ∧ e.route = .initializer ∧ e.varType = (a.dtype, a.shape) ∧
      e.propagated = none ∧ toArray q e.tensor = some (canon q a) ∧
      (∃ e', graphInitializer q a = .ok e' ∧ e'.tensor = e.tensor) := by
  obtain ⟨t, he, _, hback, _⟩ := embedArr_spec q .initializer false a ha
  obtain ⟨t', he', ht', _, _⟩ := embedArr_spec q .initializer true a ha
  have : t' = t := by
    obtain ⟨t2, _, ht2, _, _⟩ := embedArr_spec q .initializer false a ha
    simp_all
  exact ⟨_, he, rfl, rfl, rfl, hback, _, he', by simp [this]⟩

/-- What numpy refuses, the call refuses with the same class (object dtype → TypeError, ragged
    nesting → ValueError). -/
theorem const_error (q : Bool) (v : Value) (e : Err) (h : numpyArray v = some (.error e)) :
    Embed.const q v = some (.error e) ∧ futureInitializer q v = some (.error e) := by
  simp [Embed.const, futureInitializer, h, bind, Except.bind]

/-! The element type a bare Python value gets. -/
theorem const_of_bool (b : Bool) :
    numpyArray (.scalar (.bool b)) = some (.ok ⟨.bool, [], [if b then 1 else 0], []⟩) := by
  cases b <;> rfl

theorem const_of_float (b : Nat) :
    numpyArray (.scalar (.float b)) = some (.ok ⟨.float64, [], [b], []⟩) := rfl

theorem const_of_str (cs : List Char) :
    numpyArray (.scalar (.str cs)) = some (.ok ⟨.str, [], [], [stripNul cs]⟩) := rfl

theorem const_of_npscalar (d : DType) (ws : List Nat) (cs : List Char) :
    ∃ a, numpyArray (.npScalar d ws cs) = some (.ok a) ∧ a.dtype = d ∧ a.shape = [] ∧ a.words = ws :=
  ⟨_, rfl, rfl, rfl, rfl⟩

theorem const_of_array (a : Arr) : numpyArray (.array a) = some (.ok a) := rfl

/-- A bare Python int becomes int64 when it fits, … -/
theorem const_of_int64 (n : Int) (h1 : -(2 ^ 63 : Int) ≤ n) (h2 : n < (2 ^ 63 : Int)) :
    numpyArray (.scalar (.int n)) = some (.ok ⟨.int64, [], [ofInt 64 n], []⟩) ∧
      toSigned 64 (ofInt 64 n) = n := by
  constructor
  · have c1 : ¬ (n < -9223372036854775808 ∨ 18446744073709551616 ≤ n) := by omega
    have c2 : ¬ (n < 9223372036854775808 ∧ 9223372036854775808 ≤ n) := by omega
    have c3 : ¬ (9223372036854775808 ≤ n) := by omega
    simp [numpyArray, arrayOfScalars, inferDType, Scalar.kind, Scalar.asInt, payload, c1, c2, c3]
  · unfold toSigned ofInt; split <;> omega

/-- … uint64 from 2^63 up to 2^64 − 1 (the value itself is the payload), … -/
theorem const_of_uint64 (n : Int) (h1 : (2 ^ 63 : Int) ≤ n) (h2 : n < (2 ^ 64 : Int)) :
    numpyArray (.scalar (.int n)) = some (.ok ⟨.uint64, [], [n.toNat], []⟩) := by
  have c1 : ¬ (n < -9223372036854775808 ∨ 18446744073709551616 ≤ n) := by omega
  have c2 : ¬ (n < 9223372036854775808 ∧ 9223372036854775808 ≤ n) := by omega
  have c3 : (9223372036854775808 : Int) ≤ n := by omega
  have c4 : ¬ (n < 9223372036854775808) := by omega
  have e : ofInt 64 n = n.toNat := by unfold ofInt; omega
  simp [numpyArray, arrayOfScalars, inferDType, Scalar.kind, Scalar.asInt, payload, c1, c2, c3, c4, e]

/-- … and is refused (numpy makes an `object` array, `AttrTensor` raises TypeError) beyond. -/
theorem const_of_bigint (n : Int) (h : n < -(2 ^ 63 : Int) ∨ (2 ^ 64 : Int) ≤ n) :
    numpyArray (.scalar (.int n)) = some (.error .typeError) := by
  have c1 : (n < -9223372036854775808 ∨ 18446744073709551616 ≤ n) := by omega
  simp [numpyArray, arrayOfScalars, inferDType, Scalar.kind, Scalar.asInt, c1]

/-- Lists: a float anywhere makes float64; ints below and from 2^63 together make float64 too. -/
example : (numpyArray (.list [.int 1, .float 0x4004000000000000])).map (·.toOption.map (·.dtype)) = some (some .float64) := by decide
example : (numpyArray (.list [.int 0, .int (2 ^ 63)])).map (·.toOption.map (·.dtype)) = some (some .float64) := by decide +kernel
example : (numpyArray (.list [.bool true, .int (2 ^ 63)])).map (·.toOption.map (·.dtype)) = some (some .uint64) := by decide
example : (numpyArray (.list [])).map (·.toOption.map (fun a => (a.dtype, a.shape))) = some (some (.float64, [0])) := by decide
example : numpyArray (.nested [[.int 1], [.int 2, .int 3]]) = some (.error .valueError) := by rfl
example : numpyArray (.list [.int 1, .str ['a']]) = none := by rfl

/-- **constant_spec.** `constant(<key>=v)` wraps `v` in the attribute class of the key: when it
    returns, the attribute has the key's name and the ONNX type of that class … -/
theorem constant_spec (q : Bool) (k : ConstKey) (v : PyVal) (p : AProto) (pr : Option Arr)
    (h : constant q k v = .ok (p, pr)) : p.name = k.name ∧ p.type = specKind k.cls := by
  unfold constant at h
  cases hc : construct q k.cls k.name v with
  | error e => simp [hc] at h
  | ok r =>
    obtain ⟨sv, p'⟩ := r
    simp only [hc, Except.ok.injEq, Prod.mk.injEq] at h
    obtain ⟨rfl, _⟩ := h
    exact attr_kind_exact q k.cls k.name v sv p' hc

/-- … and the propagated value (hence the Var's type) is: `value_int` → int64 scalar of that int,
    `value_float` → float32 scalar of the rounded value, `value_ints` / `value_floats` → 1-d of the
    items in order. -/
theorem constant_propagated (q : Bool) (k : ConstKey) (v : PyVal) (p : AProto) (pr : Option Arr)
    (h : constant q k v = .ok (p, pr)) :
    (k = .value_int → pr = some ⟨.int64, [], [ofInt 64 p.i], []⟩) ∧
    (k = .value_float → pr = some ⟨.float32, [], [p.f], []⟩) ∧
    (k = .value_ints → pr = some ⟨.int64, [p.ints.length], p.ints.map (ofInt 64), []⟩) ∧
    (k = .value_floats → pr = some ⟨.float32, [p.floats.length], p.floats, []⟩) := by
  unfold constant at h
  cases hc : construct q k.cls k.name v with
  | error e => simp [hc] at h
  | ok r =>
    obtain ⟨sv, p'⟩ := r
    simp only [hc, Except.ok.injEq, Prod.mk.injEq] at h
    obtain ⟨rfl, rfl⟩ := h
    refine ⟨?_, ?_, ?_, ?_⟩ <;> (intro hk; subst hk; cases sv <;> rfl)

/-- `constant(value=v)` is the same embedding as `const(v)` on an array. -/
theorem constant_value_spec (q : Bool) (a : Arr) (ha : a.WF) :
    ∃ p t, constant q .value (.atom (.ndarray a)) = .ok (p, some a) ∧ p.t = some t ∧
      toArray q t = some (canon q a) ∧ typeOfProto t = some (a.dtype, a.shape) := by
  obtain ⟨t, ht, hback⟩ := roundtrip q a "" ha
  refine ⟨{ name := "value", type := TENSOR, t := some t }, t, ?_, rfl, hback, const_type_exact q a "" t ht⟩
  simp [constant, ConstKey.cls, ConstKey.name, construct, scalarProto, ht, validated, kindOf, TENSOR, propagate]

/-! ## Part 3 — captured at the call -/
open Capture

/-- **Heap lemma.** If the way of storing is safe for the kind of argument, then after *any*
    sequence of caller-side mutations spox reads what it read at the call. -/
theorem captured (m : Mode) (a : Arg) (hs : safe m a.kind = true) (h : Heap) (ms : List Mut) :
    observe (mutate h ms) (capture m h a) = observe h (capture m h a) := by
  cases a <;> cases m <;> simp [safe, Arg.kind] at hs <;> rfl

/-- Keeping the caller's object is *not* safe: one item assignment shows through. -/
theorem alias_not_captured :
    ∃ (h : Heap) (ms : List Mut), observe (mutate h ms) (capture .alias h (.flat 0)) ≠
      observe h (capture .alias h (.flat 0)) :=
  ⟨⟨fun _ => [1, 2, 3], fun _ => []⟩, [.setFlat 0 [99, 2, 3]], by decide⟩

/-- Freezing a list of arrays into a tuple is not enough either: the arrays are still the caller's. -/
theorem shallow_freeze_not_captured :
    ∃ (h : Heap) (ms : List Mut), observe (mutate h ms) (capture .freeze h (.nest 0)) ≠
      observe h (capture .freeze h (.nest 0)) :=
  ⟨⟨fun _ => [1, 2], fun _ => [5]⟩, [.setFlat 5 [42, 2]], by decide⟩

/-- Obligation on the table generated from the code on this run: every constructor that receives a
    caller-owned object stores it in a way that is safe for that kind of object — both as read off
    the source and as observed on the real objects. -/
theorem generated_capture_ok : ∀ e ∈ Generated.CaptureTable.table, e.ok = true := by decide

/-- The table has a row for every place of the statement, **and for every place the AST scan of the
    code finds on this run**: every subclass of `Attr`, every `__init__` / `__post_init__` of the core
    modules that stores a container-typed (or untyped) parameter or field, every public function with an
    array parameter is mapped to a row that exists (or is on the short list of internal constructors no
    caller-owned object reaches); and in the operator modules every array / iterable constructor
    parameter flows only into `Attr*`, `Inputs` or `np.array`. A new attribute class or a new storing
    constructor without a row makes this fail to check. -/
theorem generated_capture_complete :
    ["AttrTensor", "AttrTensors", "AttrFloat32s", "AttrInt64s", "AttrStrings", "BaseVars.variadic",
     "initializer", "arguments(default)", "constant(value)", "constant(value_ints)", "const(ndarray)",
     "const(nested list)", "_future.initializer(ndarray)", "_future.initializer(nested list)",
     "_AttrIterable.maybe"].all
      (fun s => Generated.CaptureTable.table.any (·.site == s)) = true ∧
    Generated.CaptureTable.uncoveredSites = [] ∧
    Generated.CaptureTable.opsetDirectUses = [] ∧
    Generated.CaptureTable.discovered.all
      (fun p => p.2 == "internal" || Generated.CaptureTable.table.any (·.site == p.2)) = true ∧
    Generated.CaptureTable.discovered.length ≥ 20 := by decide

/-- **Captured at the call.** For every constructor of the generated table, every heap, every
    argument of the row's kind and every sequence of caller-side mutations after the call, what spox
    reads from the stored value — and therefore every function of it: the bytes of the model, the
    propagated `_value` — is what it read at the call. -/
theorem captured_at_call (e : Entry) (he : e ∈ Generated.CaptureTable.table) (a : Arg)
    (hk : a.kind = e.kind) (h : Heap) (ms : List Mut) {β : Type} (read : List (List Nat) → β) :
    read (observe (mutate h ms) (capture e.observed h a)) = read (observe h (capture e.observed h a)) := by
  have hok := generated_capture_ok e he
  simp only [Entry.ok, Bool.and_eq_true] at hok
  rw [captured e.observed a (by rw [hk]; exact hok.1) h ms]

/-- The same from the source text alone, for every row whose expression the extractor classifies. -/
theorem captured_at_call_ast (e : Entry) (he : e ∈ Generated.CaptureTable.table) (hast : e.ast ≠ .opaque)
    (a : Arg) (hk : a.kind = e.kind) (h : Heap) (ms : List Mut) :
    observe (mutate h ms) (capture e.ast h a) = observe h (capture e.ast h a) := by
  have hok := generated_capture_ok e he
  simp only [Entry.ok, Bool.and_eq_true, Bool.or_eq_true, beq_iff_eq] at hok
  rcases hok.2 with h2 | h2
  · exact captured e.ast a (by rw [hk]; exact h2) h ms
  · exact absurd h2 hast

/-- Non-vacuity: a real mutation history against a copied array and a frozen list of Vars. -/
example : observe (mutate ⟨fun _ => [1, 2, 3], fun _ => []⟩ [.setFlat 0 [9], .setFlat 0 []])
    (capture .copy ⟨fun _ => [1, 2, 3], fun _ => []⟩ (.flat 0)) = [[1, 2, 3]] := by decide

/-! ## Part 6 (round 6): every attribute argument of every shipped constructor; iterables that come once -/
section Sites
open AttrSite

/-- A single complete pass stores exactly the items of the caller's iterable — whether it can be iterated again
    (list, tuple, array, range, dict view) or hands its items out once (generator, iterator, map, zip). -/
theorem single_pass_exact {α : Type} (s : Src α) : stored [.full] s = s.items := rfl

/-- Why lists never show the fault: over a re-iterable source any number of earlier passes is harmless. -/
theorem reiterable_immune {α : Type} (ps : List Pass) (s : Src α) (h : s.oneShot = false) :
    stored (ps ++ [.full]) s = s.items := by
  induction ps generalizing s with
  | nil => rfl
  | cons p rest ih =>
    have hp : (s.pass p).2 = s := by cases p <;> simp [Src.pass, h]
    cases rest with
    | nil =>
      show stored [.full] (s.pass p).2 = s.items
      rw [hp]; rfl
    | cons q r =>
      show stored (q :: (r ++ [.full])) (s.pass p).2 = s.items
      rw [hp]; exact ih s h

/-- The round-5 fault: a pre-pass over a one-shot iterable leaves nothing for the conversion … -/
theorem prepass_loses_all {α : Type} (xs : List α) : stored [.full, .full] (⟨xs, true⟩ : Src α) = [] := rfl

/-- … and a probe of the first item loses that item. -/
theorem probe_loses_first {α : Type} (x : α) (xs : List α) :
    stored [.upto 1, .full] (⟨x :: xs, true⟩ : Src α) = xs := by
  simp [stored, Src.pass]

/-- Generated obligation (observed on every run with an instrumented iterable, all four list classes through
    both entry points, and the variadic input field): exactly one complete pass over the caller's object;
    and from the source text: the caller's `value` is read at most once on every path. -/
theorem generated_single_pass :
    (∀ r ∈ Generated.AttrSites.iterPasses, r.passes = [.full]) ∧
    Generated.AttrSites.iterPasses.length ≥ 9 ∧
    (∀ p ∈ Generated.AttrSites.callerLoads, p.2 ≤ 1) ∧ Generated.AttrSites.callerLoads.length ≥ 2 := by decide

/-- **List attributes from any iterable.** For every list-attribute entry point of the generated table and every
    iterable — one-shot or not — the stored tuple is exactly the items the iterable had at the call. -/
theorem list_attr_any_iterable {α : Type} (r : IterRow) (hr : r ∈ Generated.AttrSites.iterPasses) (s : Src α) :
    stored r.passes s = s.items := by
  rw [generated_single_pass.1 r hr]; rfl

def shapeOK (s : Shape) : Bool :=
  (Attr.Cls.ofName? s.cls).isSome && s.sameName && (s.required → s.form == .direct) &&
  Generated.CaptureTable.table.any (fun e => e.site == s.captureSite && e.ok)

/-- **Every attribute argument of every shipped constructor** (5 × ai.onnx, 3 × ai.onnx.ml; regenerated from the
    source on every run and cross-checked with the imported modules): it is built by one of the eleven `Attr*`
    classes, directly or through `maybe`, from the constructor parameter of the same name under the ONNX name; a
    required attribute is never optionalised; the capture-table row that covers it passes; no parameter is wrapped,
    pre-iterated or read twice. -/
theorem generated_attr_sites_ok :
    Generated.AttrSites.irregular = [] ∧ Generated.AttrSites.multiUse = [] ∧
    Generated.AttrSites.liveMismatches = [] ∧
    (∀ s ∈ Generated.AttrSites.shapes, shapeOK s = true) ∧
    Generated.AttrSites.perModule.length = 8 ∧ (∀ p ∈ Generated.AttrSites.perModule, p.2 > 0) := by decide

/-- Hence the captured-at-call theorem applies to every attribute argument of every shipped constructor. -/
theorem every_constructor_attr_captured (s : Shape) (hs : s ∈ Generated.AttrSites.shapes) :
    ∃ e ∈ Generated.CaptureTable.table, e.site = s.captureSite ∧
      ∀ (a : Arg) (_ : a.kind = e.kind) (h : Heap) (ms : List Mut),
        observe (mutate h ms) (capture e.observed h a) = observe h (capture e.observed h a) := by
  have h := generated_attr_sites_ok.2.2.2.1 s hs
  simp only [shapeOK, Bool.and_eq_true, List.any_eq_true, beq_iff_eq] at h
  obtain ⟨e, he, hsite, hok⟩ := h.2
  refine ⟨e, he, hsite, fun a hk hp ms => ?_⟩
  simp only [Entry.ok, Bool.and_eq_true] at hok
  exact captured e.observed a (by rw [hk]; exact hok.1) hp ms

/-- **Every variadic input of every shipped constructor** (each parameter typed `Sequence[Var]` in the 8 modules,
    regenerated every run): it is handed to the `Inputs` dataclass as the bare parameter, hence stored by
    `BaseVars.__post_init__`, whose capture row passes - so the caller's list of Vars is captured at the call
    (`captured_at_call`) for concat / max / min / mean / sum / einsum / sequence_construct / loop / scan / sequence_map /
    feature_vectorizer alike. -/
theorem generated_variadics_ok :
    (∀ v ∈ Generated.AttrSites.variadics, v.2 = true) ∧ Generated.AttrSites.variadics.length ≥ 10 ∧
    Generated.CaptureTable.table.any (fun e => e.site == "BaseVars.variadic" && e.ok && e.kind == .flat) = true := by decide

/-- Non-vacuity: a generator of three items through a single pass, through a pre-pass, and a list through a pre-pass. -/
example : stored [.full] (⟨[3, 1, 2], true⟩ : Src Nat) = [3, 1, 2] := rfl
example : stored [.full, .full] (⟨[3, 1, 2], true⟩ : Src Nat) = [] := rfl
example : stored [.full, .full] (⟨[3, 1, 2], false⟩ : Src Nat) = [3, 1, 2] := rfl
example : stored [.upto 1, .full] (⟨[3, 1, 2], true⟩ : Src Nat) = [1, 2] := rfl

end Sites

/-! ## Part 7 (round 6b): attribute references (`_Ref`) -/
section Refs
open AttrRef

/-- The value of a reference chain of any depth is the stored value of the concrete attribute at its end. -/
theorem ref_value_is_root (c : Cls) (n outer rn : String) (t : A) : (A.ref c n t outer rn).value = t.value := rfl

/-- **A reference appears under the reference's name, names the outer attribute, and carries the ONNX type of its
    class** — for every class with the generic `_validate`, every target (itself possibly a reference). -/
theorem ref_proto_exact (q : Bool) (c : Cls) (name outer rn : String) (t a : A)
    (hc : c ≠ .dtype) (hg : c ≠ .graph) (h : constructRef q c name t outer rn = .ok a) :
    a.toOnnx = ⟨rn, some outer, kindOf c, none⟩ ∧ a.value = t.value ∧ a.cls = c ∧ a.name = name := by
  cases c <;> simp only [constructRef, ne_eq, not_true_eq_false, reduceCtorEq, not_false_eq_true] at hc hg h ⊢ <;>
    (split at h
     · simp at h
     · rename_i hty
       simp only [Decidable.not_not] at hty
       injection h with h; subst h
       simp [A.toOnnx, A.value, A.cls, A.name, hty])

/-- A reference to an attribute of another ONNX type is refused with TypeError at the call. -/
theorem ref_wrong_kind_typeerror (q : Bool) (c : Cls) (name outer rn : String) (t : A)
    (hc : c ≠ .dtype) (hg : c ≠ .graph) (hty : t.protoType ≠ kindOf c) :
    constructRef q c name t outer rn = .error .typeError := by
  cases c <;> simp_all [constructRef]

/-- `deref()` of a concrete attribute is the attribute; of a reference it is the constructor of the holder's class on
    the dereferenced value under the holder's name — hence (by `attr_kind_exact`) named and typed like the holder. -/
theorem deref_conc (q : Bool) (c : Cls) (n : String) (s : PyVal) (p : AProto) :
    deref q (.conc c n s p) = .ok (.conc c n s p) := rfl

theorem deref_ref_exact (q : Bool) (c : Cls) (n outer rn : String) (t a : A)
    (h : deref q (.ref c n t outer rn) = .ok a) :
    ∃ sv p, a = .conc c n sv p ∧ construct q c n t.value = .ok (sv, p) ∧ p.name = n ∧ p.type = specKind c := by
  simp only [deref, mk] at h
  split at h
  · rename_i sv p hcons
    injection h with h
    exact ⟨sv, p, h.symm, hcons, attr_kind_exact q c n t.value sv p hcons⟩
  · simp at h

/-- Generated obligation (observed on every run): all four list classes keep a reference handed to the constructor
    AND to `maybe` (the optional attributes of the operator constructors) — `maybe` is then `constructRef` too. -/
theorem generated_list_refs_kept :
    (∀ r ∈ Generated.AttrSites.keepsRef, r.2.2 = true) ∧ Generated.AttrSites.keepsRef.length ≥ 8 := by decide

/-- Non-vacuity: a chain of two references to an INTS attribute; a FLOAT reference to it is refused. -/
example : (show Except Err _ from do
    let r ← mk true .int64s "axes" (.seq [.int 1, .int 2])
    let a ← constructRef true .int64s "perm" r "axes" "perm"
    let b ← constructRef true .int64s "x" a "perm" "x"
    pure (b.toOnnx, b.depth, (constructRef true .float32 "y" a "perm" "y").toOption.isNone)).toOption =
    some (⟨"x", some "perm", INTS, none⟩, 2, true) := by decide

end Refs

/-! ## Part 8 (round 6b): the way back (`tensor_type_to_dtype`) and dtype spellings -/
section Reverse

/-- `tensor_type_to_dtype` (executed on this run for every enum 0..31) is the ONNX table read backwards. -/
theorem tensor_type_to_dtype_exact : ∀ e, e < 32 → dtypeOfEnum e = onnxDType e := by decide

/-- Element type → enum → element type is the identity (what `Var.type` reads back is what was embedded) … -/
theorem type_roundtrip (d : DType) : dtypeOfEnum (enumOf d) = some d := by cases d <;> rfl

/-- … and enum → element type → enum too, for every enum 0..31. -/
theorem type_roundtrip_inv :
    ∀ e ∈ List.range 32, (dtypeOfEnum e).all (fun d => enumOf d == e) = true := by decide

/-- The tensor spox embeds for an array reads back - through spox's own `tensor_type_to_dtype` - as the array's
    element type and shape. -/
theorem embedded_type_reads_back (q : Bool) (a : Arr) (name : String) (t : TProto)
    (h : fromArray q a name = some t) : dtypeOfEnum t.dataType = some a.dtype ∧ t.dims = a.shape := by
  obtain ⟨d, shape, words, strs⟩ := a
  cases d <;>
    simp only [fromArray, enumOf, onnxDType, fieldOf, ne_eq, not_true_eq_false, if_false,
      Option.some.injEq] at h <;> subst h <;> exact ⟨rfl, rfl⟩

/-- Every spelling of an element type (Python builtins, C aliases, type codes, byte orders, string widths, an array's
    `.dtype`) is normalised to the enum of its canonical element type (executed on this run). -/
theorem generated_aliases_ok :
    (∀ r ∈ aliases, r.2.2 = enumOf r.2.1) ∧ aliases.length ≥ 30 := by decide

end Reverse

/-! ## Part 9 (round 8): input fields (`BaseVars.__post_init__`, `_flatten`) - the variadic clause of the statement -/
section Fields
open VarFields AttrSite

/-- **A variadic input is captured at the call, from any iterable.** If the field is accepted, what is stored is exactly
    the items the caller's iterable had at the call - a list, a tuple, or a one-shot generator alike - and all are Vars. -/
theorem variadic_exact (s : Src Item) (st : VarFields.Stored) (h : store .variadic (.iter s) = .ok st) :
    st = .many s.items ∧ s.items.all Item.isVar = true := by
  have h' : (if s.items.all Item.isVar = true then (Except.ok (VarFields.Stored.many s.items) : Except Attr.Err VarFields.Stored)
      else .error .typeError) = .ok st := h
  by_cases hall : s.items.all Item.isVar = true
  · rw [if_pos hall] at h'
    injection h' with h'
    exact ⟨h'.symm, hall⟩
  · rw [if_neg hall] at h'
    cases h'

/-- A variadic input with an item that is not a Var - or that is no iterable at all - leaves the call with TypeError,
    for a one-shot iterable too (the frozen tuple is checked, not the exhausted iterable). -/
theorem variadic_wrong_kind_typeerror (s : Src Item) (h : s.items.all Item.isVar = false) :
    store .variadic (.iter s) = .error .typeError := by
  show (if s.items.all Item.isVar = true then (Except.ok (VarFields.Stored.many s.items) : Except Attr.Err VarFields.Stored)
      else .error .typeError) = _
  rw [h]; rfl

theorem variadic_not_iterable_typeerror (i : Item) : store .variadic (.obj i) = .error .typeError := rfl

/-- Single and optional fields: accepted iff a Var (or None for optional); everything else is TypeError. -/
theorem single_spec (g : Given) :
    store .single g = (match g with | .obj (.var n) => .ok (.one (.var n)) | _ => .error .typeError) := by
  cases g with
  | obj i => cases i <;> rfl
  | iter s => rfl

theorem optional_spec (g : Given) :
    store .optional g = (match g with
      | .obj (.var n) => .ok (.one (.var n)) | .obj .none_ => .ok (.one .none_) | _ => .error .typeError) := by
  cases g with
  | obj i => cases i <;> rfl
  | iter s => rfl

/-- No field kind can fail with anything but TypeError. -/
theorem store_error_is_typeerror (k : VarFields.Kind) (g : Given) (e : Attr.Err) (h : store k g = .error e) : e = .typeError := by
  cases k <;> cases g with
  | obj i => cases i <;> simp_all [store]
  | iter s =>
    simp only [store] at h
    first
      | (injection h with h; exact h.symm)
      | (split at h
         · simp at h
         · injection h with h; exact h.symm)

/-- What is stored for a variadic field is a function of the items the iterable had AT THE CALL only: not of whether
    it can be iterated again, hence not of anything the caller does to its list afterwards. -/
theorem variadic_depends_on_call_items (s1 s2 : Src Item) (h : s1.items = s2.items) :
    store .variadic (.iter s1) = store .variadic (.iter s2) := by
  show (if s1.items.all Item.isVar = true then (Except.ok (VarFields.Stored.many s1.items) : Except Attr.Err VarFields.Stored)
      else .error .typeError) = (if s2.items.all Item.isVar = true then .ok (.many s2.items) else .error .typeError)
  rw [h]

/-- A whole Inputs dataclass fails with TypeError or not at all. -/
theorem storeAll_error_is_typeerror (fs : List (String × VarFields.Kind × Given)) (e : Attr.Err)
    (h : storeAll fs = .error e) : e = .typeError := by
  induction fs with
  | nil => simp [storeAll] at h
  | cons f rest ih =>
    obtain ⟨n, k, g⟩ := f
    simp only [storeAll] at h
    split at h
    · rename_i e' he
      injection h with h; subst h
      exact store_error_is_typeerror k g _ he
    · split at h
      · rename_i e' he
        injection h with h; subst h
        exact ih he
      · simp at h

/-- The node's inputs of a variadic field are `key_0 … key_{n-1}` in the order of the iterable at the call. -/
theorem flatten_variadic (key : String) (l : List Item) (rest : List (String × VarFields.Stored)) :
    flatten ((key, .many l) :: rest) = enumFrom key 0 l ++ flatten rest := rfl

theorem enumFrom_length (key : String) (i : Nat) (l : List Item) : (enumFrom key i l).length = l.length := by
  induction l generalizing i with
  | nil => rfl
  | cons x xs ih => simp [enumFrom, ih]

/-- Non-vacuity: a generator of two Vars, a generator with an int, a list after which the caller appends (the stored
    value is a function of the items at the call only). -/
example : (store .variadic (.iter ⟨[.var 3, .var 1], true⟩)).toOption = some (.many [.var 3, .var 1]) := by decide
example : (store .variadic (.iter ⟨[.var 3, .other], true⟩)).toOption = none := by decide
example : getVars [("A", .one (.var 7)), ("B", .one .none_), ("C", .many [.var 3, .var 1])] =
    [("A", 7), ("C_0", 3), ("C_1", 1)] := by decide

end Fields

/-! ## Part 10 (round 10): from the embedded array to the tensor in `graph.initializer`

`Argument.update_metadata` / `_Initializer.update_metadata` write `initializers[var] = array`,
`compile_graph` visits the arguments and then the other own nodes, `_get_initializers_by_name` re-keys the dict by
the scope's names, `Graph.to_onnx` runs `from_array(arr, name)` over it (`Model/InitTable.lean`; tie H: driver op
`inits` next to `spox.build` on generated multi-initializer graphs, every run). -/
section Inits
open InitTable

/-- **Every initializer reaches the GraphProto exactly once, under its Var's name, in visiting order.** For every
    graph (any number of arguments with or without default, initializers and other nodes, in any order, arrays
    shared or not) in which each Var is the output of one node and the scope names those Vars differently, the
    emitted list is `from_array(array, name var)` of the initializer-bearing nodes - arguments with a default first,
    then the initializers in the order the build visits them: nothing dropped, nothing twice, nothing else. -/
theorem initializers_emitted_exact (q : Bool) (name : Nat → String) (args own : List Node)
    (hv : ((bearing args own).map Prod.fst).Nodup)
    (hn : ((bearing args own).map (fun p => name p.1)).Nodup) :
    ∃ ts, emit q name args own = some ts ∧
      (bearing args own).map (fun p => fromArray q p.2 (name p.1)) = ts.map some := by
  have hc := collect_eq_bearing args own hv
  have hb := byName_of_distinct name (bearing args own) hn
  obtain ⟨ts, hts⟩ := allSome_map_total (fun p : String × Arr => fromArray q p.2 p.1)
    (fun p => fromArray_total q p.2 p.1) (byName name (collect args own))
  refine ⟨ts, hts, ?_⟩
  have := (allSome_eq_some _ _).mp hts
  rw [hc, hb, List.map_map] at this
  exact this

/-- … hence, with `roundtrip`: the built graph has as many initializers as the user made, their names are pairwise
    different, and **each array the user handed over is found under its Var's name, decodes to that array bit for
    bit (`canon`) and has its element type and shape**; and no tensor is there that the user did not hand over. -/
theorem initializer_embedded_once (q : Bool) (name : Nat → String) (args own : List Node)
    (hv : ((bearing args own).map Prod.fst).Nodup)
    (hn : ((bearing args own).map (fun p => name p.1)).Nodup)
    (hwf : ∀ p ∈ bearing args own, p.2.WF) :
    ∃ ts, emit q name args own = some ts ∧ ts.length = (bearing args own).length ∧
      ts.map (·.name) = (bearing args own).map (fun p => name p.1) ∧
      (∀ p ∈ bearing args own, ∃ t ∈ ts, t.name = name p.1 ∧ toArray q t = some (canon q p.2) ∧
        typeOfProto t = some (p.2.dtype, p.2.shape)) ∧
      (∀ t ∈ ts, ∃ p ∈ bearing args own, t.name = name p.1 ∧ toArray q t = some (canon q p.2)) := by
  obtain ⟨ts, hts, hmap⟩ := initializers_emitted_exact q name args own hv hn
  have hnames := map_of_map_some (fun p : Nat × Arr => fromArray q p.2 (name p.1)) (fun p => name p.1)
    (·.name) (fun p t h => fromArray_name q p.2 (name p.1) t h) _ _ hmap
  refine ⟨ts, hts, ?_, hnames, ?_, ?_⟩
  · have := congrArg List.length hmap; simpa using this.symm
  · intro p hp
    obtain ⟨t, ht, hpt⟩ := mem_of_map_some _ _ _ hmap p hp
    obtain ⟨t', h1, h2⟩ := roundtrip q p.2 (name p.1) (hwf p hp)
    have : t' = t := Option.some.inj (h1.symm.trans hpt)
    subst this
    exact ⟨t', ht, fromArray_name q p.2 _ t' hpt, h2, const_type_exact q p.2 _ t' hpt⟩
  · intro t ht
    obtain ⟨p, hp, hpt⟩ := mem_of_map_some' _ _ _ hmap t ht
    obtain ⟨t', h1, h2⟩ := roundtrip q p.2 (name p.1) (hwf p hp)
    have : t' = t := Option.some.inj (h1.symm.trans hpt)
    subst this
    exact ⟨p, hp, fromArray_name q p.2 _ t' hpt, h2⟩

/-- Without any hypothesis on the graph or on the naming: the emitted initializers never carry a name twice (a
    GraphProto with two initializers of one name is invalid ONNX). -/
theorem emitted_names_nodup (q : Bool) (name : Nat → String) (args own : List Node) (ts : List TProto)
    (h : emit q name args own = some ts) : (ts.map (·.name)).Nodup := by
  have hm := (allSome_eq_some _ _).mp h
  have := map_of_map_some (fun p : String × Arr => fromArray q p.2 p.1) (fun p => p.1) (·.name)
    (fun p t h => fromArray_name q p.2 p.1 t h) _ _ hm
  rw [this]
  exact byName_keys_nodup name _

/-- What the value of a Var's initializer is when a Var is written more than once (it is not, in spox: a Var has
    one producing node): the last write, in the place of the first. -/
theorem collect_last_write (d : List (Nat × Arr)) (v : Nat) (a : Arr) :
    dget (Node.update d (.init v a)) v = some a := by
  simp [Node.update, Node.entry, dget_dset]

/-- The naming hypothesis is necessary: were two initializer Vars given one name, one array would be lost. -/
theorem name_clash_loses_one :
    (emit true (fun _ => "x") [] [.init 0 (ex .int8 [1] [1]), .init 1 (ex .int8 [1] [2])]).map
      (·.map (·.int32Data)) = some [[2]] := by decide

/-- Non-vacuity: an argument with a default, one without, two initializers (one array used twice) around another node:
    defaults first, then the initializers in visiting order, under their names; the Argument among the own nodes is
    not visited twice. -/
example :
    (emit true (fun v => s!"v{v}") [.arg 0 (some (ex .uint8 [] [7])), .arg 1 none]
        [.arg 0 (some (ex .uint8 [] [7])), .init 5 (ex .int8 [2] [255, 1]), .other, .init 3 (ex .int8 [2] [255, 1])]).map
      (·.map (fun t => (t.name, t.dims, t.int32Data))) =
    some [("v0", [], [7]), ("v5", [2], [-1, 1]), ("v3", [2], [-1, 1])] := by decide +kernel

/-- The naming hypothesis discharged from a simpler premise: if the scope's naming is injective (different Vars get
    different names - what `Scope` guarantees), one producing node per Var is all that is left to assume. -/
theorem initializers_emitted_exact_of_injective (q : Bool) (name : Nat → String) (args own : List Node)
    (hinj : ∀ v w, name v = name w → v = w)
    (hv : ((bearing args own).map Prod.fst).Nodup) :
    ∃ ts, emit q name args own = some ts ∧
      (bearing args own).map (fun p => fromArray q p.2 (name p.1)) = ts.map some := by
  apply initializers_emitted_exact q name args own hv
  have : (bearing args own).map (fun p => name p.1) = ((bearing args own).map Prod.fst).map name := by
    simp [List.map_map]
  rw [this]
  exact List.Pairwise.map name (fun a b hab e => hab (hinj a b e)) hv

/-! ### Captured at the call, all the way to `graph.initializer` (heap model composed with the initializer table) -/

/-- One `initializer(arr)` call: the Var it yields, the array's element type and shape, the caller's object and the
    way the constructor stores it. -/
structure InitSite where
  var : Nat
  dtype : DType
  shape : List Nat
  arg : Capture.Arg
  mode : Capture.Mode

/-- The array spox reads from what it stored at the call (heap `h0`) when it builds on the heap `h`. -/
def InitSite.node (h0 h : Capture.Heap) (s : InitSite) : Node :=
  .init s.var ⟨s.dtype, s.shape, (Capture.observe h (Capture.capture s.mode h0 s.arg)).flatten, []⟩

/-- **Every history.** For every list of initializer calls whose way of storing is safe for the kind of object handed
    over (the generated capture table's obligation), every caller heap at the calls and EVERY finite sequence of
    caller-side mutations between the calls and the build, `graph.initializer` of the model built afterwards is the one
    that would have been built at the calls - tensor by tensor, name by name. -/
theorem initializers_captured_at_call (q : Bool) (name : Nat → String) (sites : List InitSite)
    (hs : ∀ s ∈ sites, Capture.safe s.mode s.arg.kind = true)
    (h0 : Capture.Heap) (ms : List Capture.Mut) (args : List Node) :
    emit q name args (sites.map (InitSite.node h0 (Capture.mutate h0 ms))) =
      emit q name args (sites.map (InitSite.node h0 h0)) := by
  have : sites.map (InitSite.node h0 (Capture.mutate h0 ms)) = sites.map (InitSite.node h0 h0) := by
    apply List.map_congr_left
    intro s hsm
    simp only [InitSite.node, captured s.mode s.arg (hs s hsm) h0 ms]
  rw [this]

/-- Non-vacuity: two arrays copied at the call; the caller then overwrites one and empties the other. -/
example :
    (emit true (fun v => s!"i{v}") []
      ([⟨0, .int8, [2], .flat 0, .copy⟩, ⟨1, .uint8, [1], .flat 1, .copy⟩].map
        (InitSite.node ⟨fun l => if l = 0 then [255, 1] else [7], fun _ => []⟩
          (Capture.mutate ⟨fun l => if l = 0 then [255, 1] else [7], fun _ => []⟩ [.setFlat 0 [9, 9], .setFlat 1 []])))).map
      (·.map (fun t => (t.name, t.int32Data))) = some [("i0", [-1, 1]), ("i1", [7])] := by decide +kernel

end Inits

end C10
