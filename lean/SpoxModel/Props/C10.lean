/-! Property theorems for C10 (only property-level statements and non-vacuity examples live here). -/
