import SpoxModel.Lemmas.Tensor
/-!
# C10 — constants and attributes are embedded exactly and captured at the call

Property theorems only.  Part 1: the encoding (`from_array` → typed-field TensorProto → `to_array`).
-/
namespace C10
open Tensor Generated.TensorEnum

/-! ## Obligations on the tables generated from the code on this run -/

/-- spox's element-type → ONNX enum table is exact: the enum it writes denotes the same element
    type in the ONNX specification (in particular it is injective: no two element types share an
    enum, e.g. `bool` is not written as `uint8`). -/
theorem enum_exact (d : DType) : onnxDType (enumOf d) = some d := by
  cases d <;> rfl

/-- Typed-field layout (ONNX IR: "for int32, uint8, int8, uint16, int16, bool, float16, bfloat16:
    int32_data; uint32, uint64: uint64_data; …"). -/
theorem field_layout (d : DType) :
    fieldOf d = match d with
      | .bool | .int8 | .int16 | .int32 | .uint8 | .uint16 | .float16 | .bfloat16 => Field.int32Data
      | .int64 => .int64Data
      | .uint32 | .uint64 => .uint64Data
      | .float32 | .complex64 => .floatData
      | .float64 | .complex128 => .doubleData
      | .str => .stringData := by
  cases d <;> rfl

private theorem map_eq_self {f : Nat → Nat} {l : List Nat} (h : ∀ w ∈ l, f w = w) : l.map f = l := by
  induction l with
  | nil => rfl
  | cons x xs ih =>
    simp only [List.map_cons, List.cons.injEq]
    exact ⟨h x (by simp), ih (fun w hw => h w (by simp [hw]))⟩

/-- **Round trip.** For every array of every representable element type, every shape (the shape
    is carried verbatim, so `()`, `(0,)`, `(0,2)` need no special case) and every payload, decoding
    what `from_array` wrote gives the array back — bit for bit, except that a *signalling* float32
    NaN (also as a component of a complex64) has its quiet bit set when the platform's
    float→double conversion does that (`canon`, see `canon_spec`). -/
theorem roundtrip (q : Bool) (a : Arr) (name : String) (h : a.WF) :
    ∃ t, fromArray q a name = some t ∧ toArray q t = some (canon q a) := by
  obtain ⟨d, shape, words, strs⟩ := a
  have hr := h.range
  have hs := h.no_strs
  have hw := h.no_words
  simp only at hr hs hw
  cases d <;>
    simp only [fromArray, enumOf, onnxDType, fieldOf, toArray, canon, ne_eq, not_true_eq_false,
      if_false, reduceCtorEq, not_false_eq_true, forall_const, List.map_map, exists_eq_left',
      Option.some.injEq, Arr.mk.injEq, true_and, DType.bits] at hr hs hw ⊢
  all_goals first
    | (refine ⟨?_, hs.symm⟩; apply map_eq_self; intro w hw'; have := hr w hw';
       try simp only [Function.comp, decInt32, encInt, DType.signed, DType.bits, if_true, Bool.false_eq_true, if_false]
       first
         | exact ofInt_toSigned_8 w this | exact ofInt_toSigned_16 w this
         | exact ofInt_toSigned_32 w this | exact ofInt_toSigned_64 w this
         | exact ofInt_nat_16 w this | exact ofInt_nat_8 w this | exact ofInt_nat_bool w this
         | exact Nat.mod_eq_of_lt this)
    | (refine ⟨?_, hs.symm⟩; apply List.map_congr_left; intro w _; exact quiet32_idem q w)
    | exact hs.symm
    | (subst hw; rw [mapM_decode_encode]; rfl)

end C10
