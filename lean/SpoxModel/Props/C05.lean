/-! Property theorems for C05 (only property-level statements and non-vacuity examples live here). -/
