import SpoxModel.Model.Singleton
/-! Property theorems for C05 (only property-level statements and non-vacuity examples live here). -/
namespace C05
open Sing

/-- `untyped_input_no_check`: when some present input has no type the judgement is not consulted
    and every output Var stays untyped. -/
theorem untyped_input_no_check (c : Call) (hk : kindsOk c.sig.inputs c.args = true)
    (hu : anyUntyped c = true) (Infer : InferFn) :
    construct Infer c = .ok (c.outKeys.map (fun k => (k, none))) := by
  simp [construct, hk, hu]

end C05
