import SpoxModel.Model.Singleton
import SpoxModel.Lemmas.Singleton
import SpoxModel.Generated.C05Overrides
import SpoxModel.Model.MLOnnx
import SpoxModel.Model.Subtype
import SpoxModel.Lemmas.Subtype
/-! Property theorems for C05 (only property-level statements and non-vacuity examples live here). -/
set_option linter.unusedSimpArgs false
set_option linter.unusedVariables false
namespace C05
open Sing

/-! ### The singleton model is the hand-written node up to an injective renaming -/

/-- node part: renaming the node emitted under any good naming gives the singleton node -/
theorem node_alpha (nm : Ref → String) (c : Call) (hwf : WF c) (hg : GoodNames nm c) :
    renameNode (sigmaOf nm c) (emitNode nm c) = emitNode c.singName c := by
  have hin : (c.flat.map (fun p => optName nm p.2)).map (sigmaOf nm c)
      = c.flat.map (fun p => optName c.singName p.2) := by
    rw [List.map_map]
    apply List.map_congr_left
    intro p hp
    obtain ⟨k, ov⟩ := p
    cases ov with
    | none => exact sigmaOf_empty nm c hg
    | some v => exact sigmaOf_nm nm c hg _ (inp_ref c k v ((mem_inPairs c k v).mpr hp))
  have hout : (c.outPairs.map (fun p => nm (Ref.out p.2))).map (sigmaOf nm c)
      = c.outPairs.map (fun p => c.singName (Ref.out p.2)) := by
    rw [List.map_map]
    apply List.map_congr_left
    intro p hp
    exact sigmaOf_nm nm c hg _ (out_ref c p.1 p.2 hp)
  have hin0 : ∀ x ∈ c.flat.map (fun p => optName nm p.2), (sigmaOf nm c x = "" ↔ x = "") := by
    intro x hx
    obtain ⟨p, hp, rfl⟩ := List.mem_map.mp hx
    obtain ⟨k, ov⟩ := p
    cases ov with
    | none => simp [optName, sigmaOf_empty nm c hg]
    | some v =>
      have hr := inp_ref c k v ((mem_inPairs c k v).mpr hp)
      simp only [optName]
      rw [sigmaOf_nm nm c hg _ hr]
      constructor
      · intro h; exact absurd h (singName_ne c hwf _ hr)
      · intro h; exact absurd h (hg.ne _ hr)
  have hout0 : ∀ x ∈ c.outPairs.map (fun p => nm (Ref.out p.2)), (sigmaOf nm c x = "" ↔ x = "") := by
    intro x hx
    obtain ⟨p, hp, rfl⟩ := List.mem_map.mp hx
    have hr := out_ref c p.1 p.2 hp
    rw [sigmaOf_nm nm c hg _ hr]
    constructor
    · intro h; exact absurd h (singName_ne c hwf _ hr)
    · intro h; exact absurd h (hg.ne _ hr)
  simp only [renameNode, emitNode]
  rw [← trim_map _ _ _ hin0, ← trim_map _ _ _ hout0, hin, hout]

/-- a key of a present input is read by the singleton node iff it is the name of its Var,
    i.e. iff it is the first key under which the Var was passed -/
theorem key_used_iff (c : Call) (hwf : WF c) (k : String) (v : Nat) (h : (k, v) ∈ c.inPairs) :
    (emitNode c.singName c).inputs.contains k = (firstKey c.items (Ref.inp v) == some k) := by
  have hitem := (inp_mem_items c k v).mpr h
  have hkne : k ≠ "" := by
    intro he; apply hwf.nonempty; rw [← he]; exact List.mem_map.mpr ⟨(k, Ref.inp v), hitem, rfl⟩
  rw [Bool.eq_iff_iff]
  simp only [List.contains_eq_mem, decide_eq_true_eq, beq_iff_eq, emitNode]
  constructor
  · intro hm
    have hm' := mem_trim_sub _ _ _ hm
    obtain ⟨p, hp, he⟩ := List.mem_map.mp hm'
    obtain ⟨k', ov⟩ := p
    cases ov with
    | none => exact absurd he.symm hkne
    | some v' =>
      simp only [optName] at he
      have hp' := (mem_inPairs c k' v').mpr hp
      have hr' := inp_ref c k' v' hp'
      obtain ⟨k2, hk2, hs2, hm2⟩ := singName_spec c _ hr'
      rw [hs2] at he
      subst he
      have : Ref.inp v' = Ref.inp v := key_det c.items hwf.nodup k2 _ _ hm2 hitem
      rw [← this]; exact hk2
  · intro hf
    apply mem_trim_of_ne _ _ _ _ hkne
    refine List.mem_map.mpr ⟨(k, some v), (mem_inPairs c k v).mp h, ?_⟩
    simp only [optName]
    exact (first_iff c hwf k _ hitem).mp hf

/-- **singleton_alpha (model form)**: after dropping the graph inputs / initializers the node does
    not read (the extra key of a Var used in several slots), the singleton model *is* the hand-built
    model — same node, one value info carrying each distinct Var's type, one initializer carrying
    each known constant, placeholder outputs, the operator's own opset import — renamed by `σ`. -/
theorem singleton_prune_eq (nm : Ref → String) (c : Call) (hwf : WF c) (hg : GoodNames nm c) :
    prune (singleton c) = renameModel (sigmaOf nm c) (handModel nm c) := by
  have hnode := node_alpha nm c hwf hg
  have hsig : ∀ p ∈ c.distinctIn, sigmaOf nm c (nm (Ref.inp p.2)) = p.1 := by
    intro p hp
    have hmem := (List.mem_filter.mp hp).1
    have hfirst := (List.mem_filter.mp hp).2
    simp only [beq_iff_eq] at hfirst
    rw [sigmaOf_nm nm c hg _ (inp_ref c p.1 p.2 hmem)]
    exact (first_iff c hwf p.1 _ ((inp_mem_items c p.1 p.2).mpr hmem)).mp hfirst
  have hfilter : c.inPairs.filter (fun p => (emitNode c.singName c).inputs.contains p.1) = c.distinctIn := by
    unfold Call.distinctIn
    apply filter_congr_mem
    intro p hp
    exact key_used_iff c hwf p.1 p.2 hp
  simp only [prune, Sing.singleton, renameModel, handModel]
  congr 1
  · exact hnode.symm
  · -- graph inputs
    rw [filter_map_comm, List.map_map]
    simp only []
    rw [hfilter]
    apply List.map_congr_left
    intro p hp
    simp only [Function.comp, hsig p hp]
  · -- initializers
    rw [filter_filterMap_comm (fun (p : String × Nat) => (c.info p.2).val.map (fun v => (p.1, v)))
      (fun (q : String × String) => (emitNode c.singName c).inputs.contains q.1)
      (fun (p : String × Nat) => (emitNode c.singName c).inputs.contains p.1)]
    · rw [hfilter, List.map_filterMap]
      apply filterMap_congr_mem
      intro p hp
      cases (c.info p.2).val with
      | none => rfl
      | some v => simp [hsig p hp]
    · intro a b hab
      cases hv : (c.info a.2).val with
      | none => simp [hv] at hab
      | some v => simp [hv] at hab; rw [← hab]
  · -- graph outputs
    rw [List.map_map]
    apply List.map_congr_left
    intro p hp
    simp only [Function.comp]
    rw [sigmaOf_nm nm c hg _ (out_ref c p.1 p.2 hp)]
    exact (singName_out c p.1 p.2 hp).symm

/-- **singleton_alpha**: for every call and every good naming `nm` of its values (the names a build
    would use, or the names of a hand-written node) there is a renaming `σ`, injective on the distinct
    values of the call and fixing the empty name, with `rename σ (emitNode nm call) = (singleton call).node`;
    the value info attached to the name of every present input Var carries exactly that Var's type, the
    initializer exactly its known constant; any other graph input / initializer is not read by the
    node; the opset import is the operator's own `(domain, version)`. Holds in every calling form:
    omitted optionals, variadics, several outputs, one Var in several slots. -/
theorem singleton_alpha (nm : Ref → String) (c : Call) (hwf : WF c) (hg : GoodNames nm c) :
    ∃ σ : String → String,
      σ "" = "" ∧
      (∀ r1 ∈ c.refs, ∀ r2 ∈ c.refs, σ (nm r1) = σ (nm r2) → r1 = r2) ∧
      renameNode σ (emitNode nm c) = (singleton c).node ∧
      (singleton c).nodeName = "_this_" ∧
      (∀ k v, (k, v) ∈ c.inPairs →
        (σ (nm (Ref.inp v)), (c.info v).ty) ∈ (singleton c).graphInputs ∧
        (∀ a, (c.info v).val = some a → (σ (nm (Ref.inp v)), a) ∈ (singleton c).inits)) ∧
      (∀ k t, (k, t) ∈ (singleton c).graphInputs → (singleton c).node.inputs.contains k = true →
        ∃ v, (k, v) ∈ c.inPairs ∧ k = σ (nm (Ref.inp v)) ∧ t = (c.info v).ty) ∧
      (∀ k a, (k, a) ∈ (singleton c).inits → (singleton c).node.inputs.contains k = true →
        ∃ v, (k, v) ∈ c.inPairs ∧ k = σ (nm (Ref.inp v)) ∧ (c.info v).val = some a) ∧
      ((singleton c).graphInputs.map (fun p => p.1)).Nodup ∧
      (singleton c).graphOutputs = c.outKeys ∧
      (singleton c).opset = (c.sig.domain, c.sig.version) := by
  have hkeys_in : (c.inPairs.map (fun p => p.1)).Nodup := by
    have h := hwf.nodup
    unfold Call.keys Call.items at h
    rw [List.map_append, List.map_map] at h
    exact (List.nodup_append.mp h).1
  refine ⟨sigmaOf nm c, sigmaOf_empty nm c hg, ?_, node_alpha nm c hwf hg, rfl, ?_, ?_, ?_, ?_, ?_, rfl⟩
  · intro r1 h1 r2 h2 h
    rw [sigmaOf_nm nm c hg r1 h1, sigmaOf_nm nm c hg r2 h2] at h
    exact singName_inj c hwf r1 r2 h1 h2 h
  · intro k v hkv
    have hr := inp_ref c k v hkv
    obtain ⟨k1, hk1, hs1, hm1⟩ := singName_spec c _ hr
    rw [sigmaOf_nm nm c hg _ hr, hs1]
    have hm1' := (inp_mem_items c k1 v).mp hm1
    refine ⟨List.mem_map.mpr ⟨(k1, v), hm1', rfl⟩, ?_⟩
    intro a ha
    exact List.mem_filterMap.mpr ⟨(k1, v), hm1', by simp [ha]⟩
  · intro k t hkt hused
    obtain ⟨p, hp, he⟩ := List.mem_map.mp hkt
    simp only [Prod.mk.injEq] at he
    obtain ⟨rfl, rfl⟩ := he
    have hu := key_used_iff c hwf p.1 p.2 hp
    simp only [Sing.singleton] at hused
    rw [hused] at hu
    have hf : firstKey c.items (Ref.inp p.2) = some p.1 := by simpa using hu.symm
    refine ⟨p.2, hp, ?_, rfl⟩
    rw [sigmaOf_nm nm c hg _ (inp_ref c p.1 p.2 hp)]
    exact ((first_iff c hwf p.1 _ ((inp_mem_items c p.1 p.2).mpr hp)).mp hf).symm
  · intro k a hka hused
    obtain ⟨p, hp, he⟩ := List.mem_filterMap.mp hka
    cases hv : (c.info p.2).val with
    | none => simp [hv] at he
    | some a' =>
      simp only [hv, Option.map_some, Option.some.injEq, Prod.mk.injEq] at he
      obtain ⟨rfl, rfl⟩ := he
      have hu := key_used_iff c hwf p.1 p.2 hp
      simp only [Sing.singleton] at hused
      rw [hused] at hu
      have hf : firstKey c.items (Ref.inp p.2) = some p.1 := by simpa using hu.symm
      refine ⟨p.2, hp, ?_, hv⟩
      rw [sigmaOf_nm nm c hg _ (inp_ref c p.1 p.2 hp)]
      exact ((first_iff c hwf p.1 _ ((inp_mem_items c p.1 p.2).mpr hp)).mp hf).symm
  · simp only [Sing.singleton, List.map_map]
    exact hkeys_in
  · simp only [Sing.singleton]
    exact outPairs_fst c

/-- the two naming loops of `to_singleton_onnx_model` never hit `ScopeError` -/
theorem singleton_scope_no_clash (c : Call) (hwf : WF c) : scopeClash c.items [] = false :=
  scopeClash_false c.items [] hwf.nodup (by intro e he; cases he)

/-- **positional emission** (`Node.to_onnx`): under any scope the emitted input list is a prefix of
    the positional list (slot k still holds argument k, omitted inner optionals stay as `""`), what
    was dropped are only trailing `""`, and never below `min_input`. -/
theorem emit_positional (nm : Ref → String) (c : Call) :
    (emitNode nm c).inputs <+: c.flat.map (fun p => optName nm p.2) ∧
    (∃ k, c.flat.map (fun p => optName nm p.2) = (emitNode nm c).inputs ++ List.replicate k "") ∧
    (c.sig.minInput ≤ c.flat.length → c.sig.minInput ≤ (emitNode nm c).inputs.length) := by
  simp only [emitNode, trim]
  refine ⟨?_, ?_, ?_⟩
  · have := trimRev_suffix c.sig.minInput (c.flat.map (fun p => optName nm p.2)).reverse
    simpa using List.reverse_prefix.mpr this
  · obtain ⟨k, hk⟩ := trimRev_dropped c.sig.minInput (c.flat.map (fun p => optName nm p.2)).reverse
    refine ⟨k, ?_⟩
    have := congrArg List.reverse hk
    simpa using this
  · intro h
    have := trimRev_min c.sig.minInput (c.flat.map (fun p => optName nm p.2)).reverse (by simpa using h)
    simpa using this

/-- `untyped_input_no_check`: when some present input has no type the judgement is not consulted
    and every output Var stays untyped. -/
theorem untyped_input_no_check (c : Call) (hk : kindsOk c.sig.inputs c.args = true)
    (hu : anyUntyped c = true) (Infer : InferFn) :
    construct Infer c = .ok (c.outKeys.map (fun k => (k, none))) := by
  simp [construct, hk, hu]

/-! ### Eager agreement with the judgement -/

/-- What is assumed of ONNX's judgement (never proved here; observed by the model-free oracle, which
    writes the node with its own names and without unused inputs): it does not depend on the value
    names, it ignores graph inputs / initializers the node does not read, and it types exactly the
    graph outputs it was given. -/
structure InferOK (Infer : InferFn) : Prop where
  rename : ∀ (σ : String → String) (m : OneNodeModel),
    σ "" = "" →
    (∀ a ∈ namesOf m, σ a = "" → a = "") →
    (∀ a ∈ namesOf m, ∀ b ∈ namesOf m, σ a = σ b → a = b) →
    Infer (renameModel σ m) = (Infer m).map (fun res => res.map (fun p => (σ p.1, p.2)))
  unused : ∀ m, Infer (prune m) = Infer m
  outs : ∀ m res, Infer m = some res → res.map (fun p => p.1) = m.graphOutputs

theorem sigma_inj_on_hand (nm : Ref → String) (c : Call) (hwf : WF c) (hg : GoodNames nm c) :
    (∀ a ∈ namesOf (handModel nm c), sigmaOf nm c a = "" → a = "") ∧
    (∀ a ∈ namesOf (handModel nm c), ∀ b ∈ namesOf (handModel nm c),
      sigmaOf nm c a = sigmaOf nm c b → a = b) := by
  have hz := sigmaOf_empty nm c hg
  constructor
  · intro a ha h
    rcases names_hand nm c a ha with rfl | ⟨r, hr, rfl⟩
    · rfl
    · rw [sigmaOf_nm nm c hg r hr] at h
      exact absurd h (singName_ne c hwf r hr)
  · intro a ha b hb h
    rcases names_hand nm c a ha with rfl | ⟨r1, hr1, rfl⟩ <;>
      rcases names_hand nm c b hb with rfl | ⟨r2, hr2, rfl⟩
    · rfl
    · rw [hz, sigmaOf_nm nm c hg r2 hr2] at h
      exact absurd h.symm (singName_ne c hwf r2 hr2)
    · rw [hz, sigmaOf_nm nm c hg r1 hr1] at h
      exact absurd h (singName_ne c hwf r1 hr1)
    · rw [sigmaOf_nm nm c hg r1 hr1, sigmaOf_nm nm c hg r2 hr2] at h
      rw [singName_inj c hwf r1 r2 hr1 hr2 h]

/-- what the judgement answers on the singleton model is its answer on the hand-built model,
    with the output names mapped to the field keys -/
theorem infer_singleton (Infer : InferFn) (hI : InferOK Infer) (nm : Ref → String) (c : Call)
    (hwf : WF c) (hg : GoodNames nm c) :
    Infer (singleton c) =
      (Infer (handModel nm c)).map (fun res => res.map (fun p => (sigmaOf nm c p.1, p.2))) := by
  obtain ⟨h0, hinj⟩ := sigma_inj_on_hand nm c hwf hg
  rw [← hI.unused, singleton_prune_eq nm c hwf hg,
    hI.rename _ _ (sigmaOf_empty nm c hg) h0 hinj]

/-- **eager_agrees**: for every judgement invariant under injective renaming (and blind to unread
    inputs), a well-kinded call with all present inputs typed raises at the call exactly when the
    judgement rejects *the hand-built node* — same operator, same input types at the same positions
    (`""` for omitted optionals), same attributes, known constants as initializers — and otherwise
    every output Var carries `stripUnk` of the type the judgement assigned to the output at its
    position. `nm` is any good naming: the hand-built node may name its values as it likes. -/
theorem eager_agrees (Infer : InferFn) (hI : InferOK Infer) (nm : Ref → String) (c : Call)
    (hwf : WF c) (hg : GoodNames nm c)
    (hk : kindsOk c.sig.inputs c.args = true) (ht : anyUntyped c = false) :
    ((∃ e, construct Infer c = .error e) ↔ Infer (handModel nm c) = none) ∧
    (Infer (handModel nm c) = none → construct Infer c = .error .inference) ∧
    (∀ res, Infer (handModel nm c) = some res →
      construct Infer c = .ok (c.outPairs.map (fun p =>
        (p.1, (lookupTy (nm (Ref.out p.2)) res).map (stripUnk c.givenNames))))) := by
  have hS := infer_singleton Infer hI nm c hwf hg
  have hsome : ∀ res, Infer (handModel nm c) = some res →
      construct Infer c = .ok (c.outPairs.map (fun p =>
        (p.1, (lookupTy (nm (Ref.out p.2)) res).map (stripUnk c.givenNames)))) := by
    intro res hres
    rw [hres] at hS
    simp only [construct, hk, ht, hS, Option.map_some]
    simp only [Bool.not_true, Bool.false_eq_true, if_false]
    congr 1
    rw [← outPairs_fst c, List.map_map]
    apply List.map_congr_left
    intro p hp
    simp only [Function.comp]
    congr 2
    have hr := out_ref c p.1 p.2 hp
    have hname : p.1 = sigmaOf nm c (nm (Ref.out p.2)) := by
      rw [sigmaOf_nm nm c hg _ hr]; exact (singName_out c p.1 p.2 hp).symm
    rw [hname]
    apply lookupTy_rename
    intro b hb h
    have houts := hI.outs _ res hres
    rw [houts] at hb
    obtain ⟨_, hinj⟩ := sigma_inj_on_hand nm c hwf hg
    have hbn : b ∈ namesOf (handModel nm c) := by
      unfold namesOf; exact List.mem_append_right _ hb
    have han : nm (Ref.out p.2) ∈ namesOf (handModel nm c) := by
      unfold namesOf
      apply List.mem_append_right
      exact List.mem_map.mpr ⟨p, hp, rfl⟩
    exact hinj b hbn _ han h
  have hnone : Infer (handModel nm c) = none → construct Infer c = .error .inference := by
    intro hres
    rw [hres] at hS
    simp [construct, hk, ht, hS]
  refine ⟨?_, hnone, hsome⟩
  constructor
  · rintro ⟨e, he⟩
    cases hres : Infer (handModel nm c) with
    | none => rfl
    | some res => rw [hsome res hres] at he; cases he
  · intro hres
    exact ⟨_, hnone hres⟩

/-- **result_mapping_bijective**: results are mapped back by output *name*; because the output
    names of the singleton model are the pairwise distinct field keys, this is the same as mapping
    by position — the i-th output field receives the type of the i-th graph output, for any number
    of outputs (TopK, Split, LSTM ...). -/
theorem result_mapping_bijective (c : Call) (hwf : WF c) (res : List (String × Option Ty))
    (hres : res.map (fun p => p.1) = (singleton c).graphOutputs) :
    c.outKeys.map (fun k => lookupTy k res) = res.map (fun p => p.2) := by
  have hout : (singleton c).graphOutputs = c.outKeys := outPairs_fst c
  have hnd : c.outKeys.Nodup := by
    have h := hwf.nodup
    unfold Call.keys Call.items at h
    rw [List.map_append, List.map_map, List.map_map] at h
    have h2 := (List.nodup_append.mp h).2.1
    have : (List.map ((fun p => p.1) ∘ fun (p : String × Nat) => (p.1, Ref.out p.2)) c.outPairs)
        = c.outKeys := by
      rw [← outPairs_fst c]; rfl
    rw [this] at h2
    exact h2
  rw [hout] at hres
  rw [← hres]
  apply lookupTy_by_position
  rw [hres]
  exact hnd

/-- **stripUnk_weakens**: stripping the invented `unk__*` dimension names only forgets dimensions:
    constructor, element type and rank are kept, every kept dimension is unchanged. -/
theorem stripUnk_weakens (g : List String) (t : Ty) : Weaker (stripUnk g t) t := by
  induction t with
  | tensor e sh =>
    cases sh with
    | none => exact .tensorNone e
    | some s => exact .tensorSome e _ _ (stripShape_weaker g s)
  | seq t ih => exact .seq ih
  | opt t ih => exact .opt ih

theorem stripUnk_idem (g : List String) (t : Ty) : stripUnk g (stripUnk g t) = stripUnk g t := by
  induction t with
  | tensor e sh =>
    cases sh with
    | none => rfl
    | some s =>
      simp only [stripUnk, Option.map_some, List.map_map]
      congr 2
      apply List.map_congr_left
      intro d _
      exact stripDim_idem g d
  | seq t ih => simp [stripUnk, ih]
  | opt t ih => simp [stripUnk, ih]

/-- a type without invented dimension names (in particular: with the user's own symbolic
    dimensions) comes through unchanged -/
theorem stripUnk_keeps (g : List String) (t : Ty) (h : tyInvented g t = false) : stripUnk g t = t := by
  induction t with
  | tensor e sh =>
    cases sh with
    | none => rfl
    | some s =>
      simp only [tyInvented, List.any_eq_false] at h
      simp only [stripUnk, Option.map_some]
      congr 2
      conv => rhs; rw [← List.map_id s]
      apply List.map_congr_left
      intro d hd
      exact stripDim_id g d (by simpa using h d hd)
  | seq t ih => simp only [tyInvented] at h; simp [stripUnk, ih h]
  | opt t ih => simp only [tyInvented] at h; simp [stripUnk, ih h]

/-- the `TypeError` of `BaseVars.__post_init__` is raised exactly for ill-kinded argument lists, before
    (and independently of) any inference -/
theorem kind_error_iff (Infer : InferFn) (c : Call) :
    construct Infer c = .error .kind ↔ kindsOk c.sig.inputs c.args = false := by
  unfold construct
  cases hk : kindsOk c.sig.inputs c.args with
  | false => simp
  | true =>
    simp only [Bool.not_true, Bool.false_eq_true, if_false]
    cases hu : anyUntyped c with
    | true => simp
    | false =>
      simp only [Bool.false_eq_true, if_false]
      cases Infer (Sing.singleton c) with
      | none => simp
      | some res => simp

/-- **supplemented_rejects_more**: an operator whose override runs the standard routine first
    (Compress, Loop — checked on every run: the inference request is observed) rejects at least what
    the standard constructor rejects, whatever its own rules are. (The ml operators do *not* have this
    shape on the pinned tree: they replace the judgement — known findings.) -/
theorem supplemented_rejects_more (Infer : InferFn)
    (own : Call → List (String × Option Ty) → Except Err (List (String × Option Ty))) (c : Call)
    (h : ∃ e, construct Infer c = .error e) : ∃ e, constructSupplemented Infer own c = .error e := by
  obtain ⟨e, he⟩ := h
  exact ⟨e, by simp [constructSupplemented, he]⟩

/-! ### Generated obligation (tie G): which classes leave the standard routine -/

open Generated.C05Overrides in
/-- The classes under `src/spox/opset/**` that override `infer_output_types` (extracted from the
    source on this run) are exactly the operators the model treats as supplemented: every other
    constructor is `construct`. A new override breaks this. -/
theorem generated_inference_overrides :
    (overrides.filter (fun e => e.2.2.2.1)).map (fun e => (e.1, e.2.1, e.2.2.1)) = supplemented := by decide

open Generated.C05Overrides in
/-- … those whose override runs the standard routine first are exactly Compress and Loop
    (`supplemented_rejects_more` applies to them) … -/
theorem generated_standard_first :
    (overrides.filter (fun e => e.2.2.2.2.2)).map (fun e => (e.1, e.2.1, e.2.2.1)) = standardFirst := by decide

open Generated.C05Overrides in
/-- … and only `Constant` has its own value propagation. -/
theorem generated_propagation_overrides :
    (overrides.filter (fun e => e.2.2.2.2.1)).map (fun e => (e.1, e.2.1, e.2.2.1)) = ownPropagation := by decide

/-! ### Value propagation does not touch the types -/

/-- **types_ignore_values**: whatever the value-propagation backend computes (or fails to compute)
    — off, reference, onnxruntime, all operands constant or not — the call raises exactly as
    `construct` does and the output Vars carry exactly `construct`'s types, i.e. by `eager_agrees`
    `stripUnk` of what the judgement assigned: a known value never sharpens (or weakens) a type. -/
theorem types_ignore_values (Infer : InferFn)
    (prop : Call → List (String × Option Ty) → List (String × String)) (c : Call) :
    (match constructVP Infer prop c with
      | .error e => Except.error e
      | .ok outs => Except.ok (outs.map (fun (o : OutVar) => (o.key, o.ty)))) = construct Infer c := by
  unfold constructVP
  cases h : construct Infer c with
  | error e => rfl
  | ok tys =>
    simp only [List.map_map]
    congr 1
    conv => rhs; rw [← List.map_id tys]
    apply List.map_congr_left
    intro p _
    rfl

/-- two backends can only differ in the attached values, never in accept/reject or in a type -/
theorem backends_agree_on_types (Infer : InferFn)
    (prop1 prop2 : Call → List (String × Option Ty) → List (String × String)) (c : Call) :
    (match constructVP Infer prop1 c with
      | .error e => Except.error e
      | .ok outs => Except.ok (outs.map (fun (o : OutVar) => (o.key, o.ty)))) =
    (match constructVP Infer prop2 c with
      | .error e => Except.error e
      | .ok outs => Except.ok (outs.map (fun (o : OutVar) => (o.key, o.ty)))) := by
  rw [types_ignore_values, types_ignore_values]

/-- a value is attached only to an output whose type is known -/
theorem values_only_on_typed (Infer : InferFn)
    (prop : Call → List (String × Option Ty) → List (String × String)) (c : Call)
    (outs : List OutVar) (h : constructVP Infer prop c = .ok outs) :
    ∀ o ∈ outs, o.ty = none → o.val = none := by
  unfold constructVP at h
  cases hc : construct Infer c with
  | error e => rw [hc] at h; cases h
  | ok tys =>
    rw [hc] at h
    simp only [Except.ok.injEq] at h
    intro o ho hty
    rw [← h] at ho
    obtain ⟨p, _, rfl⟩ := List.mem_map.mp ho
    simp only at hty
    simp [hty]

/-! ### No state between calls -/

/-- **construct_history_free**: in any sequence of constructor calls every call is answered as if it
    were alone — whatever came before or comes after it. -/
theorem construct_history_free (Infer : InferFn) (cs : List Call) :
    runHistory Infer cs = cs.map (construct Infer) := by
  induction cs with
  | nil => rfl
  | cons c cs ih => simp [runHistory, ih]

theorem construct_history_free_at (Infer : InferFn) (pre post : List Call) (c : Call) :
    (runHistory Infer (pre ++ c :: post))[pre.length]? = some (construct Infer c) := by
  rw [construct_history_free]
  simp

/-- A memoising implementation is indistinguishable from the stateless one exactly when its key
    determines the answer: if equal keys imply equal `construct`, every history is answered as by
    `runHistory` … -/
theorem memo_sound {K} [DecidableEq K] (key : Call → K) (Infer : InferFn)
    (hkey : ∀ c1 c2, key c1 = key c2 → construct Infer c1 = construct Infer c2)
    (cs : List Call) : runMemo key Infer [] cs = runHistory Infer cs := by
  have gen : ∀ (cs : List Call) (cache : List (K × Result)),
      (∀ k r, lookupK k cache = some r → ∃ c, key c = k ∧ r = construct Infer c) →
      runMemo key Infer cache cs = runHistory Infer cs := by
    intro cs
    induction cs with
    | nil => intro cache _; rfl
    | cons c cs ih =>
      intro cache hinv
      simp only [runMemo, runHistory]
      cases hl : lookupK (key c) cache with
      | some r =>
        obtain ⟨c', hk, hr⟩ := hinv _ _ hl
        simp only
        rw [hr, hkey c' c hk, ih cache hinv]
      | none =>
        simp only
        rw [ih]
        intro k r hlk
        simp only [lookupK] at hlk
        by_cases he : key c = k
        · rw [if_pos he] at hlk
          exact ⟨c, he, by cases hlk; rfl⟩
        · rw [if_neg he] at hlk
          exact hinv k r hlk
  exact gen cs [] (by intro k r h; simp [lookupK] at h)

/-! ### Non-vacuity -/

/-- good namings exist for every call, so `singleton_alpha` / `eager_agrees` speak about every call -/
theorem goodNames_exist (c : Call) : ∃ nm, GoodNames nm c := ⟨tallyNames, goodNames_tally c⟩

/-- naming-free corollary: accept/reject of the constructor is accept/reject of the judgement on the
    canonical hand-built model, for every well-formed, well-kinded, fully typed call -/
theorem eager_agrees_canonical (Infer : InferFn) (hI : InferOK Infer) (c : Call) (hwf : WF c)
    (hk : kindsOk c.sig.inputs c.args = true) (ht : anyUntyped c = false) :
    ((∃ e, construct Infer c = .error e) ↔ Infer (handModel tallyNames c) = none) :=
  (eager_agrees Infer hI tallyNames c hwf (goodNames_tally c) hk ht).1

deriving instance DecidableEq for Except

/-- the hypotheses on the judgement are satisfiable: by a judgement that accepts everything … -/
theorem inferOK_accept : InferOK (fun m => some (m.graphOutputs.map (fun k => (k, none)))) where
  rename := by intro σ m _ _ _; simp [renameModel, List.map_map, Function.comp]
  unused := by intro m; rfl
  outs := by
    intro m res h
    simp only [Option.some.injEq] at h
    rw [← h, List.map_map]
    exact List.map_id' _

/-- … and by one that rejects everything -/
theorem inferOK_reject : InferOK (fun _ => none) where
  rename := by intro σ m _ _ _; rfl
  unused := by intro m; rfl
  outs := by intro m res h; cases h

def f32 (s : List Dim) : Ty := .tensor 1 (some s)

def clipSig : Sig :=
  { op := "Clip", domain := "", version := 13,
    inputs := [⟨"input", .single⟩, ⟨"min", .optional⟩, ⟨"max", .optional⟩],
    outputs := [⟨"output", .single⟩], minInput := 1, minOutput := 1 }

/-- `clip(x, max=const)` — the middle optional omitted -/
def clipCall : Call :=
  { sig := clipSig, args := [.var 0, .none, .var 1], attrs := [], outVariadic := 0
    info := fun v => if v = 0 then ⟨some (f32 [.const 2, .const 3]), none⟩
                     else ⟨some (f32 []), some "1:[]:c0ffee"⟩ }

example : WF clipCall := (wfB_iff _).mp (by decide)
example : (singleton clipCall).node.inputs = ["input", "", "max"] := by decide
example : (singleton clipCall).inits = [("max", "1:[]:c0ffee")] := by decide
example : (handModel (fun r => match r with | .inp v => "i" ++ toString v | .out i => "o" ++ toString i)
    clipCall).node.inputs = ["i0", "", "i1"] := by decide
/-- both optionals omitted: trimmed down to `min_input` -/
example : (singleton { clipCall with args := [.var 0, .none, .none] }).node.inputs = ["input"] := by decide

def concatSig : Sig :=
  { op := "Concat", domain := "", version := 13, inputs := [⟨"inputs", .variadic⟩],
    outputs := [⟨"concat_result", .single⟩], minInput := 1, minOutput := 1 }

def concatCall : Call :=
  { sig := concatSig, args := [.list [0, 1, 0]], attrs := [("axis", some "a0")], outVariadic := 0
    info := fun _ => ⟨some (f32 [.const 2, .sym "N"]), none⟩ }

example : WF concatCall := (wfB_iff _).mp (by decide)
/-- variadic flattened as `field_i`; Var 0 passed twice keeps its first key; `inputs_2` is an unread graph input -/
example : (singleton concatCall).node.inputs = ["inputs_0", "inputs_1", "inputs_0"] := by decide
example : (singleton concatCall).graphInputs.map (fun p => p.1) = ["inputs_0", "inputs_1", "inputs_2"] := by decide
example : (prune (singleton concatCall)).graphInputs.map (fun p => p.1) = ["inputs_0", "inputs_1"] := by decide
example : (singleton concatCall).node.attrs = [("axis", "a0")] := by decide

def topkSig : Sig :=
  { op := "TopK", domain := "", version := 11, inputs := [⟨"X", .single⟩, ⟨"K", .single⟩],
    outputs := [⟨"Values", .single⟩, ⟨"Indices", .single⟩], minInput := 2, minOutput := 2 }

def topkCall : Call :=
  { sig := topkSig, args := [.var 0, .var 1], attrs := [("axis", some "m1"), ("largest", some "1"), ("sorted", some "1")]
    outVariadic := 0
    info := fun v => if v = 0 then ⟨some (f32 [.const 2, .const 5]), none⟩
                     else ⟨some (.tensor 7 (some [.const 1])), some "7:[1]:2"⟩ }

/-- a judgement answering as ONNX does for TopK with K = 2 (second dimension invented) -/
def topkInfer : InferFn := fun m =>
  match m.graphOutputs with
  | [a, b] => some [(a, some (f32 [.const 2, .sym "unk__0"])), (b, some (.tensor 7 (some [.const 2, .sym "unk__0"])))]
  | _ => none

example : WF topkCall := (wfB_iff _).mp (by decide)
/-- two outputs, each receives its own type, the invented dimension reported as unknown -/
example : construct topkInfer topkCall =
    .ok [("Values", some (f32 [.const 2, .unk])), ("Indices", some (.tensor 7 (some [.const 2, .unk])))] := by
  decide
/-- rejection surfaces at the call -/
example : construct (fun _ => none) topkCall = .error .inference := by decide
/-- an untyped input: no check, untyped outputs — even with a judgement that would reject -/
example : construct (fun _ => none) { topkCall with info := fun _ => ⟨none, none⟩ }
    = .ok [("Values", none), ("Indices", none)] := by decide
/-- kind error: `None` passed for a required input -/
example : construct topkInfer { topkCall with args := [.var 0, .none] } = .error .kind := by decide

def addSig : Sig :=
  { op := "Add", domain := "", version := 14, inputs := [⟨"A", .single⟩, ⟨"B", .single⟩],
    outputs := [⟨"C", .single⟩], minInput := 2, minOutput := 1 }

/-- `add(x, x)`: one Var in two slots -/
def addCall : Call :=
  { sig := addSig, args := [.var 7, .var 7], attrs := [], outVariadic := 0
    info := fun _ => ⟨some (f32 [.sym "N"]), none⟩ }

example : WF addCall := (wfB_iff _).mp (by decide)
example : (singleton addCall).node.inputs = ["A", "A"] := by decide
example : (singleton addCall).graphInputs = [("A", some (f32 [.sym "N"])), ("B", some (f32 [.sym "N"]))] := by decide
example : prune (singleton addCall) =
    renameModel (fun s => if s = "x" then "A" else if s = "y" then "C" else s)
      (handModel (fun r => match r with | .inp _ => "x" | .out _ => "y") addCall) := by decide
example : (singleton addCall).opset = ("", 14) := by decide

example : stripUnk [] (.seq (f32 [.sym "N", .sym "unk__12", .const 3])) = .seq (f32 [.sym "N", .unk, .const 3]) := by
  decide

def splitSig : Sig :=
  { op := "Split", domain := "", version := 13, inputs := [⟨"input", .single⟩, ⟨"split", .optional⟩],
    outputs := [⟨"outputs", .variadic⟩], minInput := 1, minOutput := 1 }

def splitCall (n : Nat) : Call :=
  { sig := splitSig, args := [.var 0, .none], attrs := [("axis", some "a0")], outVariadic := n
    info := fun _ => ⟨some (f32 [.const 6]), none⟩ }

/-- a judgement that types every requested output -/
def typeAll : InferFn := fun m => some (m.graphOutputs.map (fun k => (k, some (f32 [.unk]))))

/-- … and a key that forgets the number of requested outputs is *not* such a key: the same Split
    asked for 2 and then for 3 outputs answers the second call with the first call's two types
    (the third output stays untyped), while the stateless constructor types all three. -/
theorem memo_without_output_count_counterexample :
    runMemo (fun c => (c.sig.op, c.args)) typeAll [] [splitCall 2, splitCall 3]
      ≠ runHistory typeAll [splitCall 2, splitCall 3] := by decide

example : runHistory typeAll [splitCall 2, splitCall 3] =
    [.ok [("outputs_0", some (f32 [.unk])), ("outputs_1", some (f32 [.unk]))],
     .ok [("outputs_0", some (f32 [.unk])), ("outputs_1", some (f32 [.unk])), ("outputs_2", some (f32 [.unk]))]] := by
  decide

/-! ### The supplements' own rules (Compress, Loop) -/

theorem tyLe_refl : ∀ t : Ty, tyLe t t = true
  | .tensor e none => by simp [tyLe]
  | .tensor e (some ds) => by simp [tyLe, zip_all_dimLe_refl ds]
  | .seq t => by simp [tyLe, tyLe_refl t]
  | .opt t => by simp [tyLe, tyLe_refl t]

/-- Compress: whatever the supplement answers has the input's element type -/
theorem compress_keeps_elem (e : Nat) (ish : Option (List Dim)) (cond : Ty) (axis : Option Int) (t : Ty)
    (h : compressOwn (.tensor e ish) cond axis = .ok t) : ∃ sh, t = .tensor e sh := by
  cases cond with
  | tensor ce csh =>
    simp only [compressOwn] at h
    split at h
    · exact ⟨none, by injection h with h; exact h.symm⟩
    · split at h
      · cases h
      · split at h
        · cases h
        · split at h
          · exact ⟨_, by injection h with h; exact h.symm⟩
          · exact ⟨_, by injection h with h; exact h.symm⟩
          · split at h
            · exact ⟨_, by injection h with h; exact h.symm⟩
            · cases h
  | seq t' => simp [compressOwn] at h
  | opt t' => simp [compressOwn] at h

/-- Compress without an axis: a vector of unknown length, whatever is known about the input's rank
    (what ONNX infers; the point of fix `2f0b661`) -/
theorem compress_no_axis_vector (e : Nat) (ish : Option (List Dim)) (cond : Ty) (t : Ty)
    (h : compressOwn (.tensor e ish) cond none = .ok t) : t = .tensor e (some [Dim.unk]) := by
  cases cond with
  | tensor ce csh =>
    simp only [compressOwn] at h
    split at h
    · rename_i hc; simp at hc
    · split at h
      · cases h
      · split at h
        · cases h
        · injection h with h; exact h.symm
  | seq t' => simp [compressOwn] at h
  | opt t' => simp [compressOwn] at h

/-- Compress with an axis keeps the rank of an input of known rank -/
theorem compress_axis_rank (e : Nat) (ds : List Dim) (cond : Ty) (a : Int) (t : Ty)
    (h : compressOwn (.tensor e (some ds)) cond (some a) = .ok t) :
    ∃ ds', t = .tensor e (some ds') ∧ ds'.length = ds.length := by
  cases cond with
  | tensor ce csh =>
    simp only [compressOwn] at h
    split at h
    · rename_i hc; simp at hc
    · split at h
      · cases h
      · split at h
        · cases h
        · split at h
          · injection h with h; exact ⟨_, h.symm, setUnkAt_length _ _⟩
          · cases h
  | seq t' => simp [compressOwn] at h
  | opt t' => simp [compressOwn] at h

/-- the rule before the fix forgot the vector: same call, weaker answer -/
theorem compress_old_forgets_vector_counterexample :
    compressOwnOld (.tensor 1 none) (.tensor 9 (some [.const 2])) none = .ok (.tensor 1 none)
    ∧ compressOwn (.tensor 1 none) (.tensor 9 (some [.const 2])) none = .ok (.tensor 1 (some [Dim.unk])) := by
  decide

example : compressOwn (.tensor 1 (some [.const 2, .sym "N"])) (.tensor 9 (some [.const 2])) (some (-1))
    = .ok (.tensor 1 (some [.const 2, .unk])) := by decide
example : compressOwn (.tensor 1 (some [.const 2, .sym "N"])) (.tensor 9 (some [.const 2])) (some 2)
    = .error .inference := by decide
example : compressOwn (.tensor 1 (some [.const 2])) (.tensor 7 (some [.const 2])) none = .error .inference := by decide
example : compressOwn (.tensor 1 (some [.const 2])) (.tensor 9 (some [])) none = .ok (.tensor 1 (some [.unk])) := by decide
example : compressOwn (.tensor 1 (some [.const 2])) (.tensor 9 (some [.const 2, .const 2])) none = .error .inference := by decide

/-! Loop -/

/-- the Loop supplement never changes which outputs exist -/
theorem loopOwn_keys (results args : List (Option Ty)) (std : List (String × Option Ty)) :
    (loopOwn results args std).map Prod.fst = std.map Prod.fst := by
  simp only [loopOwn]
  split
  · exact loopOverlay_keys _ _
  · rfl

/-- **the scan outputs are the standard routine's**: the supplement speaks about the loop-carried
    outputs only - whatever is known about the trip count or the condition, nothing is derived for
    the outputs after them -/
theorem loopOwn_scan_untouched (results args : List (Option Ty)) (std : List (String × Option Ty)) :
    (loopOwn results args std).drop (min results.length args.length)
      = std.drop (min results.length args.length) := by
  simp only [loopOwn]
  split
  · have := loopOverlay_drop (List.zip results args) std
    simpa [List.length_zip] using this
  · rfl

/-- **soundness of the reported carried type**: when the body's result refines the declared argument
    type, the type the supplement reports is refined by BOTH - it holds for the initial value (zero
    iterations) and for a result of the body (one or more) -/
theorem loopCommon_sound (r a : Ty) (h : loopRefines (some r) (some a) = true) :
    tyLe r (loopCommon r a) = true ∧ tyLe a (loopCommon r a) = true := by
  cases r with
  | tensor re rsh =>
    cases a with
    | tensor ae ash =>
      simp only [loopRefines] at h
      split at h
      · cases h
      · rename_i hne
        have hre : re = ae := by simpa using hne
        subst hre
        cases ash with
        | none => cases rsh <;> simp [loopCommon, tyLe]
        | some as =>
          cases rsh with
          | none => simp at h
          | some rs =>
            simp only [Bool.and_eq_true, beq_iff_eq] at h
            have hl : as.length = rs.length := h.1.symm
            have := common_dims_sound as rs hl
            simp [loopCommon, tyLe, List.length_zip, hl, this.1, this.2]
    | seq t => simp [loopRefines] at h
    | opt t => simp [loopRefines] at h
  | seq t =>
    cases a with
    | tensor ae ash => simp [loopRefines] at h
    | seq t' => simp [loopRefines] at h; subst h; simp [loopCommon, tyLe_refl]
    | opt t' => simp [loopRefines] at h
  | opt t =>
    cases a with
    | tensor ae ash => simp [loopRefines] at h
    | seq t' => simp [loopRefines] at h
    | opt t' => simp [loopRefines] at h; subst h; simp [loopCommon, tyLe_refl]

/-- before fix `bd04552` the body's result type was reported as it is: not a type of the initial
    value when the body changes a dimension (`f32[2]` fed, body yields `f32[3]`) -/
theorem loop_old_unsound_counterexample :
    loopOwnOld [some (.tensor 1 (some [.const 3]))] [("v_final_and_scan_outputs_0", some (.tensor 1 none))]
      = [("v_final_and_scan_outputs_0", some (.tensor 1 (some [.const 3])))]
    ∧ tyLe (.tensor 1 (some [.const 2])) (.tensor 1 (some [.const 3])) = false
    ∧ loopOwn [some (.tensor 1 (some [.const 3]))] [some (.tensor 1 (some [.const 2]))]
        [("v_final_and_scan_outputs_0", some (.tensor 1 none))]
      = [("v_final_and_scan_outputs_0", some (.tensor 1 none))] := by
  decide

example : loopOwn [some (.tensor 1 (some [.const 2, .sym "N"]))] [some (.tensor 1 (some [.const 2, .unk]))]
    [("o_0", some (.tensor 1 none)), ("o_1", some (.tensor 1 (some [.unk, .const 4])))]
    = [("o_0", some (.tensor 1 (some [.const 2, .unk]))), ("o_1", some (.tensor 1 (some [.unk, .const 4])))] := by decide

/-! ### Types survive the trip through TypeProtos (`Type._to_onnx` / `Type._from_onnx`) -/

theorem fromProto_toProto_dim (d : Dim) : fromProtoDim (toProtoDim d) = normDim d := by
  cases d with
  | const n => rfl
  | sym s => by_cases h : s = "" <;> simp [toProtoDim, fromProtoDim, normDim, h]
  | unk => rfl

/-- **round trip**: what `_from_onnx` reads back from `_to_onnx` is the type itself (an empty
    dimension name being the unknown dimension): rank 0 stays rank 0, unknown rank stays unknown, a
    dimension of size 0 stays 0, symbolic names are kept -/
theorem fromProto_toProto : ∀ t : Ty, fromProto (toProto t) = normTy t
  | .tensor e none => rfl
  | .tensor e (some ds) => by
    simp only [toProto, fromProto, normTy, Option.map_some, List.map_map]
    congr 2
    apply List.map_congr_left
    intro d _
    exact fromProto_toProto_dim d
  | .seq t => by simp [toProto, fromProto, normTy, fromProto_toProto t]
  | .opt t => by simp [toProto, fromProto, normTy, fromProto_toProto t]

/-- rank 0 is not unknown rank, in either direction -/
theorem rank0_is_not_unknown (e : Nat) :
    toProto (.tensor e (some [])) ≠ toProto (.tensor e none)
    ∧ fromProto (.tensor e (some [])) ≠ fromProto (.tensor e none) := by
  constructor <;> simp [toProto, fromProto]

/-- a dimension of size 0 is not an unknown dimension, in either direction -/
theorem zero_dim_is_not_unknown :
    toProtoDim (.const 0) ≠ toProtoDim .unk ∧ fromProtoDim (.value 0) ≠ fromProtoDim .unset := by
  constructor <;> simp [toProtoDim, fromProtoDim]

/-- `_to_onnx` loses nothing: it is injective on types without empty dimension names -/
theorem toProto_injective (t t' : Ty) (h : normTy t = t) (h' : normTy t' = t')
    (heq : toProto t = toProto t') : t = t' := by
  rw [← h, ← h', ← fromProto_toProto, ← fromProto_toProto, heq]

example : fromProto (toProto (.seq (.tensor 1 (some [.const 0, .sym "N", .unk, .sym ""]))))
    = .seq (.tensor 1 (some [.const 0, .sym "N", .unk, .unk])) := by decide

/-! ### What a supplement may do to the types -/

/-- **a supplement that only refines**: if the operator's own rules, applied to any standard answer,
    return output by output a type that refines it (`refinesAll`), then whatever the supplemented
    constructor returns refines what the standard constructor returns for the same call - it may say
    more than ONNX, never less and nothing else. (`_partial`: the hypothesis is a property of the
    rules; it holds for Compress / Loop as far as observed on every run by the model-free oracle, and
    fails for the ml operators - `supplement_replacing_counterexample`.) -/
theorem supplemented_refines_partial (Infer : InferFn)
    (own : Call → List (String × Option Ty) → Except Err (List (String × Option Ty))) (c : Call)
    (hown : ∀ std r, own c std = .ok r → refinesAll r std = true)
    (r : List (String × Option Ty)) (h : constructSupplemented Infer own c = .ok r) :
    ∃ std, construct Infer c = .ok std ∧ refinesAll r std = true := by
  simp only [constructSupplemented] at h
  split at h
  · cases h
  · rename_i std hstd
    exact ⟨std, hstd, hown std r h⟩

/-- rules that *replace* the judgement (the ml operators: no type at all when the input's rank is
    unknown) do not refine: the standard routine types both outputs, the replacement none -/
theorem supplement_replacing_counterexample :
    constructSupplemented topkInfer (fun _ std => .ok (std.map (fun p => (p.1, none)))) topkCall
      = .ok [("Values", none), ("Indices", none)]
    ∧ refinesAll [("Values", none), ("Indices", none)]
        [("Values", some (f32 [.const 2, .unk])), ("Indices", some (.tensor 7 (some [.const 2, .unk])))] = false := by
  decide

/-- before fix `f580c1e` every `unk__*` name was stripped (`given = []`): a dimension the CALLER
    named `unk__0` went with the invented ones -/
theorem stripUnk_user_named_unk_counterexample :
    stripUnk [] (.tensor 1 (some [.sym "unk__0", .const 2])) = .tensor 1 (some [.unk, .const 2])
    ∧ stripUnk [] (.tensor 1 (some [.sym "unk__0", .const 2])) ≠ .tensor 1 (some [.sym "unk__0", .const 2]) := by
  decide

/-- ... and since the fix the caller's own names survive whatever they look like, while a name ONNX
    invented next to them (`unk__1`) is still reported as unknown -/
theorem stripUnk_keeps_given (g : List String) (t : Ty) (h : ∀ s ∈ dimNames t, s ∈ g) : stripUnk g t = t := by
  apply stripUnk_keeps
  induction t with
  | tensor e sh =>
    cases sh with
    | none => rfl
    | some ds =>
      simp only [tyInvented, List.any_eq_false]
      intro d hd
      cases d with
      | const n => simp [dimInvented]
      | unk => simp [dimInvented]
      | sym s =>
        have : s ∈ g := h s (by simp only [dimNames, List.mem_filterMap]; exact ⟨.sym s, hd, rfl⟩)
        simp [dimInvented, this]
  | seq t ih => exact ih h
  | opt t ih => exact ih h

example : stripUnk ["unk__0"] (.tensor 1 (some [.sym "unk__0", .sym "unk__1", .const 2]))
    = .tensor 1 (some [.sym "unk__0", .unk, .const 2]) := by decide

example : refinesAll [("o", some (.tensor 1 (some [.const 2, .unk])))] [("o", some (.tensor 1 none))] = true := by decide
example : refinesAll [("o", some (.tensor 1 none))] [("o", some (.tensor 1 (some [.unk])))] = false := by decide
example : refinesAll [("o", some (.tensor 7 none))] [("o", some (.tensor 1 none))] = false := by decide

/-! ### How the constructors with a body type the body's formal arguments -/

/-- Loop: the formals after (iteration, condition) are the operands' own types, in order -/
theorem loop_formals_carried (vs : List Ty) : (loopFormals vs).drop 2 = vs := rfl

/-- `_partial`: spox's formals agree with the specification's *after the first two* ... -/
theorem loop_formals_partial (vs : List Ty) : (loopFormals vs).drop 2 = (loopFormalsSpec vs).drop 2 := rfl

/-- ... and never on the first two: iteration number and condition are declared `(1,)`, the
    specification (and ONNX's inference) has scalars - a scalar `cond` operand is rejected at the call,
    a `(1,)` one accepted (known findings `raises-but-onnx-accepts:Loop`, `accepts-but-onnx-rejects:Loop`) -/
theorem loop_formals_cond_shape_counterexample (vs : List Ty) :
    (loopFormals vs).take 2 ≠ (loopFormalsSpec vs).take 2 := by
  simp [loopFormals, loopFormalsSpec]

/-- Scan, one scan input of known rank: the formal is the operand with its FIRST axis removed -/
theorem scan_slice_drops_axis0 (e : Nat) (d : Dim) (ds : List Dim) :
    scanSliceFormal (.tensor e (some (d :: ds))) = some (.tensor e (some ds)) := rfl

/-- `_partial`: for a scan input scanned along axis 0 (the default) spox's formal is the slice the
    specification gives the body ... -/
theorem scan_formals_axis0_partial (t : Ty) : scanSliceFormal t = scanSliceSpec t 0 := by
  cases t with
  | tensor e sh => cases sh with
    | none => rfl
    | some ds => cases ds <;> rfl
  | seq t => rfl
  | opt t => rfl

/-- ... and for another axis it is not: `scan_input_axes` is ignored when the body is typed (known
    findings `…:Scan:…:nonzero-scan-input-axes`): f32[2,3] scanned along axis 1 - the body should see
    f32[2], spox declares f32[3] -/
theorem scan_formals_nonzero_axis_counterexample :
    scanSliceFormal (.tensor 1 (some [.const 2, .const 3])) = some (.tensor 1 (some [.const 3]))
    ∧ scanSliceSpec (.tensor 1 (some [.const 2, .const 3])) 1 = some (.tensor 1 (some [.const 2])) := by
  decide

/-- Scan with `num_scan_inputs = n ≤ len`: the state formals are the first `len - n` operands
    unchanged -/
theorem scan_formals_state (state scan : List Ty) (hs : ∀ t ∈ state, ∃ e sh, t = .tensor e sh)
    (fs : List Ty) (h : scanFormals (state ++ scan) scan.length = some fs) : fs.take state.length = state := by
  have hk : ((state ++ scan).length : Int) - (scan.length : Int) = (state.length : Int) := by
    simp [List.length_append]
  simp only [scanFormals, hk, pyTake, pyDrop] at h
  have hneg : ¬ ((state.length : Int) < 0) := by omega
  simp only [hneg, if_false, Int.toNat_natCast, List.take_left', List.drop_left'] at h
  clear hk hneg
  revert fs h
  induction state with
  | nil => intro fs h; simp
  | cons t ts ih =>
    intro fs h
    obtain ⟨e, sh, rfl⟩ := hs _ (List.mem_cons_self)
    simp only [List.map_cons, List.cons_append, stateFormal, allSome] at h
    cases hrest : allSome (ts.map stateFormal ++ scan.map scanSliceFormal) with
    | none => simp [hrest] at h
    | some rest =>
      simp only [hrest, Option.map_some, Option.some.injEq] at h
      subst h
      have := ih (fun t ht => hs t (List.mem_cons_of_mem _ ht)) rest hrest
      simp [this]

/-- SequenceMap: the first formal is the element type of the sequence operand -/
theorem seqmap_formals_elem (t : Ty) (add : List Ty) (fs : List Ty)
    (h : seqMapFormals (.seq t) add = some fs) : fs.head? = some t ∧ fs.length = add.length + 1 := by
  simp only [seqMapFormals, Option.some.injEq] at h
  subst h
  simp

example : scanFormals [.tensor 1 (some [.const 4]), .tensor 7 (some [.sym "T", .const 2]), .tensor 7 none] 2
    = some [.tensor 1 (some [.const 4]), .tensor 7 (some [.const 2]), .tensor 7 none] := by decide
/-- `num_scan_inputs` larger than the operand list: Python's negative slice bounds -/
example : scanFormals [.tensor 1 (some [.const 4]), .tensor 7 (some [.const 3, .const 2])] 3
    = some [.tensor 1 (some [.const 4]), .tensor 7 (some [.const 2])] := by decide
example : scanFormals [.seq (.tensor 1 none)] 1 = none := by decide
example : seqMapFormals (.seq (.tensor 1 (some [.const 2]))) [.seq (.tensor 7 none), .tensor 9 (some [])]
    = some [.tensor 1 (some [.const 2]), .tensor 7 none, .tensor 9 (some [])] := by decide
example : seqMapFormals (.tensor 1 none) [] = none := by decide

/-! ### Round 10 - `Type._subtype` / `Shape.__le__` / `PropValue.check` (the gate of value propagation) -/

/-- **subtype_eq_compatible** (refinement to a simple specification): `_subtype` as written - with the
    `self == other` shortcut in front of every clause - *is* the compatibility relation: same
    constructors, same element type, shapes that do not contradict each other. The shortcut never
    changes an answer. -/
theorem subtype_eq_compatible : ∀ t u : Ty, subtype t u = compatible t u
  | .tensor e sh, .tensor e' sh' => by
    simp only [subtype, compatible]
    by_cases h : Ty.tensor e sh = Ty.tensor e' sh'
    · injection h with h1 h2
      subst h1; subst h2
      simp [shapeLe_refl]
    · simp [h]
  | .seq t, .seq t' => by
    simp only [subtype, compatible]
    rw [subtype_eq_compatible t t']
    by_cases h : t = t'
    · subst h
      have : compatible t t = true := by
        rw [← subtype_eq_compatible t t]
        cases t <;> simp [subtype, shapeLe_refl]
      simp [this]
    · simp [h]
  | .opt t, .opt t' => by
    simp only [subtype, compatible]
    rw [subtype_eq_compatible t t']
    by_cases h : t = t'
    · subst h
      have : compatible t t = true := by
        rw [← subtype_eq_compatible t t]
        cases t <;> simp [subtype, shapeLe_refl]
      simp [this]
    · simp [h]
  | .tensor _ _, .seq _ => rfl
  | .tensor _ _, .opt _ => rfl
  | .seq _, .tensor _ _ => rfl
  | .seq _, .opt _ => rfl
  | .opt _, .tensor _ _ => rfl
  | .opt _, .seq _ => rfl

theorem compatible_refl : ∀ t : Ty, compatible t t = true
  | .tensor e sh => by simp [compatible, shapeLe_refl]
  | .seq t => by simp [compatible, compatible_refl t]
  | .opt t => by simp [compatible, compatible_refl t]

/-- `t._subtype(t)` for every type -/
theorem subtype_refl (t : Ty) : subtype t t = true := by
  rw [subtype_eq_compatible]; exact compatible_refl t

theorem compatible_symm : ∀ t u : Ty, compatible t u = compatible u t
  | .tensor e sh, .tensor e' sh' => by
    simp only [compatible, shapeLe_symm sh sh']
    rw [Bool.beq_comm]
  | .seq t, .seq t' => by simp [compatible, compatible_symm t t']
  | .opt t, .opt t' => by simp [compatible, compatible_symm t t']
  | .tensor _ _, .seq _ => rfl
  | .tensor _ _, .opt _ => rfl
  | .seq _, .tensor _ _ => rfl
  | .seq _, .opt _ => rfl
  | .opt _, .tensor _ _ => rfl
  | .opt _, .seq _ => rfl

/-- **subtype_symm**: despite its name and the `<=` it is built from, `_subtype` is a *symmetric*
    relation on Tensor / Sequence / Optional types (`Unknown.__le__` answers `True` to everything, and
    an unknown rank on either side passes): it tests compatibility, not refinement. -/
theorem subtype_symm (t u : Ty) : subtype t u = subtype u t := by
  rw [subtype_eq_compatible, subtype_eq_compatible, compatible_symm]

/-- ... and it is not transitive (so it is no order at all): `float32[3] ≤ float32[N] ≤ float32[4]`. -/
theorem subtype_not_transitive_counterexample :
    subtype (.tensor 1 (some [.const 3])) (.tensor 1 (some [.sym "N"])) = true
    ∧ subtype (.tensor 1 (some [.sym "N"])) (.tensor 1 (some [.const 4])) = true
    ∧ subtype (.tensor 1 (some [.const 3])) (.tensor 1 (some [.const 4])) = false := by
  decide

/-- the oracle's refinement relation (`tyLe`: says at least as much) implies `_subtype` -/
theorem tyLe_imp_subtype : ∀ t u : Ty, tyLe t u = true → subtype t u = true
  | .tensor e sh, .tensor e' sh', h => by
    rw [subtype_eq_compatible]
    simp only [tyLe, Bool.and_eq_true, beq_iff_eq] at h
    obtain ⟨he, hs⟩ := h
    subst he
    cases sh' with
    | none => cases sh <;> simp [compatible, shapeLe]
    | some ds' =>
      cases sh with
      | none => simp [compatible, shapeLe]
      | some ds =>
        simp only [Bool.and_eq_true, beq_iff_eq] at hs
        simp [compatible, shapeLe, dimsLe_of_zip_dimLe ds ds' hs.1 hs.2]
  | .seq t, .seq t', h => by
    have := tyLe_imp_subtype t t' (by simpa [tyLe] using h)
    simp [subtype, this]
  | .opt t, .opt t', h => by
    have := tyLe_imp_subtype t t' (by simpa [tyLe] using h)
    simp [subtype, this]
  | .tensor _ _, .seq _, h => by simp [tyLe] at h
  | .tensor _ _, .opt _, h => by simp [tyLe] at h
  | .seq _, .tensor _ _, h => by simp [tyLe] at h
  | .seq _, .opt _, h => by simp [tyLe] at h
  | .opt _, .tensor _ _, h => by simp [tyLe] at h
  | .opt _, .seq _, h => by simp [tyLe] at h

/-- **tyLe_stripUnk**: the type ONNX inferred *refines* (in the oracle's sense) the type the
    constructor reports after stripping the invented dimension names - `stripUnk_weakens` stated in the
    executable relation the oracle and the supplement theorems use. -/
theorem tyLe_stripUnk (g : List String) : ∀ t : Ty, tyLe t (stripUnk g t) = true
  | .tensor e none => by simp [tyLe, stripUnk]
  | .tensor e (some ds) => by
    simp only [tyLe, stripUnk, Option.map_some, beq_self_eq_true, Bool.true_and, List.length_map,
      Bool.and_eq_true, beq_iff_eq, true_and]
    exact zip_dimLe_stripDim g ds
  | .seq t => by simp only [tyLe, stripUnk]; exact tyLe_stripUnk g t
  | .opt t => by simp only [tyLe, stripUnk]; exact tyLe_stripUnk g t

/-- the reported type admits the inferred one as a member -/
theorem subtype_stripUnk (g : List String) (t : Ty) : subtype t (stripUnk g t) = true :=
  tyLe_imp_subtype _ _ (tyLe_stripUnk g t)

/-- **propCheck_mono**: a weaker type admits every value a sharper one admits - if the array passes
    `PropValue.check` against `t` and `t` refines `u`, it passes against `u`. -/
theorem propCheck_mono (ve : Nat) (vs : List Nat) : ∀ t u : Ty, tyLe t u = true →
    propCheck ve vs t = true → propCheck ve vs u = true
  | .tensor e sh, .tensor e' sh', h, hp => by
    simp only [tyLe, Bool.and_eq_true, beq_iff_eq] at h
    obtain ⟨he, hs⟩ := h
    subst he
    simp only [propCheck, Bool.and_eq_true, beq_iff_eq] at hp ⊢
    refine ⟨?_, hp.2⟩
    cases sh' with
    | none => simp [shapeLe]
    | some ds' =>
      cases sh with
      | none => simp at hs
      | some ds =>
        simp only [Bool.and_eq_true, beq_iff_eq] at hs
        simp only [shapeLe] at hp ⊢
        exact dimsLe_mono _ ds ds' hp.1 hs.1 hs.2
  | .seq _, .seq _, _, hp => by simp [propCheck] at hp
  | .opt _, .opt _, _, hp => by simp [propCheck] at hp
  | .tensor _ _, .seq _, h, _ => by simp [tyLe] at h
  | .tensor _ _, .opt _, h, _ => by simp [tyLe] at h
  | .seq _, .tensor _ _, h, _ => by simp [tyLe] at h
  | .seq _, .opt _, h, _ => by simp [tyLe] at h
  | .opt _, .tensor _ _, h, _ => by simp [tyLe] at h
  | .opt _, .seq _, h, _ => by simp [tyLe] at h

/-- **propCheck_stripUnk**: stripping the invented dimension names never makes `Node.inference` drop
    a propagated value that fits the type ONNX inferred. -/
theorem propCheck_stripUnk (g : List String) (ve : Nat) (vs : List Nat) (t : Ty)
    (h : propCheck ve vs t = true) : propCheck ve vs (stripUnk g t) = true :=
  propCheck_mono ve vs t _ (tyLe_stripUnk g t) h

/-- against a type all of whose dimensions are constants the check is exact: same element type and
    exactly that shape -/
theorem propCheck_const_shape (ve e : Nat) (vs ws : List Nat) :
    propCheck ve vs (.tensor e (some (arrayShape ws))) = (decide (vs = ws) && ve == e) := by
  simp [propCheck, shapeLe, dimsLe_arrayShape]

/-- an unknown rank admits every array of the right element type -/
theorem propCheck_unknown_rank (ve e : Nat) (vs : List Nat) :
    propCheck ve vs (.tensor e none) = (ve == e) := by
  simp [propCheck, shapeLe]

/-- **checkedProp_sound / _complete**: the second loop of `Node.inference` attaches the backend's value
    for an output key exactly when that output is typed and the value passes `PropValue.check` against
    that type. -/
theorem checkedProp_sound (raw : List (String × RawVal)) (tys : List (String × Option Ty))
    (k d : String) (h : (k, d) ∈ checkedProp raw tys) :
    ∃ t v, (k, some t) ∈ tys ∧ lookupRaw k raw = some v ∧ v.digest = d
      ∧ propCheck v.elem v.shape t = true := by
  simp only [checkedProp, List.mem_filterMap] at h
  obtain ⟨⟨k', ot⟩, hmem, hf⟩ := h
  cases ot with
  | none => simp at hf
  | some t =>
    cases hv : lookupRaw k' raw with
    | none => simp [hv] at hf
    | some v =>
      simp only [hv] at hf
      by_cases hc : propCheck v.elem v.shape t = true
      · simp only [hc, if_true, Option.some.injEq, Prod.mk.injEq] at hf
        obtain ⟨hk, hd⟩ := hf
        subst hk
        exact ⟨t, v, hmem, hv, hd, hc⟩
      · simp [hc] at hf

theorem checkedProp_complete (raw : List (String × RawVal)) (tys : List (String × Option Ty))
    (k : String) (t : Ty) (v : RawVal) (hmem : (k, some t) ∈ tys) (hv : lookupRaw k raw = some v)
    (hc : propCheck v.elem v.shape t = true) : (k, v.digest) ∈ checkedProp raw tys := by
  simp only [checkedProp, List.mem_filterMap]
  exact ⟨(k, some t), hmem, by simp [hv, hc]⟩

/-- the checked backend is one of the backends `types_ignore_values` quantifies over: whatever passes
    or fails `PropValue.check`, the call raises as `construct` does and the types are `construct`'s -/
theorem checked_values_ignore_types (Infer : InferFn)
    (raw : Call → List (String × Option Ty) → List (String × RawVal)) (c : Call) :
    (match constructVP Infer (fun c tys => checkedProp (raw c tys) tys) c with
      | .error e => Except.error e
      | .ok outs => Except.ok (outs.map (fun (o : OutVar) => (o.key, o.ty)))) = construct Infer c :=
  types_ignore_values Infer _ c

-- non-vacuity: a [2,3] float array fits float32[N][3], float32[?][3], float32[...]; not float32[2][4],
-- not int64[2][3], not a sequence type; the value is attached / dropped accordingly
example : propCheck 1 [2, 3] (.tensor 1 (some [.sym "N", .const 3])) = true := by decide
example : propCheck 1 [2, 3] (.tensor 1 (some [.const 2, .const 4])) = false := by decide
example : propCheck 1 [2, 3] (.tensor 7 (some [.const 2, .const 3])) = false := by decide
example : propCheck 1 [] (.tensor 1 (some [])) = true := by decide
example : propCheck 1 [0] (.tensor 1 (some [])) = false := by decide
example : propCheck 1 [2, 3] (.seq (.tensor 1 none)) = false := by decide
example : checkedProp [("Y", ⟨1, [2, 3], "d"⟩), ("Z", ⟨1, [2], "e"⟩)]
    [("Y", some (.tensor 1 (some [.unk, .const 3]))), ("Z", some (.tensor 1 (some [.const 5]))), ("W", none)]
    = [("Y", "d")] := by decide
example : subtype (.tensor 1 none) (.tensor 1 (some [.const 3])) = true
    ∧ subtype (.tensor 1 (some [.const 3])) (.tensor 7 (some [.const 3])) = false
    ∧ subtype (.seq (.tensor 1 (some [.sym "N"]))) (.seq (.tensor 1 (some [.const 3]))) = true
    ∧ subtype (.seq (.tensor 1 none)) (.opt (.tensor 1 none)) = false := by decide
example : tyLe (.tensor 1 (some [.sym "unk__0", .const 2])) (stripUnk [] (.tensor 1 (some [.sym "unk__0", .const 2]))) = true := by decide

/-! ### Round 10 (cont.) - values through flows; the refinement relation is a partial order -/

/-- end to end -/
theorem fitting_value_attached (Infer : InferFn)
    (raw : Call → List (String × Option Ty) → List (String × RawVal)) (c : Call)
    (hk : kindsOk c.sig.inputs c.args = true) (hty : anyUntyped c = false)
    (res : List (String × Option Ty)) (hI : Infer (singleton c) = some res)
    (tys : List (String × Option Ty)) (htys : construct Infer c = .ok tys)
    (k : String) (hkey : k ∈ c.outKeys) (t : Ty) (hl : lookupTy k res = some t)
    (v : RawVal) (hv : lookupRaw k (raw c tys) = some v)
    (hfit : propCheck v.elem v.shape t = true) :
    (k, v.digest) ∈ checkedProp (raw c tys) tys := by
  have hc : construct Infer c =
      .ok (c.outKeys.map (fun k => (k, (lookupTy k res).map (stripUnk c.givenNames)))) := by
    simp [construct, hk, hty, hI]
  rw [hc] at htys
  injection htys with htys
  apply checkedProp_complete (raw c tys) tys k (stripUnk c.givenNames t) v _ hv
    (propCheck_stripUnk _ _ _ _ hfit)
  rw [← htys]
  simp only [List.mem_map]
  exact ⟨k, hkey, by simp [hl]⟩

/-- the oracle's refinement relation is transitive ... -/
theorem tyLe_trans : ∀ t u w : Ty, tyLe t u = true → tyLe u w = true → tyLe t w = true
  | .tensor e sh, .tensor e' sh', .tensor e'' sh'', h1, h2 => by
    simp only [tyLe, Bool.and_eq_true, beq_iff_eq] at h1 h2 ⊢
    obtain ⟨he1, hs1⟩ := h1
    obtain ⟨he2, hs2⟩ := h2
    refine ⟨he1.trans he2, ?_⟩
    cases sh'' with
    | none => rfl
    | some zs =>
      cases sh' with
      | none => simp at hs2
      | some ys =>
        cases sh with
        | none => simp at hs1
        | some xs =>
          simp only [Bool.and_eq_true, beq_iff_eq] at hs1 hs2 ⊢
          exact ⟨hs1.1.trans hs2.1, zipAll_trans xs ys zs hs1.1 hs2.1 hs1.2 hs2.2⟩
  | .seq t, .seq u, .seq w, h1, h2 => by
    simp only [tyLe] at h1 h2 ⊢; exact tyLe_trans t u w h1 h2
  | .opt t, .opt u, .opt w, h1, h2 => by
    simp only [tyLe] at h1 h2 ⊢; exact tyLe_trans t u w h1 h2
  | .tensor _ _, .seq _, _, h, _ => by simp [tyLe] at h
  | .tensor _ _, .opt _, _, h, _ => by simp [tyLe] at h
  | .seq _, .tensor _ _, _, h, _ => by simp [tyLe] at h
  | .seq _, .opt _, _, h, _ => by simp [tyLe] at h
  | .opt _, .tensor _ _, _, h, _ => by simp [tyLe] at h
  | .opt _, .seq _, _, h, _ => by simp [tyLe] at h
  | .tensor _ _, .tensor _ _, .seq _, _, h => by simp [tyLe] at h
  | .tensor _ _, .tensor _ _, .opt _, _, h => by simp [tyLe] at h
  | .seq _, .seq _, .tensor _ _, _, h => by simp [tyLe] at h
  | .seq _, .seq _, .opt _, _, h => by simp [tyLe] at h
  | .opt _, .opt _, .tensor _ _, _, h => by simp [tyLe] at h
  | .opt _, .opt _, .seq _, _, h => by simp [tyLe] at h

/-- ... and antisymmetric -/
theorem tyLe_antisymm : ∀ t u : Ty, tyLe t u = true → tyLe u t = true → t = u
  | .tensor e sh, .tensor e' sh', h1, h2 => by
    simp only [tyLe, Bool.and_eq_true, beq_iff_eq] at h1 h2
    obtain ⟨he1, hs1⟩ := h1
    obtain ⟨_, hs2⟩ := h2
    subst he1
    cases sh with
    | none =>
      cases sh' with
      | none => rfl
      | some ys => simp at hs1
    | some xs =>
      cases sh' with
      | none => simp at hs2
      | some ys =>
        simp only [Bool.and_eq_true, beq_iff_eq] at hs1 hs2
        rw [zipAll_antisymm xs ys hs1.1 hs1.2 hs2.2]
  | .seq t, .seq u, h1, h2 => by
    simp only [tyLe] at h1 h2; rw [tyLe_antisymm t u h1 h2]
  | .opt t, .opt u, h1, h2 => by
    simp only [tyLe] at h1 h2; rw [tyLe_antisymm t u h1 h2]
  | .tensor _ _, .seq _, h, _ => by simp [tyLe] at h
  | .tensor _ _, .opt _, h, _ => by simp [tyLe] at h
  | .seq _, .tensor _ _, h, _ => by simp [tyLe] at h
  | .seq _, .opt _, h, _ => by simp [tyLe] at h
  | .opt _, .tensor _ _, h, _ => by simp [tyLe] at h
  | .opt _, .seq _, h, _ => by simp [tyLe] at h




theorem attachOne_fits (raw : List (String × RawVal)) (p : String × Option Ty) :
    (attachOne raw p).fits = true := by
  unfold attachOne
  cases h1 : p.2 with
  | none => simp [VarState.fits]
  | some t =>
    cases h2 : lookupRaw p.1 raw with
    | none => simp [VarState.fits]
    | some v =>
      by_cases hc : propCheck v.elem v.shape t = true
      · simp [hc, VarState.fits]
      · simp [hc, VarState.fits]

theorem attachOne_ty (raw : List (String × RawVal)) (p : String × Option Ty) :
    (attachOne raw p).ty = p.2 := by
  unfold attachOne
  cases h1 : p.2 with
  | none => simp
  | some t =>
    cases h2 : lookupRaw p.1 raw with
    | none => simp
    | some v => by_cases hc : propCheck v.elem v.shape t = true <;> simp [hc]

/-- the per-Var form of the attach loop agrees with `checkedProp` -/
theorem attachOne_mem_checkedProp (raw : List (String × RawVal)) (tys : List (String × Option Ty))
    (p : String × Option Ty) (hp : p ∈ tys) (v : RawVal) (h : (attachOne raw p).raw = some v) :
    (p.1, v.digest) ∈ checkedProp raw tys := by
  unfold attachOne at h
  cases h1 : p.2 with
  | none => simp [h1] at h
  | some t =>
    cases h2 : lookupRaw p.1 raw with
    | none => simp [h1, h2] at h
    | some w =>
      by_cases hc : propCheck w.elem w.shape t = true
      · simp [h1, h2, hc] at h
        subst h
        have hp' : (p.1, some t) ∈ tys := by rw [← h1]; exact hp
        exact checkedProp_complete raw tys p.1 t w hp' h2 hc
      · simp [h1, h2, hc] at h

theorem stepOut_fits (st : Env × Nat) (s : Step) (c : Call) (r : Result)
    (h : ∀ v, (st.1 v).fits = true) : ∀ v, ((stepOut st s c r).1 v).fits = true := by
  intro v
  cases r with
  | error e => exact h v
  | ok tys =>
    simp only [stepOut]
    split
    · rw [List.getD_eq_getElem?_getD]
      cases hg : (List.map (attachOne (s.backend c tys)) tys)[v - st.2]? with
      | none => rfl
      | some x =>
        have hx := List.mem_of_getElem? hg
        simp only [List.mem_map] at hx
        obtain ⟨p, _, rfl⟩ := hx
        simpa using attachOne_fits _ p
    · exact h v

theorem stepEnv_fits (Infer : InferFn) (st : Env × Nat) (s : Step)
    (h : ∀ v, (st.1 v).fits = true) : ∀ v, ((stepEnv Infer st s).1.1 v).fits = true :=
  stepOut_fits st s _ _ h

/-- **flow_values_fit** (invariant of every reachable state) -/
theorem flow_values_fit (Infer : InferFn) : ∀ (steps : List Step) (st : Env × Nat),
    (∀ v, (st.1 v).fits = true) → ∀ v, ((runFlow Infer st steps).1.1 v).fits = true
  | [], st, h => by simpa [runFlow] using h
  | s :: ss, st, h => by
    simp only [runFlow]
    exact flow_values_fit Infer ss _ (stepEnv_fits Infer st s h)

/-- **flow_step_is_construct**: in any flow every call is answered by `construct` on the call as the
    Vars stand at that moment -/
theorem flow_step_is_construct (Infer : InferFn) (pre post : List Step) (s : Step) (st : Env × Nat) :
    (runFlow Infer st (pre ++ s :: post)).2[pre.length]? =
      some (construct Infer (s.call (runFlow Infer st pre).1.1)) := by
  rw [runFlow_append]
  simp only
  rw [List.getElem?_append_right (by simp [runFlow_length])]
  simp [runFlow_length, runFlow, stepEnv_result]


def flowEnv0 : Env := fun v =>
  if v = 0 then ⟨some (f32 [.const 2, .const 5]), none⟩ else ⟨some (.tensor 7 (some [.const 1])), some ⟨7, [1], "k=2"⟩⟩

/-- TopK whose backend offers a fitting `Values` and an `Indices` of the wrong shape -/
def topkStep : Step :=
  { sig := topkSig, args := [.var 0, .var 1], attrs := [("axis", some "m1")], outVariadic := 0
    backend := fun _ _ => [("Values", ⟨1, [2, 2], "vals"⟩), ("Indices", ⟨7, [3, 2], "idx"⟩)] }

/-- then Add on the first result (rejected by this judgement: the environment stays as it is) -/
def addStep : Step :=
  { sig := addSig, args := [.var 10, .var 10], attrs := [], outVariadic := 0, backend := fun _ _ => [] }

example : (flowEnv0 1).fits = true := by decide
example :
    let r := runFlow topkInfer (flowEnv0, 10) [topkStep, addStep]
    ((r.1.1 10).ty, (r.1.1 10).raw.map (fun v => v.digest), (r.1.1 11).raw, r.1.2, r.2.length)
      = (some (f32 [.const 2, .unk]), some "vals", none, 12, 2) := by decide
/-- the constant fed to `K` reaches the one-node model as an initializer, by digest -/
example : (singleton (topkStep.call flowEnv0)).inits = [("K", "k=2")] := by decide

/-! ### Mini-round - the types of the Vars of a flow are the per-call judgement's -/

/-- **flow_old_vars_untouched** (a Var's type and value are set once): whatever calls follow - of any
    operators, accepted or rejected, with any backend answers - no Var that existed before them is changed. -/
theorem flow_old_vars_untouched (Infer : InferFn) : ∀ (steps : List Step) (st : Env × Nat) (v : Nat),
    v < st.2 → (runFlow Infer st steps).1.1 v = st.1 v
  | [], _, _, _ => rfl
  | s :: ss, st, v, hv => by
    simp only [runFlow]
    have hn : v < (stepEnv Infer st s).1.2 := by
      simp only [stepEnv, stepOut_next]; omega
    rw [flow_old_vars_untouched Infer ss _ v hn]
    exact stepOut_old st s _ _ v hv

theorem stepOut_new_ty (st : Env × Nat) (s : Step) (c : Call) (tys : List (String × Option Ty))
    (i : Nat) (hi : i < tys.length) :
    ((stepOut st s c (.ok tys)).1 (st.2 + i)).ty = (tys[i]).2 := by
  simp only [stepOut]
  have : st.2 ≤ st.2 + i ∧ st.2 + i < st.2 + (List.map (attachOne (s.backend c tys)) tys).length := by
    simp; omega
  simp only [this, and_self, if_true, Nat.add_sub_cancel_left]
  rw [List.getD_eq_getElem?_getD, List.getElem?_map, List.getElem?_eq_getElem hi]
  simp [attachOne_ty]

/-- **flow_var_type_is_judgement** (history lift of the per-call statement): in ANY flow `pre ++ s :: post`,
    if the call `s` - taken as the Vars stand after `pre` - is answered `.ok tys` by `construct` (hence, by
    `eager_agrees`, `stripUnk` of the judgement's types), then at the END of the whole flow the i-th output Var
    created by that call carries exactly `tys[i]`: later calls, the attached values and the backends never
    touch it. -/
theorem flow_var_type_is_judgement (Infer : InferFn) (pre post : List Step) (s : Step) (st : Env × Nat)
    (tys : List (String × Option Ty))
    (hc : construct Infer (s.call (runFlow Infer st pre).1.1) = .ok tys) (i : Nat) (hi : i < tys.length) :
    ((runFlow Infer st (pre ++ s :: post)).1.1 ((runFlow Infer st pre).1.2 + i)).ty = (tys[i]).2 := by
  rw [runFlow_append]
  simp only [runFlow]
  have hn : (runFlow Infer st pre).1.2 + i < (stepEnv Infer (runFlow Infer st pre).1 s).1.2 := by
    simp only [stepEnv, stepOut_next, hc]; omega
  rw [flow_old_vars_untouched Infer post _ _ hn]
  simp only [stepEnv, hc]
  exact stepOut_new_ty _ s _ tys i hi

/-- a rejected call creates no Var and changes none -/
theorem flow_rejected_step_noop (Infer : InferFn) (s : Step) (st : Env × Nat) (e : Err)
    (hc : construct Infer (s.call st.1) = .error e) : (stepEnv Infer st s).1 = st := by
  simp [stepEnv, hc, stepOut]

example : ((runFlow topkInfer (flowEnv0, 10) [topkStep, addStep]).1.1 11).ty
    = some (.tensor 7 (some [.const 2, .unk])) := by decide
example : (runFlow topkInfer (flowEnv0, 10) [topkStep, addStep]).1.1 1 = flowEnv0 1 :=
  flow_old_vars_untouched topkInfer _ _ 1 (by decide)

section ML
open C06M MLOnnx




/-! ### The ml operators whose inference spox replaces: agreement with / refinement of ONNX's answer -/

/-- Binarizer: the constructor reports exactly what ONNX does - the input's type -/
theorem ml_binarizer_agrees (x : ITy) : inferBinarizer x = .ok [x] := rfl

/-- Scaler: whenever the constructor accepts a typed input, the output is typed float - it refines
    ONNX's `tensor(float)` (and rejecting a mismatched feature count is "rejects more") -/
theorem ml_scaler_refines (sc off : Option Nat) (t : C06M.Ty) :
    mlRefines (inferScaler sc off (some t)) (onnxMlElem "Scaler" t.e) = true := by
  simp only [inferScaler, onnxMlElem]
  cases sc with
  | none => cases off <;> simp [mlRefines]
  | some a =>
    cases off with
    | none => simp [mlRefines]
    | some b =>
      by_cases h1 : featureMismatch a t.s = true
      · simp [h1, mlRefines]
      · by_cases h2 : featureMismatch b t.s = true
        · simp [h1, h2, mlRefines]
        · simp [h1, h2, mlRefines, mlTyped]

/-- LinearRegressor, input of known rank: typed float (refines ONNX) ... -/
theorem ml_linear_regressor_refines_partial (n : Nat) (e : Elem) (ds : List C06M.Dim) :
    mlRefines (inferLinearRegressor n (tensor e ds)) (onnxMlElem "LinearRegressor" e) = true := by
  simp only [inferLinearRegressor, ranked, tensor, onnxMlElem]
  match ds with
  | [] => simp [mlRefines, mlTyped, tensor]
  | [_] => simp [mlRefines, mlTyped, tensor]
  | [_, _] => simp [mlRefines, mlTyped, tensor]
  | _ :: _ :: _ :: _ => simp [mlRefines]

/-- ... but for an input of unknown rank the output is left untyped although ONNX infers
    `tensor(float)` (known finding `patched-types-untyped:LinearRegressor`) -/
theorem ml_linear_regressor_unranked_counterexample :
    inferLinearRegressor 1 (some ⟨.f32, none⟩) = .ok [none]
    ∧ mlRefines (inferLinearRegressor 1 (some ⟨.f32, none⟩)) (onnxMlElem "LinearRegressor" .f32) = false := by
  decide

/-- Imputer, known rank: the input's type (refines ONNX's "element type of X, no shape") ... -/
theorem ml_imputer_refines_partial (f i : Option Nat) (e : Elem) (ds : List C06M.Dim) :
    mlRefines (inferImputer f i (tensor e ds)) (onnxMlElem "Imputer" e) = true := by
  simp only [inferImputer, ranked, tensor, onnxMlElem]
  split
  · simp [mlRefines]
  · split <;> simp [mlRefines, mlTyped]

theorem ml_imputer_unranked_counterexample :
    mlRefines (inferImputer (some 1) none (some ⟨.f32, none⟩)) (onnxMlElem "Imputer" .f32) = false := by
  decide

/-- Normalizer: agrees with ONNX for a float input ... -/
theorem ml_normalizer_refines_partial (ok : Bool) (s : Option (List C06M.Dim)) :
    mlRefines (inferNormalizer ok (some ⟨.f32, s⟩)) (onnxMlElem "Normalizer" .f32) = true := by
  cases ok <;> simp [inferNormalizer, mlRefines, mlTyped, onnxMlElem]

/-- ... and contradicts it for every other element type: the input's element type is reported, ONNX
    (and the operator) produce float (known finding `patched-types-contradicts:Normalizer`) -/
theorem ml_normalizer_contradicts_counterexample :
    inferNormalizer true (tensor .f64 [.named "N", .const 5]) = .ok [tensor .f64 [.named "N", .const 5]]
    ∧ mlRefines (inferNormalizer true (tensor .f64 [.named "N", .const 5])) (onnxMlElem "Normalizer" .f64) = false := by
  decide

example : mlRefines (inferScaler (some 1) (some 1) (some ⟨.i32, some [.const 3, .const 3]⟩)) .f32 = true := by decide
example : inferScaler (some 1) (some 1) (some ⟨.i32, some [.const 3, .const 3]⟩) = .ok [tensor .f32 [.const 3, .const 3]] := by decide

end ML

end C05
