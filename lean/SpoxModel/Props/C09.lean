/-! Property theorems for C09 (only property-level statements and non-vacuity examples live here). -/
