import SpoxModel.Model.Opset
/-! Property theorems for C09 (only property-level statements and non-vacuity examples live here). -/
namespace C09
open Opset

theorem min_opset_ge_14 : 14 ≤ Generated.OpsetFacts.internalMinOpset := by decide

end C09
