import SpoxModel.Lemmas.Opset
import SpoxModel.Lemmas.OpsetRename
import SpoxModel.Lemmas.OpsetFuncs
import SpoxModel.Lemmas.OpsetNames
import SpoxModel.Lemmas.OpsetMerge
import SpoxModel.Lemmas.OpsetQualify
/-!
# C09 — one opset per domain; mixed-version programs build and keep their meaning

Property-level theorems about `Opset.buildModel Opset.genFacts` — the model of what
`Graph.to_onnx_model` assembles — for **every** nested program (`PGraph`: any number of nodes, bodies at
any depth, functions, inlined models with arbitrary imports). `genFacts` is regenerated from the source
tree on every run (`INTERNAL_MIN_OPSET`, spox's `SCHEMAS` table, the shipped constructor table).

What is *not* modelled: the output of `onnx.version_converter` for a converted node / inlined model
(a `convert` entry is "valid" when the converter was asked for exactly the imported version).
-/
namespace C09
open Opset

/-! ## one version per domain -/

/-- The model's imports list every domain once, and `"ai.onnx"` never next to `""`. -/
theorem one_version_per_domain (g : PGraph) :
    ((buildModel genFacts g).imports.map (·.1)).Nodup ∧
      "ai.onnx" ∉ (buildModel genFacts g).imports.map (·.1) :=
  policy_domains_nodup _

/-- The same for the imports of every emitted function. -/
theorem one_version_per_domain_functions (g : PGraph) :
    ∀ f ∈ (buildModel genFacts g).funcs, (f.1.map (·.1)).Nodup ∧ "ai.onnx" ∉ f.1.map (·.1) := by
  intro f hf
  simp only [buildModel, List.mem_map] at hf
  obtain ⟨fg, _, rfl⟩ := hf
  exact policy_domains_nodup _

/-- With extra requirements given to the graph (`Graph.with_opset`, the default domain possibly spelled
    `"ai.onnx"`) the imports still list every domain once, never `"ai.onnx"`, the default domain at 14 or
    above, and nothing below what the nodes and the extra requirements ask for. -/
theorem with_opset_imports (extra : List Req) (g : PGraph) :
    ((buildModelWith genFacts extra g).imports.map (·.1)).Nodup ∧
      "ai.onnx" ∉ (buildModelWith genFacts extra g).imports.map (·.1) ∧
      (∃ v, lookup "" (buildModelWith genFacts extra g).imports = some v ∧ 14 ≤ v) ∧
      Dominates (buildModelWith genFacts extra g).imports (reqGraph genFacts g ++ extra) := by
  refine ⟨(policy_domains_nodup _).1, (policy_domains_nodup _).2, ?_, policy_dominates _⟩
  have hd : Dominates (opsetsOf genFacts extra g) (reqGraph genFacts g ++ extra) := policy_dominates _
  have hm : ("", genFacts.minOpset) ∈ reqGraph genFacts g ++ extra := by
    cases g with | mk nodes => simp [reqGraph]
  obtain ⟨t, ht, hle⟩ := hd _ hm
  have ht' : lookup "" (opsetsOf genFacts extra g) = some t := by simpa [fold] using ht
  have h14 : 14 ≤ genFacts.minOpset := by decide
  exact ⟨t, ht', Nat.le_trans h14 hle⟩

theorem buildModelWith_nil (g : PGraph) : buildModelWith genFacts [] g = buildModel genFacts g := rfl

/-! ## the import of a domain is the maximum required anywhere -/

/-- `v` is required for domain `d` somewhere in the model: by the result identities of a graph
    (`INTERNAL_MIN_OPSET`, default domain), or by the own requirement of a node at any depth — in the main
    graph, in a body, in a function graph, or as an import of an inlined model (`"ai.onnx"` = `""`). -/
def Required (F : Facts) (g : PGraph) (d : String) (v : Nat) : Prop :=
  (d = "" ∧ v = F.minOpset) ∨ ∃ n ∈ allNodesG g, ∃ r ∈ kindReq F n.kind, fold r.1 = d ∧ r.2 = v

theorem required_iff (F : Facts) (g : PGraph) (d : String) (v : Nat) :
    (∃ r ∈ reqGraph F g ++ [], fold r.1 = d ∧ r.2 = v) ↔ Required F g d v := by
  simp only [List.append_nil]
  constructor
  · rintro ⟨r, hr, h1, h2⟩
    rcases (mem_reqGraph_iff F r g).mp hr with h | ⟨n, hn, hk⟩
    · subst h
      exact Or.inl ⟨by simpa [fold] using h1.symm, h2.symm⟩
    · exact Or.inr ⟨n, hn, r, hk, h1, h2⟩
  · rintro (⟨rfl, rfl⟩ | ⟨n, hn, r, hk, h1, h2⟩)
    · exact ⟨("", F.minOpset), (mem_reqGraph_iff F _ g).mpr (Or.inl rfl), by simp [fold], rfl⟩
    · exact ⟨r, (mem_reqGraph_iff F r g).mpr (Or.inr ⟨n, hn, hk⟩), h1, h2⟩

/-- The model imports domain `d` at version `v` iff `v` is required for `d` somewhere (any nesting depth,
    functions and inlined models included) and nothing larger is. -/
theorem import_is_max (g : PGraph) (d : String) (v : Nat) :
    lookup d (buildModel genFacts g).imports = some v ↔
      Required genFacts g d v ∧ ∀ v', Required genFacts g d v' → v' ≤ v := by
  show lookup d (policy (reqGraph genFacts g ++ [])) = some v ↔ _
  rw [lookup_policy_iff, required_iff]
  constructor
  · rintro ⟨h1, h2⟩
    refine ⟨h1, fun v' hv' => ?_⟩
    obtain ⟨r, hr, ha, hb⟩ := (required_iff genFacts g d v').mpr hv'
    exact hb ▸ h2 r hr ha
  · rintro ⟨h1, h2⟩
    exact ⟨h1, fun r hr ha => h2 r.2 ((required_iff genFacts g d r.2).mp ⟨r, hr, ha, rfl⟩)⟩

/-- A domain nobody requires is not imported. -/
theorem not_imported_of_not_required (g : PGraph) (d : String)
    (h : ∀ v, ¬ Required genFacts g d v) : lookup d (buildModel genFacts g).imports = none := by
  cases hl : lookup d (buildModel genFacts g).imports with
  | none => rfl
  | some v => exact absurd ((import_is_max g d v).mp hl).1 (h v)

/-! ## the imports as a function of the set of requirements: monotone, order-free (round 10) -/

/-- A program whose nodes (at any depth) all occur in another program requires nothing the other does not. -/
theorem required_of_nodes_subset (F : Facts) (g g' : PGraph)
    (h : ∀ n ∈ allNodesG g, n ∈ allNodesG g') (d : String) (v : Nat) :
    Required F g d v → Required F g' d v := by
  rintro (h0 | ⟨n, hn, r, hr, h1, h2⟩)
  · exact Or.inl h0
  · exact Or.inr ⟨n, h n hn, r, hr, h1, h2⟩

/-- Imports are monotone in what is required: a model that requires everything another one requires imports
    every domain the other imports, at that version or above. -/
theorem imports_monotone (g g' : PGraph)
    (h : ∀ d v, Required genFacts g d v → Required genFacts g' d v) (d : String) (v : Nat)
    (hl : lookup d (buildModel genFacts g).imports = some v) :
    ∃ v', lookup d (buildModel genFacts g').imports = some v' ∧ v ≤ v' := by
  have hr := h d v ((import_is_max g d v).mp hl).1
  obtain ⟨r, hr', h1, h2⟩ := (required_iff genFacts g' d v).mpr hr
  have hd : Dominates (buildModel genFacts g').imports (reqGraph genFacts g' ++ []) := policy_dominates _
  obtain ⟨t, ht, hle⟩ := hd r hr'
  exact ⟨t, by rw [← h1]; exact ht, by rw [← h2]; exact hle⟩

/-- The imports depend on the SET of (domain, version) requirements only — not on where a node sits (main graph,
    body, function), not on how often or in which order requirements occur. -/
theorem imports_depend_on_requirements_only (g g' : PGraph)
    (h : ∀ d v, Required genFacts g d v ↔ Required genFacts g' d v) (d : String) :
    lookup d (buildModel genFacts g).imports = lookup d (buildModel genFacts g').imports := by
  apply Option.ext
  intro v
  rw [import_is_max, import_is_max]
  constructor
  · rintro ⟨h1, h2⟩
    exact ⟨(h d v).mp h1, fun v' hv' => h2 v' ((h d v').mpr hv')⟩
  · rintro ⟨h1, h2⟩
    exact ⟨(h d v).mpr h1, fun v' hv' => h2 v' ((h d v').mp hv')⟩

/-- Adding statements — before, after — never lowers an import (the same operators built again next to more
    operators: the histories "same objects under a higher maximum"). -/
theorem imports_grow_with_program (before ns after : List PNode) (d : String) (v : Nat)
    (hl : lookup d (buildModel genFacts (.mk ns)).imports = some v) :
    ∃ v', lookup d (buildModel genFacts (.mk (before ++ ns ++ after))).imports = some v' ∧ v ≤ v' := by
  apply imports_monotone (.mk ns) _ _ d v hl
  intro d v
  apply required_of_nodes_subset
  intro n hn
  simp only [allNodesG, allNodesNs_append, List.mem_append] at hn ⊢
  exact Or.inl (Or.inr hn)

/-- The order of the statements does not enter the imports. -/
theorem imports_ignore_statement_order (ns ms : List PNode) (d : String) :
    lookup d (buildModel genFacts (.mk (ns ++ ms))).imports =
      lookup d (buildModel genFacts (.mk (ms ++ ns))).imports := by
  apply imports_depend_on_requirements_only
  intro d v
  constructor <;>
  · apply required_of_nodes_subset
    intro n hn
    simp only [allNodesG, allNodesNs_append, List.mem_append] at hn ⊢
    exact hn.symm

/-! ## the floor -/

/-- `INTERNAL_MIN_OPSET` as found in the source on this run is at least 14. -/
theorem min_opset_ge_14 : 14 ≤ Generated.OpsetFacts.internalMinOpset := by decide

/-- Every built model imports the default domain, at 14 or above — whatever the program. -/
theorem default_floor (g : PGraph) :
    ∃ v, lookup "" (buildModel genFacts g).imports = some v ∧ 14 ≤ v := by
  have hd : Dominates (buildModel genFacts g).imports (reqGraph genFacts g ++ []) := policy_dominates _
  have hm : ("", genFacts.minOpset) ∈ reqGraph genFacts g ++ [] := by
    cases g with | mk nodes => simp [reqGraph]
  obtain ⟨t, ht, hle⟩ := hd _ hm
  refine ⟨t, by simpa [fold] using ht, Nat.le_trans min_opset_ge_14 hle⟩

/-- `IDENTITY_OPTIONAL_MIN_OPSET` as found in the source on this run is at least 16 (and not below the floor). -/
theorem optional_min_ge_16 : 16 ≤ Generated.OpsetFacts.identityOptionalMin ∧
    Generated.OpsetFacts.internalMinOpset ≤ Generated.OpsetFacts.identityOptionalMin := by decide

/-- A model in which an optional-typed value is forwarded by an `_Introduce` — the result identities of the main
    graph, of a body or of a function graph at any depth, or a user-level `intros` — imports the default domain
    at 16 or above (the internal Identity nodes accept optional types only from 16 on). Together with
    `default_floor`: never below 14, and never below 16 when an optional value is forwarded. -/
theorem optional_floor (g : PGraph) (h : ∃ n ∈ allNodesG g, n.kind = .introOpt) :
    ∃ v, lookup "" (buildModel genFacts g).imports = some v ∧ 16 ≤ v := by
  obtain ⟨n, hn, hk⟩ := h
  have hd : Dominates (buildModel genFacts g).imports (reqGraph genFacts g ++ []) := policy_dominates _
  have hm : ("", genFacts.optionalMin) ∈ reqGraph genFacts g ++ [] := by
    rw [List.append_nil]
    exact (mem_reqGraph_iff genFacts _ g).mpr (Or.inr ⟨n, hn, by rw [hk]; simp [kindReq]⟩)
  obtain ⟨t, ht, hle⟩ := hd _ hm
  refine ⟨t, by simpa [fold] using ht, Nat.le_trans optional_min_ge_16.1 hle⟩

/-- The floor of 14 does not depend on anything being optional: a program without any optional forwarding
    still imports the default domain at 14 or above (this is `default_floor`; stated next to `optional_floor`
    so that the pair reads as the property's clause). -/
theorem floor_14_and_16 (g : PGraph) :
    (∃ v, lookup "" (buildModel genFacts g).imports = some v ∧ 14 ≤ v) ∧
      ((∃ n ∈ allNodesG g, n.kind = .introOpt) →
        ∃ v, lookup "" (buildModel genFacts g).imports = some v ∧ 16 ≤ v) :=
  ⟨default_floor g, optional_floor g⟩

/-- …and so does every body and every function of it (each graph's own opsets). -/
theorem default_floor_every_graph (extra : List Req) (g : PGraph) :
    ∃ v, lookup "" (opsetsOf genFacts extra g) = some v ∧ 14 ≤ v := by
  have hd : Dominates (opsetsOf genFacts extra g) (reqGraph genFacts g ++ extra) := policy_dominates _
  have hm : ("", genFacts.minOpset) ∈ reqGraph genFacts g ++ extra := by
    cases g with | mk nodes => simp [reqGraph]
  obtain ⟨t, ht, hle⟩ := hd _ hm
  refine ⟨t, by simpa [fold] using ht, Nat.le_trans min_opset_ge_14 hle⟩

/-! ## every emitted node is valid at the imported version -/

/-- The node is one the property quantifies over: a shipped constructor (its `(op, version)` is a row of a
    shipped module, with the matching "has a body" flag), emitting one NodeProto, all ranks known. -/
def NodeOk (n : PNode) : Prop :=
  match n.kind with
  | .op d o v => n.nProtos = 1 ∧ n.concrete = true ∧ shippedRow d o v (!n.subs.isEmpty) = true
  | _ => True

/-- `NodeOk` as a decidable statement (for the witnesses below) -/
def NodeOkB (n : PNode) : Prop :=
  match n.kind with
  | .op d o v => (n.nProtos == 1 && n.concrete && shippedRow d o v (!n.subs.isEmpty)) = true
  | _ => True

instance (n : PNode) : Decidable (NodeOkB n) := by
  unfold NodeOkB
  cases n.kind <;> infer_instance

/-- The imports stay within the shipped modules (`ai.onnx` ≤ 21, `ai.onnx.ml` ≤ 5). -/
def InShippedRange (imports : List Req) : Prop :=
  ∀ d t, d = "" ∨ d = "ai.onnx.ml" → lookup d imports = some t → t ≤ shippedMax d

/-- Every entry — in the main graph or in a body at any depth — is adapted by `adapt_best_effort`
    against opsets that dominate its own requirement and agree with the model's imports. -/
theorem entry_invariant (g : PGraph) :
    ∀ e ∈ (buildModel genFacts g).main, EntryOk genFacts (reqGraph genFacts g ++ []) e :=
  adaptGraph_ok genFacts [] g

/-- Bodies are adapted against the model's opsets: whatever the nesting depth and whatever the body's
    own maximum, every lookup in the opsets a node is adapted against answers like the model's imports. -/
theorem body_opsets_agree (g : PGraph) (e : Entry) (he : e ∈ (buildModel genFacts g).main) (d : String) :
    lookup d e.opsets = lookup d (buildModel genFacts g).imports :=
  (entry_invariant g e he).2.2 d

/-- The same inside every emitted function (its graph and the bodies below it) with respect to the
    function's own imports. -/
theorem function_opsets_agree (g : PGraph) :
    ∀ f ∈ (buildModel genFacts g).funcs, ∀ e ∈ f.2, ∀ d, lookup d e.opsets = lookup d f.1 := by
  intro f hf e he d
  simp only [buildModel, List.mem_map] at hf
  obtain ⟨fg, _, rfl⟩ := hf
  exact (adaptGraph_ok genFacts _ fg e he).2.2 d

/-- One version per domain across the model AND its functions: the imports of every emitted function — the
    functions of bodies and of other functions' graphs included — answer every lookup exactly like the
    model's imports (every requirement of a function graph is a requirement of the graph using it). -/
theorem function_imports_agree (g : PGraph) :
    ∀ f ∈ (buildModel genFacts g).funcs, ∀ d, lookup d f.1 = lookup d (buildModel genFacts g).imports := by
  intro f hf d
  simp only [buildModel, List.mem_map] at hf
  obtain ⟨fg, hfg, rfl⟩ := hf
  show lookup d (policy (reqGraph genFacts fg ++ policy (reqGraph genFacts g ++ []))) =
    lookup d (policy (reqGraph genFacts g ++ []))
  apply lookup_policy_absorb_policy
  intro r hr
  exact List.mem_append.mpr (Or.inl (funcs_req_G genFacts fg g hfg r hr))

/-- The same when the graph carries extra requirements (`Graph.with_opset`). -/
theorem function_imports_agree_with (extra : List Req) (g : PGraph) :
    ∀ f ∈ (buildModelWith genFacts extra g).funcs, ∀ d,
      lookup d f.1 = lookup d (buildModelWith genFacts extra g).imports := by
  intro f hf d
  simp only [buildModelWith, List.mem_map] at hf
  obtain ⟨fg, hfg, rfl⟩ := hf
  show lookup d (policy (reqGraph genFacts fg ++ policy (reqGraph genFacts g ++ extra))) =
    lookup d (policy (reqGraph genFacts g ++ extra))
  apply lookup_policy_absorb_policy
  intro r hr
  exact List.mem_append.mpr (Or.inl (funcs_req_G genFacts fg g hfg r hr))

/-- …so every node inside a function (its graph and the bodies below it) is adapted against opsets that
    answer like the MODEL's imports. -/
theorem function_nodes_see_model_imports (g : PGraph) :
    ∀ f ∈ (buildModel genFacts g).funcs, ∀ e ∈ f.2, ∀ d,
      lookup d e.opsets = lookup d (buildModel genFacts g).imports := by
  intro f hf e he d
  rw [function_opsets_agree g f hf e he d, function_imports_agree g f hf d]

/-- **Partial** (`concrete` inside `NodeOk` excludes the listed finding `adapt:unknown-rank`; what the
    converter emits is a parameter): every node of the main graph and of every body below it, at any
    depth, is emitted in a form that is well-formed at the imported version of its domain — kept when the
    schema in force at the import is the one it was written for or accepts its form (decided against the
    generated schema history for every shipped constructor), otherwise sent to the converter with exactly
    the imported version as target. -/
theorem node_valid_at_import_partial (g : PGraph) (e : Entry)
    (he : e ∈ (buildModel genFacts g).main)
    (hok : NodeOk e.node)
    (hrange : InShippedRange (buildModel genFacts g).imports) :
    entryValid (buildModel genFacts g).imports e = true := by
  obtain ⟨hdec, hdom, hag⟩ := entry_invariant g e he
  have hag' : ∀ d, lookup d e.opsets = lookup d (buildModel genFacts g).imports := hag
  rw [← entryValid_congr hag' e]
  have hrange' : InShippedRange e.opsets := by
    intro d t hd ht
    exact hrange d t hd (by rw [← body_opsets_agree g e he d]; exact ht)
  obtain ⟨ops, node, dec⟩ := e
  simp only at hdec hdom hrange' hok ⊢
  subst hdec
  obtain ⟨k, np, c, subs, i⟩ := node
  cases k with
  | op d o v =>
    simp only [NodeOk, PNode.kind, PNode.nProtos, PNode.concrete, PNode.subs] at hok
    obtain ⟨h1, h2, h3⟩ := hok
    have hd := shipped_domain h3
    exact op_valid ops d o v np c subs i hdom h1 h2 h3 (fun t ht => hrange' d t hd ht)
  | inline imps hd => exact inline_valid ops imps hd np c subs i hdom
  | internal => simp [entryValid, PNode.kind]
  | intro => simp [entryValid, PNode.kind]
  | introOpt => simp [entryValid, PNode.kind]
  | func d v nm => simp [entryValid, PNode.kind]

/-- The decision itself never fails (`opsets[domain]` is always present) for shipped constructors. -/
theorem decision_total (g : PGraph) (e : Entry) (he : e ∈ (buildModel genFacts g).main)
    (hok : NodeOk e.node) : e.decision ≠ .pyError := by
  obtain ⟨hdec, hdom, _⟩ := entry_invariant g e he
  obtain ⟨ops, node, dec⟩ := e
  simp only at hdec hdom hok ⊢
  subst hdec
  obtain ⟨k, np, c, subs, i⟩ := node
  cases k with
  | op d o v =>
    simp only [NodeOk, PNode.kind, PNode.nProtos, PNode.concrete, PNode.subs] at hok
    obtain ⟨h1, h2, h3⟩ := hok
    have hf : fold d = d := fold_eq_self (shipped_domain h3)
    obtain ⟨t, ht, _⟩ := hdom (d, v) List.mem_cons_self
    simp only [hf] at ht
    subst h1
    unfold adaptBestEffort
    simp only [hf, ht]
    split <;> (try split) <;> (try split) <;> (try split) <;> (try split) <;> (try split) <;> simp_all
  | inline imps hd =>
    obtain ⟨t, ht, _⟩ := hdom ("", genFacts.minOpset) (by simp [kindReq, PNode.kind])
    have ht' : lookup "" ops = some t := by simpa [fold] using ht
    unfold adaptBestEffort
    simp only [ht']
    split <;> (try split) <;> simp_all
  | internal => simp [adaptBestEffort]
  | intro => simp [adaptBestEffort]
  | introOpt => simp [adaptBestEffort]
  | func d v nm => simp [adaptBestEffort]

/-- A shipped constructor is sent to the converter only when the schema in force at the imported
    version is not the one it was written for, and then with exactly the import as target. -/
theorem convert_only_when_needed (g : PGraph) (e : Entry) (he : e ∈ (buildModel genFacts g).main)
    (hok : NodeOk e.node) (s t : Nat) (hc : e.decision = .convert s t) :
    ∃ d o, e.node.kind = .op d o s ∧ lookup d (buildModel genFacts g).imports = some t ∧
      genSchemaSince d o t ≠ some s := by
  obtain ⟨hdec, hdom, hag⟩ := entry_invariant g e he
  have hag' : ∀ d, lookup d e.opsets = lookup d (buildModel genFacts g).imports := hag
  obtain ⟨ops, node, dec⟩ := e
  simp only at hdec hdom hok hc hag' ⊢
  subst hdec
  obtain ⟨k, np, c, subs, i⟩ := node
  cases k with
  | op d o v =>
    simp only [NodeOk, PNode.kind, PNode.nProtos, PNode.concrete, PNode.subs] at hok
    obtain ⟨h1, h2, h3⟩ := hok
    have hd := shipped_domain h3
    have hf : fold d = d := fold_eq_self hd
    have hfix := shipped_since_fix h3
    obtain ⟨tg, ht, _⟩ := hdom (d, v) List.mem_cons_self
    simp only [hf] at ht
    subst h1
    unfold adaptBestEffort at hc
    simp only [hf, ht] at hc
    by_cases hsub : subs.isEmpty = true
    · by_cases hvt : v = tg
      · simp [hsub, hvt] at hc
      · by_cases hsame : sameSchema genFacts d o v tg = true
        · simp [hsub, hvt, hsame] at hc
        · by_cases hdd : d = ""
          · subst hdd
            cases c with
            | false => simp [hsub, hvt, hsame] at hc
            | true =>
              simp [hsub, hvt, hsame] at hc
              obtain ⟨rfl, rfl⟩ := hc
              refine ⟨"", o, rfl, by rw [← hag' ""]; exact ht, ?_⟩
              intro hq
              apply hsame
              unfold sameSchema
              simp only [genFacts]
              rw [hfix, hq]
              simp
          · simp [hsub, hvt, hsame, hdd] at hc
    · simp [hsub] at hc
  | inline imps hd =>
    simp only [adaptBestEffort] at hc
    cases hl : lookup "" ops with
    | none => rw [hl] at hc; cases hc
    | some tg =>
      rw [hl] at hc
      cases hd <;> simp at hc
      split at hc <;> cases hc
  | internal => simp [adaptBestEffort] at hc
  | intro => simp [adaptBestEffort] at hc
  | introOpt => simp [adaptBestEffort] at hc
  | func d v nm => simp [adaptBestEffort] at hc

/-! ## inlined models: conversion is decided by the default domain alone -/

/-- `adapt_inline` looks at the default-domain target only: two opsets that answer the lookup of `""`
    alike give the same decision for an inlined model, whatever they say about any other domain. -/
theorem inline_decision_default_only (F : Facts) (o₁ o₂ imports : List Req) (hd : Bool) (np : Nat) (c : Bool)
    (subs : List PGraph) (i : Nat) (h : lookup "" o₁ = lookup "" o₂) :
    adaptBestEffort F o₁ (.mk (.inline imports hd) np c subs i) =
      adaptBestEffort F o₂ (.mk (.inline imports hd) np c subs i) := by
  simp only [adaptBestEffort, h]

/-- Inside a built model — main graph or a body at any depth — an inlined model that has default-domain
    nodes and was written against another default-domain version than the model imports is converted, to
    exactly the imported version; otherwise it is kept. Nothing else enters: not the versions of
    `ai.onnx.ml` or of a custom domain the inlined model imports, not what the model imports for them. -/
theorem inline_converted_iff (g : PGraph) (e : Entry) (he : e ∈ (buildModel genFacts g).main)
    (imports : List Req) (hd : Bool) (hk : e.node.kind = .inline imports hd) :
    ∃ t, lookup "" (buildModel genFacts g).imports = some t ∧
      e.decision = (if hd = true ∧ inlineSource imports t ≠ t
                    then .convertInline (inlineSource imports t) t else .keepInline) := by
  obtain ⟨hdec, hdom, hag⟩ := entry_invariant g e he
  have hag' : ∀ d, lookup d e.opsets = lookup d (buildModel genFacts g).imports := hag
  obtain ⟨ops, node, dec⟩ := e
  obtain ⟨k, np, c, subs, i⟩ := node
  simp only [PNode.kind] at hk
  subst hk
  simp only at hdec hdom hag' ⊢
  obtain ⟨t, ht, _⟩ := hdom ("", genFacts.minOpset) (by simp [kindReq, PNode.kind])
  have ht' : lookup "" ops = some t := by simpa [fold] using ht
  refine ⟨t, by rw [← hag' ""]; exact ht', ?_⟩
  subst hdec
  cases hd with
  | false => simp [adaptBestEffort, ht']
  | true =>
    by_cases hs : inlineSource imports t = t
    · simp [adaptBestEffort, ht', hs]
    · simp [adaptBestEffort, ht', hs]

/-- Whatever an inlined model imports — `ai.onnx.ml`, a custom domain, the default domain under either
    name — the built model imports that domain, at that version or above (the largest requested). -/
theorem inline_imports_dominated (g : PGraph) (e : Entry) (he : e ∈ (buildModel genFacts g).main)
    (imports : List Req) (hd : Bool) (hk : e.node.kind = .inline imports hd) :
    ∀ r ∈ imports, ∃ t, lookup (fold r.1) (buildModel genFacts g).imports = some t ∧ r.2 ≤ t := by
  intro r hr
  obtain ⟨_, hdom, hag⟩ := entry_invariant g e he
  have hag' : ∀ d, lookup d e.opsets = lookup d (buildModel genFacts g).imports := hag
  obtain ⟨t, ht, hle⟩ := hdom r (by rw [hk]; simp [kindReq, hr])
  exact ⟨t, by rw [← hag' (fold r.1)]; exact ht, hle⟩

/-- …and a converted inlined model is valid in the sense of `entryValid`: its target is the import. -/
theorem inline_target_is_import (g : PGraph) (e : Entry) (he : e ∈ (buildModel genFacts g).main)
    (s t : Nat) (hc : e.decision = .convertInline s t) :
    lookup "" (buildModel genFacts g).imports = some t ∧ s ≠ t := by
  obtain ⟨hdec, hdom, hag⟩ := entry_invariant g e he
  have hag' : ∀ d, lookup d e.opsets = lookup d (buildModel genFacts g).imports := hag
  obtain ⟨ops, node, dec⟩ := e
  obtain ⟨k, np, c, subs, i⟩ := node
  simp only at hdec hdom hag' hc ⊢
  subst hdec
  cases k with
  | inline imps hd =>
    cases hl : lookup "" ops with
    | none => simp [adaptBestEffort, hl] at hc
    | some tg =>
      cases hd with
      | false => simp [adaptBestEffort, hl] at hc
      | true =>
        by_cases hs : inlineSource imps tg = tg
        · simp [adaptBestEffort, hl, hs] at hc
        · simp [adaptBestEffort, hl, hs] at hc
          obtain ⟨rfl, rfl⟩ := hc
          exact ⟨by rw [← hag' ""]; exact hl, hs⟩
  | op d o v =>
    exfalso
    simp only [adaptBestEffort] at hc
    repeat' (split at hc)
    all_goals (first | cases hc | simp at hc)
  | internal => simp [adaptBestEffort] at hc
  | intro => simp [adaptBestEffort] at hc
  | introOpt => simp [adaptBestEffort] at hc
  | func d v nm => simp [adaptBestEffort] at hc

/-! ## nothing is remembered between builds (tie G inventory) -/

/-- Names do not enter. Renaming every node of a program — what happens between two builds of the same
    operator objects when arguments, results or intermediate values are named differently — changes neither
    the imports nor, entry by entry (main graph and bodies at any depth), the opsets a node is adapted
    against and the decision taken: there is nothing keyed by names that an earlier build could leave behind. -/
theorem build_ignores_names (f : Nat → Nat) (g : PGraph) :
    (buildModel genFacts (renameG f g)).imports = (buildModel genFacts g).imports ∧
      (buildModel genFacts (renameG f g)).main.map Entry.view =
        (buildModel genFacts g).main.map Entry.view := by
  refine ⟨?_, adaptGraph_rename genFacts f [] g⟩
  simp only [buildModel, opsetsOf, reqGraph_rename]

/-- The same with extra requirements (`Graph.with_opset`), as used by the low-level API in the histories. -/
theorem build_with_ignores_names (f : Nat → Nat) (extra : List Req) (g : PGraph) :
    (buildModelWith genFacts extra (renameG f g)).imports = (buildModelWith genFacts extra g).imports ∧
      (buildModelWith genFacts extra (renameG f g)).main.map Entry.view =
        (buildModelWith genFacts extra g).main.map Entry.view := by
  refine ⟨?_, adaptGraph_rename genFacts f extra g⟩
  simp only [buildModelWith, opsetsOf, reqGraph_rename]

/-- Every application of a function is compiled in a scope of its own. Whatever its nodes are called there,
    the function graph gets the same imports and, entry by entry, the same opsets and decisions: all
    applications of one function yield one definition. -/
theorem function_instances_agree (f : Nat → Nat) (imports : List Req) (fg : PGraph) :
    opsetsOf genFacts imports (renameG f fg) = opsetsOf genFacts imports fg ∧
      (adaptGraph genFacts imports (renameG f fg)).map Entry.view =
        (adaptGraph genFacts imports fg).map Entry.view := by
  refine ⟨?_, adaptGraph_rename genFacts f imports fg⟩
  simp only [opsetsOf, reqGraph_rename]

/-- The value names adaptation introduces are a function of the entries' node names and decisions alone —
    no history, no process-wide counter: two applications of a function, compiled in equally named scopes
    and adapted alike, define exactly the same names (so their FunctionProtos coincide). -/
theorem adapted_names_deterministic (q : Bool) (nOut : Nat → Nat) (conv : Nat → List Nat) (es₁ es₂ : List Entry)
    (h : es₁.map Entry.key = es₂.map Entry.key) :
    allNames q nOut conv es₁ = allNames q nOut conv es₂ :=
  allNames_key q nOut conv es₁ es₂ h

/-! ## one FunctionProto per (domain, name) -/

/-- Equal keys, equal function graphs ⇒ equal definitions (imports, and opsets and decision node by node). -/
theorem occurrences_consistent (extra : List Req) (g : PGraph)
    (h : Consistent ((funcKeysOfGraph g).zip (funcsOfGraph g))) :
    Consistent (funcOccurrences genFacts extra g) := by
  intro a ha b hb hk
  simp only [funcOccurrences, buildModelWith, List.map_map, List.zip_map_right, List.mem_map] at ha hb
  obtain ⟨x, hx, rfl⟩ := ha
  obtain ⟨y, hy, rfl⟩ := hb
  have := h x hx y hy hk
  simp only [Prod.map, id, Function.comp] at hk ⊢
  rw [this]

/-- The loop of `to_onnx_model` over the functions of a build: when every application of a function yields the
    same function graph (instances are compiled in scopes of their own) and different functions have different
    (domain, name) keys, it never raises "two different definitions", emits every key exactly once and emits
    exactly the definitions that occur. -/
theorem functions_merge (extra : List Req) (g : PGraph)
    (h : Consistent ((funcKeysOfGraph g).zip (funcsOfGraph g))) :
    ∃ r, emittedFunctions genFacts extra g = some r ∧ (r.map (·.1)).Nodup ∧
      ∀ a, a ∈ r ↔ a ∈ funcOccurrences genFacts extra g :=
  mergeFuncs_ok _ (occurrences_consistent extra g h)

/-- …and it raises only when two occurrences of one key really carry different definitions. -/
theorem functions_conflict_is_real (extra : List Req) (g : PGraph)
    (h : emittedFunctions genFacts extra g = none) : ¬ Consistent (funcOccurrences genFacts extra g) :=
  mergeFuncs_none _ h

/-- `_adapt.py` and `_graph.py` keep no state that outlives a build (and the other files a build passes through no
    mutable default argument, caching decorator or `global`): no module-level binding, no `global`,
    no caching decorator, no mutable default argument, no mutable class attribute (inventory regenerated
    from the source on every run). A module-level cache of adapted protos makes this fail to build. -/
theorem adaptation_keeps_no_state : Generated.OpsetFacts.adaptState = [] := by decide

/-- The attribute write sites of those two files are exactly the known ones: `adapt_inline` swaps
    `node.model` for the converted model and restores it (`finally`), a `Graph` fills its own build cache. -/
theorem adaptation_write_sites :
    Generated.OpsetFacts.adaptAttrWrites =
      ["_adapt.py:adapt_inline:node.model", "_adapt.py:adapt_inline:node.model",
       "_graph.py:_get_build_result:self._build_result.value"] := by decide

/-! ## the statement without the exclusions is false of the code: witnesses -/

open Generated.OpsetFacts in
/-- operator number of a default-domain operator -/
def opNo (name : String) : Nat := (opNames.idxOf? ("", name)).getD opNames.length

/-- `if c then reduce_mean(x, axes=[1]) (v17) else reduce_max(x, [1]) (v18)`: the v17 ReduceMean-13 sits
    in a body whose own maximum is 14 while the model imports 18. -/
def bodyWitness : PGraph :=
  .mk [.mk (.op "" (opNo "If") 16) 1 true
        [.mk [.mk (.op "" (opNo "ReduceMean") 13) 1 true [] 1, .mk (.op "" (opNo "Sub") 14) 1 true [] 2],
         .mk [.mk (.op "" (opNo "Constant") 13) 1 true [] 3, .mk (.op "" (opNo "ReduceMax") 18) 1 true [] 4,
              .mk (.op "" (opNo "Sub") 14) 1 true [] 5]] 0]

/-- On the pinned tree a body was adapted against its own opsets (`policy` of its own requirements):
    the ReduceMean in the `then` body of the witness was kept in its version-13 form (`axes` attribute)
    although the model imports 18 — `node_valid_at_import` was false for bodies. -/
theorem body_own_opsets_pinned_counterexample :
    (buildModel genFacts bodyWitness).imports = [("", 18)] ∧
    (let node : PNode := .mk (.op "" (opNo "ReduceMean") 13) 1 true [] 1
     let own := policy (reqGraph genFacts (.mk [node, .mk (.op "" (opNo "Sub") 14) 1 true [] 2]))
     own = [("", 14)] ∧ adaptBestEffort genFacts own node = .keepSameSchema ∧
       entryValid [("", 18)] ⟨own, node, .keepSameSchema⟩ = false) := by
  decide +kernel

/-- With bodies adapted against the model's requirements the same node is converted to 18. -/
theorem body_witness_now_converted :
    (buildModel genFacts bodyWitness).main.any
      (fun e => e.node.id == 1 && e.opsets == [("", 18)] && e.decision == .convert 13 18) = true ∧
    (buildModel genFacts bodyWitness).main.all
      (fun e => entryValid (buildModel genFacts bodyWitness).imports e) = true := by
  decide +kernel

/-- `reduce_mean(reshape(x, s), axes=[0])` (v17, rank unknown) next to a v18 `reduce_max`. -/
def rankWitness : PGraph :=
  .mk [.mk (.op "" (opNo "Reshape") 14) 1 false [] 0,
       .mk (.op "" (opNo "ReduceMean") 13) 1 false [] 1,
       .mk (.op "" (opNo "Constant") 13) 1 true [] 2,
       .mk (.op "" (opNo "ReduceMax") 18) 1 false [] 3]

/-- `node_valid_at_import` without "ranks known" is false: the conversion of the ReduceMean cannot be
    carried out (`adapt_node`'s singleton model is rejected), the build fails. -/
theorem unknown_rank_counterexample :
    (buildModel genFacts rankWitness).imports = [("", 18)] ∧
    (buildModel genFacts rankWitness).main.any
      (fun e => e.node.id == 1 && e.opsets == [("", 18)] && e.decision == .convertError 13 18 &&
        !entryValid (buildModel genFacts rankWitness).imports e) = true := by
  decide +kernel

/-! ## names introduced by adaptation -/

/-- Names introduced while adapting are distinct from each other and from every other value name of the
    model, for any number of converted nodes in any graphs: they carry the (unique) name of their node.
    `hid`: node names are unique (C02); `hconv`: the converter's names are distinct within one singleton. -/
theorem adapted_names_fresh (nOut : Nat → Nat) (conv : Nat → List Nat) (es : List Entry)
    (hid : (es.map (fun e => e.node.id)).Nodup) (hconv : ∀ n, (conv n).Nodup) :
    (allNames true nOut conv es).Nodup :=
  allNames_nodup nOut conv es hid hconv

/-- On the pinned tree the converter's own names were used (`Name.bare`): two converted nodes in one model
    define the same name — the statement above was false. -/
theorem adapted_names_fresh_pinned_counterexample :
    ∃ (es : List Entry), (es.map (fun e => e.node.id)).Nodup ∧
      ¬ (allNames false (fun _ => 1) (fun _ => [4]) es).Nodup := by
  refine ⟨[⟨[], .mk (.op "" 0 13) 1 true [] 1, .convert 13 18⟩, ⟨[], .mk (.op "" 1 13) 1 true [] 2, .convert 13 18⟩], ?_, ?_⟩
  · decide
  · decide

/-! ## the renaming step of `adapt_node`, at the level of the strings (round 10)

`Opset.Qualify.qualify p ins outs nodes` is the last block of `adapt_node`: `p` = `proto.name`, `ins` / `outs` =
`proto.input` / `proto.output`, `nodes` = the input / output name lists of the converter's nodes. It is executed by
the driver against the real `adapt_node` (with generated converter outputs) on every run. -/

section Qualify
open Opset.Qualify

/-- The converted nodes still read the operands and define the results of the original node: no name of the
    original NodeProto (and not the empty name of an omitted optional operand) is ever renamed — whatever the
    converter returned. -/
theorem qualify_keeps_interface (p : Nm) (ins outs : List Nm) (nodes : List QNode) :
    (∀ n ∈ ins ++ outs, ren p (introduced (ins ++ outs) nodes) n = n) ∧
      ren p (introduced (ins ++ outs) nodes) [] = [] :=
  ⟨fun _ h => ren_of_known h, ren_nil⟩

/-- A conversion that introduces no value is returned verbatim. -/
theorem qualify_nothing_introduced (p : Nm) (ins outs : List Nm) (nodes : List QNode)
    (h : introduced (ins ++ outs) nodes = []) : qualify p ins outs nodes = nodes := by
  unfold qualify
  rw [h]
  have hr : ren p [] = id := by funext n; simp [ren]
  simp [hr]

/-- Every value the returned nodes define is an operand / result of the original node, the empty name, or
    `f"{node name}__{x}"` for a name `x` the converter introduced — nothing else can appear. -/
theorem qualify_outputs_classified (p : Nm) (ins outs : List Nm) (nodes : List QNode) :
    ∀ nd ∈ qualify p ins outs nodes, ∀ o ∈ nd.outs,
      o = [] ∨ o ∈ ins ++ outs ∨ ∃ x ∈ introduced (ins ++ outs) nodes, o = qual p x := by
  intro nd hnd o ho
  simp only [qualify, List.mem_map] at hnd
  obtain ⟨nd0, hnd0, rfl⟩ := hnd
  simp only [List.mem_map] at ho
  obtain ⟨x, hx, rfl⟩ := ho
  by_cases hi : x ∈ introduced (ins ++ outs) nodes
  · exact Or.inr (Or.inr ⟨x, hi, ren_of_mem hi⟩)
  · rw [ren_of_not_mem hi]
    by_cases he : x = []
    · exact Or.inl he
    · by_cases hk : x ∈ ins ++ outs
      · exact Or.inr (Or.inl hk)
      · exact absurd (mem_introduced.mpr ⟨⟨nd0, hnd0, hx⟩, he, hk⟩) hi

/-- no name that stays as it is already looks like a qualified introduced name -/
def NoClash (p : Nm) (ins outs : List Nm) (nodes : List QNode) : Prop :=
  ∀ a ∈ occurring nodes, a ∉ introduced (ins ++ outs) nodes →
    ∀ x ∈ introduced (ins ++ outs) nodes, a ≠ qual p x

/-- The renaming keeps the wiring of the converter's nodes: two name occurrences are equal afterwards iff they
    were equal before (so every converted node reads exactly the values it read in the converter's output, and
    no two definitions are merged) — provided no name that stays (an operand / result of the original node)
    already has the form `f"{node name}__{introduced name}"`. -/
theorem qualify_preserves_wiring (p : Nm) (ins outs : List Nm) (nodes : List QNode)
    (h : NoClash p ins outs nodes) (a b : Nm) (ha : a ∈ occurring nodes) (hb : b ∈ occurring nodes) :
    ren p (introduced (ins ++ outs) nodes) a = ren p (introduced (ins ++ outs) nodes) b ↔ a = b :=
  ⟨ren_inj (h a ha) (h b hb), fun e => e ▸ rfl⟩

/-- …and the proviso is needed: the node `N` reads a value the caller named `N__t`, the converter introduces
    `t` — after the renaming the new definition carries the operand's name. -/
theorem qualify_wiring_counterexample :
    let p := "N".toList; let x := "N__t".toList; let t := "t".toList; let y := "y".toList
    qualify p [x] [y] [⟨[x], [t]⟩, ⟨[t], [y]⟩] = [⟨[x], [x]⟩, ⟨[x], [y]⟩] := by decide

/-- Node names that do not end in `_` (every name the builder assigns: `enum_names_end_clean`) qualify names
    without `__` injectively: `f"{p₁}__{a}" = f"{p₂}__{b}"` only for `p₁ = p₂` and `a = b` — also when the node
    names themselves contain `__` (nodes of a body are called `f"{subgraph}__{op_type}_{i}"`). -/
theorem qualified_names_disjoint (p₁ p₂ a b : Nm) (h₁ : EndsClean p₁) (h₂ : EndsClean p₂)
    (ha : NoSep a) (hb : NoSep b) (h : qual p₁ a = qual p₂ b) : p₁ = p₂ ∧ a = b :=
  qual_prefix_inj h₁ h₂ ha hb h

/-- Every name `ScopeSpace.enum` makes, `f"{base}_{i}"` — whatever the base: an operator identifier, with or without
    the `f"{subgraph}__"` prefix of a body — does not end in `_` (the digits of `i`: not empty, no `_`). -/
theorem enum_names_end_clean (base ds : Nm) (hd : ds ≠ []) (hds : '_' ∉ ds) : EndsClean (base ++ '_' :: ds) :=
  enum_name_endsClean base ds hd hds

/-- `adapted_names_fresh` at the level of the STRINGS, for the converter-introduced names: for any number of
    converted nodes (main graph, bodies, any depth) with pairwise different builder-assigned names, each conversion
    introducing distinct names without `__`, all the qualified names of the model are pairwise different strings. -/
theorem adapted_names_fresh_strings (cs : List (Nm × List Nm))
    (hp : (cs.map (·.1)).Nodup) (hc : ∀ c ∈ cs, EndsClean c.1) (hs : ∀ c ∈ cs, ∀ a ∈ c.2, NoSep a)
    (hn : ∀ c ∈ cs, c.2.Nodup) :
    (cs.flatMap (fun c => c.2.map (qual c.1))).Nodup :=
  qualified_nodup cs hp hc hs hn

/-- …and both provisos are needed: `A` + `__` + `_x` = `A_` + `__` + `x` (a node name ending in `_`), and
    `A` + `__` + `B_0__y` = `A__B_0` + `__` + `y` (an introduced name containing `__`). -/
theorem clean_needed_counterexample :
    ("A".toList ≠ "A_".toList ∧ qual "A".toList "_x".toList = qual "A_".toList "x".toList) ∧
    ("A".toList ≠ "A__B_0".toList ∧ qual "A".toList "B_0__y".toList = qual "A__B_0".toList "y".toList) := by
  decide

/-- the executable tests used for the witnesses (and mirrored by the harness on every observed node name and
    introduced name) imply the hypotheses -/
theorem cleanB_clean (p : Nm) : (endsCleanB p = true → EndsClean p) ∧ (noSepB p = true → NoSep p) :=
  ⟨endsCleanB_sound p, noSepB_sound p⟩

end Qualify

/-! ## mini-round: the proviso of `qualify_preserves_wiring` discharged; names of a whole build -/

section Qualify2
open Opset.Qualify

/-- `NoClash` follows from a premise about the kept names alone: a name without `__` can never equal a
    qualified name `f"{p}__{x}"` — whatever the node name `p` and the introduced names are. -/
theorem noClash_of_noSep (p : Nm) (ins outs : List Nm) (nodes : List QNode)
    (h : ∀ a ∈ occurring nodes, a ∉ introduced (ins ++ outs) nodes → NoSep a) :
    NoClash p ins outs nodes := by
  intro a ha hni x _ e
  exact h a ha hni p x e

/-- the executable premise: every occurring name is introduced or contains no `__` -/
def keptNoSepB (ins outs : List Nm) (nodes : List QNode) : Bool :=
  (occurring nodes).all (fun a => (introduced (ins ++ outs) nodes).contains a || noSepB a)

/-- `qualify_preserves_wiring` with its proviso discharged from the executable premise: when the names that stay
    (operands / results of the original node, the empty name) contain no `__`, the renaming keeps the wiring —
    for every node name and every converter output. -/
theorem qualify_preserves_wiring_of_keptNoSep (p : Nm) (ins outs : List Nm) (nodes : List QNode)
    (h : keptNoSepB ins outs nodes = true) (a b : Nm) (ha : a ∈ occurring nodes) (hb : b ∈ occurring nodes) :
    ren p (introduced (ins ++ outs) nodes) a = ren p (introduced (ins ++ outs) nodes) b ↔ a = b := by
  apply qualify_preserves_wiring p ins outs nodes _ a b ha hb
  apply noClash_of_noSep
  intro c hc hni
  have := List.all_eq_true.mp h c hc
  simp only [Bool.or_eq_true, List.contains_iff_mem] at this
  rcases this with h1 | h2
  · exact absurd h1 hni
  · exact (cleanB_clean c).2 h2

example : keptNoSepB ["x".toList] ["ReduceMean_0_reduced".toList]
    [⟨[], ["_v_4".toList]⟩, ⟨["x".toList, "_v_4".toList], ["ReduceMean_0_reduced".toList]⟩] = true := by decide
/-- the clash witness of `qualify_wiring_counterexample` is rejected by the premise -/
example : keptNoSepB ["N__t".toList] ["y".toList] [⟨["N__t".toList], ["t".toList]⟩, ⟨["t".toList], ["y".toList]⟩] = false := by
  decide

/-- Whole build: the value names the scope assigned (pairwise distinct, none containing `__` — the names of a graph
    without bodies) together with the qualified names of ANY number of converted nodes are pairwise distinct
    strings: no converter-introduced value can collide with another one or with a value of the scope. -/
theorem model_names_nodup (scope : List Nm) (cs : List (Nm × List Nm))
    (hsc : scope.Nodup) (hsn : ∀ a ∈ scope, NoSep a)
    (hp : (cs.map (·.1)).Nodup) (hc : ∀ c ∈ cs, EndsClean c.1) (hs : ∀ c ∈ cs, ∀ a ∈ c.2, NoSep a)
    (hn : ∀ c ∈ cs, c.2.Nodup) :
    (scope ++ cs.flatMap (fun c => c.2.map (qual c.1))).Nodup := by
  rw [List.nodup_append]
  refine ⟨hsc, adapted_names_fresh_strings cs hp hc hs hn, ?_⟩
  intro a ha b hb hab
  subst hab
  obtain ⟨c, _, hb'⟩ := List.mem_flatMap.mp hb
  obtain ⟨x, _, hx⟩ := List.mem_map.mp hb'
  exact hsn a ha c.1 x hx.symm

example : (["x".toList, "ReduceMean_0_reduced".toList] ++
    ([("ReduceMean_0".toList, ["_v_4".toList]), ("If_0_then_branch__ReduceMean_0".toList, ["_v_4".toList])] :
      List (Nm × List Nm)).flatMap (fun c => c.2.map (qual c.1))).Nodup :=
  model_names_nodup _ _ (by decide)
    (by intro a ha; simp only [List.mem_cons, List.mem_nil_iff, or_false] at ha
        rcases ha with rfl | rfl <;> exact (cleanB_clean _).2 (by decide))
    (by decide)
    (by intro c hc; simp only [List.mem_cons, List.mem_nil_iff, or_false] at hc
        rcases hc with rfl | rfl <;> exact (cleanB_clean _).1 (by decide))
    (by intro c hc a ha; simp only [List.mem_cons, List.mem_nil_iff, or_false] at hc
        rcases hc with rfl | rfl <;>
          (simp only [List.mem_cons, List.mem_nil_iff, or_false] at ha; subst ha
           exact (cleanB_clean _).2 (by decide)))
    (by intro c hc; simp only [List.mem_cons, List.mem_nil_iff, or_false] at hc
        rcases hc with rfl | rfl <;> decide)
end Qualify2

/-! ## `_initializers_to_constants` (round 10) -/

section Inits
open Opset.Inits

/-- `_initializers_to_constants`, for every graph: the inputs are untouched; the nodes afterwards are Constant nodes for
    exactly the initializers that are not the default of an input — in the order of the initializers, BEFORE every
    original node — followed by the original nodes in their order; if there is such an initializer no initializer is
    left at all (`_Inline.to_onnx` does not refuse the graph), otherwise the graph is returned as it is. -/
theorem inits_to_constants_spec (g : IGraph) :
    (toConstants g).inputs = g.inputs ∧
      (toConstants g).nodes = (movable g).map .const ++ g.nodes ∧
      (∀ n, n ∈ movable g ↔ n ∈ g.inits ∧ n ∉ g.inputs) ∧
      ((∃ n ∈ g.inits, n ∉ g.inputs) → (toConstants g).inits = []) ∧
      ((∀ n ∈ g.inits, n ∈ g.inputs) → toConstants g = g) := by
  refine ⟨?_, ?_, mem_movable g, ?_, ?_⟩
  · unfold toConstants; split <;> rfl
  · unfold toConstants
    split
    · next h => simp [List.isEmpty_iff.mp h]
    · rfl
  · rintro ⟨n, h1, h2⟩
    have : n ∈ movable g := (mem_movable g n).mpr ⟨h1, h2⟩
    unfold toConstants
    split
    · next h => rw [List.isEmpty_iff.mp h] at this; cases this
    · rfl
  · intro h
    have : movable g = [] := by
      apply List.eq_nil_iff_forall_not_mem.mpr
      intro n hn
      exact ((mem_movable g n).mp hn).2 (h n ((mem_movable g n).mp hn).1)
    unfold toConstants
    simp [this]

/-- applying it twice changes nothing more -/
theorem inits_to_constants_idempotent (g : IGraph) : toConstants (toConstants g) = toConstants g := by
  by_cases h : (movable g).isEmpty = true
  · have : toConstants g = g := by unfold toConstants; simp [h]
    rw [this, this]
  · have e : toConstants g = { inputs := g.inputs, inits := [], nodes := (movable g).map .const ++ g.nodes } := by
      unfold toConstants; simp [h]
    rw [e]
    unfold toConstants
    simp [movable]

/-- quirk kept by the model: the default value of an input is dropped as soon as ONE other initializer exists, and kept
    (so that `_Inline.to_onnx` would refuse the graph) when it is alone -/
theorem inits_default_quirk :
    toConstants ⟨["a".toList], ["a".toList, "w".toList], [.orig 0]⟩ = ⟨["a".toList], [], [.const "w".toList, .orig 0]⟩ ∧
    toConstants ⟨["a".toList], ["a".toList], [.orig 0]⟩ = ⟨["a".toList], ["a".toList], [.orig 0]⟩ := by decide

end Inits

/-! ## non-vacuity -/

/-- two v17 reductions next to a v18 one, an inlined opset-11 model, an ml operator: imports and decisions -/
def mixedExample : PGraph :=
  .mk [.mk (.op "" (opNo "ReduceMean") 13) 1 true [] 1,
       .mk (.op "" (opNo "ReduceL2") 13) 1 true [] 2,
       .mk (.op "" (opNo "ReduceMax") 18) 1 true [] 3,
       .mk (.inline [("", 11)] true) 3 true [] 4,
       .mk (.op "ai.onnx.ml" ((Generated.OpsetFacts.opNames.idxOf? ("ai.onnx.ml", "LabelEncoder")).getD 0) 2) 1 true [] 5,
       .mk (.op "ai.onnx.ml" ((Generated.OpsetFacts.opNames.idxOf? ("ai.onnx.ml", "LabelEncoder")).getD 0) 4) 1 true [] 6,
       .mk (.op "" (opNo "Add") 14) 1 true [] 7]

example : (buildModel genFacts mixedExample).imports = [("", 18), ("ai.onnx.ml", 4)] := by decide +kernel
example : (buildModel genFacts mixedExample).main.map (·.decision) =
    [.convert 13 18, .convert 13 18, .keepSameVersion, .convertInline 11 18, .keepNonDefault 2 4,
     .keepSameVersion, .keepSameSchema] := by decide +kernel
example : (buildModel genFacts mixedExample).main.all (fun e => decide (NodeOkB e.node)) = true := by decide +kernel
example : (buildModel genFacts mixedExample).main.all
    (fun e => entryValid (buildModel genFacts mixedExample).imports e) = true := by decide +kernel
example : (buildModel genFacts (.mk [])).imports = [("", 14)] := by decide +kernel
/-- `build({"x": x}, {"o": op17.optional(x)})`: Optional-15 alone would give 15; the result identities forward an optional -/
example : (buildModel genFacts (.mk [.mk (.op "" (opNo "Optional") 15) 1 true [] 1, .mk .introOpt 1 true [] 2])).imports = [("", 16)] ∧
    (buildModel genFacts (.mk [.mk (.op "" (opNo "Optional") 15) 1 true [] 1])).imports = [("", 15)] := by decide +kernel
example : (buildModel genFacts (renameG (· + 100) mixedExample)).main.map (·.node.id) = [101, 102, 103, 104, 105, 106, 107] ∧
    (buildModel genFacts (renameG (· + 100) mixedExample)).main.map (·.decision) =
      (buildModel genFacts mixedExample).main.map (·.decision) := by decide +kernel

/-- a function whose body uses `ml3.label_encoder`, next to `ml4.label_encoder` and a v18 reduction -/
def funcExample : PGraph :=
  .mk [.mk (.func "spox.verif" 0 "f") 1 true
         [.mk [.mk (.op "ai.onnx.ml" ((Generated.OpsetFacts.opNames.idxOf? ("ai.onnx.ml", "LabelEncoder")).getD 0) 2) 1 true [] 2]] 1,
       .mk (.op "ai.onnx.ml" ((Generated.OpsetFacts.opNames.idxOf? ("ai.onnx.ml", "LabelEncoder")).getD 0) 4) 1 true [] 3,
       .mk (.op "" (opNo "ReduceMax") 18) 1 true [] 4]

example : (buildModel genFacts funcExample).imports = [("", 18), ("ai.onnx.ml", 4), ("spox.verif", 0)] ∧
    (buildModel genFacts funcExample).funcs.map (·.1) = [[("", 18), ("ai.onnx.ml", 4), ("spox.verif", 0)]] ∧
    (buildModel genFacts funcExample).funcs.map (fun f => f.2.map (·.decision)) = [[.keepNonDefault 2 4]] := by
  decide +kernel

/-- one function (v17 `ReduceMean` with `axes` inside) applied twice — main graph and an If body — under a v21 Identity:
    one definition is emitted, its node converted to 21; the same key with another body is a conflict -/
def twiceExample (second : Nat) : PGraph :=
  .mk [.mk (.func "spox.verif" 0 "f") 1 true [.mk [.mk (.op "" (opNo "ReduceMean") 13) 1 true [] 1]] 1,
       .mk (.op "" (opNo "If") 16) 1 true
         [.mk [.mk (.func "spox.verif" 0 "f") 1 true [.mk [.mk (.op "" (opNo "ReduceMean") second) 1 true [] 1]] 2],
          .mk [.mk (.op "" (opNo "Neg") 13) 1 true [] 3]] 4,
       .mk (.op "" (opNo "Identity") 21) 1 true [] 5]

example : funcKeysOfGraph (twiceExample 13) = [("spox.verif", "f"), ("spox.verif", "f")] := by decide +kernel
example : (emittedFunctions genFacts [] (twiceExample 13)).map (fun r => r.map (fun p => p.1.2)) = some ["f"] := by
  decide +kernel
example : (emittedFunctions genFacts [] (twiceExample 13)).map (fun r => r.map (fun p => p.2.1)) =
    some [[("", 21), ("spox.verif", 0)]] := by decide +kernel
example : (emittedFunctions genFacts [] (twiceExample 13)).map (fun r => r.map (fun p => p.2.2.map (·.2))) =
    some [[.convert 13 21]] := by decide +kernel
example : (emittedFunctions genFacts [] (twiceExample 18)).isNone = true := by decide +kernel

/-- a legacy opset-11 model importing ai.onnx.ml 1 and a custom domain 2, next to an ml4 LabelEncoder, another
    legacy model asking for the custom domain at 3, and a v21 Identity: both inlined models are converted to 21 -/
def inlineMixExample : PGraph :=
  .mk [.mk (.inline [("", 11), ("ai.onnx.ml", 1), ("verif.custom", 2)] true) 7 true [] 1,
       .mk (.op "ai.onnx.ml" ((Generated.OpsetFacts.opNames.idxOf? ("ai.onnx.ml", "LabelEncoder")).getD 0) 4) 1 true [] 2,
       .mk (.inline [("", 17), ("ai.onnx", 17), ("verif.custom", 3)] true) 4 true [] 3,
       .mk (.inline [("ai.onnx.ml", 3)] false) 1 true [] 4,
       .mk (.op "" (opNo "Identity") 21) 1 true [] 5]

example : (buildModel genFacts inlineMixExample).imports = [("", 21), ("ai.onnx.ml", 4), ("verif.custom", 3)] := by
  decide +kernel
example : (buildModel genFacts inlineMixExample).main.map (·.decision) =
    [.convertInline 11 21, .keepSameVersion, .convertInline 17 21, .keepInline, .keepSameVersion] := by decide +kernel

/-- `reduce_mean(x, axes=[1])` (v17) named `ReduceMean_0`, converted to 18: the converter adds a Constant defining
    `_v_4` and feeds it to the ReduceMean; two such nodes introduce different strings -/
example : Opset.Qualify.qualify "ReduceMean_0".toList ["x".toList] ["ReduceMean_0_reduced".toList]
      [⟨[], ["_v_4".toList]⟩, ⟨["x".toList, "_v_4".toList], ["ReduceMean_0_reduced".toList]⟩] =
    [⟨[], ["ReduceMean_0___v_4".toList]⟩,
     ⟨["x".toList, "ReduceMean_0___v_4".toList], ["ReduceMean_0_reduced".toList]⟩] := by decide
example : Opset.Qualify.EndsClean "If_0_then_branch__ReduceMean_0".toList ∧ Opset.Qualify.NoSep "_v_4".toList :=
  ⟨(cleanB_clean _).1 (by decide), (cleanB_clean _).2 (by decide)⟩
example : Opset.Qualify.EndsClean ("If_0_then_branch__ReduceMean".toList ++ '_' :: "10".toList) :=
  enum_names_end_clean _ _ (by decide) (by decide)
example : (([("ReduceMean_0".toList, ["_v_4".toList]), ("If_0_then_branch__ReduceMean_0".toList, ["_v_4".toList])] :
      List (Opset.Qualify.Nm × List Opset.Qualify.Nm)).flatMap
        (fun c => c.2.map (Opset.Qualify.qual c.1))).Nodup :=
  adapted_names_fresh_strings _ (by decide)
    (by intro c hc; simp only [List.mem_cons, List.mem_nil_iff, or_false] at hc
        rcases hc with rfl | rfl <;> exact (cleanB_clean _).1 (by decide))
    (by intro c hc a ha; simp only [List.mem_cons, List.mem_nil_iff, or_false] at hc
        rcases hc with rfl | rfl <;>
          (simp only [List.mem_cons, List.mem_nil_iff, or_false] at ha; subst ha
           exact (cleanB_clean _).2 (by decide)))
    (by intro c hc; simp only [List.mem_cons, List.mem_nil_iff, or_false] at hc
        rcases hc with rfl | rfl <;> decide)
example : NoClash "N".toList ["x".toList] ["y".toList] [⟨["x".toList], ["t".toList]⟩, ⟨["t".toList], ["y".toList]⟩] := by
  intro a ha _ x hx
  have hx' : x = "t".toList := by
    have : x ∈ ["t".toList] := by
      have e : Opset.Qualify.introduced (["x".toList] ++ ["y".toList])
          [⟨["x".toList], ["t".toList]⟩, ⟨["t".toList], ["y".toList]⟩] = ["t".toList] := by decide
      rw [e] at hx; exact hx
    simpa using this
  subst hx'
  have : a ∈ ["x".toList, "t".toList, "t".toList, "y".toList] := by
    have e : Opset.Qualify.occurring [⟨["x".toList], ["t".toList]⟩, ⟨["t".toList], ["y".toList]⟩] =
        ["x".toList, "t".toList, "t".toList, "y".toList] := by decide
    rw [e] at ha; exact ha
  simp only [List.mem_cons, List.mem_nil_iff, or_false] at this
  rcases this with rfl | rfl | rfl | rfl <;> decide

/-- a v18 reduction alone imports 18; next to a v21 Identity (before or after) the import is 21 -/
example : lookup "" (buildModel genFacts (.mk [.mk (.op "" (opNo "ReduceMax") 18) 1 true [] 3])).imports = some 18 ∧
    lookup "" (buildModel genFacts (.mk ([.mk (.op "" (opNo "Identity") 21) 1 true [] 5] ++
      [.mk (.op "" (opNo "ReduceMax") 18) 1 true [] 3] ++ []))).imports = some 21 := by decide +kernel

/-- a converted Pad-10 model: the converter's initializer `pads` becomes a Constant in front of the Pad node -/
example : Opset.Inits.toConstants ⟨["x".toList], ["pads".toList], [.orig 0]⟩ =
    ⟨["x".toList], [], [.const "pads".toList, .orig 0]⟩ := by decide

end C09
