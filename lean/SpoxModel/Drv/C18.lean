import Lean.Data.Json
import SpoxModel.Model.Custom
import SpoxModel.Model.CustomInline
import SpoxModel.Drv.C11
/-! Line-protocol handler for C18 (model side of the correspondence).

`{"kind":"node", …}`   : `Custom.toOnnx` (plain `Node`: nothing trimmed) + `opsetReq`
`{"kind":"opsets", "reqs":[[d,v]…]}` : `Custom.maxOpsetPolicy`
`{"kind":"infer", …}`  : `Custom.inference` + `Custom.validateWarnings`; types and values are opaque
                          tokens, `check` is given as the list of passing (type, value) pairs -/
namespace Drv.C18
open Lean Emit Custom

def optStr (j : Json) (k : String) : Option String :=
  match j.getObjVal? k with
  | .ok (Json.str s) => some s
  | _ => none

def pairs (j : Json) : Except String (List (String × String)) := do
  let l ← fromJson? (α := List (List String)) j
  l.mapM fun
    | [a, b] => pure (a, b)
    | _ => throw "bad pair"

def warnJson : Warn → Json
  | .dropped k => Json.arr #["dropped", k]
  | .missing k => Json.arr #["missing", k]
  | .notConcrete k => Json.arr #["notConcrete", k]

def handleNode (req : Json) : Except String Json := do
  let ins ← (← req.getObjValAs? (List Json) "inputs").mapM Drv.C11.parseArg
  let outs ← (← req.getObjValAs? (List Json) "outputs").mapM Drv.C11.parseArg
  let attrs ← (← req.getObjValAs? (List Json) "attrs").mapM Drv.C11.parseAttr
  let n : NodeIn String String :=
    { opType := ← req.getObjValAs? String "op", domain := ← req.getObjValAs? String "domain",
      version := ← req.getObjValAs? Nat "version", mins := none,
      inputs := ins, outputs := outs, attrs := attrs }
  return Json.mkObj [("nodes", Json.arr ((toOnnx n).map fun p => Drv.C11.nodeJson p (opsetReq n)).toArray)]

def handleOpsets (req : Json) : Except String Json := do
  let l ← req.getObjValAs? (List Json) "reqs"
  let reqs ← l.mapM fun
    | Json.arr #[Json.str d, v] => do pure (d, ← fromJson? (α := Nat) v)
    | _ => throw "bad req"
  return Json.mkObj [("imports", Json.arr ((maxOpsetPolicy reqs).map fun (d, v) =>
    Json.arr #[Json.str d, toJson v]).toArray)]

def handleInfer (req : Json) : Except String Json := do
  let outsJ ← req.getObjValAs? (List Json) "outs"
  let outs ← outsJ.mapM fun o => do
    return ({ key := ← o.getObjValAs? String "key", type := optStr o "type",
              value := optStr o "value" } : OutState String String)
  let thook ← pairs (← req.getObjVal? "thook")
  let vhook ← pairs (← req.getObjVal? "vhook")
  let pass ← pairs (← req.getObjVal? "check")
  let check : String → String → Bool := fun t v => pass.contains (t, v)
  let level ← req.getObjValAs? Nat "level"
  let concrete ← req.getObjValAs? (List String) "concrete"
  let inTypesJ ← req.getObjValAs? (List Json) "inTypes"
  let inTypes : List (Option String) := inTypesJ.map fun
    | Json.str s => some s
    | _ => none
  let (res, warns) := inference check thook vhook outs
  let vw := validateWarnings level (fun t => concrete.contains t) inTypes res
  return Json.mkObj [
    ("outs", Json.arr (res.map fun o => Json.mkObj [("key", o.key),
        ("type", match o.type with | some t => Json.str t | none => Json.null),
        ("value", match o.value with | some v => Json.str v | none => Json.null)]).toArray),
    ("warns", Json.arr ((warns ++ vw).map warnJson).toArray)]

/-- `{"kind":"adapt","imports":[[d,v],…],"domains":[…],"target":n}` : `CustomInline.decide` -/
def handleAdapt (req : Json) : Except String Json := do
  let impsJ ← req.getObjValAs? (List Json) "imports"
  let imps ← impsJ.mapM fun j => match j with
    | Json.arr #[Json.str d, v] => do return (d, ← fromJson? (α := Nat) v)
    | _ => throw "bad import"
  let doms ← req.getObjValAs? (List String) "domains"
  let target ← req.getObjValAs? Nat "target"
  match CustomInline.decide { imports := imps, nodeDomains := doms } target with
  | .keep => return Json.mkObj [("decision", "keep")]
  | .convert s t => return Json.mkObj [("decision", "convert"), ("src", toJson s), ("tgt", toJson t)]

/-- `{"kind":"results","thook":…,"vhook":…,"check":…,"req":[[name,key],…],"concrete":[…],"rc":bool}` :
    `Custom.resultInfo` on the requested outputs of a freshly inferred custom node. -/
def handleResults (req : Json) : Except String Json := do
  let thook ← pairs (← req.getObjVal? "thook")
  let vhook ← pairs (← req.getObjVal? "vhook")
  let pass ← pairs (← req.getObjVal? "check")
  let check : String → String → Bool := fun t v => pass.contains (t, v)
  let concrete ← req.getObjValAs? (List String) "concrete"
  let rc ← req.getObjValAs? Bool "rc"
  let rq ← pairs (← req.getObjVal? "req")
  match resultInfo (fun t => concrete.contains t) rc
      (rq.map fun p => (p.1, outAfter check thook vhook p.2)) with
  | .ok l => return Json.mkObj [("ok", Json.arr (l.map fun i => Json.arr #[Json.str i.1, Json.str i.2]).toArray)]
  | .error (.untyped n) => return Json.mkObj [("err", "untyped"), ("name", n)]
  | .error (.notConcrete n) => return Json.mkObj [("err", "notConcrete"), ("name", n)]

/-- `{"kind":"construct","decl":[[field,isVariadic],…],"nvar":n,"flags":[infer,prop,validate],
     "thook":…,"vhook":…,"check":…,"level":…,"concrete":…,"inTypes":…}` : `Custom.construct`. -/
def handleConstruct (req : Json) : Except String Json := do
  let declJ ← req.getObjValAs? (List Json) "decl"
  let decl ← declJ.mapM fun j => match j with
    | Json.arr #[Json.str n, Json.bool b] => pure (n, b)
    | _ => throw "bad decl"
  let nvar ← req.getObjValAs? Nat "nvar"
  let fl ← req.getObjValAs? (List Bool) "flags"
  let flags : Flags := { inferTypes := fl.getD 0 true, propValues := fl.getD 1 true, validate := fl.getD 2 true }
  let thook ← pairs (← req.getObjVal? "thook")
  let vhook ← pairs (← req.getObjVal? "vhook")
  let pass ← pairs (← req.getObjVal? "check")
  let check : String → String → Bool := fun t v => pass.contains (t, v)
  let level ← req.getObjValAs? Nat "level"
  let concrete ← req.getObjValAs? (List String) "concrete"
  let inTypesJ ← req.getObjValAs? (List Json) "inTypes"
  let inTypes : List (Option String) := inTypesJ.map fun
    | Json.str s => some s
    | _ => none
  let (res, warns) := construct check thook vhook flags level (fun t => concrete.contains t) inTypes decl nvar
  return Json.mkObj [
    ("outs", Json.arr (res.map fun o => Json.mkObj [("key", o.key),
        ("type", match o.type with | some t => Json.str t | none => Json.null),
        ("value", match o.value with | some v => Json.str v | none => Json.null)]).toArray),
    ("warns", Json.arr (warns.map warnJson).toArray)]

/-- `{"kind":"initconst","inputs":[…],"initializers":[…],"nodes":[labels]}` :
    `CustomInline.initializersToConstants` with `mkConst n = "Constant:" ++ n`. -/
def handleInitConst (req : Json) : Except String Json := do
  let inputs ← req.getObjValAs? (List String) "inputs"
  let inits ← req.getObjValAs? (List String) "initializers"
  let nodes ← req.getObjValAs? (List String) "nodes"
  let g := CustomInline.initializersToConstants (fun n => "Constant:" ++ n)
    { inputs := inputs, initializers := inits, nodes := nodes }
  return Json.mkObj [("nodes", toJson g.nodes), ("initializers", toJson g.initializers)]

def handle (req : Json) : Json :=
  match (do
    let kind ← req.getObjValAs? String "kind"
    match kind with
    | "node" => handleNode req
    | "opsets" => handleOpsets req
    | "infer" => handleInfer req
    | "adapt" => handleAdapt req
    | "results" => handleResults req
    | "initconst" => handleInitConst req
    | "construct" => handleConstruct req
    | _ => throw "unknown kind") with
  | .ok j => j
  | .error e => Json.mkObj [("error", e)]

end Drv.C18
