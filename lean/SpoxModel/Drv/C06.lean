import Lean.Data.Json
import SpoxModel.Model.MLInfer
import SpoxModel.Model.RtShape
import SpoxModel.Model.ScanRun
import SpoxModel.Model.IfInfer
import SpoxModel.Model.ScanState
/-! Line-protocol handler for property C06 (model side of the correspondence).

  {"k":"infer","op":O,"a":_,"b":_,"c":_,"in":[type…]}            → {"ok":[type|null…]} | {"err":E}
  {"k":"loop","A":[…],"R":[…],"S":[…],"pinned":bool}             → same
  {"k":"rt","op":O,"a":_,"b":_,"c":_,"kk":k,"vals":[value…]}     → {"rt":[value…]|null}
  {"k":"if","T":[type…],"E":[type…]}                             → {"ok":[type…]} | {"err":E}   (round 10)
  {"k":"scanstate","S0":type,"R":type}                            → {"ty":type} | {"err":E}     (round 10)
  {"k":"scanguard","body":kind,"state":value,"n":len}            → {"run":{final,outs}|null}
  {"k":"ifrun","c":bool,"vt":[value…],"ve":[value…]}             → {"run":[value…]}
  {"k":"conf","val":value,"ty":type}                              → {"conf":bool}
  {"k":"strip","ty":type,"all":bool}                              → {"ty":type}
-/
namespace Drv.C06
open Lean C06M

def elemOfStr : String → Except String Elem
  | "f32" => pure .f32 | "f64" => pure .f64 | "i32" => pure .i32 | "i64" => pure .i64
  | "bool" => pure .bool | "str" => pure .str
  | s => throw s!"bad elem {s}"

def elemToStr : Elem → String
  | .f32 => "f32" | .f64 => "f64" | .i32 => "i32" | .i64 => "i64" | .bool => "bool" | .str => "str"

def dimOfJson : Json → Except String Dim
  | .null => pure .anon
  | .str s => pure (.named s)
  | j => do let n ← j.getNat?; pure (.const n)

def dimToJson : Dim → Json
  | .const n => toJson n
  | .named s => toJson s
  | .anon => .null

def tyOfJson (j : Json) : Except String ITy :=
  match j with
  | .null => pure none
  | _ => do
    let e ← elemOfStr (← j.getObjValAs? String "e")
    let sj ← j.getObjVal? "s"
    match sj with
    | .null => pure (some ⟨e, none⟩)
    | _ => do
      let arr ← sj.getArr?
      let ds ← arr.toList.mapM dimOfJson
      pure (some ⟨e, some ds⟩)

def tyToJson : ITy → Json
  | none => .null
  | some t => Json.mkObj [("e", elemToStr t.e),
      ("s", match t.s with | none => .null | some ds => Json.arr (ds.map dimToJson).toArray)]

def valOfJson (j : Json) : Except String RtVal := do
  let e ← elemOfStr (← j.getObjValAs? String "e")
  let s ← j.getObjValAs? (List Nat) "s"
  pure ⟨e, s⟩

def valToJson (v : RtVal) : Json := Json.mkObj [("e", elemToStr v.e), ("s", toJson v.s)]

def optNat (j : Json) (k : String) : Option Nat :=
  match j.getObjVal? k with
  | .ok v => (v.getNat?).toOption
  | _ => none

def optInt (j : Json) (k : String) : Option Int :=
  match j.getObjVal? k with
  | .ok v => (v.getInt?).toOption
  | _ => none

def resToJson : Res → Json
  | .ok outs => Json.mkObj [("ok", Json.arr (outs.map tyToJson).toArray)]
  | .err .inference => Json.mkObj [("err", "InferenceError")]
  | .err .typeErr => Json.mkObj [("err", "TypeError")]
  | .err .valueErr => Json.mkObj [("err", "ValueError")]

def tys (req : Json) (k : String) : Except String (List ITy) := do
  let arr ← req.getObjValAs? (Array Json) k
  arr.toList.mapM tyOfJson

def infer (req : Json) : Except String Json := do
  let op ← req.getObjValAs? String "op"
  let ins ← tys req "in"
  let a := optNat req "a"; let b := optNat req "b"; let c := optNat req "c"
  let x := ins.getD 0 none
  let y := ins.getD 1 none
  let r ← match op with
    | "ArrayFeatureExtractor" => pure (inferArrayFeatureExtractor x y)
    | "Binarizer" => pure (inferBinarizer x)
    | "CategoryMapper" => pure (inferCategoryMapper a b x)
    | "Imputer" => pure (inferImputer a b x)
    | "LinearRegressor" => pure (inferLinearRegressor (a.getD 1) x)
    | "Normalizer" => pure (inferNormalizer (a.getD 0 < 3) x)
    | "OneHotEncoder" => pure (inferOneHotEncoder a b x)
    | "Scaler" => pure (inferScaler a b x)
    | "TreeEnsembleClassifier" => pure (inferTreeEnsembleClassifier a b c x)
    | "TreeEnsembleRegressor" => pure (inferTreeEnsembleRegressor a x)
    | "Compress" => pure (if (req.getObjValAs? Bool "vec").toOption.getD false
        then inferCompressFixed (optInt req "a") x y else inferCompress (optInt req "a") x y)
    | o => throw s!"unknown op {o}"
  pure (resToJson r)

def rt (req : Json) : Except String Json := do
  let op ← req.getObjValAs? String "op"
  let arr ← req.getObjValAs? (Array Json) "vals"
  let vs ← arr.toList.mapM valOfJson
  let a := optNat req "a"; let b := optNat req "b"; let c := optNat req "c"
  let x := vs.getD 0 ⟨.f32, []⟩
  let y := vs.getD 1 ⟨.f32, []⟩
  let r ← match op with
    | "ArrayFeatureExtractor" => pure (rtArrayFeatureExtractor x y)
    | "Binarizer" => pure (rtBinarizer x)
    | "CategoryMapper" => pure (rtCategoryMapper x)
    | "Imputer" => pure (rtImputer x)
    | "LinearRegressor" => pure (rtLinearRegressor (a.getD 1) x)
    | "Normalizer" => pure (rtNormalizer x)
    | "OneHotEncoder" => pure (rtOneHotEncoder a b x)
    | "Scaler" => pure (rtScaler x)
    | "TreeEnsembleClassifier" => pure (rtTreeEnsembleClassifier b c x)
    | "TreeEnsembleRegressor" => pure (rtTreeEnsembleRegressor a x)
    | "Compress" => pure (rtCompress (optInt req "a") ((optNat req "kk").getD 0) x)
    | o => throw s!"unknown op {o}"
  pure (Json.mkObj [("rt", match r with | none => .null | some ws => Json.arr (ws.map valToJson).toArray)])

/-- Bodies for the `loopRun` correspondence: `conds[i]` is the condition iteration `i` returns.
    "id": carried values unchanged, scan slice = the carried value;
    "double": first axis doubled (Concat(v, v)), scan slice = a scalar int64. -/
def bodyOf (kind : String) (conds : List Bool) : Body := fun i vs =>
  let c := conds.getD i true
  match kind with
  | "id" => some (c, vs, vs)
  | "double" =>
    some (c, vs.map (fun v => ⟨v.e, match v.s with | n :: r => (2 * n) :: r | [] => []⟩), [⟨.i64, []⟩])
  | _ => none

def looprun (req : Json) : Except String Json := do
  let kind ← req.getObjValAs? String "body"
  let m := (req.getObjValAs? Nat "M").toOption          -- absent / null: trip count omitted
  let c0 := (req.getObjValAs? Bool "c0").toOption       -- absent / null: cond omitted
  let conds ← req.getObjValAs? (List Bool) "conds"
  let arr ← req.getObjValAs? (Array Json) "v0"
  let v0 ← arr.toList.mapM valOfJson
  match loopRunOpt (bodyOf kind conds) m c0 16 v0 with
  | none => pure (Json.mkObj [("run", .null)])
  | some (fin, scs) =>
    let ncols := (scs.head?.map List.length).getD 0
    let scans := (List.range ncols).map (fun j => match stackScan (column scs j) with
      | some w => valToJson w | none => .null)
    pure (Json.mkObj [("run", Json.mkObj [("final", Json.arr (fin.map valToJson).toArray),
      ("iterations", toJson scs.length), ("scans", Json.arr scans.toArray)])])

/-- {"k":"scanrun","inAxes":[…],"outAxes":[…],"states":[value…],"xs":[value…]} — the body returns its
    states unchanged and, as scan rows, every slice followed by one constant `f32[2,7]`. -/
def scanrun (req : Json) : Except String Json := do
  let inAxes ← req.getObjValAs? (List Int) "inAxes"
  let outAxes ← req.getObjValAs? (List Int) "outAxes"
  let sts ← (← req.getObjValAs? (Array Json) "states").toList.mapM valOfJson
  let xs ← (← req.getObjValAs? (Array Json) "xs").toList.mapM valOfJson
  let body : ScanBody := fun _ st sl => some (st, sl ++ [⟨.f32, [2, 7]⟩])
  match scanRun { inAxes := inAxes, outAxes := outAxes } body (xs.length + 1) sts xs with
  | none => pure (Json.mkObj [("run", .null)])
  | some (fin, outs) => pure (Json.mkObj [("run", Json.mkObj [("final", Json.arr (fin.map valToJson).toArray),
      ("outs", Json.arr (outs.map valToJson).toArray)])])

/-- {"k":"scanty","inAxis":a,"outAxis":b,"X":type,"t":type} → the reported scan-output type (`scanOutTy` with
    the length dim of `X` at its scan axis), and spox's prescription for the body's slice argument. -/
def scanty (req : Json) : Except String Json := do
  let ia ← req.getObjValAs? Int "inAxis"
  let oa ← req.getObjValAs? Int "outAxis"
  let X ← tyOfJson (← req.getObjVal? "X")
  let t ← tyOfJson (← req.getObjVal? "t")
  match X, t with
  | some X, some t =>
    let out := match scanSliceTy ia X with
      | some (len, _) => (scanOutTy oa len t).map some
      | none => none
    pure (Json.mkObj [("out", match out with | some ty => tyToJson ty | none => "invalid"),
      ("arg", tyToJson (some (scanSliceTySpox X)))])
  | _, _ => throw "untyped"

def handle (req : Json) : Json :=
  match (do
    let k ← req.getObjValAs? String "k"
    match k with
    | "infer" => infer req
    | "rt" => rt req
    | "looprun" => looprun req
    | "scanrun" => scanrun req
    | "scanty" => scanty req
    | "emptyscan" => do
      let v ← valOfJson (← req.getObjVal? "val")
      let t ← tyOfJson (← req.getObjVal? "ty")
      pure (Json.mkObj [("ok", match t with | some t => emptyScanOk v t | none => true)])
    | "inlinearg" => do
      let a ← tyOfJson (← req.getObjVal? "arg")
      let d ← tyOfJson (← req.getObjVal? "decl")
      pure (Json.mkObj [("accepted", match a, d with | some a, some d => inlineArgAccepted a d | _, _ => true)])
    | "nontensor" => do
      let op ← req.getObjValAs? String "op"
      pure (Json.mkObj [("outcome", match nonTensorOutcome op with
        | some .typeErr => "TypeError" | some .inferenceErr => "InferenceError"
        | some .passThrough => "passThrough" | none => "?")])
    | "scanstate" => do
      let s0 ← tyOfJson (← req.getObjVal? "S0")
      let r ← tyOfJson (← req.getObjVal? "R")
      match s0, r with
      | some s0, some r => pure (match scanStateTy s0 r with
          | some u => Json.mkObj [("ty", tyToJson (some u))]
          | none => Json.mkObj [("err", "InferenceError")])
      | _, _ => pure (Json.mkObj [("err", "TypeError")])
    | "scanguard" => do
      -- one state, one scan input `f32[n,2]`; the body maps the state by `kind` and returns the slice as row
      let kind ← req.getObjValAs? String "body"
      let st ← valOfJson (← req.getObjVal? "state")
      let n ← req.getObjValAs? Nat "n"
      let f : RtVal → RtVal := match kind with
        | "double" => fun v => ⟨v.e, match v.s with | d :: r => (2 * d) :: r | [] => []⟩
        | "head" => fun v => ⟨v.e, match v.s with | d :: r => (min 1 d) :: r | [] => []⟩
        | "flatten" => fun v => ⟨v.e, [numel v.s]⟩
        | _ => fun v => v
      let body : ScanBody := fun _ sts sl => some (sts.map f, sl)
      match scanRun {} (guardBody body) 1 [st] [⟨.f32, [n, 2]⟩] with
      | none => pure (Json.mkObj [("run", .null)])
      | some (fin, outs) => pure (Json.mkObj [("run", Json.mkObj [("final", Json.arr (fin.map valToJson).toArray),
          ("outs", Json.arr (outs.map valToJson).toArray)])])
    | "if" => do
      let T ← tys req "T"; let E ← tys req "E"
      pure (resToJson (inferIf T E))
    | "ifrun" => do
      let c ← req.getObjValAs? Bool "c"
      let vt ← (← req.getObjValAs? (Array Json) "vt").toList.mapM valOfJson
      let ve ← (← req.getObjValAs? (Array Json) "ve").toList.mapM valOfJson
      pure (Json.mkObj [("run", Json.arr ((ifRun c vt ve).map valToJson).toArray)])
    | "loop" => do
      let A ← tys req "A"; let R ← tys req "R"; let S ← tys req "S"
      let pinned := (req.getObjValAs? Bool "pinned").toOption.getD false
      let onnxOnly := (req.getObjValAs? Bool "onnx").toOption.getD false
      pure (resToJson (if pinned then inferLoopPinned A R S else if onnxOnly then inferLoopOnnx A R S
        else inferLoop A R S))
    | "conf" => do
      let v ← valOfJson (← req.getObjVal? "val")
      let t ← tyOfJson (← req.getObjVal? "ty")
      pure (Json.mkObj [("conf", conforms v t)])
    | "strip" => do
      let t ← tyOfJson (← req.getObjVal? "ty")
      let all := (req.getObjValAs? Bool "all").toOption.getD true
      let pred : String → Bool := if all then fun _ => true else fun s => s.startsWith "unk__"
      pure (Json.mkObj [("ty", tyToJson (t.map (stripTy pred)))])
    | _ => throw "unknown k") with
  | .ok j => j
  | .error e => Json.mkObj [("error", e)]

end Drv.C06
